#!/bin/sh
# usage: tools/seedsweep.sh "<seeds>" <ID>...   quick tier of each check under several VERIF_SEED values; evidence goes to a scratch dir
SEEDS=$1; shift
for s in $SEEDS; do for id in "$@"; do
  VERIF_SEED=$s VERIF_EVIDENCE_DIR=/tmp/seedev.$$ VERIF_REPLAY_DIR=/tmp/seedrp.$$ ./check $id 2>&1 | grep -v "^WARNING conda\|^KNOWN-FINDING" | cut -c1-220 | tail -3 | sed "s/^/seed=$s /"
done; done
rm -rf /tmp/seedev.$$
