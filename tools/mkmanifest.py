#!/venv/bin/python
"""regenerates /verif/MANIFEST.json from the table below (keeps it schema-valid at all times)"""
import json, os, sys
V = os.path.dirname(os.path.dirname(os.path.abspath(__file__)))
ALL = ['C%02d' % i for i in range(1, 21)]

# id -> (level, technique, level text, level note, design ref)
CHECKS = {
 'C10': ('model_checking',
         'explicit-state BFS over list histories on the real objects, lock-step with a Python list',
         'Every list operation of the property applied from every reachable state (class x tuple of element tags, '
         'length <= 4 over 3 tags quick / <= 6 over 4 tags thorough) on the real object, compared step by step with a '
         'Python list; every index and all 1 792 slices observed in every state. Futures are determined by .data, so '
         'this covers every operation sequence of any length within the state bound.',
         'Assumes the whole mutable state of a list-capable object is .data (read off smuserlist.py). Values are 4 '
         'distinct elements per class; longer lists than the bound are not explored.',
         'DESIGN.md 2.3, 3/C10'),
}
CHECKS['C02'] = ('model_checking',
         'exhaustive generator triples + expression trees + BFS over the group-element value graph on the real operators',
         'All ordered triples of a generator set per class (rotations at 0/pi ladders, translations 1e-6..1e6), all '
         'exponents -8..8, all expression trees of depth <= 2 (thorough 3) over {*,/,inv,**}, and a breadth-first '
         'exploration of the value graph with the laws re-checked at every new state; products also compared with the '
         'reference matrix / Hamilton product.',
         'Bounded: claims cover the enumerated generators and depths only. Twist classes define no / or **, which '
         'are therefore not demanded for them. Reference: numpy matrix product/inverse, 50-digit exponential for twists.',
         'DESIGN.md 2.4, 3/C02')
CHECKS['C03'] = ('exploration',
         'exhaustive product over landmark ladders (theta x axis x translation part x form x twist flag x entry point) against a 50-digit reference exponential',
         'Every algebra element of the product alphabet (rotation magnitudes 0, 1e-12..1e-1, generic, pi-1e-1..pi-1e-12, pi; '
         'coordinate/generic/near-degenerate axes; translation parts 0 and 1e-6..1e6 parallel/perpendicular/generic) is '
         'pushed through trexp/trexp2/trlog/trlog2 and every class wrapper; exp is compared with a 50-digit exponential, '
         'and the returned log is re-exponentiated by the reference.',
         'Bounded to the enumerated letters (values between the ladder rungs are not visited). Trusted: mpmath at 50 digits, '
         'closed-form reference exponential self-tested against mpmath.expm.',
         'DESIGN.md 3/C03')
CHECKS['C01'] = ('model_checking',
         'exhaustive constructor products + BFS over the group-element value graph with the membership invariant in every state',
         'Every constructor entry point of the base package and of SO2/SE2/SO3/SE3/UnitQuaternion over the full product of '
         'its argument alphabets (angle ladders at 0, +-pi/2, +-pi, 2pi, many turns, both units, all orders and aliases, '
         'axes x lengths 1e-3..1e6, OA pairs, vector angles, RNG seeds), and a breadth-first exploration from a generator set '
         'under *, /, inv, **n (|n|<=8), prod, interp with the validity invariant (1e-9) evaluated on every reached value.',
         'Bounded to the enumerated letters and BFS depth 2 (quick: 12 roots x 6 composition letters; thorough: ~100 roots x 16). OA pairs closer than 1e-3 rad are outside (numerically parallel).',
         'DESIGN.md 3/C01')
CHECKS['C04'] = ('model_checking',
         'lock-step BFS over product states (reference matrix + one object per representation), plus exhaustive shared-constructor products',
         'A product state holds the reference matrix and the same motion as SO3, SE3, UnitQuaternion, Twist3 and '
         'UnitDualQuaternion (2-D: SO2, SE2, Twist2); every transition (compose with a generator on either side, invert) is '
         'taken by each representation with its own operator and all conversions back to a matrix, pairwise conversions, round '
         'trips, q == -q and the embeddings are compared with the reference in every state. All shared named constructors '
         '(Rx Ry Rz RPY Eul AngVec EulerVec OA Exp) are compared across classes over their full argument products.',
         'Bounded: ~10 root motions x 6 composition letters, depth 2 (thorough: ~100 roots x 10 letters, depth 3). UnitDualQuaternion has no inverse; it is re-embedded after inv.',
         'DESIGN.md 3/C04')
CHECKS['C05'] = ('exploration',
         'exhaustive product over angle-triple ladders x orders x flip x units x input forms x entry points, rebuilt by a harness constructor',
         'All roll/pitch/yaw and Euler triples of the alphabets (pitch ladders on +-pi/2, Euler middle-angle ladders on 0 and +-pi, '
         'offsets 1e-12..1e-1), all six RPY order names, flip, both units, 3x3 and 4x4 inputs, base functions and SO3/SE3/'
         'UnitQuaternion/SE2/SO2 accessors; axis-angle over theta ladder x axes; planar over theta ladder x translations. '
         'Rotations are built and rebuilt by the harness from the documented axis orders.',
         'Bounded to the enumerated letters. The line monitor shows all four argmax arms and both singular arms of every tr2rpy order are reached.',
         'DESIGN.md 3/C05')
CHECKS['C06'] = ('exploration',
         'exhaustive product pose x point x argument form x route against R p + t',
         'Every generator pose of SO2/SE2/SO3/SE3 x every point of the magnitude alphabet (1e-6..1e6, mixed) x every argument form '
         '(list, tuple, 1-D, row, column, d x N for N = 1..7) x every route (pose object, unit quaternion, unit dual quaternion, '
         'homtrans, h2e/e2h, qvmul); poses holding 1..5 distinct values x one point; (XY)p = X(Yp) and X^-1(Xp) = p on all generator pairs.',
         'Bounded to the enumerated poses and points. Reference R p + t in float64 (data spans <= 1e12).',
         'DESIGN.md 3/C06')
CHECKS['C20'] = ('exploration',
         'exhaustive class-pair/length products + complete integer basis grids (exact float arithmetic) + magnitude ladders',
         'All ordered pairs of the four spatial-vector classes x + - neg x lengths; cross-product matrices, duality and inertia '
         'identities decided on complete small-integer grids (multilinear identities: {0,1}^n grids and their dilations by 2 and 3, '
         'exact equality) and re-checked to 1e-9 on magnitudes 1e-6..1e6; SE3 premultiplication over exact signed-permutation poses '
         'and the generator product; single- and multi-valued operands.',
         'Polynomial-identity completeness assumes the per-variable degree bound read off the code (tested by the dilated grids and a '
         'branch-freeness monitor). Multi-valued SpatialInertia / multi-valued SE3 left operands are outside the statement.',
         'DESIGN.md 2.3, 3/C20')
CHECKS['C07'] = ('exploration',
         'exhaustive product class x member x defect x magnitude x container form, with a harness-computed distance from the group',
         'Every generator member of SO2/SE2/SO3/SE3 (and rotation inputs of UnitQuaternion, algebra matrices of Twist2/Twist3) x every '
         'defect kind (single entry, scaling, noise, reflections, negation, last-row corruption; symmetric part / diagonal / last row for '
         'twists) x magnitude 10^k, k = -12..0 x seven container forms x sub/super-class objects; membership predicates on all of '
         'these and on every primitive-constructor output; unit / zero / skew predicates against their definitions outside the 1e-6 band.',
         'Rejection is demanded only for distance > 1e-6 (polar decomposition distance, infinite for det < 0). Non-finite inputs are outside the quantifier.',
         'DESIGN.md 3/C07')
CHECKS['C08'] = ('exploration',
         'exhaustive pair table: every ordered pair of ~47 operand letters x 10 operators against the documented operator table',
         'All ordered pairs of the 16 public classes (single- and 3-valued), int/float/np.float64 scalars, conforming and non-conforming '
         'arrays and lists, under * / + - ** @ == != ^ |, applied through the operator module so reflected methods take part; each cell is '
         'judged by the transcribed documentation table (must-return class + value, may-return class, must-raise).',
         'The oracle table (DESIGN.md appendix A) is a hand transcription of README / intro.rst / operator docstrings; cells the property leaves '
         'open are only recorded. One value letter per class and length.',
         'DESIGN.md 3/C08, appendix A')
CHECKS['C09'] = ('exploration',
         'exhaustive product class x operator x length pair (m,n) in {1..5}^2, differential against the single-valued operation',
         'For the eight list-capable classes every operator the class defines among * / + - == != **, pose x point and every per-value accessor the '
         'statement lists is applied to operands of every length pair in {1..5}^2 built from pairwise distinct values; element i of the result is '
         'compared with the single-valued operation on the i-th elements, and unequal lengths > 1 must raise ValueError.',
         'Differential oracle (library against library): a defect common to the single- and multi-valued paths is the business of C02/C05/C06. '
         'Layout of array-valued results (rows or columns) is accepted either way.',
         'DESIGN.md 3/C09')
CHECKS['C11'] = ('exploration',
         'exhaustive product start x relative rotation ladder x axis x translation pair x s ladder x entry point x shortest, against a reference geodesic',
         'Every pose pair of the alphabet (relative rotation 1e-12..1e-1, generic, pi-1e-1..pi-1e-6 about four axes, from three start poses; '
         'translation pairs up to 1e6) through trinterp, trinterp2, slerp, SO2/SE2/SO3/SE3.interp and UnitQuaternion.interp at every s of the '
         'ladders on 0 and 1, with s slightly outside [0,1], scalar and vector s, shortest on/off: end points, validity, linear translation and '
         'one fixed arc R0 exp(s phi [u]) for all s.',
         'Bounded to the enumerated pairs and s values. Without shortest either arc is accepted (consistently over s).',
         'DESIGN.md 3/C11')
CHECKS['C12'] = ('exploration',
         'complete small-integer grids with exact comparison (polynomial identities decided for all reals) + magnitude ladders + structure-constant check of the dual-quaternion product',
         'Associativity, distributivity, conjugate reversal, q conj(q), norm multiplicativity (squared), powers |n|<=6, matrix form, inner product '
         'and the kinematic rate functions are executed on the complete grids {0,1}^12, {0,1,2}^8, {0..6}^4, {0,1,2}^7 and their dilations by 2 and 3 '
         'with exact equality (multilinear / bounded-degree polynomial identities vanish identically if they vanish there), then re-checked to 1e-9 on '
         'magnitudes 1e-6..1e6; the dual-quaternion product and 8x8 matrix form on {0,1}^16 and two dilated grids against the dual-number Hamilton table; '
         'exp/log, the 3-vector product and the unit-dual-quaternion norm over product alphabets.',
         'Completeness rests on the per-variable degree bounds read off the code (sums and products only), tested by the dilated grids. Small-integer '
         'float64 arithmetic is exact.',
         'DESIGN.md 2.3, 3/C12')
CHECKS['C13'] = ('exploration',
         'integer grids with exact comparison for the linear maps + exhaustive products over rigid motions, twists and differential motions',
         'skew/vex, skewa/vexa (so(2), so(3), se(2), se(3)), skew(a) b = a x b, cross, norm, normsq, colvec on integer grids and their dilations (exact); '
         'Ad homomorphism / inverse / Ad(T) S = vee(T [S] T^-1) over all pairs of the SE(3) generator set with |t| <= 1e3 and a twist alphabet; '
         'exp(ad S) = Ad(exp S) against a 50-digit 6x6 exponential; tr2jac, SE3.jacob, Twist3.ad/Ad; tr2delta/delta2tr round trip, two-argument form '
         'and first-order agreement with the logarithm for |d| = 1e-9..1e-2.',
         'Bounded to the enumerated motions/twists; linear identities complete by linearity on basis grids.',
         'DESIGN.md 3/C13')
CHECKS['C14'] = ('exploration',
         'exhaustive product member x noise magnitude x noise pattern; direction x norm ladder x rotational-part ladder; angle letters and pairs',
         'trnorm / trnorm2 / pose norm() on every generator member perturbed by four noise patterns at 1e-15..1e-2: validity, idempotence, fixed points, '
         'kept translation, approach axis and plane of the second axis; unitvec, quaternion unit and the UnitQuaternion constructors, unittwist(_norm), '
         'unittwist2(_norm), Twist3.unit, Twist2.unit over norms 1e-6..1e6 with the rotational part at 0 and on either side of the zero threshold; angdiff '
         'over multiples of pi/2 +- ladders, +-1e3, generic angles, scalar and array forms.',
         'Bounded to the enumerated letters. One recorded finding (non-idempotent unit twist across the absolute zero threshold) is listed in known_findings.txt.',
         'DESIGN.md 3/C14')
CHECKS['C15'] = ('exploration',
         'table-driven exhaustive product: callable x vector parameter x container form x length 0..8 x element type; units x angle ladder; order names',
         'A signature table of 110 public base functions / class constructors / methods marks vector parameters and their accepted lengths. Each '
         'vector parameter is supplied as list, tuple, 1-D, row and column array (classes: list, tuple, 1-D), with float and integer elements, and in '
         'every wrong length 0..8; packed versus separate-scalar call forms; 70 angle-accepting entry points with unit=deg vs rad over the angle ladder '
         'and with unknown units; angle-returning entry points in both units; every order name, alias and nine misspellings.',
         'The table is a hand transcription of the docstring annotations (public base names not in it are listed under notes.unclassified in the evidence: '
         'they take matrices only). Predicates answer wrong lengths with a bool; an empty list handed to a list-capable class is an empty object (C10).',
         'DESIGN.md 3/C15')
CHECKS['C17'] = ('model_checking',
         'call-history exploration (depth 1, all type-compatible pairs, all independent pairs) with byte snapshots of every live value',
         '1 630 call descriptors (every base function of the signature table and the matrix functions, and by reflection every public property, nullary '
         'method, selected methods, binary / augmented operator, list mutator and constructor of every class, single- and multi-valued). Depth 1: each '
         'descriptor x each container form, executed twice (determinism). Depth 2: every ordered pair in which the first result fits an argument of the '
         'second, and every ordered pair without data flow (catches shared scratch buffers); thorough adds a thinned depth 3. After every step the byte '
         'snapshots of all arguments, receivers and earlier results must be unchanged (documented mutators: receiver excepted).',
         'Snapshots see ndarray bytes, lists/tuples and the instance __dict__ of library objects; one value letter per kind. Random constructors are only '
         'checked for not modifying anything.',
         'DESIGN.md 3/C17')
CHECKS['C16'] = ('exploration',
         'exhaustive product callable x call form x subset of symbolic arguments x substitution point, symbolic result substituted and compared with the numeric call',
         'All 48 callables tagged SymPy-supported (found by reflection) plus the sym wrappers and the pose operators *, inv, pose x point: 309 call '
         'forms (thorough 368) x every non-empty subset of argument slots made symbolic (declared family above 4 slots in the quick tier) x the full '
         'product of angle and magnitude letters; each entry of the symbolic result is evaluated at 30 digits after substitution and compared to 1e-12, '
         'and entries that are structurally 0 or 1 in the numeric result must be exact numbers.',
         'Numeric call forms that raise are skipped (listed in the evidence). The structural mask is derived from the numeric result.',
         'DESIGN.md 3/C16')
CHECKS['C18'] = ('exploration',
         'exhaustive product axis direction x length x axis point x theta x unit x entry point against the reference screw motion',
         'Revolute and prismatic unit twists in 3-D and 2-D over all axis directions (lengths 1e-3..1e6), axis points up to 1e3, theta over multiples of '
         'pi/2 and generic values in [-2pi, 2pi], scalar and vector theta, both units: exp(theta S) against [R(theta, a), (I-R) q; 0 1] (50-digit where '
         'conditioning needs it), fixed points of the axis, pitch, pole, line of action (incidence computed by the harness), theta(), isprismatic / '
         'isrevolute, se(n) matrix form, inverse and scalar multiples.',
         'Bounded to the enumerated letters; tolerance 1e-9 * max(1, |q|, |lambda|) (the statement names none).',
         'DESIGN.md 3/C18')
CHECKS['C19'] = ('exploration',
         'exhaustive product of line constructions x relative positions with ground truth from the defining data',
         'Lines from two points, point + direction and two planes over points / directions / magnitudes 1e-3..1e3; single-line family (constraint, pp, '
         'ppd, contains, point, closest, SE3 * line over the SE(3) generator set, intersect_plane) and pair family (skew, intersecting, parallel, '
         'coincident second lines built in known relative position; ==, !=, |, isparallel, ^, distance, commonperp in both operand orders) and planes '
         '(PN, P3, contains); every value is compared with elementary geometry of the defining data to 1e-9 relative to the data magnitude.',
         'Predicates are judged only where the relation is exact by construction or separated by >= 1e-3 relative. Multi-valued Plucker objects and '
         'intersect_volume are outside the statement.',
         'DESIGN.md 3/C19')
PENDING = {}

# dimensions added after the seeded-change rounds (DESIGN.md sections 6 and 7): appended to the coverage text of each check
EXTRA = {
 'C10': ' One of the element tags of the pose classes is a drifted member (as ~30 compositions produce it, outside the constructors\' 100 eps band): indexing, slicing, iteration and pop must hand it on. Interleaved iterators (sequences up to 5 over next / append / pop / insert / del / reverse); extend with a foreign Empty(). Histories that span classes (class-level state), each run in a forked child of a pristine interpreter (mc/crossproc.py): 1088 histories, differential oracle. insert / pop / del / set with NumPy-integer indices; extend by a list / generator whose last item is unacceptable. Alias histories on one persistent object (21 operations, every sequence of 3, 3 start states): the object, everything handed out and the stored value objects against a list of immutable tags. 125 slice deletions in the BFS alphabet.',
 'C01': ' Also: 2-D normalisation over noise patterns; chains of 1000 operations (binary, in-place, inverse, prod, interp) with the invariant at 10/100/1000 steps. Angles as NumPy scalars of other widths / Python int; start poses just short of a half turn for interpolation. Refuse-or-valid cases (non-unit twist with theta, rotation classes built from objects of other classes); angle letters of 1000 turns; OA pairs within 1e-9 of parallel are outside the quantifier, 1e-7 inside. N x 3 tables of angles (array, list of rows) for RPY / Eul of SO3 / SE3. E5 shards: every ordered pair of the menu steps of mc/histmenu.py from a pristine process state (forked children), differential against the step run alone. Elements taken out by NumPy-integer indices, slices and iteration, then composed. Nearly valid arrays (one entry off by 4e-6 .. 5e-9) through the checking constructors and composed; integer-typed poses as interpolation ends.',
 'C02': ' Also: there-and-back chains of 10/100/1000 steps; a non-member result met by the BFS is reported and not expanded. The drifted intermediate of every chain is inverted and divided; nested powers inverted. Exact half turns as quaternion letters; M x 1 / 1 x M pairings. Thorough tier: z letters of generator sets above 40 restricted to the landmark subset, third BFS level from 1/8 of the states. E5 shards: every ordered pair of the menu steps of mc/histmenu.py from a pristine process state (forked children), differential against the step run alone. Freed memory is poisoned with NaN before every library call (uninitialised results show). Sequence laws on operands of 31 .. 64 values.',
 'C03': ' Also: integer / single-precision group and algebra elements (all 4 + 24 integer rotations), clockwise 2-D unit twists, and every class conversion on objects with a history (mc/hist.py). Sequences of values of mixed kinds (identity, translation, rotations, half turn) in every order of 2 and 3. Screw unit twists; mixed-kind rotation-only sequences incl. half turns; check=False spellings of Exp. E5 shards: every ordered pair of the menu steps of mc/histmenu.py from a pristine process state (forked children), differential against the step run alone. Conversions on objects whose every argument-free reader has been called first. Class exponentials on mixed-kind sequences as tables / lists of vectors / lists of matrices.',
 'C04': ' Also: power moves **-2..3 in the lock-step graph, -q up to one rounding error compares equal, log/exp of both quaternion signs, SE3.Rx(t=)/Tx/Ty/Tz values, and every root state held by objects with a history. prod() of N = 1..9 values in every representation; product states drifted by 27 / 81 compositions (members to 1e-14) through all conversions. Drifted states (nested cubes), Twist x pose mixed products at every multiplication transition, conjugate of unit dual quaternions as inverse. Every conversion applied to whole multi-valued objects (N = 2..9): refuse loudly or one reference-equal result per value. E5 shards: every ordered pair of the menu steps of mc/histmenu.py from a pristine process state (forked children), differential against the step run alone. Logarithms of every lock-step state as the operations left it. Constructor angles between the landmark neighbours (3e-6 .. 1e-4, pi - 1e-5). Shard midrange: Vec3 round trip for angles 0.05 .. 2 rad; compositions of small non-commuting twists.',
 'C05': ' Also: integer / single-precision rotation matrices (complete over the 24 + 4 integer rotations) and extraction from objects with a history. Class angle-axis constructors over all axis lengths in both units. rpy() / eul() of N-valued objects: triple j rebuilds value j. E5 shards: every ordered pair of the menu steps of mc/histmenu.py from a pristine process state (forked children), differential against the step run alone. Planar accessors on multi-valued objects, both units.',
 'C06': ' Also: the rotation held as -q, binary and in-place operators in every length pairing before the point, multi-valued poses with a history. Tolerance is relative to the data magnitude with no unit floor (data down to 1e-6). Routes through the library\'s own matrix -> quaternion / dual quaternion conversions; one general-position rotation per arm of that conversion. E5 shards: every ordered pair of the menu steps of mc/histmenu.py from a pristine process state (forked children), differential against the step run alone. A series of temporaries (pose objects created, used once, dropped). Ladders the landmarks skip: rotation angles 1e-6 .. 0.1 through the library conversions; quaternions unit only to 2 .. 7 decimals. List-of-pose-objects constructor form.',
 'C07': ' Also: argument arrays with a history (accepted unchecked before, changed in place after acceptance, accepted by another class). Nested list / tuple containers (invalid direction only); class isvalid predicates with the check argument omitted / keyword / positional. E5 shards: every ordered pair of the menu steps of mc/histmenu.py from a pristine process state (forked children), differential against the step run alone. The raw non-member as an operand of * / @ + - on either side of a pose. Complete Rodrigues grid near a half turn (angles 2.50..3.50 x integer axes -2..2); named constructors outside their domain. Every bottom-row and a diagonal entry of augmented skew matrices.',
 'C08': ' Also: the same object on both sides of every operator. Scalar letters 0, 1, 0.0, False, np.int64(0), np.float64(0). Operands whose value is special while the class is general (unit-norm plain quaternions / dual quaternions, identity poses, zero twist). Plain arrays whose values are group members. One-element arrays and lists.',
 'C09': ' Also: every other per-value method, property and conversion (refuse loudly or return M per-value results), unary minus, the same object on both sides, nearly equal elements under == / !=, elements of mixed kinds, and every accessor on objects with a history. Poses of mixed kinds x point. Column / row point forms, mixed-kind poses x point, M poses x n points of other length must raise. E5 shards: every ordered pair of the menu steps of mc/histmenu.py from a pristine process state (forked children), differential against the step run alone. Values held in integer arrays, all classes. Vector-s interpolation of quaternions 0.01 .. 0.1 rad apart against scalar calls at 1e-12; vectors of joint values against scalar calls; twist predicates strict. Several poses interpolated from an explicit start pose (more than half a turn apart).',
 'C11': ' Also: integer-dtype poses against their float copies. The shorter-arc request spelt as NumPy boolean and 1; start poses just short of a half turn. Vector s ascending / unsorted / descending, 2-D vector s with and without start. E5 shards: every ordered pair of the menu steps of mc/histmenu.py from a pristine process state (forked children), differential against the step run alone. Short moves far from the origin (1e6 + 5, 1e3 + 2e-3). Relative angles 0.03, 0.07, 0.085.',
 'C12': ' exp(log(q)) = q to 1e-6 relative to |q| for vector parts of norm 1e-9 .. 1e6 beside scalar parts of every order. Also: the identities on multi-valued operands (1xN, Nx1, NxN), UnitQuaternion receivers of exp/log, mixed-class dual quaternion products. Operands as single / half precision and integer arrays and lists of NumPy scalars; conjugate of unit dual quaternions. E5 shards: every ordered pair of the menu steps of mc/histmenu.py from a pristine process state (forked children), differential against the step run alone. All exponents -8..8; complete grid of unit quaternions with integer components 0..3 under +-4..6; UnitQuaternion sums across hemispheres. 8 x 8 matrix identity of dual quaternions with SymPy symbols in either part.',
 'C13': ' Also: container forms and the check option of the vector / vex helpers, multi-valued ad(), Ad / jacob / ad on objects with a history. The linear identities with fully and partly symbolic vectors. Exponential spellings incl. many-turn S.exp(theta); Ad(S*T). E5 shards: every ordered pair of the menu steps of mc/histmenu.py from a pristine process state (forked children), differential against the step run alone. unitvec / unitvec_norm / isunitvec / iszerovec over magnitudes 1e-12 .. 1e6. Class-level vee of conjugated se(3) matrices. Twists whose 6-vector has Euclidean norm 1; near-prismatic twists.',
 'C14': ' Also: whole-matrix noise (bottom row included), the N x 4 and check=False forms of the normalising constructor, container forms of angdiff. Values as single / half precision and integer arrays; clockwise planar twists. Clockwise unit twists about -e3. E5 shards: every ordered pair of the menu steps of mc/histmenu.py from a pristine process state (forked children), differential against the step run alone. unit() on UnitQuaternion objects built with norm=False. N x 4 tables mixing unit and non-unit rows. Unit twist = twist / magnitude at the scale of the result.',
 'C15': ' Also: the unit of every angle accessor on multi-valued objects; Python int / NumPy integer / single-precision scalar angles. Positional unit arguments, multi twist x theta of other length must raise, two-argument trexp / trexp2 forms; defaults when omitted are reported as notes only. E5 shards: every ordered pair of the menu steps of mc/histmenu.py from a pristine process state (forked children), differential against the step run alone. Container forms at every accepted length; the scalar values implementations shortcut (s = 0 / 1, exponent 0 / +-1, angle 0). Both vector arguments of the wrong length with the right total. Units of one-value-per-twist theta vectors on multi-valued twists.',
 'C16': ' Also: simplify() preserves the value (all four classes, products, sequences, numeric poses). Symbolic pose / pose. Negative single-component vector letters. 4 x 4 determinants of plain symbols (fully and partly symbolic); N x 3 angle tables in degrees. E5 shards: every ordered pair of the menu steps of mc/histmenu.py from a pristine process state (forked children), differential against the step run alone. Symbolic scalar operands of pose * / + - scalar.',
 'C17': ' Also: printing / formatting calls, matrices carrying rounding residues, line-pair descriptors, interpreter-wide state (NumPy print options, error state, global RNG) as an invariant of every non-random call, and the answer of every descriptor before and after every other call. Angles held in 0-d and 1-D arrays; the N x 4 constructor argument. Plucker pair descriptors, array-held angle descriptors, base2 history-independence. Every matrix-argument base function, the block-of-points methods and the operators once more with column-major arguments. E5 shards: every ordered pair of the menu steps of mc/histmenu.py from a pristine process state (forked children), differential against the step run alone. Printing calls with fmt / degsym variants (written text observed); arrays on the left of the binary operators. Symbolic poses (simplify, inverse, product, element access). Quaternions with a vector part of round-off size.',
 'C19': ' Also: 3 x N contains() with distinct columns, and the whole single-line family on lines with a history. Defining points as single / half precision and integer arrays. Positional closest() result order, query points as column / row / list / tuple, Plane object mixed with coefficient vectors. E5 shards: every ordered pair of the menu steps of mc/histmenu.py from a pristine process state (forked children), differential against the step run alone. Triangles of edge 1e-2 .. 30 at coordinates around 900. Skew lines 1e-3 .. 1e-6 rad from parallel; query points 1e-8 .. 1e-3 off a line far along it. Lines 3e-8 .. 1e-4 rad apart are not parallel.',
 'C20': ' Also: augmented assignments in the reject matrix, pose x spatial vector with poses that have a history. The reflected inertia products. Copies then mutate (copy ctor, copy, deepcopy, pickle): the original keeps its value. E5 shards: every ordered pair of the menu steps of mc/histmenu.py from a pristine process state (forked children), differential against the step run alone. Objects built from a caller-owned buffer that is refilled afterwards; sums of objects with 255 .. 300 values.',
 'C18': ' Axis lengths 1+4e-6, 1-1e-5, 1+1e-9. E5 shards: every ordered pair of the menu steps of mc/histmenu.py from a pristine process state (forked children), differential against the step run alone. Theta vectors of exactly 2, 3, 4, 6, 7 values; isprismatic asked again after twists of other kinds were built. Scale factors a hair off 1; a typed, nearly equally spaced table of joint values.',
}
for _k, _v in EXTRA.items():
    if _k in CHECKS:
        _c = list(CHECKS[_k])
        _c[2] = _c[2] + _v
        CHECKS[_k] = tuple(_c)

def main():
    checks = []
    for pid in ALL:
        if pid not in CHECKS:
            continue
        level, tech, text, note, ref = CHECKS[pid]
        checks.append({
            'property_id': pid,
            'quick_cmd': './check %s --tier quick' % pid,
            'thorough_cmd': './check %s --tier thorough' % pid,
            'evidence_file': '/verif/evidence/%s.json' % pid,
            'replay_cmd_template': './check %s --replay {path}' % pid,
            'engine': 'mc',
            'level_claimed': {'category': level, 'text': text, 'design_ref': ref},
            'level_note': note,
            'technique': tech,
        })
    na = [{'property_id': p, 'reason': PENDING.get(p, 'not claimed yet: its exhaustive check (DESIGN.md section 3) is not built; nothing is asserted about it')}
          for p in ALL if p not in CHECKS]
    m = {
        'version': 1,
        'setup_cmd': '/venv/bin/python -c "import numpy, scipy, mpmath, sympy" && chmod +x /verif/check',
        'hooks': {
            'guard': 'SPATIALMATH_VERIF',
            'enable': 'none needed: checks import spatialmath from /repo as it is (no instrumentation hooks exist)',
            'baseline_off_cmd': 'cd /repo && /venv/bin/python -m pytest -ra -q -p no:cacheprovider --timeout=900 --continue-on-collection-errors',
            'source_commits': [],
            'add_only': True,
        },
        'engines': [{'name': 'mc', 'path': '/verif/mc', 'serves_properties': sorted(CHECKS),
                     'kind_free_text': 'hand-written explicit-state / exhaustive-product explorer driving the real '
                                       'library (Python, 16-process fork pool); reference models in mc/ref.py'}],
        'checks': checks,
        'not_applicable': na,
        'notes': 'Defects repaired in /repo are separate "fix:" commits listed in /verif/known_findings.txt; '
                 'findings recorded but not repaired are "known:" lines there. VERIF_REPO=<tree> points the checks at a scratch tree.',
    }
    with open(os.path.join(V, 'MANIFEST.json'), 'w') as f:
        json.dump(m, f, indent=1)
    print('MANIFEST.json: %d checks, %d not_applicable' % (len(checks), len(na)))

if __name__ == '__main__':
    main()
