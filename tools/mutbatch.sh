#!/bin/sh
# usage: tools/mutbatch.sh <outdir> [names...]   run each <outdir>/<ID>-<k>/patch.diff against the quick check of its own property
D=$1; shift
NAMES=${*:-$(ls $D | grep -E '^C[0-9]+-[0-9]+$')}
for m in $NAMES; do
  id=${m%%-*}
  [ -f $D/$m/patch.diff ] || continue
  out=$(LINES_=3 tools/trymutant.sh $D/$m/patch.diff $id 2>&1 | grep -v "^KNOWN")
  if echo "$out" | grep -q "^VIOLATION"; then echo "$m DETECTED $(echo "$out" | grep -m1 '^VIOLATION' | sed 's/replay=[^ ]* //' | cut -c1-170)";
  elif echo "$out" | grep -q "HARNESS-ERROR\|PATCH-DOES-NOT-APPLY"; then echo "$m ERROR $(echo "$out" | grep -m1 'HARNESS-ERROR\|PATCH' | cut -c1-200)";
  else echo "$m MISSED"; fi
done
