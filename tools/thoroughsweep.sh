#!/bin/sh
# usage: tools/thoroughsweep.sh <ID>...  thorough tier of each check, sequentially; evidence to a scratch dir
for id in "$@"; do
  VERIF_EVIDENCE_DIR=/tmp/thev.$$ VERIF_REPLAY_DIR=/tmp/thrp.$$ ./check $id --tier thorough --no-confirm 2>&1 | grep -v "^WARNING conda\|^KNOWN-FINDING" | cut -c1-300 | tail -4
done
