#!/bin/sh
# usage: tools/reseed.sh [names...]   re-run every kept seeded change (seeded/<name>/patch.diff) against the CURRENT checks and the
# current /repo HEAD (3-way apply if the tree moved on); prints one line per change: DETECTED / MISSED / NOAPPLY
cd "$(dirname "$0")/.." && V=$(pwd)
NAMES=${*:-$(ls seeded)}
for m in $NAMES; do
  [ -f seeded/$m/patch.diff ] || continue
  ids=$(/venv/bin/python -c "import json;print(' '.join(json.load(open('seeded/$m/meta.json'))['checks_run']))")
  W=/tmp/reseedwt.$$
  git -C /repo worktree add -q --detach $W HEAD || exit 2
  PF=$V/seeded/$m/patch.diff; [ -f $V/seeded/$m/patch_head.diff ] && PF=$V/seeded/$m/patch_head.diff   # re-based copy where a later fix touched the same lines
  if ! git -C $W apply $PF 2>/dev/null && ! git -C $W apply --3way $PF 2>/dev/null; then
    echo "$m NOAPPLY"; git -C /repo worktree remove --force $W; continue
  fi
  res=MISSED
  for id in $ids; do
    out=$(VERIF_REPO=$W VERIF_EVIDENCE_DIR=/tmp/reseedev.$$ VERIF_REPLAY_DIR=/tmp/reseedev.$$ ./check $id --no-confirm 2>&1)
    if echo "$out" | grep -q "^VIOLATION"; then res="DETECTED($id)"; break; fi
    if echo "$out" | grep -q "HARNESS-ERROR"; then res="HARNESS-ERROR($id)"; fi
  done
  echo "$m $res"
  git -C /repo worktree remove --force $W; rm -rf /tmp/reseedev.$$
done
