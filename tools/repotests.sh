#!/bin/sh
# run the repository's own suite (BASELINE.json command) on a tree, without the two always-failing
# tests that only burn their 900 s timeout (DESIGN 2.11).  usage: tools/repotests.sh [tree]  -> prints summary
T=${1:-/repo}
cd "$T" || exit 2
PYTHONDONTWRITEBYTECODE=1 MPLBACKEND=Agg /venv/bin/python -m pytest -q -p no:cacheprovider --timeout=900 \
  --continue-on-collection-errors -n 16 \
  --deselect tests/base/test_transforms3d.py::Test3D::test_plot \
  --deselect tests/test_pose2d.py::TestSE2::test_graphics \
  --junitxml=/tmp/repotests.$$.xml 2>&1 | tail -15
/venv/bin/python - "$T" /tmp/repotests.$$.xml <<'P'
import sys, json, xml.etree.ElementTree as ET
base = json.load(open('/root/.vp/BASELINE.json'))
stable = set(base['stable_pass'])
ok = set()
for tc in ET.parse(sys.argv[2]).getroot().iter('testcase'):
    name = '%s::%s' % (tc.get('classname'), tc.get('name'))
    if not any(ch.tag in ('failure', 'error', 'skipped') for ch in tc):
        ok.add(name)
missing = sorted(stable - ok)
print('BASELINE stable=%d passed_of_stable=%d missing=%s' % (len(stable), len(stable & ok), missing[:10]))
sys.exit(1 if missing else 0)
P
rc=$?
rm -f /tmp/repotests.$$.xml
exit $rc
