#!/bin/sh
# usage: tools/reseed_par.sh <N> [names...]   tools/reseed.sh over N interleaved groups of the kept changes, concurrently; output in name order
cd "$(dirname "$0")/.." && V=$(pwd)
N=$1; shift
NAMES=${*:-$(ls seeded)}
T=$(mktemp -d)
i=0
for m in $NAMES; do echo $m >> $T/g$((i % N)); i=$((i + 1)); done
for g in $T/g*; do
  ( sleep $(( $(basename $g | tr -d g) * 2 )); tools/reseed.sh $(cat $g) > $g.out 2>&1 ) &
done
wait
cat $T/g*.out | sort
rm -rf $T
