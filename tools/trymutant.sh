#!/bin/sh
# usage: tools/trymutant.sh <patch.diff> <ID> [<ID> ...]   -- applies the patch to a scratch worktree of /repo HEAD,
# runs the quick checks against it (VERIF_REPO), prints their VIOLATION lines / summary, removes the worktree.
P=$1; shift
W=/tmp/mutwt.$$
git -C /repo worktree add -q --detach $W HEAD || exit 2
if ! git -C $W apply "$P"; then echo "PATCH-DOES-NOT-APPLY"; git -C /repo worktree remove --force $W; exit 3; fi
for id in "$@"; do
  VERIF_REPO=$W VERIF_EVIDENCE_DIR=/tmp/mutev.$$ VERIF_REPLAY_DIR=/tmp/mutrp.$$ /verif/check $id ${TIER:+--tier $TIER} 2>&1 | grep -v "^WARNING conda" | cut -c1-300 | tail -${LINES_:-6}
  echo "== $id exit=$?"
done
git -C /repo worktree remove --force $W; rm -rf /tmp/mutev.$$ /tmp/mutrp.$$
