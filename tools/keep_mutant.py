#!/venv/bin/python
"""
Confirm a seeded change and file it under /verif/seeded/<name>/.

usage: tools/keep_mutant.py <dir with patch.diff demo.py notes.md> <name> <property> <check id> [<check id> ...]

In a scratch worktree of /repo's HEAD (removed afterwards):
  1. the patch applies;  2. the repository suite still passes with it (tools/repotests.sh);
  3. demo.py exits non-zero with the change and 0 on the unchanged tree;
  4. each listed check is run against the changed tree (VERIF_REPO) and must print a VIOLATION line (twice);
Writes patch.diff, demo.py, notes.md and meta.json (what it breaks, what it needs, what was run and seen).
"""
import json, os, subprocess, sys, shutil, tempfile, re

V = os.path.dirname(os.path.dirname(os.path.abspath(__file__)))


def sh(cmd, env=None, cwd=None, timeout=3600):
    e = dict(os.environ)
    e.update(env or {})
    r = subprocess.run(cmd, shell=True, capture_output=True, text=True, env=e, cwd=cwd, timeout=timeout)
    return r.returncode, (r.stdout + r.stderr)


def main():
    src, name, prop = sys.argv[1:4]
    checks = sys.argv[4:]
    wt = tempfile.mkdtemp(prefix='keepwt.', dir='/tmp')
    os.rmdir(wt)
    meta = {'name': name, 'property': prop, 'checks_run': checks, 'base_commit': sh('git -C /repo rev-parse --short HEAD')[1].strip()}
    rc, out = sh('git -C /repo worktree add -q --detach %s HEAD' % wt)
    assert rc == 0, out
    try:
        rc, out = sh('git -C %s apply %s/patch.diff' % (wt, src))
        meta['patch_applies'] = (rc == 0)
        if rc != 0:
            rc, out = sh('git -C %s apply --3way %s/patch.diff' % (wt, src))
            meta['patch_applies_3way'] = (rc == 0)
            if rc != 0:
                print('PATCH DOES NOT APPLY', out)
                return 1
        patch = sh('git -C %s diff' % wt)[1]
        penv = {'PYTHONPATH': wt, 'PYTHONDONTWRITEBYTECODE': '1', 'MPLBACKEND': 'Agg'}
        rc_with, out_with = sh('/venv/bin/python %s/demo.py' % src, env=penv, cwd=wt)
        rc_without, out_without = sh('/venv/bin/python %s/demo.py' % src, env=dict(penv, PYTHONPATH='/repo'), cwd='/repo')
        meta['demo_exit_with_change'] = rc_with
        meta['demo_exit_without_change'] = rc_without
        meta['demo_output_with_change'] = out_with.strip().splitlines()[-3:]
        rc, out = sh('%s/tools/repotests.sh %s' % (V, wt))
        meta['repo_suite_with_change'] = [l for l in out.splitlines() if 'passed' in l or 'BASELINE' in l][-2:]
        meta['repo_suite_passes'] = ('missing=[]' in out)
        det = {}
        for c in checks:
            lines = []
            for rep in range(2):
                ev = tempfile.mkdtemp(prefix='keepev.', dir='/tmp')
                rc, out = sh('%s/check %s' % (V, c), env={'VERIF_REPO': wt, 'VERIF_EVIDENCE_DIR': ev, 'VERIF_REPLAY_DIR': ev})
                shutil.rmtree(ev, ignore_errors=True)
                vl = [re.sub(r'replay=\S+ ', '', l)[:260] for l in out.splitlines() if l.startswith('VIOLATION')]
                lines.append((rc, vl))
            det[c] = {'exit': [x[0] for x in lines], 'violation_lines_run1': lines[0][1][:4], 'n_violation_lines': [len(x[1]) for x in lines],
                      'detected': all(x[0] == 1 and x[1] for x in lines), 'same_both_runs': lines[0][1] == lines[1][1]}
        meta['detection'] = det
        ok = meta['repo_suite_passes'] and rc_with != 0 and rc_without == 0
        meta['confirmed'] = bool(ok)
        notes = open(os.path.join(src, 'notes.md')).read() if os.path.exists(os.path.join(src, 'notes.md')) else ''
        meta['needs_to_manifest'] = notes.strip()[:1500]
        if ok:
            d = os.path.join(V, 'seeded', name)
            os.makedirs(d, exist_ok=True)
            open(os.path.join(d, 'patch.diff'), 'w').write(patch)
            shutil.copy(os.path.join(src, 'demo.py'), os.path.join(d, 'demo.py'))
            if notes:
                open(os.path.join(d, 'notes.md'), 'w').write(notes)
            json.dump(meta, open(os.path.join(d, 'meta.json'), 'w'), indent=1)
        print(name, 'confirmed=%s' % ok, 'demo with/without=%s/%s' % (rc_with, rc_without), 'suite=%s' % meta['repo_suite_passes'],
              'detected=%s' % {c: v['detected'] for c, v in det.items()})
        return 0 if ok else 1
    finally:
        sh('git -C /repo worktree remove --force %s' % wt)


if __name__ == '__main__':
    sys.exit(main())
