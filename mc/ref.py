"""
Reference models: deliberately boring, written from the documented definitions, independent
of the library (only numpy / math / mpmath).  DESIGN.md section 2.2.
"""
import math
import numpy as np
import mpmath as mp

mp.mp.dps = 50
PI = math.pi


# --------------------------------------------------------------------------- float64 constructions

def rotx(t):
    c, s = math.cos(t), math.sin(t)
    return np.array([[1, 0, 0], [0, c, -s], [0, s, c]], dtype=float)


def roty(t):
    c, s = math.cos(t), math.sin(t)
    return np.array([[c, 0, s], [0, 1, 0], [-s, 0, c]], dtype=float)


def rotz(t):
    c, s = math.cos(t), math.sin(t)
    return np.array([[c, -s, 0], [s, c, 0], [0, 0, 1]], dtype=float)


def rot2(t):
    c, s = math.cos(t), math.sin(t)
    return np.array([[c, -s], [s, c]], dtype=float)


def skew(v):
    v = np.asarray(v, dtype=float).ravel()
    if len(v) == 1:
        return np.array([[0, -v[0]], [v[0], 0]])
    return np.array([[0, -v[2], v[1]], [v[2], 0, -v[0]], [-v[1], v[0], 0]])


def skewa(s):
    s = np.asarray(s, dtype=float).ravel()
    if len(s) == 3:
        M = np.zeros((3, 3))
        M[:2, :2] = skew(s[2:])
        M[:2, 2] = s[:2]
        return M
    M = np.zeros((4, 4))
    M[:3, :3] = skew(s[3:])
    M[:3, 3] = s[:3]
    return M


def rodrigues(axis, theta):
    """rotation by theta about the (normalised here) axis"""
    a = np.asarray(axis, dtype=float).ravel()
    a = a / math.sqrt(float(a @ a))
    K = skew(a)
    return np.eye(3) + math.sin(theta) * K + (1 - math.cos(theta)) * (K @ K)


def rt(R, t):
    n = R.shape[0]
    T = np.eye(n + 1)
    T[:n, :n] = R
    T[:n, n] = np.asarray(t, dtype=float).ravel()
    return T


def inv_h(T):
    n = T.shape[0] - 1
    R, t = T[:n, :n], T[:n, n]
    return rt(R.T, -R.T @ t)


def rpy(roll, pitch, yaw, order='zyx'):
    if order in ('zyx', 'vehicle'):
        return rotz(yaw) @ roty(pitch) @ rotx(roll)
    if order in ('xyz', 'arm'):
        return rotx(yaw) @ roty(pitch) @ rotz(roll)
    if order in ('yxz', 'camera'):
        return roty(yaw) @ rotx(pitch) @ rotz(roll)
    raise ValueError(order)


def eul(phi, theta, psi):
    return rotz(phi) @ roty(theta) @ rotz(psi)


# --------------------------------------------------------------------------- group invariants

def so_residual(R):
    """(orthogonality residual, |det-1|) of a square matrix"""
    R = np.asarray(R, dtype=float)
    n = R.shape[0]
    return float(np.abs(R.T @ R - np.eye(n)).max()), abs(float(np.linalg.det(R)) - 1.0)


def member_defect(M, kind, tol=1e-9):
    """None if M is a valid member of kind ('SO2','SE2','SO3','SE3','UQ'), else a description"""
    if M is None:
        return 'value is None'
    M = np.asarray(M)
    if M.dtype == object:
        return 'object dtype'
    if not np.all(np.isfinite(M)):
        return 'non-finite entries'
    if kind == 'UQ':
        if M.shape != (4,):
            return 'shape %s' % (M.shape,)
        n = math.sqrt(float(M @ M))
        return None if abs(n - 1) <= tol else 'quaternion norm %.15g' % n
    n = int(kind[2])
    if kind[:2] == 'SO':
        if M.shape != (n, n):
            return 'shape %s' % (M.shape,)
        R = M
    else:
        if M.shape != (n + 1, n + 1):
            return 'shape %s' % (M.shape,)
        R = M[:n, :n]
        last = M[n, :]
        if not (np.all(last[:n] == 0) and last[n] == 1):
            return 'last row %r' % (last.tolist(),)
    o, d = so_residual(R)
    if o > tol:
        return 'orthogonality residual %.3g' % o
    if d > tol:
        return 'det-1 = %.3g' % d
    return None


def tnorm(T):
    n = T.shape[0] - 1
    return max(1.0, float(np.linalg.norm(T[:n, n])))


# --------------------------------------------------------------------------- 50 digit references

def mpm(A):
    return mp.matrix(np.asarray(A, dtype=float).tolist())


def mp_to_np(M):
    return np.array([[float(M[i, j]) for j in range(M.cols)] for i in range(M.rows)])


def mp_skew(w):
    return mp.matrix([[0, -w[2], w[1]], [w[2], 0, -w[0]], [-w[1], w[0], 0]])


def mp_exp_so3(w):
    """Rodrigues in 50 digits; w iterable of 3 floats (rotation vector). Returns (R, V) as mp matrices"""
    w = [mp.mpf(float(x)) for x in w]
    th2 = w[0] * w[0] + w[1] * w[1] + w[2] * w[2]
    th = mp.sqrt(th2)
    W = mp_skew(w)
    I = mp.eye(3)
    if th == 0:
        return I, I
    a = mp.sin(th) / th
    b = (1 - mp.cos(th)) / th2
    c = (th - mp.sin(th)) / (th2 * th)
    W2 = W * W
    return I + a * W + b * W2, I + b * W + c * W2


def mp_exp_se3(S):
    """S = (v, w) 6-vector; returns 4x4 float64 array of the 50-digit exponential"""
    S = [float(x) for x in np.asarray(S).ravel()]
    R, V = mp_exp_so3(S[3:])
    t = V * mp.matrix(S[:3])
    T = mp.eye(4)
    for i in range(3):
        for j in range(3):
            T[i, j] = R[i, j]
        T[i, 3] = t[i]
    return mp_to_np(T)


def mp_exp_se2(S):
    """S = (vx, vy, w)"""
    vx, vy, w = [mp.mpf(float(x)) for x in np.asarray(S).ravel()]
    T = mp.eye(3)
    if w == 0:
        T[0, 2], T[1, 2] = vx, vy
        return mp_to_np(T)
    s, c = mp.sin(w), mp.cos(w)
    T[0, 0], T[0, 1], T[1, 0], T[1, 1] = c, -s, s, c
    a, b = s / w, (1 - c) / w
    T[0, 2] = a * vx - b * vy
    T[1, 2] = b * vx + a * vy
    return mp_to_np(T)


def mp_expm(A):
    """50-digit matrix exponential of a finite float matrix (general; slow).  Never call with NaN/Inf."""
    A = np.asarray(A, dtype=float)
    if not np.all(np.isfinite(A)):
        raise ValueError('mp_expm on non-finite matrix')
    return mp_to_np(mp.expm(mpm(A)))


def mp_rot(axis, theta):
    """50-digit Rodrigues rounded to float64: group elements close to identity / half turn"""
    a = [mp.mpf(float(x)) for x in axis]
    n = mp.sqrt(sum(x * x for x in a))
    th = mp.mpf(float(theta)) if not isinstance(theta, mp.mpf) else theta
    R, _ = mp_exp_so3_mp([x / n * th for x in a])
    return mp_to_np(R)


def mp_exp_so3_mp(w):
    th2 = w[0] * w[0] + w[1] * w[1] + w[2] * w[2]
    th = mp.sqrt(th2)
    W = mp_skew(w)
    I = mp.eye(3)
    if th == 0:
        return I, I
    a = mp.sin(th) / th
    b = (1 - mp.cos(th)) / th2
    c = (th - mp.sin(th)) / (th2 * th)
    W2 = W * W
    return I + a * W + b * W2, I + b * W + c * W2


def mp_angle(R):
    """rotation angle in [0, pi] of a 3x3 rotation, 50 digits -> float"""
    R = mpm(R)
    v = [R[2, 1] - R[1, 2], R[0, 2] - R[2, 0], R[1, 0] - R[0, 1]]
    s = mp.sqrt(sum(x * x for x in v)) / 2
    c = (R[0, 0] + R[1, 1] + R[2, 2] - 1) / 2
    return float(mp.atan2(s, c))


def rot_angle(R):
    R = np.asarray(R, dtype=float)
    v = np.array([R[2, 1] - R[1, 2], R[0, 2] - R[2, 0], R[1, 0] - R[0, 1]])
    return math.atan2(float(np.linalg.norm(v)) / 2, (float(np.trace(R)) - 1) / 2)


# --------------------------------------------------------------------------- quaternions (s, x, y, z)

_QT = {}


def _qtable():
    # i^2 = j^2 = k^2 = ijk = -1
    if _QT:
        return _QT
    # basis index 0=1, 1=i, 2=j, 3=k ; entry (a,b) -> (sign, index)
    t = {(0, b): (1, b) for b in range(4)}
    t.update({(a, 0): (1, a) for a in range(4)})
    t.update({(1, 1): (-1, 0), (2, 2): (-1, 0), (3, 3): (-1, 0),
              (1, 2): (1, 3), (2, 3): (1, 1), (3, 1): (1, 2),
              (2, 1): (-1, 3), (3, 2): (-1, 1), (1, 3): (-1, 2)})
    _QT.update(t)
    return _QT


def qmul(a, b):
    t = _qtable()
    out = [0.0] * 4
    for i in range(4):
        for j in range(4):
            s, k = t[(i, j)]
            out[k] += s * a[i] * b[j]
    return np.array(out, dtype=float)


def qconj(a):
    return np.array([a[0], -a[1], -a[2], -a[3]], dtype=float)


def q2r(q):
    """rotation matrix of a unit quaternion, from v' = q v q*"""
    q = np.asarray(q, dtype=float)
    cols = []
    for e in np.eye(3):
        v = qmul(qmul(q, np.r_[0.0, e]), qconj(q))
        cols.append(v[1:])
    return np.array(cols).T


def r2q_ref(R):
    """a unit quaternion of rotation R (either sign), robust largest-component method"""
    R = np.asarray(R, dtype=float)
    K = np.array([[R[0, 0] - R[1, 1] - R[2, 2], 0, 0, 0],
                  [R[0, 1] + R[1, 0], R[1, 1] - R[0, 0] - R[2, 2], 0, 0],
                  [R[0, 2] + R[2, 0], R[1, 2] + R[2, 1], R[2, 2] - R[0, 0] - R[1, 1], 0],
                  [R[2, 1] - R[1, 2], R[0, 2] - R[2, 0], R[1, 0] - R[0, 1], R[0, 0] + R[1, 1] + R[2, 2]]]) / 3
    w, V = np.linalg.eigh(K, UPLO='L')
    x, y, z, s = V[:, np.argmax(w)]
    q = np.array([s, x, y, z])
    return -q if s < 0 else q      # canonical sign: scalar part >= 0


def same_rotation_q(a, b, tol):
    a, b = np.asarray(a, float), np.asarray(b, float)
    return min(np.abs(a - b).max(), np.abs(a + b).max()) <= tol


def close(a, b, tol):
    a, b = np.asarray(a, dtype=float), np.asarray(b, dtype=float)
    if a.shape != b.shape:
        return False
    if a.size == 0:
        return True
    if not (np.all(np.isfinite(a)) and np.all(np.isfinite(b))):
        return False
    return float(np.abs(a - b).max()) <= tol


def maxdiff(a, b):
    a, b = np.asarray(a, dtype=float), np.asarray(b, dtype=float)
    if a.shape != b.shape:
        return float('inf')
    if a.size == 0:
        return 0.0
    d = np.abs(a - b)
    return float('inf') if not np.all(np.isfinite(d)) else float(d.max())


# --------------------------------------------------------------------------- 6x6 adjoint

def adjoint(T):
    R, t = T[:3, :3], T[:3, 3]
    A = np.zeros((6, 6))
    A[:3, :3] = R
    A[:3, 3:] = skew(t) @ R
    A[3:, 3:] = R
    return A
