"""
Alphabets: landmark ladders + generic pools (DESIGN.md 2.1).  Every letter has a stable name
used in case ids.  The quick tier uses 4 of the 16 generic letters, selected by VERIF_SEED;
the thorough tier uses all 16, so every quick run is a sub-product of the thorough run.
"""
import math, random
import numpy as np
from mc import ref

PI = math.pi

QUICK_K = (-12, -9, -6, -3, -1)
THORO_K = tuple(range(-15, 0))


def ks(tier):
    return QUICK_K if tier == 'quick' else THORO_K


def ladder(b, bname, tier, sides=(+1, -1), extra=True):
    """[(name, value)] : b and b +- 10^k ; thorough adds the sqrt(eps) positions"""
    out = [(bname, float(b))]
    for k in ks(tier):
        for s in sides:
            out.append(('%s%s1e%d' % (bname, '+' if s > 0 else '-', k), b + s * 10.0 ** k))
    if tier != 'quick' and extra:
        for nm, d in (('1.4e-7', 1.4e-7), ('1.5e-8', 1.5e-8)):
            for s in sides:
                out.append(('%s%s%s' % (bname, '+' if s > 0 else '-', nm), b + s * d))
    return out


def magnitudes(tier, lo=-6, hi=6):
    if tier == 'quick':
        return [('1e%d' % k, 10.0 ** k) for k in (lo, lo // 2, 0, hi // 2, hi)]
    return [('1e%d' % k, 10.0 ** k) for k in range(lo, hi + 1)]


# ---- generic pools: 16 boring values per kind, no special relation to pi / axes
G_ANGLES = [0.3, -0.7, 1.1, -1.9, 2.5, -2.9, 0.05, 1.57, -0.4, 0.9, 2.1, -1.3, 3.0, -2.2, 14 * PI + 0.4, -1e3]
G_ANGLES_SMALL = [0.3, -0.7, 1.1, -1.9, 2.5, -2.9, 0.05, 1.57, -0.4, 0.9, 2.1, -1.3, 3.0, -2.2, 0.6, -0.15]
G_VEC3 = [(1, 2, 3), (-2, 1, 0.5), (0.3, -0.4, 0.86), (4, -1, 2), (-1, -1, 3), (0.1, 0.7, -0.2), (5, 3, -4),
          (-0.6, 0.2, 0.9), (2, 2, -1), (-3, 0.5, 1.5), (0.9, -0.8, 0.1), (1, -5, 2), (-0.2, -0.3, -0.4),
          (7, 1, -2), (0.4, 0.4, 0.8), (-1.5, 2.5, 0.5)]
G_VEC2 = [(v[0], v[1]) for v in G_VEC3]


def pick(pool, tier, seed, n=4):
    """the generic letters of this tier: [(name, value)]"""
    idx = list(range(len(pool)))
    if tier == 'quick':
        idx = sorted(random.Random(1000 + int(seed)).sample(idx, n))
    return [('g%d' % i, pool[i]) for i in idx]


def unit(v):
    v = np.asarray(v, dtype=float)
    return v / math.sqrt(float(v @ v))


AXES_COORD = [('+x', (1, 0, 0)), ('+y', (0, 1, 0)), ('+z', (0, 0, 1)), ('-x', (-1, 0, 0)), ('-y', (0, -1, 0)), ('-z', (0, 0, -1))]


def axes(tier, seed, neardeg=True):
    """unit axis alphabet: coordinate axes, generic, one near-degenerate"""
    out = [(n, np.array(v, dtype=float)) for n, v in (AXES_COORD if tier != 'quick' else AXES_COORD[:3] + AXES_COORD[5:])]
    for n, v in pick(G_VEC3, tier, seed, 3):
        out.append((n, unit(v)))
    if neardeg:
        out.append(('nd', unit((1, 1e-8, 0))))
    return out


def theta_alphabet(tier, seed, upto_pi=True):
    """rotation magnitudes in [0, pi]: ladders at 0 (above) and pi (below) + generic"""
    out = ladder(0.0, '0', tier, sides=(+1,))
    # the library's zero thresholds are 10 eps (iszerovec) and 100 eps (unitvec): letters between and around them
    out += [('0+3e-15', 3e-15), ('0+1e-14', 1e-14), ('0+3e-14', 3e-14)] if tier == 'quick' else [('0+3e-15', 3e-15), ('0+3e-14', 3e-14)]
    out += [(n, abs(v)) for n, v in pick(G_ANGLES_SMALL, tier, seed, 3)]
    out.append(('pi/2', PI / 2))
    if upto_pi:
        out += [x for x in ladder(PI, 'pi', tier, sides=(-1,))]
    return out


def angle_alphabet(tier, seed, many_turns=True):
    """signed angles: ladders at 0, +-pi/2, +-pi, 2pi + generic (+ many turns)"""
    out = []
    for b, nm in ((0.0, '0'), (PI / 2, 'pi/2'), (-PI / 2, '-pi/2'), (PI, 'pi'), (-PI, '-pi')):
        out += ladder(b, nm, tier, extra=False) if tier != 'quick' else \
            [(nm, b), (nm + '+1e-12', b + 1e-12), (nm + '-1e-12', b - 1e-12), (nm + '+1e-6', b + 1e-6), (nm + '-1e-6', b - 1e-6)]
    out.append(('2pi', 2 * PI))
    out += pick(G_ANGLES if many_turns else G_ANGLES_SMALL, tier, seed, 4)
    return out


# --------------------------------------------------------------------------- group generator sets G(C)

def gen_SO3(tier, seed):
    """[(name, 3x3 float matrix)] built by the reference, not by the library"""
    out = [('I', np.eye(3))]
    out.append(('Rx(g)', ref.rotx(0.3)))
    out.append(('Ry(g)', ref.roty(-0.7)))
    out.append(('Rz(g)', ref.rotz(1.1)))
    # one generic letter per arm of the matrix -> quaternion conversion: the rods below are x-dominant or depend on the seed, near-pi is z-dominant
    out.append(('rod(ydom,0.9)', ref.rodrigues((0.1, 1, 0.3), 0.9)))
    for n, v in pick(G_VEC3, tier, seed, 2):
        out.append(('rod(%s,2.5)' % n, ref.rodrigues(v, 2.5)))
    out.append(('near-pi', ref.mp_rot((1, 2, 3), PI - 1e-9)))
    out.append(('near-0', ref.mp_rot((-2, 1, 0.5), 1e-9)))
    out.append(('pi-1e-12', ref.mp_rot((-2, 1, 0.5), PI - 1e-12)))     # inside the band where log / r2q change arm
    if tier != 'quick':
        out.append(('Rx(pi/2)', ref.rotx(PI / 2)))
        out.append(('Rz(pi)', ref.rotz(PI)))
        out.append(('rod(nd,1.9)', ref.rodrigues((1, 1e-8, 0), -1.9)))
        out.append(('half-turn(g)', ref.mp_rot((0.3, -0.4, 0.86), PI)))
    return out


def gen_SO2(tier, seed):
    out = [('I', np.eye(2)), ('R(0.3)', ref.rot2(0.3)), ('R(-1.9)', ref.rot2(-1.9)), ('R(pi-1e-9)', ref.rot2(PI - 1e-9)),
           ('R(1e-9)', ref.rot2(1e-9)), ('R(pi/2)', ref.rot2(PI / 2)), ('R(3e-6)', ref.rot2(3e-6))]
    for n, v in pick(G_ANGLES_SMALL, tier, seed, 2):
        out.append(('R(%s)' % n, ref.rot2(v)))
    if tier != 'quick':
        out += [('R(pi)', ref.rot2(PI)), ('R(-pi/2)', ref.rot2(-PI / 2))]
    return out


def translations(dim, tier, seed):
    d1 = np.array((1, 2, 3)[:dim], dtype=float)
    d1 = d1 / np.linalg.norm(d1)
    out = [('0', np.zeros(dim)), ('1e-6*d', 1e-6 * d1), ('g', np.array((0.5, -1.5, 2.0)[:dim])), ('1e3*d', 1e3 * d1),
           ('1e6*d', 1e6 * d1)]
    if tier != 'quick':
        out += [('ex', np.eye(dim)[0]), ('-1e6*e_last', -1e6 * np.eye(dim)[-1]), ('1e-3*d', 1e-3 * d1)]
    return out


def _h(name):
    import zlib
    return zlib.crc32(name.encode())


def thin(name, tier, q=4, t=2):
    """name-based thinning of a product: the quick selection (h % q == 0) is a subset of the thorough one
    (h % t == 0, t divides q) whatever the seed, because it depends on the letter names only"""
    return _h(name) % (q if tier == 'quick' else t) == 0


def gen_SE(dim, tier, seed):
    """rigid motions: rotations x translations, thinned by name to a generator set (not the full product)"""
    rots = gen_SO3(tier, seed) if dim == 3 else gen_SO2(tier, seed)
    trs = translations(dim, tier, seed)
    forced = ('I|t=0', 'I|t=g', 'near-pi|t=1e6*d', 'near-0|t=1e3*d', 'pi-1e-12|t=g', 'R(pi-1e-9)|t=1e6*d', 'R(1e-9)|t=1e3*d',
              'R(3e-6)|t=g', 'R(3e-6)|t=1e3*d')
    out = []
    for rn, R in rots:
        for tn, t in trs:
            name = '%s|t=%s' % (rn, tn)
            if name in forced or thin(name, tier):
                out.append((name, ref.rt(R, t)))
    return out


SPECIAL = ('near-pi', 'near-0', 'pi-1e-12', '3e-6', 'pi-1e-9', '1e-9', '-1e-6')


def subset(G, n, nspecial=5):
    """a sub-list of n generators that keeps up to nspecial of the landmark elements (near 0 / near pi / micro-radian),
    one per landmark kind first, and fills up with the others in order; deterministic, order preserving"""
    spec, seenk = [], set()
    for x in G:
        for k in SPECIAL:
            if k in x[0] and k not in seenk and len(spec) < nspecial:
                spec.append(x)
                seenk.add(k)
                break
    rest = [x for x in G if x not in spec][:max(0, n - len(spec))]
    keep = set(id(x) for x in spec + rest)
    return [x for x in G if id(x) in keep]
