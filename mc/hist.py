"""
Objects with a history.  The library's list-capable objects are mutable (item assignment, reverse, append, pop ...);
their value is their .data (C10 establishes that).  A property stated "for every object holding value v" must therefore
hold for an object that came to hold v by any history, in particular one during which the method under test had already
been used on the same object (a memoised result that is not invalidated is invisible on fresh objects).

variants(obj, warm) enumerates, besides the fresh object, every way of the small history alphabet
    {assign every item over a decoy, the same over a copy / deep copy / unpickled copy of the decoy, reverse a reversed copy,
     append to a decoy then pop the decoy value}
of arriving at an object of the same class holding exactly obj's values, with `warm` (the calls under test) executed on
the object BEFORE the mutation.  The caller runs its ordinary oracle on each variant.
"""
import numpy as np


def _decoy_values(obj):
    """values of the same class and count that differ from obj's: the identity/zero element, or (if obj holds those) a shifted copy"""
    cls = type(obj)
    out = []
    for d in obj.data:
        z = cls().data[0]
        z = np.array(z, dtype=float)
        if z.shape != np.shape(d):
            z = np.zeros(np.shape(d))
        if np.array_equal(z, np.asarray(d, dtype=float)):
            # obj holds the identity itself: any other valid value will do - take the next value of obj, else none
            alt = [np.asarray(x, dtype=float) for x in obj.data if not np.array_equal(np.asarray(x, dtype=float), z)]
            z = alt[0].copy() if alt else z
        out.append(z)
    return out


def _raw(cls, values):
    o = cls()
    o.data = [np.array(v, dtype=float).copy() for v in values]
    return o


def _safe(f, o):
    try:
        f(o)
    except Exception:
        pass


def variants(obj, warm, fresh=True):
    """yields (tag, object); every object holds obj's values (bit-identical arrays, own copies)"""
    cls = type(obj)
    vals = [np.array(d, copy=True) for d in obj.data]
    n = len(vals)
    if fresh:
        yield 'fresh', obj
    if n == 0:
        return
    # 1. a warmed decoy, every item assigned
    D = _raw(cls, _decoy_values(obj))
    _safe(warm, D)
    ok = True
    for i, v in enumerate(vals):
        try:
            D[i] = _raw(cls, [v])
        except Exception:
            ok = False
            break
    if ok and len(D.data) == n and all(np.array_equal(a, b) for a, b in zip(D.data, vals)):
        yield 'setitem', D
    # 1b. the same through a copy of the warmed decoy (copy.copy, copy.deepcopy, a pickle round trip carry the instance dictionary along)
    import copy as _copy
    import pickle as _pickle
    for ctag, cf in (('copy', _copy.copy), ('deepcopy', _copy.deepcopy), ('pickle', lambda o: _pickle.loads(_pickle.dumps(o)))):
        D = _raw(cls, _decoy_values(obj))
        _safe(warm, D)
        try:
            D2 = cf(D)
            for i, v in enumerate(vals):
                D2[i] = _raw(cls, [v])
            _safe(warm, D)          # the original decoy is used again afterwards (must not disturb the copy)
            if type(D2) is cls and len(D2.data) == n and all(np.array_equal(a, b) for a, b in zip(D2.data, vals)):
                yield ctag + '+setitem', D2
        except Exception:
            pass
    # 2. a warmed reversed copy, reversed back
    if n > 1:
        D = _raw(cls, vals[::-1])
        _safe(warm, D)
        try:
            D.reverse()
            if all(np.array_equal(a, b) for a, b in zip(D.data, vals)):
                yield 'reverse', D
        except Exception:
            pass
    # 3. a warmed decoy that receives the values at its end and loses its own from the front
    D = _raw(cls, _decoy_values(obj)[:1])
    _safe(warm, D)
    try:
        for v in vals:
            D.append(_raw(cls, [v]))
        D.pop(0)
        if len(D.data) == n and all(np.array_equal(a, b) for a, b in zip(D.data, vals)):
            yield 'append-pop', D
    except Exception:
        pass
    # 4. an object that has been asked everything a user may ask without arguments - every public property and every method that can be called
    #    without arguments (readers: none of them is documented to change its receiver) - before the method under test is used on it
    D = _raw(cls, vals)
    query_all(D)
    if len(D.data) == n:
        yield 'queried', D


_SKIP = {'pop', 'clear', 'reverse', 'append', 'extend', 'insert', 'sort', 'remove', 'plot', 'animate', 'printline', 'print', 'about', 'Rand', 'Alloc', 'Empty', 'simplify',
         'plot_intersect_volume', 'arghandler', 'binop', 'unop'}
_READERS = {}


def query_all(obj):
    """call every public property and every public method that takes no required argument (exceptions are ignored)"""
    import inspect
    import io
    import contextlib
    C = type(obj)
    names = _READERS.get(C)
    if names is None:
        names = []
        for an in sorted(set(dir(C))):
            if an.startswith('_') or an in _SKIP:
                continue
            attr = inspect.getattr_static(C, an)
            if isinstance(attr, property):
                names.append((an, False))
            elif isinstance(attr, (staticmethod, classmethod)):
                continue
            elif callable(attr):
                try:
                    sig = inspect.signature(attr)
                except (TypeError, ValueError):
                    continue
                req = [p for p in list(sig.parameters.values())[1:] if p.default is inspect.Parameter.empty and p.kind in (p.POSITIONAL_ONLY, p.POSITIONAL_OR_KEYWORD)]
                if not req:
                    names.append((an, True))
        _READERS[C] = names
    with contextlib.redirect_stdout(io.StringIO()):
        for an, is_call in names:
            try:
                v = getattr(obj, an)
                if is_call:
                    v()
            except Exception:
                pass
    return obj
