"""
E5  Call sequences from a pristine process state.

Every other explorer of this harness runs thousands of cases in long-lived worker processes: whatever the library keeps between calls (a
module-level table, a cache keyed too coarsely, a mutable default argument, an attribute set on the class, a template whose dtype the first
call fixed) is then in a state that depends on the order of the enumeration, and a sequence that matters (call a, THEN call b) is met only
by accident.  This explorer owns that state: a property module declares a small menu of steps (`history_menu()`: name -> function of a shared
environment dict); this helper is started as its own interpreter (library imported, nothing called) and runs EVERY ordered pair of steps
(a ; b), including (a ; a), in a forked child of that pristine state.  The environment dict lets steps share objects (a caller-owned buffer
that step b refills in place, an object built by a and queried by b).  Oracle (differential, no expected value written by hand): what b
observes after a must be bit-identical to what b observes when it is the first thing the process does.  (That the solo answer is the right
one is what the other shards of the property decide.)

usage:  python -m mc.pairhist <module>[:<menu function>] <k> <K>     explores the pairs whose first step has index i with i % K == k; prints one JSON document
"""
import sys, os, json, importlib


def observe(x, depth=0):
    """a JSON-able, bit-exact description of a result"""
    import numpy as np
    if depth > 6:
        return 'deep'
    if x is None or isinstance(x, (bool, str)):
        return x
    if isinstance(x, (int, np.integer)) and not isinstance(x, (bool, np.bool_)):
        return int(x)
    if isinstance(x, (np.bool_,)):
        return bool(x)
    if isinstance(x, (float, np.floating)):
        return float(x).hex()
    if isinstance(x, complex):
        return [x.real.hex(), x.imag.hex()]
    if isinstance(x, np.ndarray):
        if x.dtype == object:
            return ['objarray', list(x.shape), [str(e) for e in x.ravel().tolist()]]
        try:
            return ['array', list(x.shape), [float(e).hex() for e in np.asarray(x, dtype=float).ravel().tolist()]]
        except Exception:
            return ['array?', list(x.shape), repr(x)[:200]]
    if isinstance(x, (list, tuple)):
        return [type(x).__name__] + [observe(e, depth + 1) for e in x]
    if isinstance(x, dict):
        return ['dict'] + [[str(k), observe(v, depth + 1)] for k, v in sorted(x.items(), key=lambda kv: str(kv[0]))]
    d = getattr(x, 'data', None)
    if isinstance(d, list) and (type(x).__module__ or '').startswith('spatialmath'):
        return [type(x).__name__, [observe(e, depth + 1) for e in d]]
    if (type(x).__module__ or '').startswith('spatialmath'):
        return [type(x).__name__, [[k, observe(v, depth + 1)] for k, v in sorted(vars(x).items())]]
    if (type(x).__module__ or '').startswith('sympy'):
        return ['sympy', str(x)]
    return ['other', type(x).__name__, repr(x)[:200]]


def main(modname, k, K, only_pair=None):
    from mc.core import import_repo, poison
    import_repo()
    mname, _, attr = modname.partition(':')
    mod = importlib.import_module(mname)
    menu = getattr(mod, attr or 'history_menu')()
    names = [n for n, _ in menu]
    if len(set(names)) != len(names):
        raise SystemExit('duplicate step names in the menu of ' + modname)

    def child(seq):
        r, w = os.pipe()
        pid = os.fork()
        if pid == 0:
            try:
                os.close(r)
                env, out = {}, None
                for i in seq:
                    try:
                        poison()
                        out = observe(menu[i][1](env))
                    except Exception as e:
                        out = ['raised', type(e).__name__]
                os.write(w, json.dumps(out).encode())
            finally:
                os._exit(0)
        os.close(w)
        buf = b''
        while True:
            chunk = os.read(r, 1 << 16)
            if not chunk:
                break
            buf += chunk
        os.close(r)
        os.waitpid(pid, 0)
        return json.loads(buf.decode()) if buf else ['no-output']

    solo = [child([j]) for j in range(len(menu))]
    # the pristine state must itself be reproducible: the same step alone, twice
    unstable = [names[j] for j in range(len(menu)) if child([j]) != solo[j]]
    diffs, n = [], 0
    for i in range(len(menu)):
        if i % K != k:
            continue
        for j in range(len(menu)):
            if names[j] in unstable:
                continue
            n += 1
            got = child([i, j])
            if got != solo[j]:
                diffs.append({'first': names[i], 'second': names[j], 'got': _short(got), 'alone': _short(solo[j])})
    print(json.dumps({'module': modname, 'steps': len(menu), 'pairs': n, 'unstable': unstable, 'diffs': diffs,
                      'names': names}))


def _short(o):
    s = json.dumps(o)
    return s if len(s) < 300 else s[:300] + '...'


def explore(ctx, prop, modname, k, K):
    """shard body: run the helper for first steps i % K == k and turn its report into cases"""
    import subprocess
    from mc import core
    prefix = '%s/hist/' % prop
    if ctx.only is not None and not ctx.only.startswith(prefix):
        return
    env = dict(os.environ, VERIF_REPO=core.REPO, PYTHONPATH=core.VERIF)
    r = subprocess.run([sys.executable, '-m', 'mc.pairhist', modname, str(k), str(K)], cwd=core.VERIF, env=env, capture_output=True, text=True, timeout=3000)
    if r.returncode != 0 or not r.stdout.strip():
        raise core.HarnessError('pairhist %s %d/%d failed: %s' % (modname, k, K, (r.stderr or r.stdout)[-600:]))
    doc = json.loads(r.stdout.strip().splitlines()[-1])
    for u in doc['unstable']:
        # the same step, as the first call of two pristine children, observed two different things (with freed memory poisoned by the harness
        # and no other source of nondeterminism in the menus): the library returns something it did not compute
        cid = '%s%s ; (alone, twice)' % (prefix, u)
        if ctx.want(cid) and doc['names'].index(u) % K == k:
            ctx.case(cid, key=cid, trivial=False)
            ctx.fail(cid, u.split('(')[0].split('/')[0], 'mismatch', {'first': u.split('/')[0], 'second': u.split('/')[0], 'law': 'reproducible'},
                     '%s, run as the first call of a pristine process, gives two different answers in two runs' % u)
    ctx.count('sequences_from_pristine_state', doc['pairs'])
    bad = {(d['first'], d['second']): d for d in doc['diffs']}
    names = doc['names']
    for i, a in enumerate(names):
        if i % K != k:
            continue
        for b in names:
            cid = '%s%s ; %s' % (prefix, a, b)
            if not ctx.want(cid):
                continue
            ctx.case(cid, key=cid, trivial=False)
            d = bad.get((a, b))
            if d is not None:
                ctx.fail(cid, b.split('(')[0].split('/')[0], 'mismatch', {'first': a.split('/')[0], 'second': b.split('/')[0], 'law': 'history'},
                         '%s gives %s after %s; as the first call of the process it gives %s' % (b, d['got'][:160], a, d['alone'][:160]))


if __name__ == '__main__':
    main(sys.argv[1], int(sys.argv[2]), int(sys.argv[3]))
