"""
Menus of steps for the pristine-state call-sequence explorer (mc/pairhist.py), one function per property.

A step is (name, f(env)); env is a dict shared by the steps of one sequence.  Conventions used below:
  buf(env, key, value)   a caller-owned array: allocated by the first step that uses it, REFILLED IN PLACE by later ones (same object, new
                         content) - what a control loop that keeps one "current pose" array does;
  near-equal letters     pairs of arguments that differ by 1e-9 .. 1e-5 (neighbouring frames, finite-difference steps);
  equal-norm letters     arguments of equal magnitude and different direction;
  temporaries            objects created and dropped inside a step (their storage is free for the next step's objects);
  dtype letters          the same value as float, as integer, and (C16) as symbols.
Every step returns what the property's statement is about (the value, or the exception class), never anything address-dependent.
"""
import math
import numpy as np
from mc import ref

PI = math.pi


def _sm():
    import spatialmath
    return spatialmath


def _b():
    import spatialmath.base
    return spatialmath.base


def buf(env, key, value):
    value = np.asarray(value, dtype=float)
    if key not in env or env[key].shape != value.shape:
        env[key] = np.array(value, dtype=float)
    else:
        env[key][...] = value
    return env[key]


def lbuf(env, key, value):
    """a caller-owned Python list refilled in place"""
    if key not in env or len(env[key]) != len(value):
        env[key] = list(value)
    else:
        env[key][:] = list(value)
    return env[key]


R1 = ref.rotx(0.3) @ ref.roty(-0.4) @ ref.rotz(0.2)
R2 = ref.rotz(1.1) @ ref.rotx(-0.7)
R1n = ref.rotx(0.3 + 2e-6) @ ref.roty(-0.4) @ ref.rotz(0.2)          # a neighbouring frame of R1
T1 = ref.rt(R1, (1.0, -2.0, 0.5))
T2 = ref.rt(R2, (-0.5, 3.0, 2.0))
T1n = ref.rt(R1n, (1.0 + 2e-8, -2.0, 0.5))
T1t = ref.rt(R1, (4.0, 1.0, -3.0))                                   # the rotation of T1, another translation
r1, r2 = ref.rot2(0.3), ref.rot2(-1.9)
t1, t2 = ref.rt(r1, (1.0, -2.0)), ref.rt(r2, (3.0, 0.5))
t1t = ref.rt(np.eye(2), (1.0, -2.0))
P3 = np.array([[1.0, 2, 3, 4], [0.5, -1, 0, 2], [3.0, 1, -2, 0]])
P3b = P3[::-1].copy() * 0.7
p3 = np.array([0.3, -0.2, 0.5])
S6a = np.array([1.0, 2.0, 3.0, 0.3, -0.2, 0.1])
S6b = np.array([0.5, -1.0, 2.0, 0.0, 0.0, 1.0])
U6 = np.array([0.0, -1.0, 2.0, 0.0, 0.0, 1.0])        # unit twist about z through (2, 1, 0)
U6b = np.array([3.0, 0.0, -1.0, 0.0, 1.0, 0.0])       # unit twist about y, same |w|


def pose_steps(tag=''):
    """construction, composition, inverse, log, conversions of each pose class on two values (shared by several menus)"""
    S = _sm()
    out = []
    for cn, C, a, b_ in (('SO3', S.SO3, R1, R2), ('SE3', S.SE3, T1, T2), ('SO2', S.SO2, r1, r2), ('SE2', S.SE2, t1, t2)):
        for vn, v in (('a', a), ('b', b_)):
            out.append(('%s(%s).log' % (cn, vn), lambda env, C=C, v=v: C(v.copy()).log()))
            out.append(('%s(%s).inv' % (cn, vn), lambda env, C=C, v=v: C(v.copy()).inv()))
        out.append(('%s a*b' % cn, lambda env, C=C, a=a, b_=b_: C(a.copy()) * C(b_.copy())))
        out.append(('%s a/b' % cn, lambda env, C=C, a=a, b_=b_: C(a.copy()) / C(b_.copy())))
        out.append(('%s()' % cn, lambda env, C=C: C()))
        out.append(('%s()*a' % cn, lambda env, C=C, a=a: C() * C(a.copy())))
    return out


def C01():
    S, b = _sm(), _b()
    out = []
    bad3 = T1.copy()
    bad3[:3, :3] *= 1.5
    bad2 = t1.copy()
    bad2[0, 0] += 1e-3
    out.append(('SE3(buf=valid)', lambda env: S.SE3(buf(env, 'T', T1))))
    out.append(('SE3(buf=valid2)', lambda env: S.SE3(buf(env, 'T', T2))))
    out.append(('SE3(buf=scaled)', lambda env: S.SE3(buf(env, 'T', bad3))))
    out.append(('SE3([buf=scaled])', lambda env: S.SE3([buf(env, 'T', bad3)])))
    out.append(('SO3(buf=valid)', lambda env: S.SO3(buf(env, 'R', R1))))
    out.append(('SO3(buf=reflect)', lambda env: S.SO3(buf(env, 'R', np.diag([1.0, 1.0, -1.0])))))
    out.append(('SE2(buf3x3=valid)', lambda env: S.SE2(buf(env, 'R', t1))))
    out.append(('SE2(buf3x3=rotx)', lambda env: S.SE2(buf(env, 'R', ref.rotx(0.3)))))
    out.append(('SO3(buf3x3=se2)', lambda env: S.SO3(buf(env, 'R', t1))))
    out.append(('SE2(buf=noise)', lambda env: S.SE2(buf(env, 'R', bad2))))
    out.append(('SO2([I, buf=noise])', lambda env: S.SO2([np.eye(2), buf(env, 'r', r1 + np.array([[1e-3, 0], [0, 0]]))])))
    out.append(('SO2(buf=valid)', lambda env: S.SO2(buf(env, 'r', r1))))
    for nm, f in (('rotx', lambda: b.rotx(0.3)), ('rotx(int)', lambda: b.rotx(1)), ('trotx(deg)', lambda: b.trotx(30, 'deg', t=[1, 2, 3])), ('rpy2r', lambda: b.rpy2r(0.1, 0.2, 0.3)),
                  ('angvec2r', lambda: b.angvec2r(0.7, [1, 2, 3])), ('oa2r', lambda: b.oa2r([0, 1, 0.1], [0.1, 0, 1])), ('trnorm', lambda: b.trnorm(T1 + 1e-9)),
                  ('UQ(v)', lambda: S.UnitQuaternion([1, 2, 3, 4.0])), ('UQ.Rx(deg)', lambda: S.UnitQuaternion.Rx(30, 'deg')), ('SE3.Rand-free prod', lambda: S.SE3([T1, T2, T1]).prod()),
                  ('SO3.interp', lambda: S.SO3(R1).interp(0.3)), ('SE3**-3', lambda: S.SE3(T1) ** -3)):
        out.append((nm, lambda env, f=f: f()))
    return out + pose_steps()


def C02():
    S = _sm()
    out = pose_steps()
    # a twist built on a caller-owned array whose content changes with the magnitude kept
    Y = S6a
    for vn, v in (('v', U6), ('-v', -U6), ('w', U6b)):
        out.append(('Y*Twist3(buf=%s)' % vn, lambda env, v=v: (S.Twist3(Y.copy()) * S.Twist3(buf(env, 's', v))).S))
    for nm, f in (('Y*Twist3.Rx', lambda: S.Twist3(Y.copy()) * S.Twist3.Rx(0.7)), ('Y*Twist3.Ry', lambda: S.Twist3(Y.copy()) * S.Twist3.Ry(0.7)),
                  ('Y*Twist3.Rz', lambda: S.Twist3(Y.copy()) * S.Twist3.Rz(0.7)), ('Twist3.inv', lambda: S.Twist3(Y.copy()).inv()),
                  ('Twist2 a*b', lambda: S.Twist2([1.0, 2, 0.3]) * S.Twist2([0.5, -1, -0.2])), ('Twist3()', lambda: S.Twist3()),
                  ('Twist3()*Y', lambda: S.Twist3() * S.Twist3(Y.copy())), ('UQ a*b', lambda: S.UnitQuaternion(R1.copy()) * S.UnitQuaternion(R2.copy())),
                  ('UQ()', lambda: S.UnitQuaternion()), ('UQ a/b', lambda: S.UnitQuaternion(R1.copy()) / S.UnitQuaternion(R2.copy()))):
        out.append((nm, lambda env, f=f: f().S if hasattr(f(), 'S') else f()))
    # default-constructed objects whose value array is filled in place the NumPy way
    def fill_se3(env):
        T = S.SE3()
        T.A[:3, 3] = [1.0, 2.0, 3.0]
        return T

    def fill_so3(env):
        R = S.SO3()
        np.copyto(R.A, R1)
        return R

    def fill_se2(env):
        T = S.SE2()
        T.A[:2, 2] = [1.0, 2.0]
        return T

    def fill_tw3(env):
        X = S.Twist3()
        X.A[3:] = [0.0, 0.0, 1.0]
        return X.S
    out += [('T=SE3(); T.A[:3,3]=p', fill_se3), ('R=SO3(); copyto(R.A)', fill_so3), ('T=SE2(); T.A[:2,2]=p', fill_se2), ('S=Twist3(); S.A[3:]=w', fill_tw3)]
    return out


def C03():
    S, b = _sm(), _b()
    out = pose_steps()
    for cn, C, a in (('SE3', S.SE3, T1), ('SE2', S.SE2, t1)):
        tw = 'Twist3' if cn == 'SE3' else 'Twist2'
        out.append(('%s(a).%s()' % (cn, tw), lambda env, C=C, a=a, tw=tw: getattr(C(a.copy()), tw)().S))
        out.append(('%s(%s(a))' % (tw, cn), lambda env, C=C, a=a, tw=tw: getattr(S, tw)(C(a.copy())).S))
        out.append(('%s.Exp(log)' % cn, lambda env, C=C, a=a: C.Exp(C(a.copy()).log())))
    for nm, f in (('trlog(R)', lambda: b.trlog(R1.copy())), ('trlog(T)', lambda: b.trlog(T1.copy())), ('trlog(T,twist)', lambda: b.trlog(T1.copy(), twist=True)),
                  ('trlog2(T)', lambda: b.trlog2(t1.copy())), ('trlog2(R)', lambda: b.trlog2(r1.copy())), ('trexp(so3)', lambda: b.trexp(ref.skew([0.3, -0.4, 0.5]))),
                  ('trexp(v3)', lambda: b.trexp([0.3, -0.4, 0.5])), ('trexp(v6)', lambda: b.trexp(S6a.copy())), ('trexp(int v6)', lambda: b.trexp([1, 2, 3, 0, 0, 1])),
                  ('trexp2(v3)', lambda: b.trexp2([1.0, 2, 0.3])), ('trexp2(v1)', lambda: b.trexp2([0.3])), ('Twist3.exp', lambda: S.Twist3(U6.copy()).exp(0.7)),
                  ('Twist2.exp', lambda: S.Twist2([1.0, 2, 1.0]).exp(0.7)), ('SO3.Exp', lambda: S.SO3.Exp([0.3, -0.4, 0.5])), ('SE3.Exp', lambda: S.SE3.Exp(S6a.copy()))):
        out.append((nm, lambda env, f=f: f()))
    # the two-argument exponential on a caller-owned container refilled in place between joint values / links
    for vn, v in (('U', U6), ('Ub', U6b)):
        out.append(('trexp(buf6=%s, th)' % vn, lambda env, v=v: b.trexp(buf(env, 's6', v), 0.7)))
        out.append(('trexp(list6=%s, th)' % vn, lambda env, v=v: b.trexp(lbuf(env, 'l6', v.tolist()), 0.7)))
        out.append(('trexp(buf4x4=%s, th)' % vn, lambda env, v=v: b.trexp(buf(env, 's44', ref.skewa(v)), 0.7)))
    return out


def C04():
    S, b = _sm(), _b()
    out = pose_steps()
    for cn, C, a in (('SE3', S.SE3, T1), ('SE2', S.SE2, t1)):
        tw = 'Twist3' if cn == 'SE3' else 'Twist2'
        out.append(('%s(a).%s().%s()' % (cn, tw, cn), lambda env, C=C, a=a, tw=tw, cn=cn: getattr(getattr(C(a.copy()), tw)(), cn)()))
    for vn, T in (('A', T1), ('B', T2), ('A-other-t', T1t), ('pure-t1', ref.rt(np.eye(3), (1.0, 2, 3))), ('pure-t2', ref.rt(np.eye(3), (-4.0, 0, 1)))):
        out.append(('UDQ(%s)*p' % vn, lambda env, T=T: S.UnitDualQuaternion(S.SE3(T.copy())) * p3.copy()))
        out.append(('UDQ(%s).SE3' % vn, lambda env, T=T: S.UnitDualQuaternion(S.SE3(T.copy())).SE3()))
    for nm, f in (('UQ(R1)', lambda: S.UnitQuaternion(R1.copy())), ('UQ(R2)', lambda: S.UnitQuaternion(R2.copy())), ('UQ(R1).R', lambda: S.UnitQuaternion(R1.copy()).R),
                  ('UQ(SO3)', lambda: S.UnitQuaternion(S.SO3(R2.copy()))), ('UQ.SO3', lambda: S.UnitQuaternion(R1.copy()).SO3()), ('UQ.SE3', lambda: S.UnitQuaternion(R1.copy()).SE3()),
                  ('SE3.SO3', lambda: S.SE3.SO3(S.SO3(R1.copy()))), ('SO3(SE3)', lambda: S.SO3(S.SE3(T1.copy()))), ('SE2.SE3', lambda: S.SE2(t1.copy()).SE3()),
                  ('r2q', lambda: b.r2q(R2.copy())), ('q2r', lambda: b.q2r(ref.r2q_ref(R1))), ('SE3.Rx(deg,t)', lambda: S.SE3.Rx(30, 'deg', t=[1, 2, 3])),
                  ('UQ.Ry', lambda: S.UnitQuaternion.Ry(0.3)), ('SO3.Ry', lambda: S.SO3.Ry(0.3)), ('Twist3.Ry', lambda: S.Twist3.Ry(0.3).SE3())):
        out.append((nm, lambda env, f=f: f()))
    return out


def C05():
    S, b = _sm(), _b()
    out = []
    ax = np.array([1.0, 1.0, 1.0]) / math.sqrt(3)
    axn = ax + 5e-6 * np.array([1.0, -1.0, 0.0]) / math.sqrt(2)
    axs = 1e-3 * ax
    axsn = 1e-3 * axn
    for vn, v in (('a', ax), ('a-near', axn), ('a*1e-3', axs), ('a-near*1e-3', axsn), ('b', np.array([0.0, 0.6, -0.8]))):
        out.append(('angvec2r(2.5, %s)' % vn, lambda env, v=v: b.angvec2r(2.5, v.copy())))
        out.append(('SO3.AngVec(2.5, %s)' % vn, lambda env, v=v: S.SO3.AngVec(2.5, v.copy())))
        out.append(('angvec2r(2.5, buf=%s)' % vn, lambda env, v=v: b.angvec2r(2.5, buf(env, 'ax', v))))
        out.append(('SO3.EulerVec(%s)' % vn, lambda env, v=v: S.SO3.EulerVec(2.5 * v / np.linalg.norm(v))))
    for rn, R in (('R1', R1), ('R2', R2), ('R1-near', R1n), ('Ry(pi/2)', ref.roty(PI / 2) @ ref.rotz(0.7) ), ('int', np.array([[0, -1, 0], [1, 0, 0], [0, 0, 1]]))):
        for fn in ('tr2rpy', 'tr2eul', 'tr2angvec'):
            out.append(('%s(%s)' % (fn, rn), lambda env, fn=fn, R=R: getattr(b, fn)(R.copy())))
        out.append(('tr2rpy(buf=%s, deg, xyz)' % rn, lambda env, R=R: b.tr2rpy(buf(env, 'R', R), unit='deg', order='xyz')))
        out.append(('SO3(%s).rpy' % rn, lambda env, R=R: S.SO3(R.astype(float)).rpy()))
        out.append(('UQ(%s).rpy' % rn, lambda env, R=R: S.UnitQuaternion(R.astype(float)).rpy()))
    return out


def C06():
    S, b = _sm(), _b()
    out = []
    q1, q1n, q2 = ref.r2q_ref(R1), ref.r2q_ref(R1n), ref.r2q_ref(R2)
    for vn, q in (('q1', q1), ('q1-near', q1n), ('q2', q2), ('-q1', -q1)):
        out.append(('qvmul(%s, p)' % vn, lambda env, q=q: b.qvmul(q.copy(), p3.copy())))
        out.append(('UQ(%s)*p' % vn, lambda env, q=q: S.UnitQuaternion(q.copy(), norm=False, check=False) * p3.copy()))
        out.append(('UQ(%s)*P' % vn, lambda env, q=q: S.UnitQuaternion(q.copy(), norm=False, check=False) * P3.copy()))
    out.append(('UQ([q1,q1-near,q2])*p', lambda env: S.UnitQuaternion([q1.copy(), q1n.copy(), q2.copy()]) * p3.copy()))
    for vn, T in (('T1', T1), ('T2', T2), ('T1-near', T1n), ('T1-other-t', T1t)):
        out.append(('SE3(%s)*p' % vn, lambda env, T=T: S.SE3(T.copy()) * p3.copy()))
        out.append(('UDQ(SE3(%s))*p (temporary)' % vn, lambda env, T=T: S.UnitDualQuaternion(S.SE3(T.copy())) * p3.copy()))
        out.append(('homtrans(%s, P)' % vn, lambda env, T=T: b.homtrans(T.copy(), P3.copy())))
    for pn, P in (('P', P3), ('P-refilled', P3b)):
        out.append(('SE3(T1)*buf=%s' % pn, lambda env, P=P: S.SE3(T1.copy()) * buf(env, 'P', P)))
        out.append(('SO3(R1)*buf=%s' % pn, lambda env, P=P: S.SO3(R1.copy()) * buf(env, 'P', P)))
        out.append(('SE2(t1)*buf=%s' % pn, lambda env, P=P: S.SE2(t1.copy()) * buf(env, 'P2', P[:2])))
        out.append(('UQ(q1)*buf=%s' % pn, lambda env, P=P: S.UnitQuaternion(q1.copy()) * buf(env, 'P', P)))
    out.append(('SE3([T1,T2])*p', lambda env: S.SE3([T1.copy(), T2.copy()]) * p3.copy()))
    return out


def C07():
    S = _sm()
    out = [s for s in C01() if s[0].startswith(('SE3(', 'SO3(', 'SE2(', 'SO2('))]
    bad = R1.copy()
    bad[0, 1] += 1e-5
    for cn, C, good, bd in (('SO3', S.SO3, R1, bad), ('SE3', S.SE3, T1, ref.rt(bad, (1.0, 2, 3)))):
        out.append(('%s.isvalid(good)' % cn, lambda env, C=C, g=good: C.isvalid(g.copy())))
        out.append(('%s.isvalid(bad)' % cn, lambda env, C=C, g=bd: C.isvalid(g.copy())))
        out.append(('%s([bad])' % cn, lambda env, C=C, g=bd: C([g.copy()])))
        out.append(('%s([bad, good])' % cn, lambda env, C=C, g=bd, h=good: C([g.copy(), h.copy()])))
        out.append(('%s([good, bad])' % cn, lambda env, C=C, g=bd, h=good: C([h.copy(), g.copy()])))
        out.append(('%s(bad, check=False).A' % cn, lambda env, C=C, g=bd: C(g.copy(), check=False).A))
    return out


def C09():
    S = _sm()
    out = []
    X3 = [T1, T2, T1t]
    for pn, P in (('P', P3[:, :3]), ('P-refilled', P3b[:, :3])):
        out.append(('SE3(T1)*buf3x3=%s' % pn, lambda env, P=P: S.SE3(T1.copy()) * buf(env, 'P', P)))
        out.append(('SE3[3]*buf3x3=%s' % pn, lambda env, P=P: S.SE3([x.copy() for x in X3]) * buf(env, 'P', P)))
        out.append(('SE2(t1)*buf2x3=%s' % pn, lambda env, P=P: S.SE2(t1.copy()) * buf(env, 'P2', P[:2])))
    for nm, f in (('SE3[3]*SE3', lambda: S.SE3([x.copy() for x in X3]) * S.SE3(T2.copy())), ('SE3[3].inv', lambda: S.SE3([x.copy() for x in X3]).inv()),
                  ('SE3[3]==SE3[3]', lambda: S.SE3([x.copy() for x in X3]) == S.SE3([x.copy() for x in X3])),
                  ('SE3[3]==SE3[2]', lambda: S.SE3([x.copy() for x in X3]) == S.SE3([x.copy() for x in X3[:2]])),
                  ('SO3[2]!=SO3[3]', lambda: S.SO3([R1.copy(), R2.copy()]) != S.SO3([R1.copy(), R2.copy(), R1.copy()])),
                  ('SE3==None', lambda: S.SE3(T1.copy()) == S.SE3(T2.copy())), ('SE2[2].xyt', lambda: S.SE2([t1.copy(), t2.copy()]).xyt()),
                  ('Twist3[2].exp', lambda: S.Twist3([S6a.copy(), S6b.copy()]).exp(0.5)), ('UQ[2]*UQ', lambda: S.UnitQuaternion([ref.r2q_ref(R1), ref.r2q_ref(R2)]) * S.UnitQuaternion(ref.r2q_ref(R2))),
                  ('Q[3].matrix', lambda: S.Quaternion([[1.0, 2, 3, 4], [0.5, 0, -1, 2], [2.0, 2, 0, 1]]).matrix), ('Q[2].matrix', lambda: S.Quaternion([[3.0, 1, 0, 1], [0.0, 1, 1, 0]]).matrix)):
        out.append((nm, lambda env, f=f: f()))
    return out


def C11():
    S, b = _sm(), _b()
    out = []
    X = S.SE3(T2.copy())
    for vn, T in (('T1', T1), ('T1-other-R', ref.rt(R2, (1.0, -2.0, 0.5))), ('I', np.eye(4))):
        out.append(('trinterp(buf=%s, T2, 0.3)' % vn, lambda env, T=T: b.trinterp(buf(env, 'T', T), T2.copy(), 0.3)))
        out.append(('SE3.interp(0.3, start=SE3(%s)) (temporary)' % vn, lambda env, T=T: S.SE3(T2.copy()).interp(0.3, start=S.SE3(T.copy()))))
        out.append(('trinterp(buf3x3=%s, R2, 0.3)' % vn, lambda env, T=T: b.trinterp(buf(env, 'R', T[:3, :3]), R2.copy(), 0.3)))
    for vn, t in (('t1', t1), ('t1-other-R', ref.rt(r2, (1.0, -2.0)))):
        out.append(('trinterp2(buf=%s, t2, 0.3)' % vn, lambda env, t=t: b.trinterp2(buf(env, 't', t), t2.copy(), 0.3)))
    for nm, f in (('trinterp(None, T2, 0.3)', lambda: b.trinterp(None, T2.copy(), 0.3)), ('SO3.interp(0.3)', lambda: S.SO3(R2.copy()).interp(0.3)),
                  ('SE3.interp([0,.5,1])', lambda: S.SE3(T2.copy()).interp([0, 0.5, 1])), ('UQ.interp(dest)', lambda: S.UnitQuaternion(R1.copy()).interp(0.3, dest=S.UnitQuaternion(R2.copy()))),
                  ('UQ.interp', lambda: S.UnitQuaternion(R2.copy()).interp(0.3)), ('slerp', lambda: b.slerp(ref.r2q_ref(R1), ref.r2q_ref(R2), 0.3)),
                  ('slerp(shortest)', lambda: b.slerp(ref.r2q_ref(R1), -ref.r2q_ref(R2), 0.3, shortest=True)), ('SE2.interp', lambda: S.SE2(t2.copy()).interp(0.3))):
        out.append((nm, lambda env, f=f: f()))
    return out


def C12():
    S, b = _sm(), _b()
    out = []
    qa, qb = np.array([1.0, 2.0, 3.0, 4.0]), np.array([0.5, -1.0, 2.0, 1.0])
    for qn, q in (('qa', qa), ('qb', qb)):
        for n in (3, -3, 2, -2, 0, 1, -1):
            out.append(('Q(%s)**%d' % (qn, n), lambda env, q=q, n=n: S.Quaternion(q.copy()) ** n))
        out.append(('qpow(%s,-3)' % qn, lambda env, q=q: b.qpow(q.copy(), -3)))
        out.append(('Q(%s).matrix' % qn, lambda env, q=q: S.Quaternion(q.copy()).matrix))
        out.append(('Q(%s).conj' % qn, lambda env, q=q: S.Quaternion(q.copy()).conj()))
        out.append(('Q(%s).exp' % qn, lambda env, q=q: S.Quaternion(0.1 * q).exp()))
        out.append(('Q(%s).log' % qn, lambda env, q=q: S.Quaternion(q.copy()).log()))
    out.append(('Q[3].matrix', lambda env: S.Quaternion([qa.copy(), qb.copy(), qa[::-1].copy()]).matrix))
    out.append(('Q[2].matrix', lambda env: S.Quaternion([qb.copy(), 2 * qa]).matrix))
    out.append(('UQ[2].matrix', lambda env: S.UnitQuaternion([ref.r2q_ref(R1), ref.r2q_ref(R2)]).matrix))
    for nm, f in (('Q a*b', lambda: S.Quaternion(qa.copy()) * S.Quaternion(qb.copy())), ('inner', lambda: S.Quaternion(qa.copy()).inner(S.Quaternion(qb.copy()))),
                  ('UQ.dot', lambda: S.UnitQuaternion(R1.copy()).dot([1.0, 2, 3])), ('UQ.dotb', lambda: S.UnitQuaternion(R1.copy()).dotb([1.0, 2, 3])),
                  ('UQ**-2', lambda: S.UnitQuaternion(R1.copy()) ** -2), ('UQ**2', lambda: S.UnitQuaternion(R1.copy()) ** 2), ('vvmul', lambda: b.vvmul([0.1, 0.2, 0.3], [-0.2, 0.1, 0.4])),
                  ('DQ a*b', lambda: (S.DualQuaternion(S.Quaternion(qa.copy()), S.Quaternion(qb.copy())) * S.DualQuaternion(S.Quaternion(qb.copy()), S.Quaternion(qa.copy()))).vec),
                  ('DQ.norm', lambda: S.DualQuaternion(S.Quaternion(qa.copy()), S.Quaternion(qb.copy())).norm())):
        out.append((nm, lambda env, f=f: f()))
    return out


def C13():
    S, b = _sm(), _b()
    out = []
    for vn, T in (('T1', T1), ('T2', T2), ('Rot-only', ref.rt(R1, (0.0, 0, 0)))):
        out.append(('tr2jac(%s)' % vn, lambda env, T=T: b.tr2jac(T.copy())))
        out.append(('tr2jac(%s, True)' % vn, lambda env, T=T: b.tr2jac(T.copy(), True)))
        out.append(('SE3(%s).jacob' % vn, lambda env, T=T: S.SE3(T.copy()).jacob()))
        out.append(('SE3(%s).Ad' % vn, lambda env, T=T: S.SE3(T.copy()).Ad()))
        out.append(('tr2delta(%s)' % vn, lambda env, T=T: b.tr2delta(np.eye(4), ref.rt(ref.rotx(1e-4), 1e-4 * T[:3, 3]))))
    for vn, v in (('a', S6a), ('b', S6b)):
        out.append(('Twist3(%s).ad' % vn, lambda env, v=v: S.Twist3(v.copy()).ad()))
        out.append(('Twist3(%s).Ad' % vn, lambda env, v=v: S.Twist3(v.copy()).Ad()))
        out.append(('skewa(%s)' % vn, lambda env, v=v: b.skewa(v.copy())))
        out.append(('vexa(skewa(%s))' % vn, lambda env, v=v: b.vexa(ref.skewa(v))))
        out.append(('delta2tr(%s)' % vn, lambda env, v=v: b.delta2tr(1e-4 * v)))
    for nm, f in (('skew(v3)', lambda: b.skew([0.3, -0.4, 0.5])), ('skew(int)', lambda: b.skew([1, 2, 3])), ('skewa(int)', lambda: b.skewa([1, 2, 3, 4, 5, 6])), ('vex', lambda: b.vex(ref.skew([0.3, -0.4, 0.5]))),
                  ('unitvec(1e-8)', lambda: b.unitvec(np.array([1e-8, -2e-8, 0.5e-8]))), ('unitvec(1)', lambda: b.unitvec(np.array([1.0, -2.0, 0.5]))), ('norm', lambda: b.norm(np.array([1.0, -2.0, 0.5]))),
                  ('skewa(v3)', lambda: b.skewa([1.0, 2, 0.3])), ('vexa(se2)', lambda: b.vexa(ref.skewa([1.0, 2, 0.3])))):
        out.append((nm, lambda env, f=f: f()))
    return out


def C14():
    S, b = _sm(), _b()
    out = []
    N3 = T1 + 1e-9 * np.arange(16.0).reshape(4, 4)
    N3b = T2 - 1e-7 * np.arange(16.0).reshape(4, 4)
    for vn, T in (('N3', N3), ('N3b', N3b)):
        out.append(('trnorm(%s)' % vn, lambda env, T=T: b.trnorm(T.copy())))
        out.append(('trnorm(buf=%s)' % vn, lambda env, T=T: b.trnorm(buf(env, 'T', T))))
        out.append(('trnorm(R %s)' % vn, lambda env, T=T: b.trnorm(T[:3, :3].copy())))
        out.append(('SE3(%s).norm' % vn, lambda env, T=T: S.SE3(T.copy(), check=False).norm()))
    for nm, f in (('trnorm2', lambda: b.trnorm2(t2 + 1e-9)), ('SE2.norm', lambda: S.SE2(t2 + 1e-9, check=False).norm()), ('UQ(v)', lambda: S.UnitQuaternion([1.0, 2, 3, 4])),
                  ('UQ(v,norm=False).unit', lambda: S.UnitQuaternion([1.0, 2, 3, 4], norm=False, check=False).unit()), ('Q.unit', lambda: S.Quaternion([1.0, 2, 3, 4]).unit()),
                  ('base.unit', lambda: b.unit([1.0, 2, 3, 4])), ('unitvec', lambda: b.unitvec([1.0, 2, 3])), ('unittwist', lambda: b.unittwist(S6a.copy())),
                  ('unittwist(v only)', lambda: b.unittwist([1.0, 2, 3, 0, 0, 0])), ('unittwist2', lambda: b.unittwist2([1.0, 2, 0.5])), ('Twist3.unit', lambda: S.Twist3(S6a.copy()).unit().S),
                  ('Twist2[3].unit', lambda: [x.S for x in S.Twist2([[1.0, 2, 0], [3.0, -1, 0], [1.0, 1, 0.5]]).unit]), ('Twist2.unit', lambda: S.Twist2([1.0, 2, 0.5]).unit.S),
                  ('angdiff', lambda: b.angdiff(3.0, -3.0)), ('wrap', lambda: b.angdiff(7.0))):
        out.append((nm, lambda env, f=f: f()))
    return out


def C15():
    S, b = _sm(), _b()
    out = []
    for u in ('degrees', 'Deg', 'grad'):
        out.append(('SO2.theta(%s)' % u, lambda env, u=u: S.SO2(0.3).theta(u)))
        out.append(('SE2.theta(%s)' % u, lambda env, u=u: S.SE2(1, 2, 0.3).theta(u)))
        out.append(('SO3.rpy(%s)' % u, lambda env, u=u: S.SO3(R1.copy()).rpy(unit=u)))
        out.append(('tr2rpy(%s)' % u, lambda env, u=u: b.tr2rpy(R1.copy(), unit=u)))
        for nm, f in (('rot2', lambda u: b.rot2(30, u)), ('rotx', lambda u: b.rotx(30, u)), ('rpy2r', lambda u: b.rpy2r(10, 20, 30, unit=u)), ('SO2', lambda u: S.SO2(30, unit=u)),
                      ('SE3.Rx', lambda u: S.SE3.Rx(30, u)), ('getunit', lambda u: b.getunit(30, u)), ('angvec2r', lambda u: b.angvec2r(30, [1, 0, 0], unit=u)),
                      ('UQ.Ry', lambda u: S.UnitQuaternion.Ry(30, u)), ('Twist3.exp', lambda u: S.Twist3(U6.copy()).exp(30, u))):
            out.append(('%s(30, %s)' % (nm, u), lambda env, f=f, u=u: f(u)))
    for u in ('rad', 'deg'):
        for nm, f in (('rot2', lambda u: b.rot2(30, u)), ('rotx', lambda u: b.rotx(30, u)), ('SO2.theta', lambda u: S.SO2(0.3).theta(u)), ('getunit', lambda u: b.getunit([30, 60], u)),
                      ('tr2rpy', lambda u: b.tr2rpy(R1.copy(), unit=u)), ('getvector', lambda u: b.getvector([1, 2, 3], 3))):
            out.append(('%s(%s)' % (nm, u), lambda env, f=f, u=u: f(u)))
    for nm, f in (('angvec2r(zeros4)', lambda: b.angvec2r(0.3, [0, 0, 0, 0])), ('angvec2r([])', lambda: b.angvec2r(0.3, [])), ('getvector(4 for 3)', lambda: b.getvector([1, 2, 3, 4], 3))):
        out.append((nm, lambda env, f=f: f()))
    return out


def C16():
    import sympy
    S, b = _sm(), _b()
    a, x, y, z = sympy.symbols('a x y z', real=True)
    out = []
    for nm, f in (('trinv(num)', lambda: b.trinv(T1.copy())), ('trinv(sym)', lambda: b.trinv(b.trotx(a, t=[x, 2, z]))), ('SE3.inv(num)', lambda: S.SE3(T1.copy()).inv()),
                  ('SE3.inv(sym)', lambda: S.SE3.Rx(a).inv()), ('SE3/SE3(num)', lambda: S.SE3(T1.copy()) / S.SE3(T2.copy())), ('SE3/SE3(sym)', lambda: S.SE3.Rx(a) / S.SE3.Ry(x)),
                  ('trinv(int)', lambda: b.trinv(np.array([[0, -1, 0, 1], [1, 0, 0, 2], [0, 0, 1, 3], [0, 0, 0, 1]]))), ('trinv2(num)', lambda: b.trinv2(t1.copy())), ('trinv2(sym)', lambda: b.trinv2(b.trot2(a, t=[x, y]))),
                  ('skewa(num)', lambda: b.skewa(S6a.copy())), ('skewa(sym)', lambda: b.skewa([x, y, z, a, 0, 1])), ('skewa(sym t, num w)', lambda: b.skewa([x, y, z, 0, 0, 0.1])),
                  ('skewa(int)', lambda: b.skewa([1, 2, 3, 4, 5, 6])), ('skew(num)', lambda: b.skew([0.3, -0.4, 0.5])), ('skew(sym)', lambda: b.skew([x, y, 2])),
                  ('rotx(num)', lambda: b.rotx(0.3)), ('rotx(sym)', lambda: b.rotx(a)), ('rotx(int)', lambda: b.rotx(1)), ('trotx(sym,t)', lambda: b.trotx(a, t=[1, 2, 3])),
                  ('SE3*SE3(num)', lambda: S.SE3(T1.copy()) * S.SE3(T2.copy())), ('SE3*SE3(sym)', lambda: S.SE3.Rx(a) * S.SE3.Ry(x)), ('SE3*p(num)', lambda: S.SE3(T1.copy()) * p3.copy()),
                  ('SE3*p(sym)', lambda: S.SE3.Rx(a) * np.array([x, 2, 3], dtype=object)), ('SE3*P(sym)', lambda: S.SE3.Rx(a) * np.array([[x, 1], [2, y], [3, 4]], dtype=object)),
                  ('SE3*P(num)', lambda: S.SE3(T1.copy()) * P3.copy()), ('det(num)', lambda: b.det(R1.copy())), ('det(sym)', lambda: b.det(np.array([[x, y], [2, a]], dtype=object))),
                  ('cross(num)', lambda: b.cross([1.0, 2, 3], [3.0, 2, 1])), ('cross(sym)', lambda: b.cross([x, 2, 3], [3, y, 1])), ('cross(int)', lambda: b.cross([1, 2, 3], [3, 2, 1])),
                  ('norm(sym)', lambda: b.norm(np.array([x, y, 2], dtype=object))), ('norm(num)', lambda: b.norm(np.array([1.0, 2, 2]))), ('tr2delta(sym)', lambda: b.tr2delta(b.trotx(a), b.troty(x))),
                  ('tr2delta(num)', lambda: b.tr2delta(T1.copy(), T1n.copy())), ('SE2(sym).inv', lambda: S.SE2(x, y, a).inv()), ('SE2(num).inv', lambda: S.SE2(1, 2, 0.3).inv()),
                  ('delta2tr(sym)', lambda: b.delta2tr([x, 0, 0, 0, 0.002, 0])), ('delta2tr(num)', lambda: b.delta2tr([0.001, 0, 0, 0, 0.002, 0]))):
        out.append((nm, lambda env, f=f: f()))
    return out


def C18():
    S = _sm()
    out = []

    def both(order, query):
        def f(env):
            objs = {}
            for k in order:
                objs[k] = S.Twist3.Revolute([0, 0, 1], [1, 2, 0]) if k == 'R' else (S.Twist3.Prismatic([0, 1, 0]) if k == 'P' else S.Twist3([1.0, 2, 3, 0, 0, 0.5]))
            o = objs[query]
            return [bool(o.isprismatic), bool(o.isrevolute), o.S]
        return f
    for order in ('RP', 'PR', 'RPG', 'PRG', 'GRP'):
        for q in order:
            out.append(('build %s, query %s' % (order, q), both(order, q)))
    for nm, f in (('Revolute.exp(0.7)', lambda: S.Twist3.Revolute([0, 0, 1], [1, 2, 0]).exp(0.7)), ('Revolute.exp([6 values])', lambda: S.Twist3.Revolute([0, 0, 1], [1, 2, 0]).exp([0.1, 0.2, 0.3, 0.4, 0.5, 0.6])),
                  ('Revolute.exp([3 values])', lambda: S.Twist3.Revolute([0, 0, 1], [1, 2, 0]).exp([0.1, 0.2, 0.3])), ('Prismatic.exp(0.7)', lambda: S.Twist3.Prismatic([0, 1, 0]).exp(0.7)),
                  ('Revolute.pitch', lambda: S.Twist3.Revolute([0, 0, 1], [1, 2, 0]).pitch()), ('Revolute.pole', lambda: S.Twist3.Revolute([0, 0, 1], [1, 2, 0]).pole()),
                  ('Revolute.line', lambda: S.Twist3.Revolute([0, 0, 1], [1, 2, 0]).line().vec), ('Revolute.theta', lambda: S.Twist3.Revolute([0, 0, 1], [1, 2, 0]).theta()),
                  ('Twist2.Revolute.exp', lambda: S.Twist2.Revolute([1, 2]).exp(0.7)), ('Twist2.Prismatic.exp', lambda: S.Twist2.Prismatic([0, 1]).exp(0.7)),
                  ('Twist2.Prismatic.isprismatic', lambda: bool(S.Twist2.Prismatic([0, 1]).isprismatic)), ('Twist2.Revolute.isprismatic', lambda: bool(S.Twist2.Revolute([1, 2]).isprismatic)),
                  ('Revolute*2 .exp', lambda: (S.Twist3.Revolute([0, 0, 1], [1, 2, 0]) * 0.35).exp()), ('Revolute.inv.isprismatic', lambda: bool(S.Twist3.Revolute([0, 0, 1], [1, 2, 0]).inv().isprismatic))):
        out.append((nm, lambda env, f=f: f()))
    return out


def C19():
    S = _sm()
    out = []
    L = lambda: S.Plucker.PQ([1.0, 2, 3], [4.0, 6, 9])
    M = lambda: S.Plucker.PointDir([0.5, -1.0, 2.0], [0.0, 1.0, -1.0])
    for vn, T in (('T1', T1), ('T1-near', T1n), ('T2', T2), ('I', np.eye(4)), ('I-near', ref.rt(np.eye(3), (4e-8, 0, 0)))):
        out.append(('SE3(%s)*L' % vn, lambda env, T=T: (S.SE3(T.copy()) * L()).vec))
        out.append(('SE3(buf=%s)*L' % vn, lambda env, T=T: (S.SE3(buf(env, 'T', T), check=False) * L()).vec))
    for nm, f in (('L.contains(p)', lambda: L().contains([4.0, 6, 9])), ('L.contains(P)', lambda: L().contains(np.array([[1.0, 4, 0], [2.0, 6, 0], [3.0, 9, 1]]))),
                  ('L.closest', lambda: L().closest([1.0, 0, 0])), ('L.distance(M)', lambda: L().distance(M())), ('M.distance(L)', lambda: M().distance(L())),
                  ('L.commonperp(M)', lambda: L().commonperp(M()).vec), ('L^M', lambda: L() ^ M()), ('L|M', lambda: L() | M()), ('L==L', lambda: L() == L()),
                  ('L.intersect_plane', lambda: L().intersect_plane(S.Plane.PN([0.0, 0, 1], [0.0, 0, 1]))), ('PQ far close pair', lambda: S.Plucker.PQ([1000.0, 1000, 1000], [1000.0, 1000, 1000.005]).vec),
                  ('PQ near origin', lambda: S.Plucker.PQ([0.0, 0, 0], [0.0, 0, 1e-3]).vec), ('Planes', lambda: S.Plucker.Planes(S.Plane.PN([0.0, 0, 1], [0.0, 0, 1]), S.Plane.PN([1.0, 0, 0], [1.0, 0, 0])).vec),
                  ('L.pp', lambda: L().pp), ('L.uw', lambda: L().uw), ('L.point', lambda: L().point(2.0))):
        out.append((nm, lambda env, f=f: f()))
    return out


def C20():
    S = _sm()
    out = []
    vf, vi = np.array([0.1, -0.2, 0.3, 0.4, 37.5, -0.6]), np.array([1, 2, 3, 4, 5, 6])
    af = np.array([0.5, 1.5, -2.5, 0.25, 0.75, -1.25])
    I1 = lambda: S.SpatialInertia(2.0, [0.1, 0.2, 0.3], np.diag([1.0, 2.0, 3.0]))
    for vn, v in (('float', vf), ('int', vi), ('float32', vf.astype('float32'))):
        out.append(('V(%s) x A' % vn, lambda env, v=v: S.SpatialVelocity(v.copy()).cross(S.SpatialAcceleration(af.copy())).A))
        out.append(('V(%s) x F' % vn, lambda env, v=v: S.SpatialVelocity(v.copy()).cross(S.SpatialForce(af.copy())).A))
        out.append(('V(%s) @ A' % vn, lambda env, v=v: (S.SpatialVelocity(v.copy()) @ S.SpatialAcceleration(af.copy())).A))
        out.append(('I * A(%s)' % vn, lambda env, v=v: (I1() * S.SpatialAcceleration(v.copy())).A))
        out.append(('SE3 * V(%s)' % vn, lambda env, v=v: (S.SE3(T1.copy()) * S.SpatialVelocity(v.copy())).A))
        out.append(('SE3 * F(%s)' % vn, lambda env, v=v: (S.SE3(T1.copy()) * S.SpatialForce(v.copy())).A))
        out.append(('V(%s)+V' % vn, lambda env, v=v: (S.SpatialVelocity(v.copy()) + S.SpatialVelocity(af.copy())).A))
    for nm, f in (('I+I', lambda: (I1() + I1()).A), ('I(m,r,I)', lambda: I1().A), ('I(6x6)', lambda: S.SpatialInertia(I1().A.copy()).A), ('SE3*F[2]', lambda: [x for x in (S.SE3(T1.copy()) * _multi(S.SpatialForce, [vf, af])).data]),
                  ('SE3*F[6]', lambda: [x for x in (S.SE3(T1.copy()) * _multi(S.SpatialForce, [vf, af, vf * 2, af * 2, vf * 3, af * 3])).data]),
                  ('SE3*M[2]', lambda: [x for x in (S.SE3(T1.copy()) * _multi(S.SpatialMomentum, [vf, af])).data]), ('I*V[2]', lambda: [x for x in (I1() * _multi(S.SpatialVelocity, [vf, af])).data])):
        out.append((nm, lambda env, f=f: f()))
    return out


def _multi(C, vals):
    o = C(np.asarray(vals[0], dtype=float).copy())
    o.data = [np.asarray(v, dtype=float).copy() for v in vals]
    return o


def C17():
    import io
    S, b = _sm(), _b()
    out = []

    def pr(name, T, **kw):
        def f(env):
            fo = io.StringIO()
            r = getattr(b, name)(T.copy(), file=fo, **kw)
            return [r, fo.getvalue()]
        return f

    def pl(X, **kw):
        def f(env):
            fo = io.StringIO()
            X().printline(file=fo, **kw)
            return fo.getvalue()
        return f
    KW = [{}, {'fmt': '{:.4f}'}, {'fmt': '{:.2g}', 'unit': 'rad'}, {'unit': 'rad'}, {'degsym': False}, {'orient': 'eul'}, {'orient': 'eul', 'fmt': '{:.5f}'}, {'orient': 'eul', 'degsym': False},
          {'orient': 'angvec'}, {'orient': 'angvec', 'fmt': '{:.4f}'}, {'orient': 'rpy/xyz'}, {'label': 'T'}]
    for kw in KW:
        tag = ','.join('%s=%s' % kv for kv in kw.items()) or 'default'
        out.append(('trprint(T1, %s)' % tag, pr('trprint', T1, **kw)))
        out.append(('trprint(R2, %s)' % tag, pr('trprint', R2, **kw)))
        out.append(('SE3.printline(%s)' % tag, pl(lambda: S.SE3(T1.copy()), **kw)))
    for kw in ({}, {'fmt': '{:.4f}'}, {'unit': 'rad'}, {'label': 'T'}, {'unit': 'rad', 'fmt': '{:.2g}'}):
        tag = ','.join('%s=%s' % kv for kv in kw.items()) or 'default'
        out.append(('trprint2(t1, %s)' % tag, pr('trprint2', t1, **kw)))
        out.append(('SE2.printline(%s)' % tag, pl(lambda: S.SE2(t1.copy()), **kw)))
    for nm, f in (('str(SE3)', lambda: str(S.SE3(T1.copy()))), ('str(SO2)', lambda: str(S.SO2(r1.copy()))), ('str(UQ)', lambda: str(S.UnitQuaternion(R1.copy()))), ('str(Twist3)', lambda: str(S.Twist3(S6a.copy()))),
                  ('repr(SE3)', lambda: repr(S.SE3(T1.copy()))), ('str(Plucker)', lambda: str(S.Plucker.PQ([1.0, 2, 3], [4.0, 6, 9]))), ('str(Q)', lambda: str(S.Quaternion([1.0, 2, 3, 4]))),
                  ('np.array2string', lambda: np.array2string(np.array([1.23456789, 2.0]))), ('removesmall', lambda: b.removesmall(T1 * 1e-15 + np.eye(4)))):
        out.append((nm, lambda env, f=f: f()))
    return out
