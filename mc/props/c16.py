"""
C16  Symbolic results agree with numeric results.

E1 product explorer.  For every callable whose docstring says ':SymPy: supported' (found by
reflection, every one must have a descriptor below or it is listed in the evidence) and for the
pose-class operators  *  inv()  pose x point  on symbolic pose objects, enumerate

    call form  x  non-empty subset of the scalar slots made symbolic  x  substitution point

where a *slot* is one scalar the call is built from (an angle, one component of a vector
argument, one parameter of a matrix argument), a *call form* is one way the numeric path can be
called (scalar triple / packed list / tuple / ndarray / keyword t= / unit='deg' / matrix built
by the harness or by another supported constructor ...) and a *point* is one element of the full
Cartesian product of the per-group letter sets (angle ladder with the special angles, magnitude
ladder for lengths).  For every case

  1. the numeric call at the point is made; when it raises the numeric path does not accept the
     form there and the case is skipped (recorded as a cell, never a violation);
  2. the same call is made with the chosen slots replaced by fresh real SymPy symbols and the
     other slots holding the point's numbers; an exception is a violation ("accepts the same
     call forms as the numeric path");
  3. every entry of the symbolic result is evaluated by substituting symbol -> Float(value, 40)
     (the exact binary value of the float) and evaluating to 30 digits, and compared with the
     numeric result to 1e-12 * scale (scale = 1 for O(1) entries, the magnitude of the lengths /
     of the numeric result otherwise).  The bulk evaluation is N(e, 30, subs=...), ~6x faster than
     rebuilding the expression; every disagreement is re-evaluated with plain e.subs(...) followed
     by N(., 30) and only reported when that confirms it;
  4. entries that are exactly 0 (exactly 1) in the numeric result at ALL points of the form and at
     five all-generic probe points must be an exact zero (one) in the symbolic result: a Python /
     NumPy / SymPy integer or float whose value is 0 (1).  An expression or a 1e-17 residue is
     not.  (SymPy >= 1.13 has Float(1.0) != Integer(1): exactness is therefore decided on the
     value of a Number, never with ==.  That change is also why the repository's own
     test_symbolic::test_constants/test_functions fail on this tree, and why SMPose.simplify's
     Float 1.00000000000000 in the bottom row has to count as an exact one.)

Nothing is cached between cases: the symbols, the symbolic call, the numeric call and the
substitution are redone for every case.  params of a violation: func, form, symbolic (bit per
slot), point, nsym, allsym, unit (rad|deg) and sym_<group> = none|some|all per argument group
(th = angle, t = translation, a b c = angle triple, ...), check = call|type|shape|value|exact0|exact1.
Form names never contain ',' or blanks ('+' joins the options of a form).
"""
import math, itertools, inspect, re
import numpy as np
import sympy
from mc import alph
from mc.core import call, HarnessError

PROP = 'C16'
LEVEL = 'exploration'
RULE = ('every callable tagged ":SymPy: supported" (reflection over spatialmath.base, SO2 SE2 SO3 SE3 Twist3) and '
        'the pose operators * / inv() / pose x point: every call form the numeric path accepts x every non-empty '
        'subset of scalar slots made symbolic (all 2^k-1 subsets for k<=4 slots, a declared family of argument-level '
        'and single-slot subsets above that in the quick tier, all subsets in the thorough tier up to k=6) x the '
        'full product of the per-group letter sets (angles: 0, +-pi/2, pi, 1e-6 and generic; lengths: zero, a '
        'coordinate axis and generic directions at 1e-6..1e6); a case is trivial when every slot value is 0; '
        'distinct = distinct (callable, form, symbolic subset, point)')
ASSUME = ['SymPy N(e, 30, subs={symbol: Float(value, 40)}) / e.subs(...) followed by N(., 30) evaluate an expression to '
          'at least 25 correct digits at the exact binary value of the float (trusted: SymPy/mpmath arbitrary precision '
          'arithmetic; the two routes are used to cross-check each other on every disagreement)',
          'an entry is structural when it is exactly 0 (1) in the numeric result at every point of the form and at five '
          'all-generic probe points',
          'symbols are created real (spatialmath.base.symbolic.symbol default)',
          'matrix arguments built by the harness as object arrays holding Python int 0/1, floats and SymPy '
          'expressions are the same call form as the arrays the supported constructors return (checked: forms '
          'lib:* build the same arguments with the library constructors)',
          'tolerance 1e-12 is absolute for results of magnitude <= 1 and relative to max(|lengths|, |numeric result|) '
          'otherwise (det, cross, qpow, normsq: relative to the product of the operand magnitudes)']

ANCHORS = ([('spatialmath.base.symbolic', n) for n in ('issymbol', 'sin', 'cos', 'sqrt', 'simplify')] +
           [('spatialmath.base.argcheck', n) for n in ('isscalar', 'getvector', 'isvector', 'getunit', 'ismatrix')] +
           [('spatialmath.base.transformsNd', n) for n in ('r2t', 't2r', 'tr2rt', 'skew', 'skewa', 'vex', 'vexa', 'det',
                                                           'e2h', 'h2e')] +
           [('spatialmath.base.transforms3d', n) for n in ('rotx', 'roty', 'rotz', 'trotx', 'troty', 'trotz', 'transl',
                                                           'eul2r', 'eul2tr', 'rpy2r', 'rpy2tr', 'delta2tr', 'trinv',
                                                           'tr2delta', 'tr2jac', 'adjoint')] +
           [('spatialmath.base.transforms2d', n) for n in ('trinv2', 'trot2', 'rot2')] +
           [('spatialmath.base.vectors', n) for n in ('norm', 'normsq', 'cross')] +
           [('spatialmath.base.quaternions', n) for n in ('qpow', 'conj')] +
           [('spatialmath.super_pose', 'SMPose.simplify'), ('spatialmath.super_pose', 'SMPose.__mul__'),
            ('spatialmath.super_pose', 'SMPose._op2')] +
           [('spatialmath.pose3d', 'SO3.' + n) for n in ('__init__', 'R', 'inv')] +
           [('spatialmath.pose3d', 'SE3.' + n) for n in ('__init__', 't', 'inv', 'Ad', 'jacob', 'Delta', 'Eul', 'RPY',
                                                        'Rx', 'Ry', 'Rz', 'Tx', 'Ty', 'Tz')] +
           [('spatialmath.pose2d', 'SO2.inv'), ('spatialmath.pose2d', 'SE2.inv')] +
           [('spatialmath.twist', 'Twist3.' + n) for n in ('Rx', 'Ry', 'Rz')])

PI = math.pi
TOL = 1e-12


# --------------------------------------------------------------------------- small helpers

def is_sym(v):
    return isinstance(v, sympy.Basic)


def _sin(v):
    return sympy.sin(v) if is_sym(v) else math.sin(v)


def _cos(v):
    return sympy.cos(v) if is_sym(v) else math.cos(v)


def mat(rows):
    """harness-built matrix: object array when any entry is symbolic, float array otherwise"""
    if any(is_sym(e) for r in rows for e in r):
        return np.array(rows, dtype=object)
    return np.array(rows, dtype=float)


def h_rot2(th):
    c, s = _cos(th), _sin(th)
    return mat([[c, -s], [s, c]])


def h_T2(th, x, y):
    c, s = _cos(th), _sin(th)
    return mat([[c, -s, x], [s, c, y], [0, 0, 1]])


def h_Rx(th):
    c, s = _cos(th), _sin(th)
    return mat([[1, 0, 0], [0, c, -s], [0, s, c]])


def h_RzRy(a, b):
    ca, sa, cb, sb = _cos(a), _sin(a), _cos(b), _sin(b)
    return mat([[ca * cb, -sa, ca * sb], [sa * cb, ca, sa * sb], [-sb, 0, cb]])


def h_T(R, t):
    rows = [list(R[i]) + [t[i]] for i in range(3)] + [[0, 0, 0, 1]]
    return mat(rows)


def h_TRx(th, x, y, z):
    return h_T(h_Rx(th), (x, y, z))


def h_TRzRy(a, b, x, y, z):
    return h_T(h_RzRy(a, b), (x, y, z))


def h_TmdI(a, b, d):
    T = h_TRzRy(a, b, 1.0, 2.0, 3.0)
    return mat([[T[i][j] - (d if i == j else 0) for j in range(4)] for i in range(4)])


def h_skew3(x, y, z):
    return mat([[0, -z, y], [z, 0, -x], [-y, x, 0]])


def h_skew1(w):
    return mat([[0, -w], [w, 0]])


def h_skewa6(v):
    x, y, z, a, b, c = v
    return mat([[0, -c, b, x], [c, 0, -a, y], [-b, a, 0, z], [0, 0, 0, 0]])


def h_skewa3(x, y, w):
    return mat([[0, -w, x], [w, 0, y], [0, 0, 0]])


CONT = {
    'list': lambda v: list(v),
    'tuple': lambda v: tuple(v),
    'array': lambda v: np.array(list(v)),                       # dtype object as soon as one entry is a symbol
    'row': lambda v: np.array(list(v)).reshape(1, -1),
    'col': lambda v: np.array(list(v)).reshape(-1, 1),
}


def containers(tier):
    return ['list', 'tuple', 'array'] if tier == 'quick' else ['list', 'tuple', 'array', 'row', 'col']


class Prep(Exception):
    """a library call made while preparing the operands of a case raised (not the call under test)"""


def prep(f, *a, **k):
    try:
        return f(*a, **k)
    except HarnessError:
        raise
    except Exception as e:
        raise Prep('%s: %s' % (type(e).__name__, e))


# --------------------------------------------------------------------------- alphabets (groups of slots)

class Group:
    """a group of slots that take their values together from one letter set"""

    def __init__(self, name, kind, nslots, letters):
        self.name, self.kind, self.n, self.letters = name, kind, nslots, letters
        for ln, v in letters:
            if len(v) != nslots:
                raise HarnessError('letter %s of group %s has %d values' % (ln, name, len(v)))


DEG = {'0': 0.0, 'pi/2': 90.0, '-pi/2': -90.0, 'pi': 180.0, '-pi': -180.0, '2pi': 360.0}


class Alph:
    def __init__(self, tier, seed):
        self.tier, self.seed = tier, seed
        q = tier == 'quick'
        land = [('0', 0.0), ('pi/2', PI / 2), ('-pi/2', -PI / 2), ('pi', PI), ('1e-6', 1e-6)]
        if not q:
            land += [('-pi', -PI), ('2pi', 2 * PI), ('-1e-6', -1e-6), ('1e-9', 1e-9), ('1e-3', 1e-3),
                     ('pi/2+1e-6', PI / 2 + 1e-6), ('pi-1e-6', PI - 1e-6)]
        self.a1 = land + alph.pick(alph.G_ANGLES, tier, seed, 4)
        # triples of angles: full cube, so a shorter ladder (generic letters from the first 6 of the pool)
        land3 = land[:5] + ([] if q else [('-pi', -PI), ('2pi', 2 * PI)])
        self.a3 = land3 + alph.pick(alph.G_ANGLES[:6], tier, seed, 1)
        # two angles + more (matrix builders)
        self.a2 = land[:5] + alph.pick(alph.G_ANGLES[:6], tier, seed, 2)
        mags = [10.0 ** k for k in ((-6, -3, 0, 3, 6) if q else range(-6, 7))]
        self.mags = mags
        gv = alph.pick(alph.G_VEC3[:6], tier, seed, 2)
        self.v3 = [('0', (0.0, 0.0, 0.0)), ('ex', (1.0, 0.0, 0.0)), ('-2.5ex', (-2.5, 0.0, 0.0)), ('-ey', (0.0, -1.0, 0.0))]      # single NEGATIVE components: sqrt(x**2) is |x|
        for gn, g in gv:
            for m in mags:
                self.v3.append(('%s*1e%d' % (gn, round(math.log10(m))), tuple(float(c) * m for c in g)))
        if not q:
            self.v3 += [('-ez*1e6', (0.0, 0.0, -1e6)), ('ey', (0.0, 1.0, 0.0))]
        self.v2 = [(n, v[:2]) for n, v in self.v3 if n != '-ez*1e6']
        # short vector alphabet for forms with two vector groups
        self.v3s = [l for l in self.v3 if l[0] in ('0', 'ex', '-2.5ex') or l[0].endswith('*1e0') or l[0].endswith('*1e6')
                    or l[0].endswith('*1e-6')]
        if q:
            self.v3s = [l for i, l in enumerate(self.v3s) if i < 3 or l[0].startswith(gv[0][0] + '*') or l[0].endswith('*1e0')]
        self.len1 = [('0', (0.0,)), ('1e-6', (1e-6,)), ('1', (1.0,)), ('g', (-2.5,)), ('1e6', (1e6,))]
        self.len1s = list(self.len1)
        if not q:
            self.len1s += [('-1e6', (-1e6,)), ('1e-3', (1e-3,)), ('1e3', (1e3,))]
            self.len1 += [('1e%d' % k, (10.0 ** k,)) for k in (-5, -4, -3, -2, -1, 1, 2, 3, 4, 5)] + [('-1e6', (-1e6,)), ('g2', (0.37,))]
        # small differential motions for SE3.Delta (the numeric path only accepts |d| < ~1e-7)
        self.tiny3 = [('0', (0.0, 0.0, 0.0)), ('g*1e-9', (1e-9, -2e-9, 0.5e-9)), ('g*1e-6', (1e-6, 2e-6, -3e-6)), ('g*1e0', (1.0, 2.0, 3.0))]
        # quaternion components
        gq = [(1.0, 2.0, 3.0, 4.0), (0.5, -0.5, 0.5, 0.5), (-2.0, 1.0, 0.5, 0.3), (0.9, 0.1, -0.3, 0.2)]
        self.q4 = [('0', (0.0, 0.0, 0.0, 0.0)), ('1', (1.0, 0.0, 0.0, 0.0)), ('k', (0.0, 0.0, 0.0, 1.0))]
        for i, g in enumerate(gq if not q else gq[:2]):
            for m in ((1e-3, 1.0, 1e3) if q else (1e-6, 1e-3, 1.0, 1e3, 1e6)):
                self.q4.append(('q%d*1e%d' % (i, round(math.log10(m))), tuple(c * m for c in g)))
        # operands for binary forms: (angle, angle2, tx, ty, tz)
        # (fixed letters, independent of the seed, so that the thorough tier contains every quick tier)
        g0, g1 = alph.G_VEC3[0], alph.G_VEC3[1]
        A = alph.G_ANGLES[:6]
        self.op5 = [('I', (0.0, 0.0, 0.0, 0.0, 0.0)),
                    ('q+ex', (PI / 2, 0.0, 1.0, 0.0, 0.0)),
                    ('g', (A[0], A[1], float(g0[0]), float(g0[1]), float(g0[2]))),
                    ('G*1e6', (A[1], -A[0], 1e6 * g1[0], 1e6 * g1[1], 1e6 * g1[2])),
                    ('s*1e-6', (1e-6, PI, 1e-6 * g0[0], 1e-6 * g0[1], 1e-6 * g0[2]))]
        if not q:
            self.op5 += [('h', (PI, -PI / 2, 0.0, 1e3, 0.0)), ('g3', (A[2], A[3], float(g1[0]), float(g1[1]), float(g1[2]))),
                         ('g4*1e3', (A[4], A[5], 1e3 * g0[0], 1e3 * g0[1], 1e3 * g0[2]))]
        self.op3 = [(n, (v[0], v[2], v[3])) for n, v in self.op5]        # 2-D operand: (angle, tx, ty)
        self.ang3rows = [('0', (0.0, 0.0, 0.0)), ('sp', (PI / 2, PI, -PI / 2)), ('g', (A[0], A[1], -A[0] / 2)), ('s', (1e-6, A[1], PI))]

    # group constructors
    def ang(self, name, which='a1'):
        return Group(name, 'ang', 1, [(n, (v,)) for n, v in getattr(self, which)])

    def angdeg(self, name, which='a1'):
        return Group(name, 'ang', 1, [(n, (DEG.get(n, math.degrees(v)),)) for n, v in getattr(self, which)])

    def vec3(self, name, short=False):
        return Group(name, 'len', 3, self.v3s if short else self.v3)

    def vec2(self, name):
        return Group(name, 'len', 2, self.v2)

    def len(self, name, short=False):
        return Group(name, 'len', 1, self.len1s if short else self.len1)

    def quat(self, name):
        return Group(name, 'len', 4, self.q4)

    def op(self, name, n=5):
        return Group(name, 'mix', n, self.op5 if n == 5 else self.op3)


def allsubsets(k):
    return [''.join(b) for b in itertools.product('01', repeat=k) if '1' in b]


def family(k, blocks):
    """declared family for k > 4 slots: everything, each argument-level block, each single slot,
    each complement of a single slot"""
    out = ['1' * k]
    for lo, hi in blocks:
        out.append(''.join('1' if lo <= i < hi else '0' for i in range(k)))
    for i in range(k):
        out.append(''.join('1' if j == i else '0' for j in range(k)))
        out.append(''.join('0' if j == i else '1' for j in range(k)))
    seen, res = set(), []
    for s in out:
        if s not in seen and '1' in s:
            seen.add(s)
            res.append(s)
    return res


class Form:
    def __init__(self, func, name, groups, build, subsets=None, scale=None, blocks=None, tier='quick', weight=1.0):
        # form names appear in known_findings where= clauses, which are split at ',' and white space
        name = name.replace(',', '+')
        self.func, self.name, self.groups, self.build = func, name, groups, build
        self.unit = 'deg' if any(t in ('deg', 'deg_kw') for t in re.split(r'[+:]', name)) else 'rad'
        self.k = sum(g.n for g in groups)
        self.kinds = [g.kind for g in groups for _ in range(g.n)]
        if subsets is None:
            if self.k <= 4 or (tier != 'quick' and self.k <= 6):
                subsets = allsubsets(self.k)
            else:
                if blocks is None:
                    blocks, lo = [], 0
                    for g in groups:
                        blocks.append((lo, lo + g.n))
                        lo += g.n
                subsets = family(self.k, blocks)
        for s in subsets:
            if len(s) != self.k or '1' not in s:
                raise HarnessError('bad subset %r for %s/%s' % (s, func, name))
        self.subsets = subsets
        self.scale = scale
        self.weight = weight

    def points(self):
        for combo in itertools.product(*[g.letters for g in self.groups]):
            yield ';'.join(l[0] for l in combo), tuple(v for l in combo for v in l[1])

    def npoints(self):
        n = 1
        for g in self.groups:
            n *= len(g.letters)
        return n


# --------------------------------------------------------------------------- the catalogue of call forms

def catalogue(tier, seed):
    import spatialmath as sm
    from spatialmath import base
    A = Alph(tier, seed)
    F = []
    conts = containers(tier)

    # measured CPU ms per case (only used to balance the shards)
    W = {'SE3.RPY': 2.6, 'base.eul2tr': 2.0, 'base.eul2r': 2.0, 'SE3.Eul': 2.7, 'base.tr2jac': 2.4, 'SE3.__mul__': 2.0,
         'SE3.Ad': 3.7, 'base.det': 0.6, 'base.trinv': 1.5, 'base.tr2delta': 1.7, 'SE3.inv': 1.5, 'base.qpow': 1.5,
         'SO3.__mul__': 2.0, 'SE2.__mul__': 1.5, 'sym.sin': 0.1, 'sym.cos': 0.1, 'sym.sqrt': 0.1, 'base.trinv2': 1.0, 'base.cross': 0.6}

    def add(func, name, groups, build, **kw):
        kw.setdefault('weight', W.get(func, 0.4))
        F.append(Form(func, name, groups, build, tier=tier, **kw))

    def lenscale(power):
        def sc(vals, kinds, num):
            m = max([abs(v) for v, kd in zip(vals, kinds) if kd != 'ang'] + [1.0])
            return max(1.0, m ** power)
        return sc

    # ---- rotx roty rotz / trotx troty trotz / SE3.Rx Ry Rz / Twist3.Rx Ry Rz
    for ax in 'xyz':
        f = getattr(base, 'rot' + ax)
        add('base.rot' + ax, 'rad', [A.ang('th')], lambda v, f=f: (lambda: f(v[0])))
        add('base.rot' + ax, 'rad_explicit', [A.ang('th')], lambda v, f=f: (lambda: f(v[0], 'rad')))
        add('base.rot' + ax, 'deg', [A.angdeg('th')], lambda v, f=f: (lambda: f(v[0], 'deg')))
        add('base.rot' + ax, 'deg_kw', [A.angdeg('th')], lambda v, f=f: (lambda: f(v[0], unit='deg')))
        for owner, g in (('base.trot' + ax, getattr(base, 'trot' + ax)), ('SE3.R' + ax, getattr(sm.SE3, 'R' + ax))):
            add(owner, 'rad', [A.ang('th')], lambda v, g=g: (lambda: g(v[0])))
            add(owner, 'deg', [A.angdeg('th')], lambda v, g=g: (lambda: g(v[0], 'deg')))
            for c in conts:
                add(owner, 't=' + c, [A.ang('th'), A.vec3('t')],
                    lambda v, g=g, c=c: (lambda: g(v[0], t=CONT[c](v[1:4]))))
            add(owner, 'deg,t=list', [A.angdeg('th'), A.vec3('t')], lambda v, g=g: (lambda: g(v[0], 'deg', t=list(v[1:4]))))
            add(owner, 'pos3=list', [A.ang('th'), A.vec3('t')], lambda v, g=g: (lambda: g(v[0], 'rad', list(v[1:4]))))
        g = getattr(sm.SE3, 'R' + ax)
        add('SE3.R' + ax, 'list1', [A.ang('th')], lambda v, g=g: (lambda: g([v[0]])))
        add('SE3.R' + ax, 'array1', [A.ang('th')], lambda v, g=g: (lambda: g(np.array([v[0]]))))
        add('SE3.R' + ax, 'list2', [A.ang('th0', 'a3'), A.ang('th1', 'a3')], lambda v, g=g: (lambda: g([v[0], v[1]])))
        add('SE3.R' + ax, 'list1,t=list', [A.ang('th', 'a3'), A.vec3('t', short=True)],
            lambda v, g=g: (lambda: g([v[0]], t=list(v[1:4]))))
        h = getattr(sm.Twist3, 'R' + ax)
        add('Twist3.R' + ax, 'scalar', [A.ang('th')], lambda v, h=h: (lambda: h(v[0])))
        add('Twist3.R' + ax, 'list1', [A.ang('th')], lambda v, h=h: (lambda: h([v[0]])))
        add('Twist3.R' + ax, 'array1', [A.ang('th')], lambda v, h=h: (lambda: h(np.array([v[0]]))))
        add('Twist3.R' + ax, 'deg,list1', [A.angdeg('th')], lambda v, h=h: (lambda: h([v[0]], 'deg')))
        add('Twist3.R' + ax, 'deg,array1', [A.angdeg('th')], lambda v, h=h: (lambda: h(np.array([v[0]]), unit='deg')))
        add('Twist3.R' + ax, 'list2', [A.ang('th0', 'a3'), A.ang('th1', 'a3')], lambda v, h=h: (lambda: h([v[0], v[1]])))
        tt = getattr(sm.SE3, 'T' + ax)
        add('SE3.T' + ax, 'scalar', [A.len('d')], lambda v, tt=tt: (lambda: tt(v[0])))
        add('SE3.T' + ax, 'list1', [A.len('d')], lambda v, tt=tt: (lambda: tt([v[0]])))
        add('SE3.T' + ax, 'array1', [A.len('d')], lambda v, tt=tt: (lambda: tt(np.array([v[0]]))))
        add('SE3.T' + ax, 'list2', [A.len('d0'), A.len('d1')], lambda v, tt=tt: (lambda: tt([v[0], v[1]])))

    # ---- the type-dispatching wrappers themselves (spatialmath.base.symbolic; the anchored mechanism)
    add('sym.sin', 'scalar', [A.ang('th')], lambda v: (lambda: base.sym.sin(v[0])))
    add('sym.cos', 'scalar', [A.ang('th')], lambda v: (lambda: base.sym.cos(v[0])))
    add('sym.sqrt', 'scalar', [A.len('v')], lambda v: (lambda: base.sym.sqrt(v[0])))      # negative letters: numeric raises, skipped

    # ---- transl / SE3(x,y,z)
    for owner, f in (('base.transl', base.transl), ('SE3.__init__', sm.SE3)):
        add(owner, 'xyz', [A.vec3('t')], lambda v, f=f: (lambda: f(v[0], v[1], v[2])))
        add(owner, 'xyz_kw', [A.vec3('t')], lambda v, f=f: (lambda: f(v[0], y=v[1], z=v[2])))
        for c in conts:
            add(owner, c, [A.vec3('t')], lambda v, f=f, c=c: (lambda: f(CONT[c](v))))
    mixes4 = ['1111', '1000', '0111']
    mixes5 = ['11111', '11000', '00111']
    add('base.transl', 'extract:hTRx', [A.ang('th'), A.vec3('t')], lambda v: (lambda: base.transl(h_TRx(*v))), subsets=mixes4)

    # ---- eul2r eul2tr SE3.Eul SE3.RPY
    def a3(deg):
        mk = A.angdeg if deg else A.ang
        return [mk('a', 'a3'), mk('b', 'a3'), mk('c', 'a3')]
    for nm in ('eul2r', 'eul2tr'):
        f = getattr(base, nm)
        for deg in (False, True):
            sfx = ',deg' if deg else ''
            kw = {'unit': 'deg'} if deg else {}
            add('base.' + nm, 'triple' + sfx, a3(deg), lambda v, f=f, kw=kw: (lambda: f(v[0], v[1], v[2], **kw)))
            add('base.' + nm, 'triple_kw' + sfx, a3(deg), lambda v, f=f, kw=kw: (lambda: f(v[0], theta=v[1], psi=v[2], **kw)))
            for c in conts:
                add('base.' + nm, c + sfx, a3(deg), lambda v, f=f, kw=kw, c=c: (lambda: f(CONT[c](v), **kw)))
    rows_sub = ['111111', '111000', '000111', '100100', '010010']
    rows = [Group('r0', 'ang', 3, A.ang3rows), Group('r1', 'ang', 3, A.ang3rows)]
    for deg in (False, True):
        sfx = ',deg' if deg else ''
        kw = {'unit': 'deg'} if deg else {}
        for c in conts:
            add('SE3.Eul', c + sfx, a3(deg), lambda v, kw=kw, c=c: (lambda: sm.SE3.Eul(CONT[c](v), **kw)))
        for c in conts:
            add('SE3.RPY', c + sfx, a3(deg), lambda v, kw=kw, c=c: (lambda: sm.SE3.RPY(CONT[c](v), **kw)))
        orders = ['zyx', 'xyz', 'yxz'] + ([] if tier == 'quick' else ['vehicle', 'arm', 'camera'])
        for order in orders:
            if deg and order in ('vehicle', 'arm', 'camera'):
                continue
            for c in (['list'] if (deg or order not in ('xyz', 'yxz')) else ['list', 'array']):
                add('SE3.RPY', '%s,order=%s%s' % (c, order, sfx), a3(deg),
                    lambda v, kw=kw, c=c, order=order: (lambda: sm.SE3.RPY(CONT[c](v), order=order, **kw)))
    add('SE3.Eul', 'rows2:array', rows, lambda v: (lambda: sm.SE3.Eul(np.array([list(v[:3]), list(v[3:])]))), subsets=rows_sub)
    add('SE3.Eul', 'rows2:lists', rows, lambda v: (lambda: sm.SE3.Eul([list(v[:3]), list(v[3:])])), subsets=rows_sub)
    add('SE3.RPY', 'rows2:array', rows, lambda v: (lambda: sm.SE3.RPY(np.array([list(v[:3]), list(v[3:])]))), subsets=rows_sub)
    add('SE3.RPY', 'rows2:lists', rows, lambda v: (lambda: sm.SE3.RPY([list(v[:3]), list(v[3:])])), subsets=rows_sub)
    # the same tables in degrees (the unit has to reach every row, symbolic or not)
    rows_deg = [Group('r0', 'ang', 3, [(n, tuple(math.degrees(x) for x in v)) for n, v in A.ang3rows]),
                Group('r1', 'ang', 3, [(n, tuple(math.degrees(x) for x in v)) for n, v in A.ang3rows])]
    add('SE3.Eul', 'rows2:array:deg', rows_deg, lambda v: (lambda: sm.SE3.Eul(np.array([list(v[:3]), list(v[3:])]), unit='deg')), subsets=rows_sub)
    add('SE3.Eul', 'rows2:lists:deg', rows_deg, lambda v: (lambda: sm.SE3.Eul([list(v[:3]), list(v[3:])], unit='deg')), subsets=rows_sub)
    add('SE3.RPY', 'rows2:array:deg', rows_deg, lambda v: (lambda: sm.SE3.RPY(np.array([list(v[:3]), list(v[3:])]), unit='deg')), subsets=rows_sub)
    add('SE3.RPY', 'rows2:lists:deg', rows_deg, lambda v: (lambda: sm.SE3.RPY([list(v[:3]), list(v[3:])], unit='deg')), subsets=rows_sub)

    # ---- delta2tr / SE3.Delta / skewa(6) / vexa
    d6 = lambda: [A.vec3('d', short=True), A.vec3('w', short=True)]
    for c in conts:
        add('base.delta2tr', c, d6(), lambda v, c=c: (lambda: base.delta2tr(CONT[c](v))))
        add('base.skewa', c + '6', d6(), lambda v, c=c: (lambda: base.skewa(CONT[c](v))))
        add('base.skewa', c + '3', [A.vec2('t'), A.len('w')], lambda v, c=c: (lambda: base.skewa(CONT[c](v))))
        add('base.skew', c + '3', [A.vec3('v')], lambda v, c=c: (lambda: base.skew(CONT[c](v))))
        add('base.skew', c + '1', [A.len('w')], lambda v, c=c: (lambda: base.skew(CONT[c](v))))
    add('base.skew', 'scalar', [A.len('w')], lambda v: (lambda: base.skew(v[0])))
    tiny6 = [Group('d', 'len', 3, A.tiny3), Group('w', 'len', 3, A.tiny3)]
    for c in ('list', 'array'):
        add('SE3.Delta', c, tiny6, lambda v, c=c: (lambda: sm.SE3.Delta(CONT[c](v))))
    add('base.vex', 'S3:harness', [A.vec3('v')], lambda v: (lambda: base.vex(h_skew3(*v))))
    add('base.vex', 'S3:harness,check=False', [A.vec3('v')], lambda v: (lambda: base.vex(h_skew3(*v), check=False)))
    add('base.vex', 'S2:harness', [A.len('w')], lambda v: (lambda: base.vex(h_skew1(v[0]))))
    add('base.vex', 'S3:lib:skew', [A.vec3('v')], lambda v: (lambda S=prep(base.skew, list(v)): base.vex(S)))
    add('base.vexa', 'S4:harness', d6(), lambda v: (lambda: base.vexa(h_skewa6(v))))
    add('base.vexa', 'S3:harness', [A.vec2('t'), A.len('w')], lambda v: (lambda: base.vexa(h_skewa3(*v))))
    add('base.vexa', 'S4:lib:skewa', d6(), lambda v: (lambda S=prep(base.skewa, list(v)): base.vexa(S)))

    # ---- matrix consumers: trinv trinv2 tr2delta tr2jac det
    TRx = [A.ang('th'), A.vec3('t')]
    TRzRy = lambda: [A.ang('a', 'a2'), A.ang('b', 'a2'), A.vec3('t')]
    add('base.trinv', 'hTRx', TRx, lambda v: (lambda: base.trinv(h_TRx(*v))), subsets=mixes4 + ['0100', '1011'])
    add('base.trinv', 'hTRzRy', TRzRy(), lambda v: (lambda: base.trinv(h_TRzRy(*v))), subsets=mixes5 + ['10000', '00010'])
    add('base.trinv', 'lib:trotz', TRx, lambda v: (lambda T=prep(base.trotz, v[0], t=list(v[1:4])): base.trinv(T)), subsets=mixes4)
    add('base.trinv', 'lib:transl', [A.vec3('t')], lambda v: (lambda T=prep(base.transl, list(v)): base.trinv(T)))
    T2 = lambda: [A.ang('th'), A.vec2('t')]
    add('base.trinv2', 'hT2', T2(), lambda v: (lambda: base.trinv2(h_T2(*v))))
    add('base.trinv2', 'lib:trot2', T2(), lambda v: (lambda T=prep(base.trot2, v[0], t=list(v[1:3])): base.trinv2(T)),
        subsets=['111', '100'])
    add('base.tr2delta', 'T:hTRx', TRx, lambda v: (lambda: base.tr2delta(h_TRx(*v))), subsets=mixes4)
    add('base.tr2delta', 'T:hTRzRy', TRzRy(), lambda v: (lambda: base.tr2delta(h_TRzRy(*v))), subsets=mixes5)
    bin_sub = ['1111111111', '1111100000', '0000011111', '1100011111', '1111100111']
    add('base.tr2delta', 'T0,T1', [A.op('T0'), A.op('T1')],
        lambda v: (lambda: base.tr2delta(h_TRzRy(*v[:5]), h_TRzRy(*v[5:]))), subsets=bin_sub)
    add('base.tr2delta', 'T0,T1=kw', [A.op('T0'), A.op('T1')],
        lambda v: (lambda: base.tr2delta(h_TRzRy(*v[:5]), T1=h_TRzRy(*v[5:]))), subsets=bin_sub)
    add('base.tr2delta', 'T0,T1:lib:trotx', [A.op('T0'), A.op('T1')],
        lambda v: (lambda T0=prep(base.trotx, v[0], t=list(v[2:5])), T1=prep(base.troty, v[5], t=list(v[7:10])): base.tr2delta(T0, T1)),
        subsets=['1011110111', '1011100000', '0000010111'])
    for nm, bld in (('T', lambda T: (lambda: base.tr2jac(T))), ('T,True', lambda T: (lambda: base.tr2jac(T, True))),
                    ('T,samebody=True', lambda T: (lambda: base.tr2jac(T, samebody=True))),
                    ('T,samebody=False', lambda T: (lambda: base.tr2jac(T, samebody=False)))):
        add('base.tr2jac', nm + ':hTRzRy', TRzRy(), lambda v, bld=bld: bld(h_TRzRy(*v)), subsets=mixes5)
        add('base.tr2jac', nm + ':hTRx', TRx, lambda v, bld=bld: bld(h_TRx(*v)), subsets=mixes4)
    add('base.tr2jac', 'T,True:lib:troty', TRx, lambda v: (lambda T=prep(base.troty, v[0], t=list(v[1:4])): base.tr2jac(T, True)),
        subsets=['1111', '1000'])
    add('base.det', 'R2', [A.ang('th')], lambda v: (lambda: base.det(h_rot2(v[0]))))
    add('base.det', 'R3', [A.ang('a', 'a3'), A.ang('b', 'a3')], lambda v: (lambda: base.det(h_RzRy(*v))))
    add('base.det', 'T4', TRzRy(), lambda v: (lambda: base.det(h_TRzRy(*v))), subsets=mixes5)
    add('base.det', 'T3', T2(), lambda v: (lambda: base.det(h_T2(*v))))
    add('base.det', 'M2', [A.len('a', True), A.len('b', True), A.len('c', True), A.len('d', True)],
        lambda v: (lambda: base.det(mat([[v[0], v[1]], [v[2], v[3]]]))), scale=lenscale(2))
    # 4 x 4 and 5 x 5 matrices of plain symbols (no closed form inside SymPy for these sizes): elimination-style determinants divide by pivots
    # that vanish at ordinary substitution points (a symbol equal to 0, two symbols equal)
    add('base.det', 'B4', [A.len('a', True), A.len('b', True), A.len('c', True)],
        lambda v: (lambda: base.det(mat([[v[0], v[1], 0, 0], [v[1], v[0], v[2], 0], [0, v[2], v[0], v[1]], [0, 0, v[1], v[0]]]))), scale=lenscale(4))
    add('base.det', 'M4', [A.len('a', True), A.len('b', True), A.len('c', True), A.len('d', True)],
        lambda v: (lambda: base.det(mat([[v[0], v[1], v[2], 1], [v[1], v[3], 1, v[2]], [v[2], 2, v[0], v[1]], [1, v[3], v[1], v[0]]]))), scale=lenscale(4))
    add('base.det', 'T4-dI', [A.ang('a', 'a3'), A.ang('b', 'a3'), A.len('d', True)],
        lambda v: (lambda: base.det(h_TmdI(*v))), scale=lenscale(4))
    add('base.det', 'S3+I', [A.vec3('v', short=True), A.len('d')],
        lambda v: (lambda: base.det(mat([[v[3], -v[2], v[1]], [v[2], v[3], -v[0]], [-v[1], v[0], v[3]]]))), scale=lenscale(3))

    # ---- vectors / quaternions
    for c in conts:
        add('base.norm', c + '3', [A.vec3('v')], lambda v, c=c: (lambda: base.norm(CONT[c](v))))
        add('base.normsq', c + '3', [A.vec3('v')], lambda v, c=c: (lambda: base.normsq(CONT[c](v))), scale=lenscale(2))
        add('base.norm', c + '2', [A.vec2('v')], lambda v, c=c: (lambda: base.norm(CONT[c](v))))
        add('base.normsq', c + '2', [A.vec2('v')], lambda v, c=c: (lambda: base.normsq(CONT[c](v))), scale=lenscale(2))
        add('base.conj', c, [A.quat('q')], lambda v, c=c: (lambda: base.conj(CONT[c](v))))
        for c2 in (conts if c == 'list' else [c]):
            add('base.cross', '%s,%s' % (c, c2), [A.vec3('u', short=True), A.vec3('v', short=True)],
                lambda v, c=c, c2=c2: (lambda: base.cross(CONT[c](v[:3]), CONT[c2](v[3:]))), scale=lenscale(2))
    for p in (0, 1, 2, 3, -1, -2):
        for c in (['list', 'array'] if p in (2, -1) else ['list']):
            add('base.qpow', '%s,p=%d' % (c, p), [A.quat('q')], lambda v, c=c, p=p: (lambda: base.qpow(CONT[c](v), p)),
                scale=lenscale(max(1, abs(p))))

    # ---- SO3 / SE3 constructors from matrices, properties, inverse, adjoint
    R2g = lambda: [A.ang('a', 'a3'), A.ang('b', 'a3')]
    add('SO3.__init__', 'R:hRzRy', R2g(), lambda v: (lambda: sm.SO3(h_RzRy(*v))))
    add('SO3.__init__', 'R,check=False:hRzRy', R2g(), lambda v: (lambda: sm.SO3(h_RzRy(*v), check=False)))
    add('SO3.__init__', 'R:hRx', [A.ang('th')], lambda v: (lambda: sm.SO3(h_Rx(v[0]))))
    add('SO3.__init__', 'R,check=False:hRx', [A.ang('th')], lambda v: (lambda: sm.SO3(h_Rx(v[0]), check=False)))
    add('SO3.__init__', 'R,check=False:lib:rotz', [A.ang('th')], lambda v: (lambda R=prep(base.rotz, v[0]): sm.SO3(R, check=False)))
    add('SO3.R', 'hRzRy', R2g(), lambda v: (lambda X=prep(sm.SO3, h_RzRy(*v), check=False): X.R))
    add('SE3.__init__', 'T:hTRzRy', TRzRy(), lambda v: (lambda: sm.SE3(h_TRzRy(*v))), subsets=mixes5)
    add('SE3.__init__', 'T,check=False:hTRzRy', TRzRy(), lambda v: (lambda: sm.SE3(h_TRzRy(*v), check=False)), subsets=mixes5)
    add('SE3.__init__', 'T:hTRx', TRx, lambda v: (lambda: sm.SE3(h_TRx(*v))), subsets=mixes4)
    add('SE3.__init__', 'T,check=False:hTRx', TRx, lambda v: (lambda: sm.SE3(h_TRx(*v), check=False)), subsets=mixes4)
    add('SE3.__init__', 'T,check=False:lib:trotx', TRx,
        lambda v: (lambda T=prep(base.trotx, v[0], t=list(v[1:4])): sm.SE3(T, check=False)), subsets=['1111', '1000'])

    def X5(v):
        return prep(sm.SE3, h_TRzRy(*v), check=False)

    def X4(v):
        return prep(sm.SE3, h_TRx(*v), check=False)
    add('SE3.__init__', 'copy:X', TRx, lambda v: (lambda X=X4(v): sm.SE3(X)), subsets=mixes4)
    add('SE3.__init__', 'list:[X+X]', [A.op('A'), A.op('B')], lambda v: (lambda X=X5(v[:5]), Y=X5(v[5:]): sm.SE3([X, Y])),
        subsets=['1111111111', '1111100000', '0000011111'])
    add('SE3.__init__', 'list:[T+T]+check=False', [A.op('A'), A.op('B')],
        lambda v: (lambda: sm.SE3([h_TRzRy(*v[:5]), h_TRzRy(*v[5:])], check=False)), subsets=['1111111111', '1111100000', '0000011111'])
    add('SE3.__init__', 'rows2:array', [A.vec3('t0', short=True), A.vec3('t1', short=True)],
        lambda v: (lambda: sm.SE3(np.array([list(v[:3]), list(v[3:])]))))
    add('SO3.__init__', 'copy:X', [A.ang('th')], lambda v: (lambda X=prep(sm.SO3, h_Rx(v[0]), check=False): sm.SO3(X)))
    add('SO3.__init__', 'list:[X+X]', [A.ang('a', 'a3'), A.ang('b', 'a3')],
        lambda v: (lambda X=prep(sm.SO3, h_Rx(v[0]), check=False), Y=prep(sm.SO3, h_Rx(v[1]), check=False): sm.SO3([X, Y])))
    add('SO3.__init__', 'list:[R+R]+check=False', [A.ang('a', 'a3'), A.ang('b', 'a3')],
        lambda v: (lambda: sm.SO3([h_Rx(v[0]), h_RzRy(v[1], v[0])], check=False)))

    def XX(v):
        return prep(sm.SE3, [h_TRzRy(*v[:5]), h_TRzRy(*v[5:])], check=False)
    two = ['1111111111', '1111100000', '0000011111']
    add('SE3.t', 'two-valued', [A.op('A'), A.op('B')], lambda v: (lambda X=XX(v): X.t), subsets=two)
    add('SE3.R', 'two-valued', [A.op('A'), A.op('B')], lambda v: (lambda X=XX(v): X.R), subsets=two)
    add('SE3.inv', 'two-valued', [A.op('A'), A.op('B')], lambda v: (lambda X=XX(v): X.inv()), subsets=two)
    add('SO3.R', 'two-valued', [A.ang('a', 'a3'), A.ang('b', 'a3')],
        lambda v: (lambda X=prep(sm.SO3, [h_Rx(v[0]), h_RzRy(v[1], v[0])], check=False): X.R))
    add('SO3.R', 'hRx', [A.ang('th')], lambda v: (lambda X=prep(sm.SO3, h_Rx(v[0]), check=False): X.R))

    for nm, meth in (('SE3.t', lambda X: X.t), ('SE3.R', lambda X: X.R), ('SE3.inv', lambda X: X.inv()),
                     ('SE3.Ad', lambda X: X.Ad()), ('SE3.jacob', lambda X: X.jacob())):
        add(nm, 'hTRzRy', TRzRy(), lambda v, meth=meth: (lambda X=X5(v): meth(X)), subsets=mixes5)
        add(nm, 'hTRx', TRx, lambda v, meth=meth: (lambda X=X4(v): meth(X)), subsets=mixes4)
    add('SE3.inv', 'lib:SE3.Rx', TRx, lambda v: (lambda X=prep(sm.SE3.Rx, v[0], t=list(v[1:4])): X.inv()), subsets=['1111', '1000'])
    add('SE3.inv', 'lib:SE3(x,y,z)', [A.vec3('t')], lambda v: (lambda X=prep(sm.SE3, v[0], v[1], v[2]): X.inv()))

    # ---- simplify (all four pose classes); sympy.simplify is slow, so a short point list
    sang = lambda: Group('th', 'ang', 1, [(n, (v,)) for n, v in A.a3 if n in ('0', 'pi/2', '1e-6') or n.startswith('g')])
    short3 = Group('t', 'len', 3, [l for l in A.v3s if l[0] == 'ex' or l[0].endswith('*1e0')][:2 if tier == 'quick' else None])
    short2 = Group('t', 'len', 2, [(n, v[:2]) for n, v in short3.letters])
    mk = {
        'SO2': ([sang()], lambda v: prep(sm.SO2, h_rot2(v[0]), check=False), None),
        'SE2': ([sang(), short2], lambda v: prep(sm.SE2, h_T2(*v), check=False), ['111', '100', '011']),
        'SO3': ([sang()], lambda v: prep(sm.SO3, h_Rx(v[0]), check=False), None),
        'SE3': ([sang(), short3], lambda v: prep(sm.SE3, h_TRx(*v), check=False), mixes4),
    }
    for cname, (grps, ctor, subs) in mk.items():
        add(cname + '.simplify', 'X', grps, lambda v, ctor=ctor: (lambda X=ctor(v): X.simplify()), subsets=subs, weight=40)
        add(cname + '.simplify', 'X*X', grps, lambda v, ctor=ctor: (lambda X=prep(lambda: ctor(v) * ctor(v)): X.simplify()),
            subsets=subs, weight=150)
    add('SO3.simplify', 'X:hRzRy', [sang(), sang()],
        lambda v: (lambda X=prep(sm.SO3, h_RzRy(*v), check=False): X.simplify()), weight=80)

    # ---- pose operators on symbolic objects
    ops = {
        'SO2': (1, lambda p: prep(sm.SO2, h_rot2(p[0]), check=False), 2),
        'SE2': (3, lambda p: prep(sm.SE2, h_T2(*p), check=False), 2),
        'SO3': (2, lambda p: prep(sm.SO3, h_RzRy(p[0], p[1]), check=False), 3),
        'SE3': (5, lambda p: prep(sm.SE3, h_TRzRy(*p), check=False), 3),
    }
    for cname, (np_, ctor, dim) in ops.items():
        if np_ == 1:
            opg = lambda n: Group(n, 'ang', 1, [(nm, (v[0],)) for nm, v in A.op5])
        elif np_ == 2:
            opg = lambda n: Group(n, 'ang', 2, [(nm, (v[0], v[1])) for nm, v in A.op5])
        elif np_ == 3:
            opg = lambda n: A.op(n, 3)
        else:
            opg = lambda n: A.op(n, 5)
        one, zero = '1' * np_, '0' * np_
        bsub = [one + one, one + zero, zero + one]
        if np_ >= 3:
            ang = '1' * (np_ - dim) + '0' * dim       # angles symbolic, translation numeric
            tr = '0' * (np_ - dim) + '1' * dim
            bsub += [ang + one, one + tr, tr + ang]
        add(cname + '.__mul__', 'pose*pose', [opg('A'), opg('B')],
            lambda v, ctor=ctor, n=np_: (lambda X=ctor(v[:n]), Y=ctor(v[n:]): X * Y), subsets=bsub)
        add(cname + '.__truediv__', 'pose/pose', [opg('A'), opg('B')],
            lambda v, ctor=ctor, n=np_: (lambda X=ctor(v[:n]), Y=ctor(v[n:]): X / Y), subsets=bsub)
        # the scalar operand of the documented pose <op> scalar forms (element-wise on the matrix) as a symbol
        sg = lambda: Group('s', 'len', 1, [l for l in A.len1s if l[0] != '0'])
        ssub = [one + '1', zero + '1', one + '0']
        for on_, of_ in (('pose*scalar', lambda X, k_: X * k_), ('scalar*pose', lambda X, k_: k_ * X), ('pose/scalar', lambda X, k_: X / k_), ('pose+scalar', lambda X, k_: X + k_),
                         ('pose-scalar', lambda X, k_: X - k_)):
            add(cname + '.__mul__', on_, [opg('A'), sg()], lambda v, ctor=ctor, n=np_, of_=of_: (lambda X=ctor(v[:n]), k_=v[n]: of_(X, k_)), subsets=ssub)
        isub = [one] + ([ang, tr] if np_ >= 3 else []) + (['10', '01'] if np_ == 2 else [])
        # (`**` is not among the operations the statement names - compose, invert, act on points - nor tagged as supporting SymPy:
        #  negative powers of a symbolic pose refuse loudly inside numpy.linalg; not claimed)
        add(cname + '.inv', 'X', [opg('A')], lambda v, ctor=ctor: (lambda X=ctor(v): X.inv()), subsets=isub)
        pg = (lambda: A.vec3('p', short=True)) if dim == 3 else (lambda: Group('p', 'len', 2, [(n, x[:2]) for n, x in A.v3s]))
        psub = [one + '1' * dim, one + '0' * dim, zero + '1' * dim, zero + '1' + '0' * (dim - 1), one + '0' * (dim - 1) + '1']
        if np_ >= 3:
            psub += [ang + '0' * dim, tr + '1' * dim]
        for c in ('list', 'tuple', 'array'):
            add(cname + '.__mul__', 'pose*point:' + c, [opg('A'), pg()],
                lambda v, ctor=ctor, n=np_, c=c: (lambda X=ctor(v[:n]): X * CONT[c](v[n:])), subsets=psub)
    # sequences: 2-valued x 1, 1 x 2-valued, 2 x 2 (the arms of SMPose._op2), 2-valued pose x point
    def seq(ctor, ps):
        return prep(lambda: ctor(ps[0]).__class__([ctor(p) for p in ps]))
    for cname in ('SE3', 'SO3'):
        np_, ctor, dim = ops[cname]
        opg = (lambda n: A.op(n, 5)) if np_ == 5 else (lambda n: Group(n, 'ang', 2, [(nm, (v[0], v[1])) for nm, v in A.op5]))
        one, zero = '1' * np_, '0' * np_
        add(cname + '.__mul__', 'pose2*pose', [opg('A'), opg('B'), opg('C')],
            lambda v, ctor=ctor, n=np_: (lambda X=seq(ctor, [v[:n], v[n:2 * n]]), Y=ctor(v[2 * n:]): X * Y),
            subsets=[one * 3, one + zero + one, zero + zero + one, one + one + zero])
        add(cname + '.__mul__', 'pose*pose2', [opg('A'), opg('B'), opg('C')],
            lambda v, ctor=ctor, n=np_: (lambda X=ctor(v[:n]), Y=seq(ctor, [v[n:2 * n], v[2 * n:]]): X * Y),
            subsets=[one * 3, one + zero + one, zero + zero + one, one + zero + zero])
        add(cname + '.__mul__', 'pose2*pose2', [opg('A'), opg('B'), opg('C')],
            lambda v, ctor=ctor, n=np_: (lambda X=seq(ctor, [v[:n], v[n:2 * n]]), Y=seq(ctor, [v[2 * n:], v[:n]]): X * Y),
            subsets=[one * 3, one + zero + zero, zero + one + one])
        add(cname + '.__mul__', 'pose2*point:list', [opg('A'), opg('B'), A.vec3('p', short=True)],
            lambda v, ctor=ctor, n=np_: (lambda X=seq(ctor, [v[:n], v[n:2 * n]]): X * list(v[2 * n:])),
            subsets=[one + one + '111', one + one + '000', zero + zero + '111', one + zero + '100'])
    # products of objects made by the supported variant constructors
    add('SE3.__mul__', 'pose*pose:lib:Rx*Ry', [A.ang('a', 'a3'), A.ang('b', 'a3'), A.vec3('t', short=True)],
        lambda v: (lambda X=prep(sm.SE3.Rx, v[0]), Y=prep(sm.SE3.Ry, v[1], t=list(v[2:5])): X * Y),
        subsets=['11111', '10000', '01111', '11000'])
    add('SE3.__mul__', 'pose*pose:lib:T(xyz)*Rz', [A.vec3('t', short=True), A.ang('a', 'a3')],
        lambda v: (lambda X=prep(sm.SE3, v[0], v[1], v[2]), Y=prep(sm.SE3.Rz, v[3]): X * Y))
    add('SE3.__mul__', 'pose*pose:lib:Tx*Eul', [A.len('d'), A.ang('a', 'a3'), A.ang('b', 'a3')],
        lambda v: (lambda X=prep(sm.SE3.Tx, v[0]), Y=prep(sm.SE3.Eul, [v[1], v[2], 0.5]): X * Y))
    add('SE3.__mul__', 'pose*point:lib:Rx(t)', [A.ang('a', 'a3'), A.vec3('t', short=True), A.vec3('p', short=True)],
        lambda v: (lambda X=prep(sm.SE3.Rx, v[0], t=list(v[1:4])): X * list(v[4:7])),
        subsets=['1111111', '1111000', '1000000', '0000111', '1000111'])

    names = set()
    for f in F:
        if (f.func, f.name) in names:
            raise HarnessError('duplicate form %s/%s' % (f.func, f.name))
        if re.search(r'[\s]', f.name):
            raise HarnessError('white space in form name %r' % f.name)
        names.add((f.func, f.name))
    return F


# --------------------------------------------------------------------------- reflection: what is tagged supported

def supported_callables():
    """names (as used for Form.func) of everything whose docstring says ':SymPy: supported'"""
    import spatialmath as sm
    from spatialmath import base
    pat = re.compile(r':SymPy:\s*supported')
    out = []
    for n in sorted(set(dir(base))):
        o = getattr(base, n)
        if callable(o) and getattr(o, '__doc__', None) and pat.search(o.__doc__) and \
                getattr(o, '__module__', '').startswith('spatialmath.base'):
            out.append('base.' + n)
    for C in (sm.SO2, sm.SE2, sm.SO3, sm.SE3, sm.Twist2, sm.Twist3, sm.Quaternion, sm.UnitQuaternion):
        for n in dir(C):
            try:
                o = inspect.getattr_static(C, n)
            except AttributeError:
                continue
            f = o.__func__ if isinstance(o, (staticmethod, classmethod)) else (o.fget if isinstance(o, property) else o)
            d = getattr(f, '__doc__', None)
            if d and pat.search(d):
                out.append('%s.%s' % (C.__name__, n))
    return out


# --------------------------------------------------------------------------- result handling

def flatten(r):
    """(class name or None, shape, list of entries) of a numeric or symbolic result"""
    cname = None
    if hasattr(r, 'data') and isinstance(getattr(r, 'data'), list) and not isinstance(r, np.ndarray):
        cname = type(r).__name__
        d = r.data
        if len(d) == 1:
            r = d[0]
        else:
            shapes = set(np.shape(x) for x in d)
            if len(shapes) != 1:
                return cname, ('ragged',), []
            a = np.empty((len(d),) + shapes.pop(), dtype=object)
            for i, x in enumerate(d):
                a[i] = x
            r = a
    if isinstance(r, (list, tuple)):
        a = np.empty(len(r), dtype=object)
        for i, x in enumerate(r):
            a[i] = x
        r = a
    if isinstance(r, np.ndarray):
        return cname, tuple(r.shape), list(r.flat)
    return cname, (), [r]


def exact_value(e):
    """float value of e when e is a plain number (Python, NumPy or SymPy Number), else None"""
    if isinstance(e, (bool, np.bool_)):
        return None
    if isinstance(e, (int, float, np.integer, np.floating)):
        return float(e)
    if isinstance(e, sympy.Basic) and e.is_Number:
        try:
            return float(e)
        except (TypeError, ValueError):
            return None
    return None


def _as_float(v):
    if getattr(v, 'free_symbols', None):
        return None, 'free symbols %s left after substitution' % sorted(str(s) for s in v.free_symbols)
    if not v.is_Number and not (v.is_number and v.is_real):
        return None, 'evaluates to %s' % str(v)[:60]
    x = float(v)
    if not math.isfinite(x):
        return None, 'evaluates to %r' % x
    return x, None


def evaluate(e, mapping, slow=False):
    """30-digit value of entry e after substitution, as a float; (None, why) if it is not a real number.
    Fast path: N(e, 30, subs=mapping) (substitution inside evalf); slow path, used to confirm every
    disagreement before it is reported: e.subs(mapping) then N(., 30)."""
    if isinstance(e, (int, float, np.integer, np.floating)) and not isinstance(e, (bool, np.bool_)):
        return float(e), None
    if not isinstance(e, sympy.Basic):
        return None, 'entry of type %s' % type(e).__name__
    try:
        if slow:
            return _as_float(sympy.N(e.subs(mapping), 30))
        return _as_float(sympy.N(e, 30, subs=mapping))
    except ZeroDivisionError:
        return None, 'division by zero when the numbers are substituted'


def default_scale(vals, kinds, num):
    m = 1.0
    for v, kd in zip(vals, kinds):
        if kd != 'ang':
            m = max(m, abs(v))
    for x in num:
        m = max(m, abs(x))
    return m


def numeric_flat(r):
    cname, shape, flat = flatten(r)
    out = []
    for x in flat:
        if isinstance(x, (bool, np.bool_)) or not isinstance(x, (int, float, np.integer, np.floating)):
            if isinstance(x, sympy.Basic) and x.is_Number:      # e.g. simplify() of a numeric pose returns SymPy numbers
                x = float(x)
            else:
                return cname, shape, None
        out.append(float(x))
    return cname, shape, out


# --------------------------------------------------------------------------- one (callable, form) unit

def structural_masks(form, points):
    """indices that are exactly 0 / exactly 1 in the numeric result at every point where the numeric path returns"""
    z = o = None
    shape0 = None
    nok = 0
    # besides the points of the form, a few all-generic probes (no slot 0 or 1, no two slots equal), at unit and at
    # tiny scale, so that a short letter set can never make a slot-dependent entry look structural
    probes = []
    for a, b, m in ((0.37, 0.211, 1.0), (-1.13, -0.173, 1.0), (2.3, 0.31, 1.0), (0.37, 0.211, 1e-9), (-1.13, 0.173, 1e-9)):
        probes.append(('probe', tuple((a + b * i) * m for i in range(form.k))))
    for pname, vals in list(points) + probes:
        try:
            thunk = form.build(vals)
        except Prep:
            continue
        ok, r = call(thunk)
        if not ok:
            continue
        cname, shape, flat = numeric_flat(r)
        if flat is None or not all(math.isfinite(x) for x in flat):
            continue
        if shape0 is None:
            shape0 = shape
            z = [True] * len(flat)
            o = [True] * len(flat)
        elif shape != shape0:
            raise HarnessError('numeric result shape of %s/%s varies with the point: %s vs %s' % (form.func, form.name, shape0, shape))
        nok += 1
        for i, x in enumerate(flat):
            if x != 0.0:
                z[i] = False
            if x != 1.0:
                o[i] = False
    if nok < 2:
        return set(), set(), nok      # a single accepted point says nothing about structure
    return set(i for i, b in enumerate(z) if b), set(i for i, b in enumerate(o) if b), nok


def run_unit(ctx, form, k, n):
    prefix = 'C16/%s/%s/' % (form.func, form.name)
    if ctx.only is not None and not ctx.only.startswith(prefix):
        return
    points = list(form.points())
    zero_idx, one_idx, naccept = structural_masks(form, points)
    site = form.func
    if naccept == 0:
        ctx.note('forms_the_numeric_path_never_accepts', '%s/%s' % (form.func, form.name))
    j = -1
    for bits in form.subsets:
        for pname, vals in points:
            j += 1
            if j % n != k:
                continue
            cid = '%ssym=%s/%s' % (prefix, bits, pname)
            if not ctx.want(cid):
                continue
            trivial = all(v == 0 for v in vals)
            params = {'func': form.func, 'form': form.name, 'symbolic': bits, 'point': pname,
                      'nsym': bits.count('1'), 'allsym': int('0' not in bits), 'unit': form.unit}
            lo = 0
            for g in form.groups:           # per argument group: none / some / all of its slots symbolic
                b = bits[lo:lo + g.n]
                params['sym_' + g.name] = 'all' if '0' not in b else ('none' if '1' not in b else 'some')
                lo += g.n
            # 1. numeric call at the point
            try:
                thunk = form.build(vals)
            except Prep as e:
                ctx.case(cid, trivial=True)
                ctx.cell(site, form.name, 'numeric-operands-raise')
                continue
            ok, rn = call(thunk)
            if not ok:
                ctx.case(cid, trivial=True)
                ctx.cell(site, form.name, 'numeric-raises:' + type(rn).__name__)
                ctx.note('numeric_path_raises', '%s/%s: %s' % (form.func, form.name, type(rn).__name__))
                continue
            ncls, nshape, nflat = numeric_flat(rn)
            if nflat is None or not all(math.isfinite(x) for x in nflat):
                ctx.case(cid, trivial=True)
                ctx.cell(site, form.name, 'numeric-not-finite-numbers')
                continue
            ctx.case(cid, key=(form.func, form.name, bits, vals), trivial=trivial)
            # 2. symbolic call
            syms, svals = {}, []
            for i, (b, v) in enumerate(zip(bits, vals)):
                if b == '1':
                    s = sympy.Symbol('s%d' % i, real=True)
                    syms[s] = sympy.Float(v, 40)
                    svals.append(s)
                else:
                    svals.append(v)
            try:
                sthunk = form.build(tuple(svals))
            except Prep as e:
                ctx.cell(site, form.name, 'symbolic-operands-raise')
                ctx.note('symbolic_operands_raise', '%s/%s sym=%s: %s' % (form.func, form.name, bits, str(e)[:80]))
                continue
            ok, rs = call(sthunk)
            if not ok:
                ctx.cell(site, form.name, 'raises:' + type(rs).__name__)
                params['check'] = 'call'
                ctx.fail(cid, site, 'raises:' + type(rs).__name__, params,
                         'numeric call returns, the same call with slots %s symbolic raises %s: %s' % (bits, type(rs).__name__, rs))
                continue
            scls, sshape, sflat = flatten(rs)
            if scls != ncls:
                params['check'] = 'type'
                ctx.fail(cid, site, 'returns:' + (scls or type(rs).__name__), params,
                         'numeric call returns %s, symbolic call returns %s' % (ncls or type(rn).__name__, scls or type(rs).__name__))
                continue
            if sshape != nshape:
                params['check'] = 'shape'
                ctx.fail(cid, site, 'mismatch', params, 'numeric result has shape %s, symbolic result %s' % (nshape, sshape))
                continue
            # 3. values
            scale = (form.scale or default_scale)(vals, form.kinds, nflat)
            tol = TOL * scale
            bad = None
            for i, (e, x) in enumerate(zip(sflat, nflat)):
                y, why = evaluate(e, syms)
                if y is None or abs(y - x) > tol:
                    y, why = evaluate(e, syms, slow=True)       # confirm with plain subs() + N() before reporting
                if y is None:
                    bad = (i, 'entry %d (%s): %s; numeric value %r' % (i, str(e)[:80], why, x))
                    break
                if abs(y - x) > tol:
                    bad = (i, 'entry %d: symbolic %s -> %.17g, numeric %.17g, difference %.3g > %.3g' % (i, str(e)[:80], y, x, abs(y - x), tol))
                    break
            if bad:
                params['check'] = 'value'
                params['entry'] = bad[0]
                ctx.cell(site, form.name, 'value-mismatch')
                ctx.fail(cid, site, 'mismatch', params, bad[1])
                continue
            # 4. structural constants
            bad = None
            for i in sorted(zero_idx | one_idx):
                want = 0.0 if i in zero_idx else 1.0
                got = exact_value(sflat[i])
                if got is None or got != want:
                    bad = (i, want, sflat[i])
                    break
            if bad:
                params['check'] = 'exact%d' % int(bad[1])
                params['entry'] = bad[0]
                params['entrytype'] = type(bad[2]).__name__
                ctx.cell(site, form.name, 'structural-not-exact')
                ctx.fail(cid, site, 'mismatch', params,
                         'entry %d is exactly %d in the numeric result at all %d accepted points of this form but is %r (%s) '
                         'in the symbolic result' % (bad[0], int(bad[1]), naccept, bad[2], type(bad[2]).__name__))
                continue
            ctx.cell(site, form.name, 'agree')
            ctx.cell(site, 'nsym=%d' % params['nsym'])


# --------------------------------------------------------------------------- shards

def _units(tier, seed):
    """[(cost, func, form name, k, n)] : forms split into chunks of bounded estimated cost"""
    forms = catalogue(tier, seed)
    target = 2500.0 if tier == 'quick' else 30000.0
    units = []
    for f in forms:
        ncases = len(f.subsets) * f.npoints()
        cost = ncases * f.weight + 0.03 * f.npoints()
        n = max(1, int(math.ceil(cost / target)))
        for k in range(n):
            units.append((cost / n, f.func, f.name, k, n))
    return units


def simplify_value(ctx):
    """simplify() changes the form of a pose, never its value: X.simplify() and X agree at every point of a small grid, for
    all four pose classes (the rotation classes have no constant bottom row), single- and multi-valued, and for numeric poses"""
    import sympy
    import spatialmath as sm
    a, b_, x, y, z = sympy.symbols('a b x y z', real=True)
    objs = {'SO2': [('rot2', h_rot2(a))], 'SE2': [('T2', h_T2(a, x, y))], 'SO3': [('Rx', h_Rx(a)), ('RzRy', h_RzRy(a, b_))],
            'SE3': [('TRx', h_TRx(a, x, y, z)), ('TRzRy', h_TRzRy(a, b_, x, y, z))]}
    pts = [{a: 0.3, b_: -0.7, x: 1.5, y: -2.0, z: 0.5}, {a: math.pi / 2, b_: 1e-6, x: 0.0, y: 1e3, z: -1.0}, {a: 0.0, b_: 0.0, x: 0.0, y: 0.0, z: 0.0},
           {a: -2.5, b_: 3.0, x: 1e-6, y: 0.25, z: 7.0}]

    def ev(M, pt):
        return np.array([[float(sympy.sympify(e).subs(pt)) for e in row] for row in np.asarray(M, dtype=object)], dtype=float)
    for cname, lst in objs.items():
        C = getattr(sm, cname)
        for on, M in lst:
            for form in ('X', 'X*X', '[X,X*X]', 'numeric'):
                cid = 'C16/simplify-value/%s/%s/%s' % (cname, on, form)
                if not ctx.want(cid):
                    continue
                ctx.case(cid, key=cid)
                P = dict(func=cname + '.simplify', form=form, law='value')
                try:
                    X = C(M, check=False)
                    if form == 'X*X':
                        X = X * X
                    elif form == '[X,X*X]':
                        X = C([X.A, (X * X).A], check=False)
                    elif form == 'numeric':
                        X = C(ev(M, pts[0]), check=False)
                except Exception as e:
                    ctx.note('simplify_value_prep_failed', '%s %s %s: %s' % (cname, on, form, type(e).__name__))
                    continue
                ok, Y = call(lambda: X.simplify())
                if not ok:
                    ctx.fail(cid, cname + '.simplify', 'raises:' + type(Y).__name__, P, '%r' % (Y,))
                    continue
                if type(Y) is not C or len(Y.data) != len(X.data):
                    ctx.fail(cid, cname + '.simplify', 'returns:' + type(Y).__name__, P, 'simplify() gave %s with %d values' % (type(Y).__name__, len(getattr(Y, 'data', []))))
                    continue
                for k, (mx, my) in enumerate(zip(X.data, Y.data)):
                    for pi_, pt in enumerate(pts if form != 'numeric' else pts[:1]):
                        vx, vy = ev(mx, pt), ev(my, pt)
                        if vx.shape != vy.shape or np.abs(vx - vy).max() > 1e-9 * max(1.0, float(np.abs(vx).max())):
                            ctx.fail(cid, cname + '.simplify', 'mismatch', dict(P, point=pi_, k=k), 'simplify() changed the value: at point %d element differs by %.3g' %
                                     (pi_, np.abs(vx - vy).max() if vx.shape == vy.shape else float('nan')))
                            break


def shards(tier, seed):
    units = _units(tier, seed)
    nsh = 64 if tier == 'quick' else 192
    order = sorted(range(len(units)), key=lambda i: (-units[i][0], i))
    bins = [[0.0, []] for _ in range(nsh)]
    for i in order:
        b = min(range(nsh), key=lambda j: (bins[j][0], j))
        bins[b][0] += units[i][0]
        bins[b][1].append(units[i][1:])
    bins.sort(key=lambda b: -b[0])          # heavy shards first
    out = [tuple(b[1]) for b in bins if b[1]]
    out[0] = (('__reflect__', '', 0, 1),) + out[0]
    out[-1] = (('__simplify__', '', 0, 1),) + out[-1]
    return out


_CAT = {}


def run_shard(ctx, shard):
    key = (ctx.tier, ctx.seed)
    if key not in _CAT:
        _CAT.clear()
        _CAT[key] = {(f.func, f.name): f for f in catalogue(ctx.tier, ctx.seed)}
    cat = _CAT[key]
    for func, fname, k, n in shard:
        if func == '__reflect__':
            have = set(f for f, _ in cat)
            tagged = supported_callables()
            ctx.count('tagged_supported', len(tagged))
            for t in tagged:
                # SMPose.simplify is inherited by the four classes; R is inherited by SE3
                if t not in have:
                    ctx.note('tagged_supported_without_descriptor', t)
                else:
                    ctx.count('tagged_supported_with_descriptor')
            continue
        if func == '__simplify__':
            simplify_value(ctx)
            continue
        run_unit(ctx, cat[(func, fname)], k, n)
