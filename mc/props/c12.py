"""
C12  Quaternion and dual-quaternion arithmetic obeys the Hamilton algebra.

Complete grids (DESIGN 2.3): the identities are polynomial with per-variable degree <= 1 (<= 2 for
norms, <= 6 for powers), so vanishing on {0,1}^n (resp. {0,1,2}^n, {0..6}^4) decides them for all
reals; on these small-integer grids float64 arithmetic is exact and the comparison is ==.  Each grid
is repeated dilated by 2 and 3 to test the degree side condition.  The same identities are
re-checked to 1e-9 relative on magnitudes 1e-6..1e6, exp/log to 1e-6, the 3-vector product over
unit-quaternion pairs, and the dual-quaternion product against its structure constants on {0,1}^16.
"""
import itertools, math
import numpy as np
from mc import ref, alph
from mc.core import call, HarnessError

PROP = 'C12'
LEVEL = 'exploration'
RULE = ('complete integer grids {0,1}^12 / {0,1,2}^8 / {0..6}^4 (x dilations 2, 3) with exact comparison for the polynomial identities; '
        'magnitude ladder 1e-6..1e6 x generic pool to 1e-9 relative; dual quaternion product on {0,1}^16 against structure constants read off '
        'basis pairs, associativity / conjugation on all basis triples; unit dual quaternion norm over the SE(3) generator product; '
        'non-trivial = not all components zero; distinct = distinct grid points / letter tuples')
ASSUME = ['per-variable degree bounds are read off the code (sums and products only) and tested by the dilated grids',
          'small-integer float64 arithmetic is exact (all intermediate values < 2^53)',
          '3-vector product: operands and product have scalar part >= 0.1',
          'exp/log tolerance 1e-6 relative to max(1,|q|); exp(log(q)) = q to 1e-6 relative to |q| itself']
ANCHORS = [('spatialmath.base.quaternions', n) for n in ('qqmul', 'conj', 'qnorm', 'inner', 'qpow', 'matrix', 'vvmul', 'dot', 'dotb', 'pure', 'q2v', 'v2q')] + \
          [('spatialmath.quaternion', 'Quaternion.' + n) for n in ('__mul__', '__add__', '__sub__', '__pow__', 'conj', 'norm', 'inner', 'log', 'exp')] + \
          [('spatialmath.DualQuaternion', 'DualQuaternion.' + n) for n in ('norm', 'conj', '__add__', '__sub__', '__mul__', 'matrix')]


def A(*x):
    return np.array(x, dtype=float)


def exact(ctx, cid, site, P, lhs, rhs, what):
    lhs, rhs = np.asarray(lhs, dtype=float), np.asarray(rhs, dtype=float)
    if lhs.shape != rhs.shape or not np.array_equal(lhs, rhs):
        ctx.fail(cid, site, 'mismatch', P, '%s: %s != %s' % (what, lhs.tolist(), rhs.tolist()))
        return False
    return True


def grid_base(ctx, which, dil):
    """exact grids for the base functions; which selects the identity, dil the dilation"""
    import spatialmath.base as b
    vals01 = (0.0, float(dil))
    P0 = dict(grid=which, dil=dil)
    if which in ('assoc', 'distrib'):
        for pt in itertools.product(vals01, repeat=12):
            a, bb, c = A(*pt[:4]), A(*pt[4:8]), A(*pt[8:])
            cid = 'C12/%s/d%d/%s' % (which, dil, ''.join(str(int(x > 0)) for x in pt))
            if not ctx.want(cid):
                continue
            ctx.case(cid, key=cid, trivial=not any(pt))
            if which == 'assoc':
                ok, r = call(lambda: (b.qqmul(b.qqmul(a, bb), c), b.qqmul(a, b.qqmul(bb, c))))
                if not ok:
                    ctx.fail(cid, 'base.qqmul', 'raises:' + type(r).__name__, P0, '%r' % (r,))
                    continue
                exact(ctx, cid, 'base.qqmul', dict(P0, law='assoc'), r[0], r[1], '(ab)c = a(bc)')
            else:
                ok, r = call(lambda: (b.qqmul(a, bb + c), b.qqmul(a, bb) + b.qqmul(a, c), b.qqmul(bb + c, a), b.qqmul(bb, a) + b.qqmul(c, a)))
                if not ok:
                    ctx.fail(cid, 'base.qqmul', 'raises:' + type(r).__name__, P0, '%r' % (r,))
                    continue
                exact(ctx, cid, 'base.qqmul', dict(P0, law='distrib-left'), r[0], r[1], 'a(b+c) = ab+ac')
                exact(ctx, cid, 'base.qqmul', dict(P0, law='distrib-right'), r[2], r[3], '(b+c)a = ba+ca')
    elif which == 'pairs':
        vals = (0.0, 1.0 * dil, 2.0 * dil)
        for pt in itertools.product(vals, repeat=8):
            a, bb = A(*pt[:4]), A(*pt[4:])
            cid = 'C12/pairs/d%d/%s' % (dil, ''.join(str(int(x / dil)) for x in pt))
            if not ctx.want(cid):
                continue
            ctx.case(cid, key=cid, trivial=not any(pt))
            ok, r = call(lambda: dict(ab=b.qqmul(a, bb), conj_ab=b.conj(b.qqmul(a, bb)), cbca=b.qqmul(b.conj(bb), b.conj(a)),
                                      mat=b.matrix(a) @ bb, inner=b.inner(a, bb), aconj=b.qqmul(a, b.conj(a))))
            if not ok:
                ctx.fail(cid, 'base.qqmul', 'raises:' + type(r).__name__, P0, '%r' % (r,))
                continue
            exact(ctx, cid, 'base.qqmul', dict(P0, law='value'), r['ab'], ref.qmul(a, bb), 'qqmul = Hamilton product')
            exact(ctx, cid, 'base.conj', dict(P0, law='conj-reverses'), r['conj_ab'], r['cbca'], 'conj(ab) = conj(b)conj(a)')
            exact(ctx, cid, 'base.matrix', dict(P0, law='matrix'), r['mat'], r['ab'], 'matrix(a) @ b = ab')
            exact(ctx, cid, 'base.inner', dict(P0, law='inner'), r['inner'], float(a @ bb), 'inner = sum a_i b_i')
            exact(ctx, cid, 'base.qqmul', dict(P0, law='q conj q'), r['aconj'], A(float(a @ a), 0, 0, 0), 'q conj(q) = (|q|^2, 0)')
            n2 = float(r['ab'] @ r['ab'])
            exact(ctx, cid, 'base.qqmul', dict(P0, law='norm-mult'), n2, float(a @ a) * float(bb @ bb), '|ab|^2 = |a|^2 |b|^2')
    elif which == 'pow':
        vals = tuple(float(v * dil) for v in range(0, 7 if dil == 1 else 4))
        for pt in itertools.product(vals, repeat=4):
            q = A(*pt)
            cid0 = 'C12/pow/d%d/%s' % (dil, ','.join('%g' % x for x in pt))
            acc = [A(1, 0, 0, 0)]
            for _ in range(6):
                acc.append(ref.qmul(acc[-1], q))
            for n in range(-6, 7):
                cid = cid0 + '/n=%d' % n
                if not ctx.want(cid):
                    continue
                ctx.case(cid, key=cid, trivial=not any(pt))
                ok, r = call(b.qpow, q, n)
                if not ok:
                    ctx.fail(cid, 'base.qpow', 'raises:' + type(r).__name__, dict(P0, n=n), '%r' % (r,))
                    continue
                want = acc[abs(n)] if n >= 0 else ref.qconj(acc[abs(n)])
                exact(ctx, cid, 'base.qpow', dict(P0, n=n, law='pow'), r, want, 'qpow(q,%d)' % n)
    elif which == 'rates':
        vals = (0.0, 1.0 * dil, 2.0 * dil)
        for pt in itertools.product(vals, repeat=7):
            q, w = A(*pt[:4]), A(*pt[4:])
            cid = 'C12/rates/d%d/%s' % (dil, ''.join(str(int(x / dil)) for x in pt))
            if not ctx.want(cid):
                continue
            ctx.case(cid, key=cid, trivial=not any(pt))
            ok, r = call(lambda: (b.dot(q, w), b.dotb(q, w), b.pure(w)))
            if not ok:
                ctx.fail(cid, 'base.dot', 'raises:' + type(r).__name__, P0, '%r' % (r,))
                continue
            pw = np.r_[0.0, w]
            exact(ctx, cid, 'base.pure', dict(P0, law='pure'), r[2], pw, 'pure(w) = (0, w)')
            exact(ctx, cid, 'base.dot', dict(P0, law='dot'), r[0], 0.5 * ref.qmul(pw, q), 'dot(q,w) = 1/2 pure(w) q')
            exact(ctx, cid, 'base.dotb', dict(P0, law='dotb'), r[1], 0.5 * ref.qmul(q, pw), 'dotb(q,w) = 1/2 q pure(w)')


def grid_class(ctx, dil):
    """the same identities through the Quaternion class operators on {0,1}^8 (x dilation)"""
    import spatialmath as sm
    Q = sm.Quaternion
    vals = (0.0, float(dil))
    P0 = dict(grid='class', dil=dil)
    for pt in itertools.product(vals, repeat=8):
        a, bb = A(*pt[:4]), A(*pt[4:])
        cid = 'C12/class/d%d/%s' % (dil, ''.join(str(int(x > 0)) for x in pt))
        if not ctx.want(cid):
            continue
        ctx.case(cid, key=cid, trivial=not any(pt))
        qa, qb = Q(a.copy()), Q(bb.copy())
        ok, r = call(lambda: dict(mul=(qa * qb).vec, add=(qa + qb).vec, sub=(qa - qb).vec, conj=qa.conj().vec, inner=qa.inner(qb),
                                  mat=qa.matrix @ bb, p3=(qa ** 3).vec, pm2=(qa ** -2).vec, p0=(qa ** 0).vec, n=qa.norm()))
        if not ok:
            ctx.fail(cid, 'Quaternion.ops', 'raises:' + type(r).__name__, P0, '%r' % (r,))
            continue
        ab = ref.qmul(a, bb)
        exact(ctx, cid, 'Quaternion.mul', dict(P0, law='value'), r['mul'], ab, 'Q*Q')
        exact(ctx, cid, 'Quaternion.add', dict(P0, law='value'), r['add'], a + bb, 'Q+Q')
        exact(ctx, cid, 'Quaternion.sub', dict(P0, law='value'), r['sub'], a - bb, 'Q-Q')
        exact(ctx, cid, 'Quaternion.conj', dict(P0, law='value'), r['conj'], ref.qconj(a), 'conj')
        exact(ctx, cid, 'Quaternion.inner', dict(P0, law='value'), r['inner'], float(a @ bb), 'inner')
        exact(ctx, cid, 'Quaternion.matrix', dict(P0, law='value'), r['mat'], ab, 'matrix @ b')
        a2 = ref.qmul(a, a)
        exact(ctx, cid, 'Quaternion.pow', dict(P0, law='pow', n=3), r['p3'], ref.qmul(a2, a), 'q**3')
        exact(ctx, cid, 'Quaternion.pow', dict(P0, law='pow', n=-2), r['pm2'], ref.qconj(a2), 'q**-2')
        exact(ctx, cid, 'Quaternion.pow', dict(P0, law='pow', n=0), r['p0'], A(1, 0, 0, 0), 'q**0')
        if abs(float(r['n']) - math.sqrt(float(a @ a))) > 1e-12 * max(1.0, math.sqrt(float(a @ a))):
            ctx.fail(cid, 'Quaternion.norm', 'mismatch', dict(P0, law='norm'), 'norm %r' % (r['n'],))


def class_multi(ctx):
    """the binary identities on operands holding several quaternions (1xN, Nx1, NxN, N = 1..5): element i of the result is the
    Hamilton-table value for the i-th elements - in particular N = 4, where a stack of 4 quaternions is a 4x4 array"""
    import spatialmath as sm
    Q = sm.Quaternion
    vals = [A(1, 2, -1, 3), A(0, 1, 0, -2), A(2, 0, 3, 1), A(-1, 1, 1, 0), A(3, -2, 0, 1), A(0, 0, 2, 2)]
    ops = [('mul', lambda x, y: x * y, ref.qmul, 'Quaternion.mul'), ('add', lambda x, y: x + y, lambda a, b_: a + b_, 'Quaternion.add'),
           ('sub', lambda x, y: x - y, lambda a, b_: a - b_, 'Quaternion.sub'), ('inner', lambda x, y: x.inner(y), lambda a, b_: float(a @ b_), 'Quaternion.inner')]
    for (on, f, rf, site), m, n in itertools.product(ops, range(1, 6), range(1, 6)):
        if m != n and m != 1 and n != 1:
            continue
        cid = 'C12/multi/%s/m=%d/n=%d' % (on, m, n)
        if not ctx.want(cid):
            continue
        ctx.case(cid, key=cid, trivial=(m == 1 and n == 1))
        la, rb = [vals[j % 6] for j in range(m)], [vals[(j + 2) % 6] for j in range(n)]
        P = dict(grid='multi', law=on, m=m, n=n)
        ok, r = call(lambda: f(Q([x.copy() for x in la]), Q([x.copy() for x in rb])))
        if not ok:
            ctx.fail(cid, site, 'raises:' + type(r).__name__, P, '%r' % (r,))
            continue
        N = max(m, n)
        want = [rf(la[i if m > 1 else 0], rb[i if n > 1 else 0]) for i in range(N)]
        if on == 'inner':
            got = [float(r)] if np.ndim(r) == 0 else [float(x) for x in np.ravel(np.asarray(r, dtype=float))] if np.asarray(r).size == N else None
        else:
            got = [np.asarray(x, dtype=float) for x in r.data] if hasattr(r, 'data') and len(r.data) == N else None
        if got is None:
            ctx.fail(cid, site, 'mismatch', dict(P, what='count'), 'result cannot be read as %d values: %r' % (N, np.shape(np.asarray(r.data if hasattr(r, "data") else r))))
            continue
        for i in range(N):
            exact(ctx, cid, site, dict(P, i=i), got[i], want[i], '%s, element %d' % (on, i))


def numeric(ctx):
    """rounding behaviour: the same identities to 1e-9 relative on the magnitude ladder x generic pool"""
    import spatialmath.base as b
    import spatialmath as sm
    tier, seed = ctx.tier, ctx.seed
    pool = [A(*v, w) for v, w in zip(alph.G_VEC3, (0.7, -1.3, 2.1, 0.4, -0.9, 1.6, 3.0, -0.2, 0.8, 1.1, -2.4, 0.5, 1.9, -0.6, 0.3, 2.2))]
    gen = [pool[int(n[1:])] for n, _ in alph.pick(pool, tier, seed, 4)]
    mags = alph.magnitudes(tier)
    for (ia, a0), (ib, b0), (ic, c0) in itertools.product(enumerate(gen), repeat=3):
        for (m1, s1), (m2, s2), (m3, s3) in itertools.product(mags, repeat=3):
            if tier != 'quick' and not alph.thin('%s%s%s%d%d%d' % (m1, m2, m3, ia, ib, ic), tier, 4, 4):
                continue
            a, bb, c = a0 * s1, b0 * s2, c0 * s3
            cid = 'C12/num/%d.%d.%d/%s,%s,%s' % (ia, ib, ic, m1, m2, m3)
            if not ctx.want(cid):
                continue
            ctx.case(cid, key=cid)
            P = dict(ma=m1, mb=m2, mc=m3)
            ok, r = call(lambda: (b.qqmul(b.qqmul(a, bb), c), b.qqmul(a, b.qqmul(bb, c)), b.qnorm(b.qqmul(a, bb)), b.qnorm(a) * b.qnorm(bb),
                                  b.conj(b.qqmul(a, bb)), b.qqmul(b.conj(bb), b.conj(a)), b.matrix(a) @ bb, b.qqmul(a, bb)))
            if not ok:
                ctx.fail(cid, 'base.qqmul', 'raises:' + type(r).__name__, P, '%r' % (r,))
                continue
            sc = s1 * s2 * s3 * 50
            if np.abs(r[0] - r[1]).max() > 1e-9 * sc:
                ctx.fail(cid, 'base.qqmul', 'mismatch', dict(P, law='assoc'), 'associativity residual %.3g' % np.abs(r[0] - r[1]).max())
            if abs(r[2] - r[3]) > 1e-9 * max(r[3], 1e-300):
                ctx.fail(cid, 'base.qnorm', 'mismatch', dict(P, law='norm-mult'), '|ab| %r vs |a||b| %r' % (r[2], r[3]))
            if np.abs(r[4] - r[5]).max() > 1e-9 * s1 * s2 * 20 or np.abs(r[6] - r[7]).max() > 1e-9 * s1 * s2 * 20:
                ctx.fail(cid, 'base.conj', 'mismatch', dict(P, law='conj/matrix'), 'conjugate reversal or matrix form residual')
            if np.abs(r[7] - ref.qmul(a, bb)).max() > 1e-9 * s1 * s2 * 20:
                ctx.fail(cid, 'base.qqmul', 'mismatch', dict(P, law='value'), 'product differs from the Hamilton table')
    # 3-vector product
    from mc.props import c02
    G = alph.gen_SO3(tier, seed)
    for (xn, X), (yn, Y) in itertools.product(G, G):
        qa, qb = ref.r2q_ref(X), ref.r2q_ref(Y)
        qc = ref.qmul(qa, qb)
        if qa[0] < 0.1 or qb[0] < 0.1 or qc[0] < 0.1:
            continue
        cid = 'C12/vvmul/%s/%s' % (xn, yn)
        if not ctx.want(cid):
            continue
        ctx.case(cid, key=cid, trivial=(xn == 'I' and yn == 'I'))
        ok, r = call(b.vvmul, qa[1:].copy(), qb[1:].copy())
        P = dict(x=xn, y=yn)
        if not ok:
            ctx.fail(cid, 'base.vvmul', 'raises:' + type(r).__name__, P, '%r' % (r,))
        elif np.asarray(r).shape != (3,) or np.abs(np.asarray(r) - qc[1:]).max() > 1e-9:
            ctx.fail(cid, 'base.vvmul', 'mismatch', P, 'vvmul differs from the vector part of the full product by %.3g' % np.abs(np.asarray(r) - qc[1:]).max())
        ok, r2 = call(lambda: (b.q2v(qa), b.v2q(qa[1:].copy())))
        if ok and (np.abs(r2[0] - qa[1:]).max() > 1e-12 or np.abs(r2[1] - qa).max() > 1e-7):
            ctx.fail(cid, 'base.v2q', 'mismatch', P, 'q2v / v2q do not reproduce the quaternion')
    # exp / log
    Q = sm.Quaternion
    vmag = [('1e%d' % k, 10.0 ** k) for k in ((-6, -3, -1, 0, 1, 3, 6) if tier == 'quick' else range(-6, 7))]
    # round 13: vector parts below 1e-6 (non-zero, far above the 100 eps at which a direction stops being defined) beside scalar parts of the same order
    vmag = [('1e-9', 1e-9), ('3e-7', 3e-7)] + vmag
    for (vn, vm), sp, (di, dv) in itertools.product(vmag, (-2.0, -1e-3, -3e-6, 0.0, 1e-9, 4e-6, 2e-5, 0.5, 3.0, 1e3), enumerate(alph.G_VEC3[:4])):
        q = np.r_[sp, vm * alph.unit(dv)]
        cid = 'C12/explog/v=%s/s=%g/dir=%d' % (vn, sp, di)
        if not ctx.want(cid):
            continue
        ctx.case(cid, key=cid)
        P = dict(vmag=vn, s=sp, vmag_val=vm)
        sc = max(1.0, float(np.linalg.norm(q)))
        ok, r = call(lambda: Q(q.copy()).log().exp().vec)
        if not ok:
            ctx.fail(cid, 'Quaternion.log', 'raises:' + type(r).__name__, dict(P, law='exp(log)'), 'exp(log(q)) raised %r' % (r,))
        elif not np.all(np.isfinite(r)) or np.abs(r - q).max() > 1e-6 * float(np.linalg.norm(q)):
            # 1e-6 relative to |q| itself (round 13): a quaternion whose components are all of order 1e-6 is reproduced as well as one of order 1
            ctx.fail(cid, 'Quaternion.log', 'mismatch', dict(P, law='exp(log)'), 'exp(log(q)) differs from q by %.3g (q=%s)' % (np.abs(r - q).max(), q.tolist()))
        # the same object used again after exp() / log(): its value must still be q and the answers the same
        qo = Q(q.copy())
        ok, r = call(lambda: (qo.log().vec, qo.exp().vec, qo.vec.copy(), qo.log().vec, qo.exp().vec))
        if ok and (not np.array_equal(r[2], q) or not np.array_equal(r[0], r[3]) or not np.array_equal(r[1], r[4])):
            ctx.fail(cid, 'Quaternion.exp', 'mismatch', dict(P, law='reuse'), 'q.log() / q.exp() evaluated twice on one object differ, or q changed (q=%s -> %s)' % (q.tolist(), r[2].tolist()))
        if 0 < vm < math.pi and abs(sp) <= 3:
            ok, r = call(lambda: Q(q.copy()).exp().log().vec)
            if not ok:
                ctx.fail(cid, 'Quaternion.exp', 'raises:' + type(r).__name__, dict(P, law='log(exp)'), 'log(exp(q)) raised %r' % (r,))
            elif not np.all(np.isfinite(r)) or np.abs(r - q).max() > 1e-6 * sc:
                ctx.fail(cid, 'Quaternion.exp', 'mismatch', dict(P, law='log(exp)'), 'log(exp(q)) differs from q by %.3g (q=%s)' % (np.abs(r - q).max(), q.tolist()))
    # the same two identities, and the value of exp, when the receiver is a UnitQuaternion object (either sign of the quaternion)
    UQ = sm.UnitQuaternion
    for (gn, R), sg in itertools.product(alph.gen_SO3(tier, seed), (1, -1)):
        u = sg * ref.r2q_ref(R)
        u = u / math.sqrt(u @ u)
        nv = float(np.linalg.norm(u[1:]))
        if nv < 1e-7:
            continue
        cid = 'C12/explog/unit/%s/sign=%d' % (gn, sg)
        if not ctx.want(cid):
            continue
        ctx.case(cid, key=cid)
        P = dict(g=gn, sign=sg, receiver='UnitQuaternion')
        mkq = lambda: UQ(u.copy(), norm=False, check=False)
        want_exp = math.exp(u[0]) * np.r_[math.cos(nv), u[1:] / nv * math.sin(nv)]
        for law, f, want in (('exp', lambda: mkq().exp().vec, want_exp), ('log(exp)', lambda: mkq().exp().log().vec, u), ('exp(log)', lambda: mkq().log().exp().vec, u)):
            ok, r = call(f)
            if not ok:
                ctx.fail(cid, 'Quaternion.exp' if law != 'exp(log)' else 'Quaternion.log', 'raises:' + type(r).__name__, dict(P, law=law), '%s raised %r' % (law, r))
            elif not np.all(np.isfinite(np.asarray(r, dtype=float))) or np.abs(np.asarray(r, dtype=float) - want).max() > 1e-6:
                ctx.fail(cid, 'Quaternion.exp' if law != 'exp(log)' else 'Quaternion.log', 'mismatch', dict(P, law=law),
                         '%s of the unit quaternion %s is %s, expected %s' % (law, u.tolist(), np.asarray(r).tolist(), want.tolist()))
    # the power law and the inner product when the receiver is a UnitQuaternion object: rotation angles from 1e-12 to a full turn less
    # 1e-9 (the unit quaternion of angle a is (cos a/2, sin a/2 * axis)); the other operand of inner() a general quaternion
    angs = [(n, t) for n, t in alph.theta_alphabet(tier, seed)] + [('2pi-1e-9', 2 * math.pi - 1e-9), ('2pi-1e-7', 2 * math.pi - 1e-7), ('3.5', 3.5), ('1e-8', 1e-8), ('3e-9', 3e-9)]
    gq = A(4.0, 3.0, 2.0, 1.0)
    for (tn, th), (xn, ax) in itertools.product(angs, alph.axes(tier, seed)[:3]):
        u = np.r_[math.cos(th / 2), math.sin(th / 2) * ax]
        cid = 'C12/unitrecv/theta=%s/axis=%s' % (tn, xn)
        if not ctx.want(cid):
            continue
        ctx.case(cid, key=cid, trivial=(th == 0))
        P = dict(theta=tn, axis=xn, receiver='UnitQuaternion')
        mku = lambda: UQ(u.copy(), norm=False, check=False)
        ok, r = call(lambda: (mku().inner(sm.Quaternion(gq.copy())), sm.Quaternion(gq.copy()).inner(mku()), mku().inner(mku())))
        if not ok:
            ctx.fail(cid, 'Quaternion.inner', 'raises:' + type(r).__name__, dict(P, law='inner'), '%r' % (r,))
        else:
            for nm_, got, want in (('u.inner(q)', r[0], float(u @ gq)), ('q.inner(u)', r[1], float(u @ gq)), ('u.inner(u)', r[2], float(u @ u))):
                if abs(float(got) - want) > 1e-9 * max(1.0, abs(want)):
                    ctx.fail(cid, 'Quaternion.inner', 'mismatch', dict(P, law='inner', form=nm_), '%s = %r, the Euclidean dot product is %r' % (nm_, got, want))
        # sums and differences of two UnitQuaternion objects are plain element-wise sums (whichever hemisphere the operands are in), and the
        # product distributes over them
        for vn, v in (('-u', -u), ('other-hemisphere', -np.r_[math.cos(0.7), math.sin(0.7) * alph.unit((1, 2, 3))]), ('same-hemisphere', np.r_[math.cos(0.2), math.sin(0.2) * alph.unit((3, 1, 2))])):
            mkv = lambda: UQ(v.copy(), norm=False, check=False)
            ok, r = call(lambda: ((mku() + mkv()).vec, (mku() - mkv()).vec, (sm.Quaternion(gq.copy()) * (mku() + mkv())).vec, ((mku() + mkv()) * sm.Quaternion(gq.copy())).vec))
            Pd = dict(P, law='distrib', other=vn)
            if not ok:
                ctx.fail(cid, 'Quaternion.add', 'raises:' + type(r).__name__, Pd, '%r' % (r,))
                continue
            for nm_, got, want in (('u + v', r[0], u + v), ('u - v', r[1], u - v), ('p * (u + v)', r[2], ref.qmul(gq, u) + ref.qmul(gq, v)), ('(u + v) * p', r[3], ref.qmul(u, gq) + ref.qmul(v, gq))):
                if np.abs(np.asarray(got, dtype=float) - want).max() > 1e-9 * 10:
                    ctx.fail(cid, 'Quaternion.add', 'mismatch', dict(Pd, form=nm_), '%s with UnitQuaternion operands (%s) is %r, element-wise it is %r' % (nm_, vn, np.asarray(got).tolist(), want.tolist()))
                    break
        for n_ in range(-8, 9):
            rp = u.copy() if n_ != 0 else A(1, 0, 0, 0)
            base_ = u if n_ >= 0 else ref.qconj(u)
            rp = A(1, 0, 0, 0)
            for _ in range(abs(n_)):
                rp = ref.qmul(rp, base_)
            ok, r = call(lambda: (mku() ** n_).vec)
            if not ok:
                ctx.fail(cid, 'Quaternion.pow', 'raises:' + type(r).__name__, dict(P, law='pow', n=n_), '%r' % (r,))
            elif np.abs(np.asarray(r, dtype=float) - rp).max() > 1e-9:
                ctx.fail(cid, 'Quaternion.pow', 'mismatch', dict(P, law='pow', n=n_), 'u**%d differs from the repeated product by %.3g' % (n_, np.abs(np.asarray(r, dtype=float) - rp).max()))
    # the powers whose raw product drifts farthest from unit norm before it is normalised (|n| = 4..6), on the complete grid of unit quaternions
    # with integer direction components 0..3 (a validation band that is a few eps too narrow refuses a fraction of a percent of them)
    for comp in itertools.product(range(4), repeat=4):
        if not any(comp) or (tier == 'quick' and (comp[0] + 2 * comp[1] + 3 * comp[2] + 5 * comp[3]) % 2):
            continue
        u = np.array(comp, dtype=float)
        u = u / math.sqrt(float(u @ u))
        cid = 'C12/unitrecv/grid/%d%d%d%d' % comp
        if not ctx.want(cid):
            continue
        ctx.case(cid, key=cid)
        for n_ in (-6, -5, -4, 4, 5, 6):
            base_ = u if n_ >= 0 else ref.qconj(u)
            rp = A(1, 0, 0, 0)
            for _ in range(abs(n_)):
                rp = ref.qmul(rp, base_)
            ok, r = call(lambda: (UQ(list(comp)) ** n_).vec)
            P = dict(receiver='UnitQuaternion', law='pow', n=n_, grid=1)
            if not ok:
                ctx.fail(cid, 'Quaternion.pow', 'raises:' + type(r).__name__, P, 'UnitQuaternion(%r) ** %d raised %r' % (list(comp), n_, r))
            elif min(np.abs(np.asarray(r, dtype=float) - rp).max(), np.abs(np.asarray(r, dtype=float) + rp).max()) > 1e-9:
                ctx.fail(cid, 'Quaternion.pow', 'mismatch', P, 'UnitQuaternion(%r) ** %d differs from the repeated product' % (list(comp), n_))
    for tn, th in [(n, t) for n, t in alph.theta_alphabet(tier, seed) if 1e-7 < t < math.pi - 1e-7]:
        for xn, ax in alph.axes(tier, seed):
            q = np.r_[0.0, th * ax]
            cid = 'C12/explog/pure/theta=%s/axis=%s' % (tn, xn)
            if not ctx.want(cid):
                continue
            ctx.case(cid, key=cid)
            ok, r = call(lambda: Q(q.copy()).exp().log().vec)
            P = dict(theta=tn, axis=xn)
            if not ok:
                ctx.fail(cid, 'Quaternion.exp', 'raises:' + type(r).__name__, dict(P, law='log(exp)'), '%r' % (r,))
            elif np.abs(r - q).max() > 1e-6:
                ctx.fail(cid, 'Quaternion.exp', 'mismatch', dict(P, law='log(exp)'), 'log(exp(q)) differs by %.3g' % np.abs(r - q).max())


# --------------------------------------------------------------------------- dual quaternions

def dq(v8):
    import spatialmath as sm
    return sm.DualQuaternion(sm.Quaternion(np.array(v8[:4], dtype=float)), sm.Quaternion(np.array(v8[4:], dtype=float)))


def structure_constants():
    """c[i,j,:] = vec(e_i * e_j) read off the library's product of basis pairs; also checked against the
    dual-number extension of the Hamilton table (eps^2 = 0)"""
    E = np.eye(8)
    c = np.zeros((8, 8, 8))
    for i in range(8):
        for j in range(8):
            c[i, j] = (dq(E[i]) * dq(E[j])).vec
    want = np.zeros((8, 8, 8))
    for i in range(8):
        for j in range(8):
            a, b = E[i], E[j]
            real = ref.qmul(a[:4], b[:4])
            dual = ref.qmul(a[:4], b[4:]) + ref.qmul(a[4:], b[:4])
            want[i, j] = np.r_[real, dual]
    return c, want


def dual_grid(ctx, k, K, dilmode):
    """the product is THE bilinear map with those structure constants: {0,1}^16 (dilmode 0) and the dilated grids"""
    c, want = structure_constants()
    if k == 0 and not np.array_equal(c, want):
        i, j = np.argwhere(np.abs(c - want).sum(axis=2) > 0)[0]
        ctx.fail('C12/dual/structure', 'DualQuaternion.mul', 'mismatch', dict(grid='dual', law='structure', i=int(i), j=int(j)),
                 'e_%d * e_%d = %s, dual-number Hamilton table gives %s' % (i, j, c[i, j].tolist(), want[i, j].tolist()))
    da, db = {0: (1, 1), 1: (2, 1), 2: (1, 2)}[dilmode]
    for idx, pt in enumerate(itertools.product((0.0, 1.0), repeat=16)):
        if idx % K != k:
            continue
        a, b = np.array(pt[:8]) * da, np.array(pt[8:]) * db
        cid = 'C12/dual/grid%d/%s' % (dilmode, ''.join(str(int(x)) for x in pt))
        if not ctx.want(cid):
            continue
        ctx.case(cid, key=cid, trivial=not any(pt))
        ok, r = call(lambda: ((dq(a) * dq(b)).vec, dq(a).matrix() @ b))
        P = dict(grid='dual', dil=dilmode)
        if not ok:
            ctx.fail(cid, 'DualQuaternion.mul', 'raises:' + type(r).__name__, P, '%r' % (r,))
            continue
        w = np.einsum('i,j,ijk->k', a, b, want)
        exact(ctx, cid, 'DualQuaternion.mul', dict(P, law='bilinear'), r[0], w, 'a*b against the structure constants')
        exact(ctx, cid, 'DualQuaternion.matrix', dict(P, law='matrix'), r[1], w, 'matrix(a) @ vec(b) = vec(a*b)')


def dual_basis(ctx):
    E = np.eye(8)
    gens = [E[i] for i in range(8)] + [np.arange(1.0, 9.0), np.array([2.0, -1, 0, 3, 1, 0, -2, 1])]
    for (i, a), (j, b), (k, c) in itertools.product(enumerate(gens), repeat=3):
        cid = 'C12/dual/assoc/%d.%d.%d' % (i, j, k)
        if not ctx.want(cid):
            continue
        ctx.case(cid, key=cid)
        ok, r = call(lambda: (((dq(a) * dq(b)) * dq(c)).vec, (dq(a) * (dq(b) * dq(c))).vec))
        P = dict(grid='dual-basis', i=i, j=j, k=k)
        if not ok:
            ctx.fail(cid, 'DualQuaternion.mul', 'raises:' + type(r).__name__, P, '%r' % (r,))
            continue
        exact(ctx, cid, 'DualQuaternion.mul', dict(P, law='assoc'), r[0], r[1], '(ab)c = a(bc)')
    for (i, a), (j, b) in itertools.product(enumerate(gens), repeat=2):
        cid = 'C12/dual/pair/%d.%d' % (i, j)
        if not ctx.want(cid):
            continue
        ctx.case(cid, key=cid)
        ok, r = call(lambda: ((dq(a) + dq(b)).vec, (dq(a) - dq(b)).vec, (dq(a) * dq(b)).conj().vec, (dq(b).conj() * dq(a).conj()).vec, dq(a).conj().vec))
        P = dict(grid='dual-basis', i=i, j=j)
        if not ok:
            ctx.fail(cid, 'DualQuaternion.ops', 'raises:' + type(r).__name__, P, '%r' % (r,))
            continue
        exact(ctx, cid, 'DualQuaternion.add', dict(P, law='add'), r[0], a + b, 'a+b')
        exact(ctx, cid, 'DualQuaternion.sub', dict(P, law='sub'), r[1], a - b, 'a-b')
        exact(ctx, cid, 'DualQuaternion.conj', dict(P, law='conj-reverses'), r[2], r[3], 'conj(ab) = conj(b)conj(a)')
        exact(ctx, cid, 'DualQuaternion.conj', dict(P, law='conj'), r[4], np.r_[ref.qconj(a[:4]), ref.qconj(a[4:])], 'conj = (real*, dual*)')


def dual_norm(ctx):
    import spatialmath as sm
    tier, seed = ctx.tier, ctx.seed
    rots = alph.gen_SO3(tier, seed)
    trs = alph.translations(3, tier, seed) + [('1e6*e1', np.array([1e6, 0, 0])), ('g2', np.array([-2.0, 1.0, 0.5]))]
    for (rn, R), (tn, t) in itertools.product(rots, trs):
        cid = 'C12/dual/norm/%s/t=%s' % (rn, tn)
        if not ctx.want(cid):
            continue
        ctx.case(cid, key=cid, trivial=(rn == 'I' and tn == '0'))
        P = dict(g=rn, t=tn)
        ok, r = call(lambda: sm.UnitDualQuaternion(sm.SE3(ref.rt(R, t))).norm())
        if not ok:
            ctx.fail(cid, 'DualQuaternion.norm', 'raises:' + type(r).__name__, P, 'norm() raised %r' % (r,))
            continue
        try:
            a, bq = float(r[0]), float(r[1])
        except Exception:
            ctx.fail(cid, 'DualQuaternion.norm', 'returns:' + type(r).__name__, P, 'norm() = %r' % (r,))
            continue
        if not (math.isfinite(a) and math.isfinite(bq)) or abs(a - 1) > 1e-6 or abs(bq) > 1e-6:
            ctx.fail(cid, 'DualQuaternion.norm', 'mismatch', P, 'norm of a unit dual quaternion is (%r, %r)' % (a, bq))


def dual_symbolic(ctx):
    """"hold exactly (symbolically)" for the dual-number extension: the 8x8 matrix form times the coefficient vector equals the product, with the
    real part, the dual part, or both holding SymPy symbols (the entries of the difference simplify to exactly 0)"""
    import sympy
    import spatialmath as sm
    x, y, z, w = sympy.symbols('x y z w', real=True)
    Q = sm.Quaternion
    mixes = {'num/sym': (lambda: Q([1, 2, 3, 4]), lambda: Q([x, y, z, w])), 'sym/num': (lambda: Q([x, y, z, w]), lambda: Q([1, 2, 3, 4])),
             'sym/sym': (lambda: Q([x, 1, z, 2]), lambda: Q([y, w, 0, 1])), 'float/sym': (lambda: Q([0.5, -1.5, 2.0, 0.25]), lambda: Q([x, 0, z, 1]))}
    for mn, (mr, md) in mixes.items():
        cid = 'C12/dual/symbolic/%s' % mn
        if not ctx.want(cid):
            continue
        ctx.case(cid, key=cid)
        P = dict(law='matrix', mix=mn, cls='DualQuaternion')
        bq = sm.DualQuaternion(Q([0.5, -1, 2, 1]), Q([2, 0, 1, -1]))
        ok, r = call(lambda: (lambda a: (a.matrix(), (a * bq).vec))(sm.DualQuaternion(mr(), md())))
        if not ok:
            ctx.fail(cid, 'DualQuaternion.matrix', 'raises:' + type(r).__name__, P, 'matrix() / product of a dual quaternion with %s parts raised %r' % (mn, r))
            continue
        M, pv = r
        try:
            d = [sympy.simplify(sympy.sympify(e)) for e in (np.asarray(M, dtype=object) @ np.asarray(bq.vec, dtype=object) - np.asarray(pv, dtype=object)).ravel()]
            bad = [str(e) for e in d if not (e == 0 or (e.is_number and abs(float(e)) < 1e-12))]
        except Exception as e:
            bad = ['cannot be evaluated: %r' % (e,)]
        if np.shape(M) != (8, 8) or bad:
            ctx.fail(cid, 'DualQuaternion.matrix', 'mismatch', P, 'matrix(a) b - a*b does not vanish for %s parts: %s' % (mn, bad[:3]))


def dual_mixed(ctx):
    """products in which a UnitDualQuaternion object meets a general DualQuaternion (either side) or another unit one: the value is
    the dual-number Hamilton product of the two 8-vectors whatever the classes of the operands, and the 8x8 matrix form agrees"""
    import spatialmath as sm
    tier, seed = ctx.tier, ctx.seed
    rots = alph.gen_SO3(tier, seed)[:6]
    trs = [('0', np.zeros(3)), ('g', np.array([0.5, -1.5, 2.0])), ('1e3', 1e3 * alph.unit((3, 1, 2)))]
    gens8 = [np.arange(1.0, 9.0), np.array([2.0, -1, 0, 3, 1, 0, -2, 1]), np.array([0.0, 0, 0, 0, 1, 2, 3, 4]), np.array([3.0, 0, 0, 0, 0, 0, 0, 0])]

    def prod8(a, b):
        return np.r_[ref.qmul(a[:4], b[:4]), ref.qmul(a[:4], b[4:]) + ref.qmul(a[4:], b[:4])]
    units = []
    for (rn, R), (tn, t) in itertools.product(rots, trs):
        units.append(('%s|t=%s' % (rn, tn), ref.rt(R, t)))
    for ui, (un, T) in enumerate(units):
        mku = lambda T=T: sm.UnitDualQuaternion(sm.SE3(T.copy()))
        ok, uv = call(lambda: np.asarray(mku().vec, dtype=float))
        if not ok:
            continue
        sc = max(1.0, float(np.abs(uv).max()))
        # conjugate of the unit dual quaternion: (real*, dual*), the same 8 numbers conjugate the same in either class, and u conj(u) = 1 + 0 eps
        cidc = 'C12/dual/mixed/%s/conj' % un
        if ctx.want(cidc):
            ctx.case(cidc, key=cidc)
            Pc = dict(grid='dual-mixed', u=un.split('|')[0])
            okc, rc = call(lambda: (np.asarray(mku().conj().vec, dtype=float), np.asarray(dq(uv).conj().vec, dtype=float), np.asarray((mku() * mku().conj()).vec, dtype=float)))
            if not okc:
                ctx.fail(cidc, 'DualQuaternion.conj', 'raises:' + type(rc).__name__, Pc, '%r' % (rc,))
            else:
                wantc = np.r_[ref.qconj(uv[:4]), ref.qconj(uv[4:])]
                if np.abs(rc[0] - wantc).max() > 1e-9 * sc:
                    ctx.fail(cidc, 'DualQuaternion.conj', 'mismatch', dict(Pc, law='conj'), 'conj of the unit dual quaternion differs from (real*, dual*) by %.3g' % np.abs(rc[0] - wantc).max())
                if np.abs(rc[0] - rc[1]).max() > 1e-9 * sc:
                    ctx.fail(cidc, 'DualQuaternion.conj', 'mismatch', dict(Pc, law='conj-class'), 'the same 8 numbers conjugate differently as UnitDualQuaternion and as DualQuaternion')
                if np.abs(rc[2] - np.r_[1.0, np.zeros(7)]).max() > 1e-6 * sc:
                    ctx.fail(cidc, 'DualQuaternion.conj', 'mismatch', dict(Pc, law='u conj(u)'), 'u * conj(u) = %s, expected 1 + 0 eps' % rc[2].tolist())
        for gi, a in enumerate(gens8):
            cid = 'C12/dual/mixed/%s/a%d' % (un, gi)
            if not ctx.want(cid):
                continue
            ctx.case(cid, key=cid)
            P = dict(grid='dual-mixed', u=un.split('|')[0], a=gi)
            tests = (('U*D', lambda: (mku() * dq(a)).vec, prod8(uv, a)), ('D*U', lambda: (dq(a) * mku()).vec, prod8(a, uv)),
                     ('matrix(U)@D', lambda: mku().matrix() @ a, prod8(uv, a)), ('matrix(D)@U', lambda: dq(a).matrix() @ uv, prod8(a, uv)),
                     ('(U*D)*D2', lambda: ((mku() * dq(a)) * dq(gens8[(gi + 1) % 4])).vec, prod8(prod8(uv, a), gens8[(gi + 1) % 4])),
                     ('U*(D*D2)', lambda: (mku() * (dq(a) * dq(gens8[(gi + 1) % 4]))).vec, prod8(uv, prod8(a, gens8[(gi + 1) % 4]))))
            for law, f, want in tests:
                ok, r = call(f)
                if not ok:
                    ctx.fail(cid, 'DualQuaternion.mul', 'raises:' + type(r).__name__, dict(P, law=law), '%s raised %r' % (law, r))
                    continue
                r = np.asarray(r, dtype=float)
                tol = 1e-9 * sc * max(1.0, float(np.abs(want).max()))
                if r.shape != want.shape or not np.all(np.isfinite(r)) or np.abs(r - want).max() > tol:
                    ctx.fail(cid, 'DualQuaternion.mul', 'mismatch', dict(P, law=law), '%s differs from the dual-number Hamilton product by %.3g' %
                             (law, np.abs(r - want).max() if r.shape == want.shape else float('nan')))
        for vn, T2 in units[(ui * 5) % len(units)::7]:
            cid = 'C12/dual/mixed/%s/x/%s' % (un, vn)
            if not ctx.want(cid):
                continue
            ctx.case(cid, key=cid)
            ok, r = call(lambda: ((mku() * sm.UnitDualQuaternion(sm.SE3(T2.copy()))).vec, np.asarray(sm.UnitDualQuaternion(sm.SE3(T2.copy())).vec, dtype=float)))
            P = dict(grid='dual-mixed', u=un.split('|')[0], v=vn.split('|')[0], law='U*U')
            if not ok:
                ctx.fail(cid, 'DualQuaternion.mul', 'raises:' + type(r).__name__, P, '%r' % (r,))
                continue
            want = prod8(uv, r[1])
            if np.abs(np.asarray(r[0], dtype=float) - want).max() > 1e-9 * max(1.0, float(np.abs(want).max())):
                ctx.fail(cid, 'DualQuaternion.mul', 'mismatch', P, 'U*U2 differs from the dual-number Hamilton product by %.3g' % np.abs(np.asarray(r[0], dtype=float) - want).max())


def element_types(ctx):
    """operands held in arrays of another element type (single precision, integers) or in lists of NumPy scalars: the same real
    components, so the same products to 1e-9 relative (components chosen exactly representable in every type)"""
    import spatialmath.base as b
    import spatialmath as sm
    vals = [A(1, 2, -1, 3), A(0.5, -1.5, 2, 0.25), A(3, 0, -2, 1), A(-0.75, 1, 1, 2)]
    conv = {'float32': lambda v: v.astype(np.float32), 'float16': lambda v: v.astype(np.float16), 'int-array': lambda v: (4 * v).astype(np.int64),
            'list-f32': lambda v: [np.float32(x) for x in v], 'list-int': lambda v: [int(4 * x) for x in v]}
    for (i, a), (j, bb), (tn, cv) in itertools.product(enumerate(vals), enumerate(vals), conv.items()):
        cid = 'C12/etype/%s/%d.%d' % (tn, i, j)
        if not ctx.want(cid):
            continue
        ctx.case(cid, key=cid)
        k = 4.0 if 'int' in tn else 1.0           # integer containers hold 4x the components (all are multiples of 1/4)
        ta, tb = cv(a), cv(bb)
        P = dict(grid='etype', etype=tn)
        fa, fb = a * k, bb * k
        tests = (('base.qqmul', lambda: b.qqmul(ta, tb), ref.qmul(fa, fb)), ('base.qnorm', lambda: b.qnorm(ta), math.sqrt(float(fa @ fa))), ('base.conj', lambda: b.conj(ta), ref.qconj(fa)),
                 ('base.inner', lambda: b.inner(ta, tb), float(fa @ fb)), ('base.qpow', lambda: b.qpow(ta, 3), ref.qmul(ref.qmul(fa, fa), fa)),
                 ('base.matrix', lambda: b.matrix(ta) @ fb, ref.qmul(fa, fb)), ('Quaternion.mul', lambda: (sm.Quaternion(ta) * sm.Quaternion(tb)).vec, ref.qmul(fa, fb)),
                 ('Quaternion.norm', lambda: sm.Quaternion(ta).norm(), math.sqrt(float(fa @ fa))), ('Quaternion.pow', lambda: (sm.Quaternion(ta) ** -2).vec, ref.qconj(ref.qmul(fa, fa))))
        for site, f, want in tests:
            ok, r = call(f)
            if not ok:
                ctx.note('etype_refused', '%s(%s) -> %s' % (site, tn, type(r).__name__))
                continue
            r = np.asarray(r, dtype=float)
            w = np.asarray(want, dtype=float)
            if r.shape != w.shape or np.abs(r - w).max() > 1e-9 * max(1.0, float(np.abs(w).max())):
                ctx.fail(cid, site, 'mismatch', dict(P, law='value'), '%s with %s operands: %s, expected %s' % (site, tn, r.tolist(), w.tolist()))


def shards(tier, seed):
    out = []
    for d in (1, 2, 3):
        out += [('grid', w, d) for w in ('assoc', 'distrib', 'pairs', 'pow', 'rates')]
        out.append(('class', d))
    out.append(('numeric',))
    out.append(('multi',))
    for mode in (0, 1, 2):
        K = 8
        out += [('dual', k, K, mode) for k in range(K)]
    out += [('dualbasis',), ('dualnorm',), ('dualmixed',), ('etype',)]
    return out


def run_shard(ctx, shard):
    k = shard[0]
    if k == 'grid':
        grid_base(ctx, shard[1], shard[2])
    elif k == 'class':
        grid_class(ctx, shard[1])
    elif k == 'numeric':
        numeric(ctx)
    elif k == 'multi':
        class_multi(ctx)
    elif k == 'dual':
        dual_grid(ctx, shard[1], shard[2], shard[3])
    elif k == 'dualbasis':
        dual_basis(ctx)
    elif k == 'dualmixed':
        dual_mixed(ctx)
        dual_symbolic(ctx)
    elif k == 'etype':
        element_types(ctx)
    else:
        dual_norm(ctx)
