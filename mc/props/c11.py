"""
C11  Interpolation: endpoints, validity, linear translation, constant-rate rotation.

E1 product: start pose (omitted / 3 poses) x relative rotation (angle ladder 1e-12..1e-1, generic,
pi-1e-1..pi-1e-6; 4 axes) x translation pairs x s (ladders at 0 and 1 inside [0,1], generic, and
values slightly outside) x scalar / vector s x shortest on/off x entry point (trinterp 3x3/4x4,
trinterp2 2x2/3x3, slerp, SO2/SE2/SO3/SE3.interp, UnitQuaternion.interp).
Oracle: R0' R(s) = exp(s*phi*[u]) for ONE phi in {theta_rel, theta_rel - 2 pi} over the whole s
ladder (phi = theta_rel when the shorter arc is requested), translation (1-s) t0 + s t1, validity,
end points, exception outside [0,1] for the 3-D matrix and quaternion interpolators; 1e-6.
"""
import itertools, math
import numpy as np
from mc import ref, alph
from mc.core import call

PROP = 'C11'
LEVEL = 'exploration'
RULE = ('full product start x relative rotation (angle ladder x axis) x translation pair x s-ladder x entry point x shortest; the arc is '
        'identified per (pair, entry point) over the whole s ladder; non-trivial = relative motion is not the identity; distinct = distinct '
        '(entry, start, rel angle, axis, translation pair, s)')
ASSUME = ['tolerance 1e-6 (relative to max(1,|t|) for translations)', 'when the shorter arc is not requested either arc is accepted but it must be the same arc for every s',
          'pairs whose quaternions are closer than 0.5 rad to antipodal are not enumerated when the shorter arc is not requested',
          '2-D: the angle may be interpolated towards theta1 or theta1 +- 2 pi, consistently over s']
ANCHORS = [('spatialmath.base.quaternions', 'slerp'), ('spatialmath.base.transforms3d', 'trinterp'), ('spatialmath.base.transforms2d', 'trinterp2'),
           ('spatialmath.super_pose', 'SMPose.interp'), ('spatialmath.quaternion', 'UnitQuaternion.interp')]

PI = math.pi
TOL = 1e-6


def s_ladder(tier):
    ks = (-12, -6, -3) if tier == 'quick' else tuple(range(-15, 0, 1))
    out = [('0', 0.0), ('1', 1.0)]
    for k in ks:
        out.append(('0+1e%d' % k, 10.0 ** k))
        out.append(('1-1e%d' % k, 1.0 - 10.0 ** k))
    out += [('0.3', 0.3), ('0.5', 0.5), ('0.77', 0.77)]
    return out


S_OUT = [('-0.1', -0.1), ('-1e-12', -1e-12), ('1+1e-12', 1 + 1e-12), ('1.1', 1.1)]


def rel_angles(tier, seed):
    out = []
    for k in ((-12, -9, -8, -7, -6, -5, -4, -3, -2, -1) if tier == 'quick' else range(-15, 0)):
        out.append(('1e%d' % k, 10.0 ** k))
    if tier != 'quick':
        out += [('1.5e-8', 1.5e-8), ('1.4e-7', 1.4e-7), ('3e-6', 3e-6), ('3e-5', 3e-5), ('3e-4', 3e-4), ('2e-3', 2e-3)]
    else:
        out += [('3e-6', 3e-6), ('3e-4', 3e-4), ('2e-3', 2e-3)]
    out += [('0.7', 0.7), ('1.9', 1.9), ('2.5', 2.5), ('pi/2', PI / 2)]
    out += [('0.03', 0.03), ('0.07', 0.07), ('0.085', 0.085)]          # between the decades: where a "nearly parallel" shortcut of the blend would sit
    for k in ((-1, -3, -6) if tier == 'quick' else range(-6, 0)):
        out.append(('pi-1e%d' % k, PI - 10.0 ** k))
    return out


def starts3(tier):
    out = [('I', np.eye(3)), ('Rx(0.3)Ry(-0.7)', ref.rotx(0.3) @ ref.roty(-0.7)), ('rod(2.5)', ref.rodrigues((1, 2, 3), 2.5))]
    # starts just short of a half turn about +z: a relative rotation about the same axis carries the end pose across the half turn, so
    # that the quaternions the matrix interpolator extracts lie in opposite hemispheres although the poses are close
    out += [('Rz(pi-0.05)', ref.rotz(PI - 0.05)), ('Rz(pi-1e-4)', ref.rotz(PI - 1e-4))]
    if tier != 'quick':
        out.append(('rod(-1.9)', ref.rodrigues((-2, 1, 0.5), -1.9)))
    return out


def tpairs(tier):
    out = [('0/0', np.zeros(3), np.zeros(3)), ('g/g2', np.array([0.5, -1.5, 2.0]), np.array([-2.0, 1.0, 0.5])),
           ('1e-6/1e3', 1e-6 * np.ones(3), 1e3 * alph.unit((1, 2, 3))), ('1e6/-1e6', 1e6 * alph.unit((1, 2, 3)), -1e6 * alph.unit((3, 1, 2)))]
    # a short move far from the origin (the two positions are "close" by any relative test, the move is still far above the tolerance)
    out += [('1e6/+5', 1e6 * np.ones(3), 1e6 * np.ones(3) + np.array([5.0, -3.0, 2.0])), ('1e3/+2e-3', 1e3 * np.ones(3), 1e3 * np.ones(3) + np.array([2e-3, -1e-3, 3e-3]))]
    if tier != 'quick':
        out += [('1/1', np.ones(3), np.ones(3)), ('0/1e6', np.zeros(3), 1e6 * alph.unit((0, 1, 0)))]
    return out


def check_member(ctx, cid, site, P, M, kind):
    d = ref.member_defect(M, kind, 1e-9)
    if d:
        ctx.fail(cid, site, 'invalid-member', P, d)
        return False
    return True


def judge_arc(ctx, cid, site, P, results, R0, axis, theta, shortest, dim3=True):
    """results: [(s name, s, R(s) 3x3)]; one phi must explain all of them"""
    cands = [theta] if shortest else [theta, theta - 2 * PI]
    errs = []
    for phi in cands:
        worst, ws = 0.0, None
        for sn, s, R in results:
            want = R0 @ (ref.mp_rot(axis, s * phi) if s * phi != 0 else np.eye(3))
            d = ref.maxdiff(R, want)
            if d > worst:
                worst, ws = d, sn
        errs.append((worst, ws, phi))
    best = min(errs, key=lambda e: e[0])
    if best[0] > TOL:
        ctx.fail(cid, site, 'mismatch', dict(P, what='arc', s=best[1]),
                 'no single arc explains the interpolated rotations: best phi=%.6g leaves %.3g at s=%s%s' %
                 (best[2], best[0], best[1], ' (shorter arc requested)' if shortest else ''))


def three_d(ctx, k, K):
    import spatialmath as sm
    import spatialmath.base as b
    tier, seed = ctx.tier, ctx.seed
    SL = s_ladder(tier)
    axes = [('+z', np.array([0, 0, 1.0])), ('g', alph.unit((1, 2, 3))), ('g2', alph.unit((-2, 1, 0.5))), ('nd', alph.unit((1, 1e-8, 0)))]
    i = 0
    for (sn0, R0), (an, th), (xn, ax) in itertools.product(starts3(tier), rel_angles(tier, seed), axes):
        if sn0.startswith('Rz(pi') and xn in ('g2', 'nd') and tier == 'quick':
            continue
        i += 1
        if i % K != k:
            continue
        Rrel = ref.mp_rot(ax, th)
        R1 = R0 @ Rrel
        q0 = ref.r2q_ref(R0)
        qrel = np.r_[math.cos(th / 2), math.sin(th / 2) * ax]
        q1 = ref.qmul(q0, qrel)
        base = 'C11/3D/start=%s/rel=%s/axis=%s' % (sn0, an, xn)
        P0 = dict(start=sn0, rel=an, axis=xn, rel_val=th)
        omit = (sn0 == 'I')
        # ---------------- entry points returning rotations: name -> (callable(s), kind, site, shortest flag)
        entries = []
        entries.append(('trinterp/3x3', lambda s: b.trinterp(R0.copy(), R1.copy(), s), 'base.trinterp', False))
        entries.append(('SO3.interp', lambda s: sm.SO3(R1.copy()).interp(s, start=sm.SO3(R0.copy())).A, 'SO3.interp', False))
        if omit:
            entries.append(('trinterp/3x3/nostart', lambda s: b.trinterp(None, R1.copy(), s), 'base.trinterp', False))
            entries.append(('SO3.interp/nostart', lambda s: sm.SO3(R1.copy()).interp(s).A, 'SO3.interp', False))
            entries.append(('UnitQuaternion.interp/nostart', lambda s: ref.q2r(sm.UnitQuaternion(q1.copy()).interp(s).vec), 'UnitQuaternion.interp', False))
        for sh in (False, True):
            for sg in (1, -1):
                if sg == -1 and not sh and th < 0.5:
                    continue                 # nearly antipodal pair, excluded when the shorter arc is not requested
                entries.append(('slerp/short=%d/sign=%d' % (sh, sg), lambda s, sh=sh, sg=sg: ref.q2r(b.slerp(q0.copy(), sg * q1, s, shortest=sh)), 'base.slerp', sh))
                entries.append(('UnitQuaternion.interp/short=%d/sign=%d' % (sh, sg),
                                lambda s, sh=sh, sg=sg: ref.q2r(sm.UnitQuaternion(q0.copy()).interp(s, dest=sm.UnitQuaternion(sg * q1, norm=False, check=False), shortest=sh).vec),
                                'UnitQuaternion.interp', sh))
                if sh and sg == -1:
                    # the request spelt as a NumPy boolean (what `q0.inner(q1) < 0` gives) or as 1
                    for fn_, fv in (('npbool', np.bool_(True)), ('one', 1)):
                        entries.append(('slerp/short=%s/sign=%d' % (fn_, sg), lambda s, fv=fv, sg=sg: ref.q2r(b.slerp(q0.copy(), sg * q1, s, shortest=fv)), 'base.slerp', True))
                        entries.append(('UnitQuaternion.interp/short=%s/sign=%d' % (fn_, sg),
                                        lambda s, fv=fv, sg=sg: ref.q2r(sm.UnitQuaternion(q0.copy()).interp(s, dest=sm.UnitQuaternion(sg * q1, norm=False, check=False), shortest=fv).vec),
                                        'UnitQuaternion.interp', True))
        for en, f, site, sh in entries:
            results = []
            P = dict(P0, entry=en.split('/')[0], shortest=int(sh))
            for sn, s in SL:
                cid = '%s/%s/s=%s' % (base, en, sn)
                if not ctx.want(cid, walk=True):
                    continue
                ctx.case(cid, key=cid)
                ok, R = call(f, s)
                if not ok:
                    ctx.fail(cid, site, 'raises:' + type(R).__name__, dict(P, s=sn), '%s at s=%s raised %r' % (en, sn, R))
                    continue
                R = np.asarray(R)
                if not check_member(ctx, cid, site, dict(P, s=sn), R, 'SO3'):
                    continue
                results.append((sn, s, R))
                if s == 0 and ref.maxdiff(R, R0) > TOL:
                    ctx.fail(cid, site, 'mismatch', dict(P, what='endpoint', s=sn), 's=0 does not give the start pose (%.3g)' % ref.maxdiff(R, R0))
                if s == 1 and ref.maxdiff(R, R1) > TOL:
                    ctx.fail(cid, site, 'mismatch', dict(P, what='endpoint', s=sn), 's=1 does not give the end pose (%.3g)' % ref.maxdiff(R, R1))
            if results:
                ctx.case('%s/%s/arc' % (base, en), key=(base, en, 'arc'))
                judge_arc(ctx, '%s/%s/arc' % (base, en), site, P, results, R0, ax, th, sh)
                ctx.cell(site, 'short' if sh else 'free', 'small' if th < 1e-6 else ('nearpi' if th > PI - 1e-2 else 'mid'))
            # outside [0,1]: must raise
            for sn, s in S_OUT:
                cid = '%s/%s/s=%s' % (base, en, sn)
                if not ctx.want(cid):
                    continue
                ctx.case(cid, key=cid)
                ok, R = call(f, s)
                if ok:
                    ctx.fail(cid, site, 'no-raise', dict(P, s=sn), '%s accepted s=%s' % (en, sn))
        # ---------------- SE(3): translation linear, rotation as above
        for tn, t0, t1 in tpairs(tier):
            T0, T1 = ref.rt(R0, t0), ref.rt(R1, t1)
            sc = max(1.0, float(np.linalg.norm(t0)), float(np.linalg.norm(t1)))
            ents = [('trinterp/4x4', lambda s: b.trinterp(T0.copy(), T1.copy(), s), 'base.trinterp'),
                    ('SE3.interp', lambda s: sm.SE3(T1.copy()).interp(s, start=sm.SE3(T0.copy())).A, 'SE3.interp')]
            if omit and not np.any(t0):
                ents.append(('trinterp/4x4/nostart', lambda s: b.trinterp(None, T1.copy(), s), 'base.trinterp'))
                ents.append(('SE3.interp/nostart', lambda s: sm.SE3(T1.copy()).interp(s).A, 'SE3.interp'))
            for en, f, site in ents:
                results = []
                P = dict(P0, entry=en.split('/')[0], t=tn, shortest=0)
                for sn, s in SL:
                    cid = '%s/%s/t=%s/s=%s' % (base, en, tn, sn)
                    if not ctx.want(cid, walk=True):
                        continue
                    ctx.case(cid, key=cid)
                    ok, T = call(f, s)
                    if not ok:
                        ctx.fail(cid, site, 'raises:' + type(T).__name__, dict(P, s=sn), '%s at s=%s raised %r' % (en, sn, T))
                        continue
                    T = np.asarray(T)
                    if not check_member(ctx, cid, site, dict(P, s=sn), T, 'SE3'):
                        continue
                    results.append((sn, s, T[:3, :3]))
                    want_t = (1 - s) * t0 + s * t1
                    d = float(np.abs(T[:3, 3] - want_t).max())
                    if d > TOL * sc:
                        ctx.fail(cid, site, 'mismatch', dict(P, what='translation', s=sn), 'translation differs from (1-s) t0 + s t1 by %.3g' % d)
                    if s in (0, 1) and ref.maxdiff(T, T0 if s == 0 else T1) > TOL * sc:
                        ctx.fail(cid, site, 'mismatch', dict(P, what='endpoint', s=sn), 'end point not reproduced')
                if results:
                    ctx.case('%s/%s/t=%s/arc' % (base, en, tn), key=(base, en, tn, 'arc'))
                    judge_arc(ctx, '%s/%s/t=%s/arc' % (base, en, tn), site, P, results, R0, ax, th, False)
                for sn, s in S_OUT:
                    cid = '%s/%s/t=%s/s=%s' % (base, en, tn, sn)
                    if not ctx.want(cid):
                        continue
                    ctx.case(cid, key=cid)
                    ok, T = call(f, s)
                    if ok:
                        ctx.fail(cid, site, 'no-raise', dict(P, s=sn), '%s accepted s=%s' % (en, sn))
        # ---------------- vector of s containing a value outside [0,1]: the corresponding scalar call raises, so must this
        for on, so in S_OUT:
            bad = [0.25, so, 0.75]
            for en, f, site in (('SO3.interp/vec-out', lambda: sm.SO3(R1.copy()).interp(list(bad), start=sm.SO3(R0.copy())), 'SO3.interp'),
                                ('SE3.interp/vec-out', lambda: sm.SE3(ref.rt(R1, (1.0, 2, 3))).interp(np.array(bad)), 'SE3.interp'),
                                ('UnitQuaternion.interp/vec-out', lambda: sm.UnitQuaternion(q0.copy()).interp(list(bad), dest=sm.UnitQuaternion(q1.copy())), 'UnitQuaternion.interp'),
                                ('UnitQuaternion.interp/vec-out/nodest', lambda: sm.UnitQuaternion(q1.copy()).interp(np.array(bad)), 'UnitQuaternion.interp')):
                cid = '%s/%s/s=%s' % (base, en, on)
                if not ctx.want(cid):
                    continue
                ctx.case(cid, key=cid)
                ok, r = call(f)
                if ok:
                    ctx.fail(cid, site, 'no-raise', dict(P0, entry=en.split('/')[0], mode='vector-s', s=on), '%s accepted a vector of s containing %s' % (en, on))
        # ---------------- vector of s: ascending, unsorted with repeated end values, descending (element j belongs to s[j])
        for svn, sv in (('', [s for _, s in SL[:7]]), ('/unsorted', [0.3, 1.0, 0.77, 0.0, 0.5, 1.0, 1e-12]), ('/descending', [1.0, 0.5, 0.3, 0.0])):
            if svn and (th < 1e-3 or not alph.thin(base, 'quick', 2, 2)):
                continue
            for en, f, one, site in (
                    ('SO3.interp/vec', lambda: sm.SO3(R1.copy()).interp(list(sv), start=sm.SO3(R0.copy())), lambda s: sm.SO3(R1.copy()).interp(s, start=sm.SO3(R0.copy())), 'SO3.interp'),
                    ('SE3.interp/vec', lambda: sm.SE3(ref.rt(R1, (1.0, 2, 3))).interp(np.array(sv), start=sm.SE3(ref.rt(R0, (0.5, -1, 0)))),
                     lambda s: sm.SE3(ref.rt(R1, (1.0, 2, 3))).interp(s, start=sm.SE3(ref.rt(R0, (0.5, -1, 0)))), 'SE3.interp'),
                    ('UnitQuaternion.interp/vec', lambda: sm.UnitQuaternion(q0.copy()).interp(list(sv), dest=sm.UnitQuaternion(q1.copy())),
                     lambda s: sm.UnitQuaternion(q0.copy()).interp(s, dest=sm.UnitQuaternion(q1.copy())), 'UnitQuaternion.interp'),
                    ('UnitQuaternion.interp/vec/short=1/sign=-1', lambda: sm.UnitQuaternion(q0.copy()).interp(list(sv), dest=sm.UnitQuaternion(-q1, norm=False, check=False), shortest=True),
                     lambda s: sm.UnitQuaternion(q0.copy()).interp(s, dest=sm.UnitQuaternion(-q1, norm=False, check=False), shortest=True), 'UnitQuaternion.interp'),
                    ('UnitQuaternion.interp/vec/short=1/sign=1', lambda: sm.UnitQuaternion(q0.copy()).interp(np.array(sv), dest=sm.UnitQuaternion(q1.copy()), shortest=True),
                     lambda s: sm.UnitQuaternion(q0.copy()).interp(s, dest=sm.UnitQuaternion(q1.copy()), shortest=True), 'UnitQuaternion.interp'),
                    ('UnitQuaternion.interp/vec/short=0/sign=-1', lambda: sm.UnitQuaternion(q0.copy()).interp(list(sv), dest=sm.UnitQuaternion(-q1, norm=False, check=False)) if th >= 0.5 else None,
                     lambda s: sm.UnitQuaternion(q0.copy()).interp(s, dest=sm.UnitQuaternion(-q1, norm=False, check=False)), 'UnitQuaternion.interp')):
                cid = '%s/%s%s' % (base, en, svn)
                if not ctx.want(cid):
                    continue
                ctx.case(cid, key=cid)
                P = dict(P0, entry=en.split('/')[0], mode='vector-s')
                ok, seq = call(f)
                if ok and seq is None:
                    continue            # pair excluded for this mode (nearly antipodal without shortest)
                if not ok:
                    ctx.fail(cid, site, 'raises:' + type(seq).__name__, P, 'vector of s raised %r' % (seq,))
                    continue
                if not hasattr(seq, 'data') or len(seq.data) != len(sv):
                    ctx.fail(cid, site, 'mismatch', dict(P, what='count'), 'vector of %d s values gave %s' % (len(sv), type(seq).__name__))
                    continue
                for j, s in enumerate(sv):
                    ok1, o = call(one, s)
                    if ok1 and min(ref.maxdiff(seq.data[j], o.data[0]), ref.maxdiff(seq.data[j], -np.asarray(o.data[0])) if en.startswith('Unit') else 9) > 1e-12:
                        ctx.fail(cid, site, 'mismatch', dict(P, what='value', j=j), 'element %d of the sequence differs from the scalar call' % j)


def two_d(ctx):
    import spatialmath as sm
    import spatialmath.base as b
    tier, seed = ctx.tier, ctx.seed
    SL = s_ladder(tier)
    a0s = [('0', 0.0), ('0.3', 0.3), ('-1.9', -1.9), ('3.0', 3.0)]
    rels = [(n, v) for n, v in rel_angles(tier, seed)]
    tp = [(n, a[:2], c[:2]) for n, a, c in tpairs(tier)]
    for (n0, a0), (rn, d), sg in itertools.product(a0s, rels, (1, -1)):
        a1 = a0 + sg * d
        R0, R1 = ref.rot2(a0), ref.rot2(a1)
        base = 'C11/2D/a0=%s/rel=%s%s' % (n0, '-' if sg < 0 else '', rn)
        P0 = dict(a0=n0, rel=rn, sign=sg, rel_val=d)
        a1p = math.atan2(math.sin(a1), math.cos(a1))
        a0p = math.atan2(math.sin(a0), math.cos(a0))
        cands = [a1p, a1p + 2 * PI, a1p - 2 * PI]

        def judge(cid, site, P, results):
            best = None
            for c in cands:
                w = max([ref.maxdiff(R, ref.rot2((1 - s) * a0p + s * c)) for _, s, R in results] or [0])
                if best is None or w < best:
                    best = w
            if best > TOL:
                ctx.fail(cid, site, 'mismatch', dict(P, what='angle'), 'the rotation angle is not linear in s (best candidate leaves %.3g)' % best)
        ents = [('trinterp2/2x2', lambda s: b.trinterp2(R0.copy(), R1.copy(), s), 'base.trinterp2', 'SO2'),
                ('SO2.interp', lambda s: sm.SO2(R1.copy()).interp(s, start=sm.SO2(R0.copy())).A, 'SO2.interp', 'SO2')]
        if a0 == 0:
            ents.append(('trinterp2/2x2/nostart', lambda s: b.trinterp2(None, R1.copy(), s), 'base.trinterp2', 'SO2'))
            ents.append(('SO2.interp/nostart', lambda s: sm.SO2(R1.copy()).interp(s).A, 'SO2.interp', 'SO2'))
        for en, f, site, kind in ents:
            results = []
            P = dict(P0, entry=en.split('/')[0])
            for sn, s in SL:
                cid = '%s/%s/s=%s' % (base, en, sn)
                if not ctx.want(cid, walk=True):
                    continue
                ctx.case(cid, key=cid)
                ok, R = call(f, s)
                if not ok:
                    ctx.fail(cid, site, 'raises:' + type(R).__name__, dict(P, s=sn), '%r' % (R,))
                    continue
                R = np.asarray(R)
                if not check_member(ctx, cid, site, dict(P, s=sn), R, kind):
                    continue
                results.append((sn, s, R))
                if s in (0, 1) and ref.maxdiff(R, R0 if s == 0 else R1) > TOL:
                    ctx.fail(cid, site, 'mismatch', dict(P, what='endpoint', s=sn), 'end point not reproduced')
            if results:
                ctx.case('%s/%s/arc' % (base, en), key=(base, en, 'arc'))
                judge('%s/%s/arc' % (base, en), site, P, results)
        # vector of s in 2-D (ascending, unsorted, descending), with and without an explicit start: element j is the scalar call at s[j]
        tv0, tv1 = tp[1][1], tp[1][2]
        for svn, sv in (('', [0.0, 1e-12, 0.3, 0.5, 1.0]), ('/unsorted', [0.3, 1.0, 0.77, 0.0, 1.0, 1e-12]), ('/descending', [1.0, 0.5, 0.0])):
            vents = [('SO2.interp/vec', lambda: sm.SO2(R1.copy()).interp(list(sv), start=sm.SO2(R0.copy())), lambda x: sm.SO2(R1.copy()).interp(x, start=sm.SO2(R0.copy())), 'SO2.interp'),
                     ('SE2.interp/vec', lambda: sm.SE2(ref.rt(R1, tv1)).interp(np.array(sv), start=sm.SE2(ref.rt(R0, tv0))),
                      lambda x: sm.SE2(ref.rt(R1, tv1)).interp(x, start=sm.SE2(ref.rt(R0, tv0))), 'SE2.interp')]
            if a0 == 0:
                vents += [('SO2.interp/vec/nostart', lambda: sm.SO2(R1.copy()).interp(list(sv)), lambda x: sm.SO2(R1.copy()).interp(x), 'SO2.interp'),
                          ('SE2.interp/vec/nostart', lambda: sm.SE2(ref.rt(R1, tv1)).interp(tuple(sv)), lambda x: sm.SE2(ref.rt(R1, tv1)).interp(x), 'SE2.interp')]
            for en, fv, fs, site in vents:
                cid = '%s/%s%s' % (base, en, svn)
                if not ctx.want(cid):
                    continue
                ctx.case(cid, key=cid)
                P = dict(P0, entry=en.split('/')[0], mode='vector-s')
                ok, X = call(fv)
                if not ok:
                    ctx.fail(cid, site, 'raises:' + type(X).__name__, P, 'vector of s raised %r' % (X,))
                    continue
                if not hasattr(X, 'data') or len(X.data) != len(sv):
                    ctx.fail(cid, site, 'mismatch', dict(P, what='count'), 'vector of %d s values gave %s' % (len(sv), type(X).__name__))
                    continue
                for j, sj in enumerate(sv):
                    ok1, x1 = call(fs, sj)
                    if ok1 and ref.maxdiff(np.asarray(X.data[j], dtype=float), np.asarray(x1.data[0], dtype=float)) > TOL * max(1.0, float(np.linalg.norm(tv1))):
                        ctx.fail(cid, site, 'mismatch', dict(P, what='value', j=j), 'element %d of the sequence differs from the scalar call' % j)
                        break
        for tn, t0, t1 in tp:
            T0, T1 = ref.rt(R0, t0), ref.rt(R1, t1)
            sc = max(1.0, float(np.linalg.norm(t0)), float(np.linalg.norm(t1)))
            ents = [('trinterp2/3x3', lambda s: b.trinterp2(T0.copy(), T1.copy(), s), 'base.trinterp2'),
                    ('SE2.interp', lambda s: sm.SE2(T1.copy()).interp(s, start=sm.SE2(T0.copy())).A, 'SE2.interp')]
            if a0 == 0 and not np.any(t0):
                ents.append(('trinterp2/3x3/nostart', lambda s: b.trinterp2(None, T1.copy(), s), 'base.trinterp2'))
            for en, f, site in ents:
                results = []
                P = dict(P0, entry=en.split('/')[0], t=tn)
                for sn, s in SL:
                    cid = '%s/%s/t=%s/s=%s' % (base, en, tn, sn)
                    if not ctx.want(cid, walk=True):
                        continue
                    ctx.case(cid, key=cid)
                    ok, T = call(f, s)
                    if not ok:
                        ctx.fail(cid, site, 'raises:' + type(T).__name__, dict(P, s=sn), '%r' % (T,))
                        continue
                    T = np.asarray(T)
                    if not check_member(ctx, cid, site, dict(P, s=sn), T, 'SE2'):
                        continue
                    results.append((sn, s, T[:2, :2]))
                    d = float(np.abs(T[:2, 2] - ((1 - s) * t0 + s * t1)).max())
                    if d > TOL * sc:
                        ctx.fail(cid, site, 'mismatch', dict(P, what='translation', s=sn), 'translation differs from (1-s) t0 + s t1 by %.3g' % d)
                    if s in (0, 1) and ref.maxdiff(T, T0 if s == 0 else T1) > TOL * sc:
                        ctx.fail(cid, site, 'mismatch', dict(P, what='endpoint', s=sn), 'end point not reproduced')
                if results:
                    ctx.case('%s/%s/t=%s/arc' % (base, en, tn), key=(base, en, tn, 'arc'))
                    judge('%s/%s/t=%s/arc' % (base, en, tn), site, P, results)


def integer_cases(ctx):
    """poses held in integer (or single precision) arrays - SE3(1, 2, 3) keeps int64, a hand-typed quarter turn too: the interpolant
    must be the one obtained from the float copy of the same poses (which the other shards judge against the reference)"""
    import spatialmath as sm
    import spatialmath.base as b
    from mc.props.c05 import cube_rotations
    SV = [('0', 0.0), ('0.25', 0.25), ('0.5', 0.5), ('0.8', 0.8), ('1', 1.0)]
    rots = cube_rotations()
    tr3 = [(0, 0, 0), (1, 2, 3), (-4, 0, 7)]
    for (i0, R0), (i1, R1), (ti, t1) in itertools.product([(0, rots[0]), (5, rots[5])], list(enumerate(rots)), list(enumerate(tr3))):
        t0 = (0, 0, 0) if i0 == 0 else (2, -1, 5)
        for dt in ('int64', 'int32'):        # single precision data cannot meet the 100 eps membership test of the classes: not claimed
            def T_(R, t, d):
                T = np.eye(4).astype(d)
                T[:3, :3] = R.astype(d)
                T[:3, 3] = np.array(t).astype(d)
                return T
            ents = []
            for d in (dt, 'float64'):
                A, B_ = T_(R0, t0, d), T_(R1, t1, d)
                e = [('trinterp/4x4', lambda s, A=A, B_=B_: b.trinterp(A.copy(), B_.copy(), s), 'base.trinterp', 'SE3'),
                     ('SE3.interp', lambda s, A=A, B_=B_: sm.SE3(B_.copy()).interp(s, start=sm.SE3(A.copy())).A, 'SE3.interp', 'SE3')]
                if ti == 0:
                    e += [('trinterp/3x3', lambda s, A=A, B_=B_: b.trinterp(A[:3, :3].copy(), B_[:3, :3].copy(), s), 'base.trinterp', 'SO3'),
                          ('SO3.interp', lambda s, A=A, B_=B_: sm.SO3(B_[:3, :3].copy()).interp(s, start=sm.SO3(A[:3, :3].copy())).A, 'SO3.interp', 'SO3')]
                if i0 == 0:
                    e += [('trinterp/4x4/nostart', lambda s, B_=B_: b.trinterp(None, B_.copy(), s), 'base.trinterp', 'SE3'),
                          ('SE3.interp/nostart', lambda s, B_=B_: sm.SE3(B_.copy()).interp(s).A, 'SE3.interp', 'SE3')]
                    if i1 == 0 and d != 'float32':
                        tt = [int(x) if d != 'float64' else float(x) for x in t1]
                        e += [('SE3(x,y,z).interp', lambda s, tt=tt: sm.SE3(*tt).interp(s).A, 'SE3.interp', 'SE3')]
                ents.append(e)
            for (en, f, site, kind), (_, ff, _, _) in zip(*ents):
                for sn, sv in SV:
                    cid = 'C11/int/3D/R%d-R%d/t%d/%s/%s/s=%s' % (i0, i1, ti, dt, en, sn)
                    if not ctx.want(cid):
                        continue
                    ctx.case(cid, key=cid, trivial=(i0 == 0 and i1 == 0 and ti == 0))
                    P = dict(entry=en.split('/')[0], dtype=dt, mode='integer', s=sn)
                    okf, Tf = call(ff, sv)
                    ok, T = call(f, sv)
                    if not okf:
                        continue
                    if not ok:
                        ctx.fail(cid, site, 'raises:' + type(T).__name__, P, 'interpolation between %s poses raised %r (the float copies work)' % (dt, T))
                        continue
                    T, Tf = np.asarray(T), np.asarray(Tf, dtype=float)
                    if T.shape != Tf.shape or T.dtype == object:
                        ctx.fail(cid, site, 'mismatch', dict(P, what='shape'), 'result shape %s' % (T.shape,))
                        continue
                    tol = 1e-9 if dt != 'float32' else 1e-5
                    d_ = ref.maxdiff(T.astype(float), Tf)
                    if d_ > tol * 10:
                        ctx.fail(cid, site, 'mismatch', dict(P, what='dtype'), 'interpolant of the %s poses differs from that of their float copies by %.3g' % (dt, d_))
    k2 = [np.array([[c, -s_], [s_, c]]) for c, s_ in ((1, 0), (0, 1), (-1, 0), (0, -1))]
    for (i0, R0), (i1, R1), (ti, t1) in itertools.product(list(enumerate(k2))[:2], list(enumerate(k2)), list(enumerate([(0, 0), (4, -3)]))):
        t0 = (0, 0) if i0 == 0 else (1, 2)
        for dt in ('int64', 'int32'):        # single precision data cannot meet the 100 eps membership test of the classes: not claimed
            def T2(R, t, d):
                T = np.eye(3).astype(d)
                T[:2, :2] = R.astype(d)
                T[:2, 2] = np.array(t).astype(d)
                return T
            ents = []
            for d in (dt, 'float64'):
                A, B_ = T2(R0, t0, d), T2(R1, t1, d)
                e = [('trinterp2/3x3', lambda s, A=A, B_=B_: b.trinterp2(A.copy(), B_.copy(), s), 'base.trinterp2'),
                     ('SE2.interp', lambda s, A=A, B_=B_: sm.SE2(B_.copy()).interp(s, start=sm.SE2(A.copy())).A, 'SE2.interp')]
                if ti == 0:
                    e += [('trinterp2/2x2', lambda s, A=A, B_=B_: b.trinterp2(A[:2, :2].copy(), B_[:2, :2].copy(), s), 'base.trinterp2'),
                          ('SO2.interp', lambda s, A=A, B_=B_: sm.SO2(B_[:2, :2].copy()).interp(s, start=sm.SO2(A[:2, :2].copy())).A, 'SO2.interp')]
                if i0 == 0:
                    e += [('trinterp2/3x3/nostart', lambda s, B_=B_: b.trinterp2(None, B_.copy(), s), 'base.trinterp2'),
                          ('SE2.interp/nostart', lambda s, B_=B_: sm.SE2(B_.copy()).interp(s).A, 'SE2.interp')]
                ents.append(e)
            for (en, f, site), (_, ff, _) in zip(*ents):
                for sn, sv in SV:
                    cid = 'C11/int/2D/R%d-R%d/t%d/%s/%s/s=%s' % (i0, i1, ti, dt, en, sn)
                    if not ctx.want(cid):
                        continue
                    ctx.case(cid, key=cid, trivial=(i0 == 0 and i1 == 0 and ti == 0))
                    P = dict(entry=en.split('/')[0], dtype=dt, mode='integer', s=sn)
                    okf, Tf = call(ff, sv)
                    ok, T = call(f, sv)
                    if not okf:
                        continue
                    if not ok:
                        ctx.fail(cid, site, 'raises:' + type(T).__name__, P, 'interpolation between %s poses raised %r (the float copies work)' % (dt, T))
                        continue
                    T, Tf = np.asarray(T), np.asarray(Tf, dtype=float)
                    if T.shape != Tf.shape or T.dtype == object:
                        ctx.fail(cid, site, 'mismatch', dict(P, what='shape'), 'result shape %s' % (T.shape,))
                        continue
                    d_ = ref.maxdiff(T.astype(float), Tf)
                    if d_ > (1e-8 if dt != 'float32' else 1e-4):
                        ctx.fail(cid, site, 'mismatch', dict(P, what='dtype'), 'interpolant of the %s poses differs from that of their float copies by %.3g' % (dt, d_))


def shards(tier, seed):
    K = 32 if tier == 'quick' else 48
    return [('3d', k, K) for k in range(K)] + [('2d',), ('int',)]


def run_shard(ctx, shard):
    if shard[0] == '3d':
        three_d(ctx, shard[1], shard[2])
    elif shard[0] == 'int':
        integer_cases(ctx)
    else:
        two_d(ctx)
