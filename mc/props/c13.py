"""
C13  Lie-algebra maps, adjoint and differential motion are consistent.

Exact integer grids for the linear maps (vex/skew, vexa/skewa mutually inverse; skew(a) b = a x b;
cross) and product alphabets over rigid motions (translations up to 1e3) and twists for the adjoint
identities, exp(ad S) = Ad(exp S) against a 50-digit 6x6 exponential, the velocity Jacobian and
differential motion.
"""
import itertools, math
import numpy as np
from mc import ref, alph, hist
from mc.core import call

PROP = 'C13'
LEVEL = 'exploration'
RULE = ('integer grids {0,1,2}^n (x dilations 2,3) with exact comparison for the linear / bilinear maps; full products over the SE(3) generator '
        'set (|t| <= 1e3), twists (theta ladder x axes x translation parts) and differential motions |d| in 1e-9..1e-2 for the numeric identities; '
        'non-trivial = not the identity / zero; distinct = distinct letter tuples')
ASSUME = ['tolerance 1e-9 relative to the largest entry of the reference result (which carries max(1,|t|)), 1e-7 where a general exponential is involved',
          'the linear maps are linear (read off the code), so agreement on a basis grid and its dilations decides them',
          'SE3.Delta(d) may reject its argument (C07); if it returns, it must hold delta2tr(d)']
ANCHORS = [('spatialmath.base.transformsNd', n) for n in ('skew', 'vex', 'skewa', 'vexa')] + \
          [('spatialmath.base.transforms3d', n) for n in ('adjoint', 'tr2jac', 'delta2tr', 'tr2delta')] + \
          [('spatialmath.base.vectors', n) for n in ('norm', 'normsq', 'cross', 'colvec')] + \
          [('spatialmath.pose3d', 'SE3.Ad'), ('spatialmath.pose3d', 'SE3.jacob'), ('spatialmath.pose3d', 'SE3.delta'), ('spatialmath.pose3d', 'SE3.Delta'),
           ('spatialmath.twist', 'Twist3.ad'), ('spatialmath.twist', 'Twist3.Ad')]


def exact(ctx, cid, site, P, got, want, what):
    got = np.asarray(got, dtype=float)
    want = np.asarray(want, dtype=float)
    if got.shape != want.shape or not np.array_equal(got, want):
        ctx.fail(cid, site, 'mismatch', P, '%s: %s != %s' % (what, got.tolist(), want.tolist()))


def near(ctx, cid, site, P, got, want, tol, what):
    if got is None:
        ctx.fail(cid, site, 'returns:NoneType', P, what)
        return
    got = np.asarray(got)
    want = np.asarray(want, dtype=float)
    if got.dtype == object or got.shape != want.shape or not np.all(np.isfinite(got.astype(float))):
        ctx.fail(cid, site, 'mismatch', dict(P, what='shape'), '%s: shape %s vs %s / non-finite' % (what, got.shape, want.shape))
        return
    sc = max(1.0, float(np.abs(want).max()) if want.size else 1.0)
    d = float(np.abs(got - want).max()) if want.size else 0.0
    if d > tol * sc:
        ctx.fail(cid, site, 'mismatch', P, '%s: differs by %.3g (tol %.1g x %.3g)' % (what, d, tol, sc))


def lin_maps(ctx):
    import spatialmath.base as b
    for dil in (1, 2, 3):
        vals = (0.0, 1.0 * dil, -2.0 * dil)
        P0 = dict(grid='linear', dil=dil)
        for v in itertools.product(vals, repeat=3):
            a = np.array(v)
            cid = 'C13/so3/d%d/%s' % (dil, ','.join('%g' % x for x in v))
            if ctx.want(cid):
                ctx.case(cid, key=cid, trivial=not any(v))
                ok, r = call(lambda: (b.skew(a), b.vex(b.skew(a)), b.skew(b.vex(ref.skew(a)))))
                if not ok:
                    ctx.fail(cid, 'base.skew', 'raises:' + type(r).__name__, P0, '%r' % (r,))
                else:
                    exact(ctx, cid, 'base.skew', dict(P0, law='skew'), r[0], ref.skew(a), 'skew(a)')
                    exact(ctx, cid, 'base.vex', dict(P0, law='vex.skew'), r[1], a, 'vex(skew(a)) = a')
                    exact(ctx, cid, 'base.skew', dict(P0, law='skew.vex'), r[2], ref.skew(a), 'skew(vex(S)) = S')
        for v in (0.0, 1.0 * dil, -2.0 * dil):
            cid = 'C13/so2/d%d/%g' % (dil, v)
            if ctx.want(cid):
                ctx.case(cid, key=cid, trivial=(v == 0))
                ok, r = call(lambda: (b.skew(v), b.vex(b.skew(v)), b.skew(b.vex(ref.skew([v])))))
                if not ok:
                    ctx.fail(cid, 'base.skew', 'raises:' + type(r).__name__, dict(P0, dim=2), '%r' % (r,))
                else:
                    exact(ctx, cid, 'base.skew', dict(P0, law='skew', dim=2), r[0], ref.skew([v]), 'skew(w) 2x2')
                    exact(ctx, cid, 'base.vex', dict(P0, law='vex.skew', dim=2), np.ravel(r[1]), [v], 'vex(skew(w)) = w')
                    exact(ctx, cid, 'base.skew', dict(P0, law='skew.vex', dim=2), r[2], ref.skew([v]), 'skew(vex(S)) = S')
        # se(3) on {0,d}^6 and basis with -2d ; se(2) on {0,d,-2d}^3
        for v in itertools.product((0.0, 1.0 * dil), repeat=6):
            a = np.array(v) * np.array([1, -2, 1, 1, 1, -2.0])
            cid = 'C13/se3/d%d/%s' % (dil, ''.join(str(int(x > 0)) for x in v))
            if ctx.want(cid):
                ctx.case(cid, key=cid, trivial=not any(v))
                ok, r = call(lambda: (b.skewa(a), b.vexa(b.skewa(a)), b.skewa(b.vexa(ref.skewa(a)))))
                if not ok:
                    ctx.fail(cid, 'base.skewa', 'raises:' + type(r).__name__, P0, '%r' % (r,))
                else:
                    exact(ctx, cid, 'base.skewa', dict(P0, law='skewa'), r[0], ref.skewa(a), 'skewa(S)')
                    exact(ctx, cid, 'base.vexa', dict(P0, law='vexa.skewa'), r[1], a, 'vexa(skewa(S)) = S')
                    exact(ctx, cid, 'base.skewa', dict(P0, law='skewa.vexa'), r[2], ref.skewa(a), 'skewa(vexa(M)) = M')
        for v in itertools.product(vals, repeat=3):
            a = np.array(v)
            cid = 'C13/se2/d%d/%s' % (dil, ','.join('%g' % x for x in v))
            if ctx.want(cid):
                ctx.case(cid, key=cid, trivial=not any(v))
                ok, r = call(lambda: (b.skewa(a), b.vexa(b.skewa(a)), b.skewa(b.vexa(ref.skewa(a)))))
                if not ok:
                    ctx.fail(cid, 'base.skewa', 'raises:' + type(r).__name__, dict(P0, dim=2), '%r' % (r,))
                else:
                    exact(ctx, cid, 'base.skewa', dict(P0, law='skewa', dim=2), r[0], ref.skewa(a), 'skewa(S) 3x3')
                    exact(ctx, cid, 'base.vexa', dict(P0, law='vexa.skewa', dim=2), r[1], a, 'vexa(skewa(S)) = S')
                    exact(ctx, cid, 'base.skewa', dict(P0, law='skewa.vexa', dim=2), r[2], ref.skewa(a), 'skewa(vexa(M)) = M')
        # skew(a) b = a x b = cross(a, b) on {0,d,-2d}^6
        for v in itertools.product(vals, repeat=6):
            a, bb = np.array(v[:3]), np.array(v[3:])
            cid = 'C13/cross/d%d/%s' % (dil, ','.join('%g' % x for x in v))
            if ctx.want(cid):
                ctx.case(cid, key=cid, trivial=not any(v))
                want = np.array([a[1] * bb[2] - a[2] * bb[1], a[2] * bb[0] - a[0] * bb[2], a[0] * bb[1] - a[1] * bb[0]])
                ok, r = call(lambda: (b.skew(a) @ bb, b.cross(a, bb), b.norm(a), b.normsq(a), b.colvec(a)))
                if not ok:
                    ctx.fail(cid, 'base.cross', 'raises:' + type(r).__name__, P0, '%r' % (r,))
                else:
                    exact(ctx, cid, 'base.skew', dict(P0, law='skew(a) b'), r[0], want, 'skew(a) b = a x b')
                    exact(ctx, cid, 'base.cross', dict(P0, law='cross'), np.ravel(r[1]), want, 'cross(a, b)')
                    exact(ctx, cid, 'base.normsq', dict(P0, law='normsq'), r[3], float(a @ a), 'normsq')
                    if abs(float(r[2]) - math.sqrt(float(a @ a))) > 1e-12 * max(1, math.sqrt(float(a @ a))):
                        ctx.fail(cid, 'base.norm', 'mismatch', dict(P0, law='norm'), 'norm %r' % (r[2],))
                    exact(ctx, cid, 'base.colvec', dict(P0, law='colvec'), r[4], a.reshape(3, 1), 'colvec')
        # every documented option and container form of the same maps (the grids above use the defaults on 1-D arrays)
        FORMS = (('list', lambda x: x.tolist()), ('tuple', lambda x: tuple(x.tolist())), ('row', lambda x: x.reshape(1, -1).copy()), ('col', lambda x: x.reshape(-1, 1).copy()))
        for v in itertools.product(vals, repeat=3):
            a = np.array(v)
            bb = np.array([v[2], v[0] - dil, v[1] + 2.0 * dil])
            want = np.array([a[1] * bb[2] - a[2] * bb[1], a[2] * bb[0] - a[0] * bb[2], a[0] * bb[1] - a[1] * bb[0]])
            for fn, fm in FORMS:
                cid = 'C13/forms/d%d/%s/%s' % (dil, ','.join('%g' % x for x in v), fn)
                if not ctx.want(cid):
                    continue
                ctx.case(cid, key=cid, trivial=not any(v))
                P = dict(P0, form=fn)
                for site, f, w, what in (('base.norm', lambda: b.norm(fm(a)), math.sqrt(float(a @ a)), 'norm'), ('base.normsq', lambda: b.normsq(fm(a)), float(a @ a), 'normsq'),
                                         ('base.cross', lambda: np.ravel(b.cross(fm(a), fm(bb))), want, 'cross'), ('base.skew', lambda: b.skew(fm(a)), ref.skew(a), 'skew'),
                                         ('base.skew', lambda: b.skew(fm(a)) @ bb, want, 'skew(a) b')):
                    ok, r = call(f)
                    if not ok:
                        ctx.note('form_refused', '%s(%s) -> %s' % (site, fn, type(r).__name__))     # a refused container is C15's matter
                    elif what == 'norm':
                        if abs(float(r) - w) > 1e-12 * max(1, w):
                            ctx.fail(cid, site, 'mismatch', dict(P, law='norm'), 'norm of the %s form is %r, expected %r' % (fn, r, w))
                    else:
                        exact(ctx, cid, site, dict(P, law=what), r, w, '%s (%s form)' % (what, fn))
        for v in itertools.product((0.0, 1.0 * dil), repeat=6):
            a = np.array(v) * np.array([1, -2, 1, 1, 1, -2.0])
            for chk in (True, False):
                cid = 'C13/opts/se3/d%d/%s/check=%d' % (dil, ''.join(str(int(x > 0)) for x in v), chk)
                if not ctx.want(cid):
                    continue
                ctx.case(cid, key=cid, trivial=not any(v))
                P = dict(P0, check=int(chk))
                for site, f, w, what in (('base.vexa', lambda: b.vexa(ref.skewa(a), check=chk), a, 'vexa(skewa(S), check) = S'),
                                         ('base.vex', lambda: b.vex(ref.skew(a[3:]), check=chk), a[3:], 'vex(skew(w), check) = w'),
                                         ('base.vexa', lambda: b.vexa(ref.skewa(a[[0, 1, 5]]), check=chk), a[[0, 1, 5]], 'vexa(skewa(S2), check) = S2'),
                                         ('base.vex', lambda: np.ravel(b.vex(ref.skew(a[5:]), check=chk)), a[5:], 'vex(skew(w) 2x2, check) = w')):
                    ok, r = call(f)
                    if not ok:
                        ctx.fail(cid, site, 'raises:' + type(r).__name__, dict(P, law='option'), '%s raised %r on a valid algebra element' % (what, r))
                    else:
                        exact(ctx, cid, site, dict(P, law='option'), r, w, what)


def poses(tier, seed):
    return [(n, T) for n, T in alph.gen_SE(3, tier, seed) if np.linalg.norm(T[:3, 3]) <= 1e3 + 1]


def twists(tier, seed):
    out = []
    vs = [('0', np.zeros(3)), ('g', np.array([0.5, -1.5, 2.0])), ('1e3', 1e3 * alph.unit((3, 1, 2))), ('1e-6', 1e-6 * alph.unit((1, 2, 3)))]
    for (tn, th), (xn, ax) in itertools.product(alph.theta_alphabet(tier, seed), alph.axes(tier, seed)):
        if th == 0 and xn != '+x':
            continue
        for vn, v in vs:
            name = 'th=%s/ax=%s/v=%s' % (tn, xn, vn)
            if alph.thin(name, tier, 4, 1) or (th == 0 and vn == 'g'):
                out.append((name, np.r_[v, th * ax], th))
    # twists whose 6-VECTOR has norm exactly 1 while neither part is a unit vector (unit in the Euclidean sense only), and near-prismatic ones
    g6 = np.array([1.0, 2.0, -2.0, 0.5, -1.0, 1.5])
    for name, S_ in (('unit6/0.6v+0.8w', np.array([0.6, 0, 0, 0, 0, 0.8])), ('unit6/generic', g6 / np.linalg.norm(g6)), ('unit6/0.8v+0.6w', np.array([0, 0.8, 0, 0.6, 0, 0])),
                     ('nearprismatic/v=300,w=3e-6', np.array([300.0, -200.0, 100.0, 2e-6, 1e-6, -3e-6])), ('nearprismatic/v=30,w=1e-5', np.array([30.0, 0, 10.0, 0, 1e-5, 0]))):
        out.append((name, S_, float(np.linalg.norm(S_[3:]))))
    return out


def adjoint_cases(ctx, k, K):
    import spatialmath as sm
    import spatialmath.base as b
    tier, seed = ctx.tier, ctx.seed
    G = poses(tier, seed)
    TW = twists(tier, seed)
    i = 0
    for (n1, T1) in G:
        i += 1
        if i % K != k:
            continue
        X1 = sm.SE3(T1.copy())
        A1 = ref.adjoint(T1)
        cid = 'C13/Ad/%s' % n1
        triv = (n1 == 'I|t=0')
        P = dict(T=n1.split('|')[0], t=n1.split('t=')[1])
        if ctx.want(cid):
            ctx.case(cid, key=cid, trivial=triv)
            ok, r = call(lambda: (X1.Ad(), b.tr2jac(T1.copy()), b.tr2jac(T1.copy(), True), X1.inv().Ad()))
            if not ok:
                ctx.fail(cid, 'SE3.Ad', 'raises:' + type(r).__name__, P, '%r' % (r,))
            else:
                near(ctx, cid, 'SE3.Ad', dict(P, law='definition'), r[0], A1, 1e-9, 'Ad(T) = [R, skew(t)R; 0, R]')
                R = T1[:3, :3]
                J = np.zeros((6, 6))
                J[:3, :3] = R.T
                J[3:, 3:] = R.T
                near(ctx, cid, 'base.tr2jac', dict(P, law='jacobian'), r[1], J, 1e-9, 'tr2jac(T) = blkdiag(R\', R\')')
                near(ctx, cid, 'base.tr2jac', dict(P, law='samebody'), r[2], ref.adjoint(ref.inv_h(T1)), 1e-9, 'tr2jac(T, samebody) = Ad(T^-1)')
                near(ctx, cid, 'SE3.Ad', dict(P, law='inverse'), r[3] @ r[0], np.eye(6), 1e-9 * max(1.0, float(np.abs(A1).max())), 'Ad(T^-1) Ad(T) = I')
            ok, r = call(lambda: X1.jacob())
            if not ok:
                ctx.fail(cid, 'SE3.jacob', 'raises:' + type(r).__name__, P, 'SE3.jacob() raised %r' % (r,))
            else:
                near(ctx, cid, 'SE3.jacob', dict(P, law='jacobian'), r, J, 1e-9, 'SE3.jacob() = blkdiag(R\', R\')')
        # the same pose value in an object with a history (Ad / jacob already used before it received the value)
        for tag, Xh in hist.variants(sm.SE3(T1.copy()), lambda o: (o.Ad(), o.jacob(), o.inv().Ad()), fresh=False):
            cidh = 'C13/Ad/%s/hist=%s' % (n1, tag)
            if not ctx.want(cidh):
                continue
            ctx.case(cidh, key=cidh, trivial=triv)
            ok, r = call(lambda: (Xh.Ad(), Xh.jacob()))
            if not ok:
                ctx.fail(cidh, 'SE3.Ad', 'raises:' + type(r).__name__, dict(P, hist=tag), '%r' % (r,))
            else:
                R = T1[:3, :3]
                J = np.zeros((6, 6))
                J[:3, :3] = R.T
                J[3:, 3:] = R.T
                near(ctx, cidh, 'SE3.Ad', dict(P, law='definition', hist=tag), r[0], A1, 1e-9, 'Ad(T) after ' + tag)
                near(ctx, cidh, 'SE3.jacob', dict(P, law='jacobian', hist=tag), r[1], J, 1e-9, 'jacob() after ' + tag)
        for (n2, T2) in G:
            cid = 'C13/AdAd/%s/%s' % (n1, n2)
            if ctx.want(cid):
                ctx.case(cid, key=cid, trivial=triv)
                ok, r = call(lambda: ((X1 * sm.SE3(T2.copy())).Ad(), X1.Ad() @ sm.SE3(T2.copy()).Ad()))
                P2 = dict(P, T2=n2.split('|')[0], t2=n2.split('t=')[1])
                if not ok:
                    ctx.fail(cid, 'SE3.Ad', 'raises:' + type(r).__name__, P2, '%r' % (r,))
                else:
                    want = ref.adjoint(T1 @ T2)
                    near(ctx, cid, 'SE3.Ad', dict(P2, law='homomorphism'), r[0], want, 1e-9, 'Ad(T1 T2)')
                    near(ctx, cid, 'SE3.Ad', dict(P2, law='homomorphism'), r[1], want, 1e-9 * max(1.0, float(np.abs(A1).max())), 'Ad(T1) Ad(T2)')
        for sn, S, th in TW[::(3 if tier == 'quick' else 1)]:
            cid = 'C13/AdS/%s/%s' % (n1, sn)
            if ctx.want(cid):
                ctx.case(cid, key=cid, trivial=triv and not np.any(S))
                ok, r = call(lambda: (X1.Ad() @ S, b.vexa(T1 @ b.skewa(S) @ b.trinv(T1))))
                P2 = dict(P, S=sn)
                if not ok:
                    ctx.fail(cid, 'SE3.Ad', 'raises:' + type(r).__name__, P2, '%r' % (r,))
                else:
                    want = ref.adjoint(T1) @ S
                    sc = max(1.0, float(np.abs(ref.adjoint(T1)).max())) * max(1.0, float(np.abs(S).max()))
                    near(ctx, cid, 'SE3.Ad', dict(P2, law='Ad S'), r[0], want, 1e-9 * sc / max(1.0, float(np.abs(want).max())), 'Ad(T) S')
                    near(ctx, cid, 'base.vexa', dict(P2, law='T[S]T^-1'), r[1], want, 1e-9 * sc / max(1.0, float(np.abs(want).max())), 'vexa(T [S] T^-1) = Ad(T) S')
            # the class-level vee map (the inverse of Twist3.se3()): a 4x4 matrix that arithmetic produced carries ~1e-17 of round-off on its diagonal
            # and is an element of se(3) all the same (demanded where that residue is below half the library's own 10 eps)
            cidc = cid + '/Twist3(matrix)'
            if ctx.want(cidc):
                Cm = T1 @ ref.skewa(S) @ ref.inv_h(T1)
                if float(np.abs(np.diag(Cm)).max()) < 1e-15 and float(np.abs(Cm[3]).max()) < 1e-15 and np.any(S):
                    ctx.case(cidc, key=cidc)
                    P2 = dict(P, S=sn)
                    want = ref.adjoint(T1) @ S
                    sc = max(1.0, float(np.abs(ref.adjoint(T1)).max())) * max(1.0, float(np.abs(S).max()))
                    ok, r = call(lambda: np.asarray(sm.Twist3(Cm.copy()).S, dtype=float))
                    if not ok:
                        ctx.fail(cidc, 'Twist3', 'raises:' + type(r).__name__, dict(P2, law='class vee'), 'Twist3(T [S] T^-1) raised %r (diagonal residue %.1e)' % (r, float(np.abs(np.diag(Cm)).max())))
                    else:
                        near(ctx, cidc, 'Twist3', dict(P2, law='class vee'), r, want, 1e-9 * sc / max(1.0, float(np.abs(want).max())), 'Twist3(T [S] T^-1).S = Ad(T) S')


def expad_cases(ctx, k, K):
    import spatialmath as sm
    tier, seed = ctx.tier, ctx.seed
    for i, (sn, S, th) in enumerate(twists(tier, seed)):
        if i % K != k:
            continue
        cid = 'C13/expad/%s' % sn
        if not ctx.want(cid):
            continue
        ctx.case(cid, key=cid, trivial=not np.any(S))
        P = dict(S=sn, theta_val=th)
        tw = sm.Twist3(S.copy())
        ok, r = call(lambda: (tw.ad(), tw.Ad(), tw.exp().Ad()))
        if not ok:
            ctx.fail(cid, 'Twist3.ad', 'raises:' + type(r).__name__, P, '%r' % (r,))
            continue
        adr = np.zeros((6, 6))
        adr[:3, :3] = ref.skew(S[3:])
        adr[:3, 3:] = ref.skew(S[:3])
        adr[3:, 3:] = ref.skew(S[3:])
        near(ctx, cid, 'Twist3.ad', dict(P, law='definition'), r[0], adr, 1e-12, 'ad(S) = [skew w, skew v; 0, skew w]')
        want = ref.adjoint(ref.mp_exp_se3(S))
        near(ctx, cid, 'Twist3.Ad', dict(P, law='Ad(exp S)'), r[1], want, 1e-7, 'Twist3.Ad() = Ad(exp S)')
        near(ctx, cid, 'SE3.Ad', dict(P, law='Ad(exp S)'), r[2], want, 1e-7, 'Ad(Twist3.exp())')
        if np.abs(S[:3]).max() <= 10:
            E = ref.mp_expm(adr)
            near(ctx, cid, 'Twist3.Ad', dict(P, law='exp(ad S)'), r[1], E, 1e-7, 'exp(ad(S)) = Ad(exp(S))')
        # equivalent spellings of the exponential in the identity exp(ad(S)) = Ad(exp(S)): the 4x4 form with and without validation, the
        # class constructor, and - for S = theta * S1 with S1 of unit rotational part - S1.exp(theta) for theta up to many turns
        import spatialmath.base as b
        if np.abs(S[:3]).max() <= 10:
            for sp, f in (('trexp(vec)', lambda: b.trexp(S.copy())), ('trexp(mat)', lambda: b.trexp(ref.skewa(S))), ('trexp(mat,check=False)', lambda: b.trexp(ref.skewa(S), check=False)),
                          ('SE3.Exp(mat,check=False)', lambda: sm.SE3.Exp(ref.skewa(S), check=False).A), ('SE3.Exp(vec)', lambda: sm.SE3.Exp(S.copy()).A)):
                ok, T_ = call(f)
                if not ok:
                    ctx.fail(cid, 'base.trexp', 'raises:' + type(T_).__name__, dict(P, law='Ad(exp S)', spelling=sp), '%s raised %r' % (sp, T_))
                else:
                    near(ctx, cid, 'base.trexp', dict(P, law='Ad(exp S)', spelling=sp), ref.adjoint(np.asarray(T_, dtype=float)), want, 1e-7, 'Ad(%s)' % sp)
        wn = float(np.linalg.norm(S[3:]))
        if wn > 1e-3 and np.abs(S[:3]).max() <= 10:
            S1 = S / wn
            for turns in (0, 1, 3, 1000):
                tht = wn + 2 * math.pi * turns
                ok, T_ = call(lambda: sm.Twist3(S1.copy()).exp(tht).A)
                Pm = dict(P, law='Ad(exp S)', spelling='S1.exp(theta)', turns=turns)
                if not ok:
                    ctx.fail(cid, 'Twist3.exp', 'raises:' + type(T_).__name__, Pm, 'exp(theta) raised %r' % (T_,))
                else:
                    wt = ref.adjoint(ref.mp_exp_se3(S1 * tht))
                    near(ctx, cid, 'Twist3.exp', Pm, ref.adjoint(np.asarray(T_, dtype=float)), wt, 1e-7 * max(1.0, turns), 'Ad(S1.exp(theta)), theta = |w| + %d turns' % turns)
        # Ad(T1 T2) = Ad(T1) Ad(T2) with the left factor held as a twist: S * T (documented: exp(S) then T) for a few poses T
        if np.abs(S[:3]).max() <= 10:
            for tn_, T_ in poses(ctx.tier, ctx.seed)[1:4]:
                ok, Y = call(lambda: (tw * sm.SE3(T_.copy())))
                Pm = dict(P, law='Ad(S*T)', T=tn_.split('|')[0])
                if not ok:
                    ctx.fail(cid, 'Twist3.mul', 'raises:' + type(Y).__name__, Pm, 'Twist3 * SE3 raised %r' % (Y,))
                elif not isinstance(Y, sm.SE3) or len(Y.data) != 1:
                    ctx.fail(cid, 'Twist3.mul', 'returns:' + type(Y).__name__, Pm, 'Twist3 * SE3 gave %s' % type(Y).__name__)
                else:
                    near(ctx, cid, 'Twist3.mul', Pm, Y.Ad(), want @ ref.adjoint(T_), 1e-7, 'Ad(S * T) = Ad(exp S) Ad(T)')
        # the twist among M values (M = 2, 3) and in an object with a history: ad() of value j is the ad of value j
        others = [np.array([1.0, 2.0, 3.0, 0.3, -0.2, 0.1]), np.array([-0.5, 0.0, 2.5, 0.0, 0.0, 0.0])]
        for M, pos in ((2, 0), (2, 1), (3, 1)):
            vals = [o.copy() for o in others[:M - 1]]
            vals.insert(pos, S.copy())
            ok, rm = call(lambda: sm.Twist3([v.copy() for v in vals]).ad())
            Pm = dict(P, law='definition', M=M, pos=pos)
            if not ok:
                ctx.note('not_vectorised_refuses', 'Twist3.ad on %d values -> %s' % (M, type(rm).__name__))
            elif not isinstance(rm, (list, tuple, np.ndarray)) or len(rm) != M:
                ctx.fail(cid, 'Twist3.ad', 'mismatch', dict(Pm, what='count'), 'ad() of %d values returned %s' % (M, type(rm).__name__))
            else:
                near(ctx, cid, 'Twist3.ad', Pm, rm[pos], adr, 1e-12, 'ad() of value %d of %d' % (pos, M))
        for tag, twh in hist.variants(sm.Twist3(S.copy()), lambda o: (o.ad(), o.Ad()), fresh=False):
            ok, rh = call(lambda: (twh.ad(), twh.Ad()))
            if not ok:
                ctx.fail(cid, 'Twist3.ad', 'raises:' + type(rh).__name__, dict(P, hist=tag), '%r' % (rh,))
            else:
                near(ctx, cid, 'Twist3.ad', dict(P, law='definition', hist=tag), rh[0], adr, 1e-12, 'ad(S) after ' + tag)
                near(ctx, cid, 'Twist3.Ad', dict(P, law='Ad(exp S)', hist=tag), rh[1], want, 1e-7, 'Ad() after ' + tag)


def delta_cases(ctx):
    import spatialmath as sm
    import spatialmath.base as b
    tier, seed = ctx.tier, ctx.seed
    dirs = [('e1', np.eye(6)[0]), ('e4', np.eye(6)[3]), ('e6', np.eye(6)[5]), ('g', np.array([1, -2, 0.5, 0.3, 0.7, -0.4])), ('rot', np.array([0, 0, 0, 1, 2, 3.0])),
            ('g2', np.array([0.2, 0.1, -0.9, -0.5, 0.4, 0.1]))]
    mags = [('1e%d' % k, 10.0 ** k) for k in ((-9, -6, -4, -3, -2) if tier == 'quick' else range(-9, -1))]
    for (dn, dv), (mn, m) in itertools.product(dirs, mags):
        d = dv / np.linalg.norm(dv) * m
        cid = 'C13/delta/%s/%s' % (dn, mn)
        if not ctx.want(cid):
            continue
        ctx.case(cid, key=cid)
        P = dict(dir=dn, mag=mn)
        ok, r = call(lambda: (b.delta2tr(d.copy()), b.tr2delta(b.delta2tr(d.copy())), b.tr2delta(ref.mp_exp_se3(d))))
        if not ok:
            ctx.fail(cid, 'base.tr2delta', 'raises:' + type(r).__name__, P, '%r' % (r,))
            continue
        near(ctx, cid, 'base.delta2tr', dict(P, law='definition'), r[0], np.eye(4) + ref.skewa(d), 1e-12, 'delta2tr(d) = I + [d]')
        if np.abs(np.asarray(r[1]) - d).max() > 1e-9 * m + 1e-16:
            ctx.fail(cid, 'base.tr2delta', 'mismatch', dict(P, law='roundtrip'), 'tr2delta(delta2tr(d)) differs from d by %.3g' % np.abs(np.asarray(r[1]) - d).max())
        e = float(np.linalg.norm(np.asarray(r[2]) - d))
        if e > 2 * m * m + 1e-15:
            ctx.fail(cid, 'base.tr2delta', 'mismatch', dict(P, law='first-order'), 'tr2delta(exp d) differs from d = vexa(log T) by %.3g > 2|d|^2' % e)
        # the same matrix handed to tr2delta and then to the logarithm (a sequence on one value)
        Tm = ref.mp_exp_se3(d)
        ok2, r2 = call(lambda: (b.tr2delta(Tm), b.trlog(Tm, twist=True)))
        if not ok2:
            ctx.fail(cid, 'base.tr2delta', 'raises:' + type(r2).__name__, dict(P, law='first-order-same-matrix'), 'tr2delta(T) followed by trlog(T) raised %r' % (r2,))
        elif float(np.linalg.norm(np.asarray(r2[0]) - np.asarray(r2[1]))) > 2 * m * m + 1e-12:
            ctx.fail(cid, 'base.tr2delta', 'mismatch', dict(P, law='first-order-same-matrix'),
                     'tr2delta(T) and the logarithm of the same matrix T differ by %.3g > 2|d|^2' % float(np.linalg.norm(np.asarray(r2[0]) - np.asarray(r2[1]))))
        ok, X = call(sm.SE3.Delta, d.copy())
        if ok:
            if not hasattr(X, 'data') or len(X.data) != 1 or ref.maxdiff(X.data[0], np.eye(4) + ref.skewa(d)) > 1e-12:
                ctx.fail(cid, 'SE3.Delta', 'mismatch', dict(P, law='Delta'), 'SE3.Delta(d) returned an object that does not hold delta2tr(d)')
    # two-argument form and the class method on pose pairs
    G = poses(tier, seed)
    for (n0, T0) in G:
        for (dn, dv), (mn, m) in itertools.product(dirs[:4], mags[:3]):
            d = dv / np.linalg.norm(dv) * m
            T1 = T0 @ ref.mp_exp_se3(d)
            cid = 'C13/delta2/%s/%s/%s' % (n0, dn, mn)
            if not ctx.want(cid):
                continue
            ctx.case(cid, key=cid)
            P = dict(T=n0.split('|')[0], t=n0.split('t=')[1], dir=dn, mag=mn)
            ok, r = call(lambda: (b.tr2delta(T0.copy(), T1.copy()), b.tr2delta(b.trinv(T0.copy()) @ T1), sm.SE3(T0.copy()).delta(sm.SE3(T1.copy(), check=False))))
            if not ok:
                ctx.fail(cid, 'base.tr2delta', 'raises:' + type(r).__name__, P, '%r' % (r,))
                continue
            sc = max(1.0, float(np.linalg.norm(T0[:3, 3])))
            if np.abs(np.asarray(r[0]) - np.asarray(r[1])).max() > 1e-9 * sc:
                ctx.fail(cid, 'base.tr2delta', 'mismatch', dict(P, law='two-arg'), 'tr2delta(T0,T1) differs from tr2delta(T0^-1 T1) by %.3g' % np.abs(np.asarray(r[0]) - np.asarray(r[1])).max())
            if np.abs(np.asarray(r[2]) - np.asarray(r[0])).max() > 1e-9 * sc:
                ctx.fail(cid, 'SE3.delta', 'mismatch', dict(P, law='method'), 'SE3.delta differs from tr2delta')
            wantd = b.tr2delta(ref.inv_h(T0) @ T1)
            if np.abs(np.asarray(r[0]) - wantd).max() > 1e-9 * sc:
                ctx.fail(cid, 'base.tr2delta', 'mismatch', dict(P, law='two-arg-ref'), 'tr2delta(T0,T1) differs from the reference relative motion by %.3g' % np.abs(np.asarray(r[0]) - wantd).max())


def symbolic_maps(ctx):
    """the linear identities with symbolic entries, fully symbolic and mixed with plain numbers (a joint angle among constants), in every
    container form: vex(skew(v)) = v, vexa(skewa(S)) = S, skew(a) b = a x b = cross(a, b), tr2delta(delta2tr(d)) = d"""
    import sympy
    import spatialmath.base as b
    x, y, z, u, v, w = sympy.symbols('x y z u v w', real=True)
    v3 = [('sym', [x, y, z]), ('mixed-last', [0, 0, z]), ('mixed-first', [x, 0, 1]), ('mixed-mid', [2, y, 0])]
    v6 = [('sym', [x, y, z, u, v, w]), ('mixed', [x, 0, 0, 0, 0, w]), ('mixed2', [0, 1, z, u, 0, 0])]
    forms = (('list', lambda a: list(a)), ('tuple', lambda a: tuple(a)), ('array', lambda a: np.array(a, dtype=object)))

    def same_sym(A_, B_):
        A_, B_ = np.asarray(A_, dtype=object).ravel(), np.asarray(B_, dtype=object).ravel()
        return A_.shape == B_.shape and all(sympy.simplify(sympy.sympify(p) - sympy.sympify(q)) == 0 for p, q in zip(A_, B_))
    for (vn, vec), (fn, fm) in itertools.product(v3, forms):
        cid = 'C13/sym/so3/%s/%s' % (vn, fn)
        if not ctx.want(cid):
            continue
        ctx.case(cid, key=cid)
        P = dict(grid='symbolic', vec=vn, form=fn)
        bb = [1, u, -2]
        cr = [vec[1] * bb[2] - vec[2] * bb[1], vec[2] * bb[0] - vec[0] * bb[2], vec[0] * bb[1] - vec[1] * bb[0]]
        for site, f, want in (('base.skew', lambda: b.vex(b.skew(fm(vec))), vec), ('base.skew', lambda: b.skew(fm(vec)) @ np.array(bb, dtype=object), cr),
                              ('base.cross', lambda: b.cross(fm(vec), fm(bb)), cr)):
            ok, r = call(f)
            if not ok:
                ctx.fail(cid, site, 'raises:' + type(r).__name__, P, '%s with the %s vector %s (%s) raised %r' % (site, vn, vec, fn, r))
            elif not same_sym(r, want):
                ctx.fail(cid, site, 'mismatch', P, '%s with the %s vector: %s, expected %s' % (site, vn, np.asarray(r).tolist(), want))
    for (vn, vec), (fn, fm) in itertools.product(v6, forms):
        cid = 'C13/sym/se3/%s/%s' % (vn, fn)
        if not ctx.want(cid):
            continue
        ctx.case(cid, key=cid)
        P = dict(grid='symbolic', vec=vn, form=fn)
        tests = [('base.skewa', lambda: b.vexa(b.skewa(fm(vec))), vec), ('base.skewa', lambda: b.vexa(b.skewa(fm(vec[:2] + vec[5:]))), vec[:2] + vec[5:]),
                 ('base.delta2tr', lambda: b.tr2delta(b.delta2tr(fm(vec))), vec)]
        for site, f, want in tests:
            ok, r = call(f)
            if not ok:
                ctx.fail(cid, site, 'raises:' + type(r).__name__, P, '%s with the %s vector (%s) raised %r' % (site, vn, fn, r))
            elif not same_sym(r, want):
                ctx.fail(cid, site, 'mismatch', P, '%s with the %s vector: %s, expected %s' % (site, vn, np.asarray(r).tolist(), want))


def vector_helpers(ctx):
    """the helpers related to norm - unitvec, unitvec_norm, isunitvec, iszerovec - against their definitions, for vectors of length 1, 3 and 6
    over the whole magnitude range the differential motions of this property live in (1e-9 .. 1e-2) and up to 1e6"""
    import spatialmath.base as b
    dirs = {1: [(1.0,), (-1.0,)], 3: [(1.0, 0, 0), (0, -1.0, 0), (1.0, -2.0, 0.5), (0.3, 0.4, -0.5)], 6: [(1.0, 2, 3, 0.3, -0.2, 0.1), (0, 0, 0, 0, 0, -1.0), (1.0, 0, 0, 0, 0, 0)]}
    mags = [10.0 ** k for k in (-12, -9, -8, -7, -6, -3, -2, 0, 3, 6)]
    for n, ds in dirs.items():
        for di, d in enumerate(ds):
            for m in mags:
                v = np.array(d, dtype=float)
                v = v / np.linalg.norm(v) * m
                for fn, fm in (('array', lambda x: x.copy()), ('list', lambda x: x.tolist())):
                    cid = 'C13/helpers/n=%d/dir=%d/mag=%g/%s' % (n, di, m, fn)
                    if not ctx.want(cid):
                        continue
                    ctx.case(cid, key=cid)
                    P = dict(law='unitvec', n=n, mag=m, form=fn)
                    u0 = v / m
                    ok, r = call(lambda: (b.unitvec(fm(v)), b.unitvec_norm(fm(v)), b.isunitvec(u0.copy()), b.iszerovec(fm(v)), b.norm(fm(v))))
                    if not ok:
                        ctx.fail(cid, 'base.unitvec', 'raises:' + type(r).__name__, P, '%r' % (r,))
                        continue
                    u, un, isu, isz, nn = r
                    if u is None or np.shape(u) != (n,) or float(np.abs(np.asarray(u, dtype=float) - u0).max()) > 1e-12:
                        ctx.fail(cid, 'base.unitvec', 'mismatch', P, 'unitvec of a vector of length %g gives %r, expected v / |v|' % (m, u))
                    if un is None or len(un) != 2 or float(np.abs(np.asarray(un[0], dtype=float) - u0).max()) > 1e-12 or abs(float(un[1]) - m) > 1e-12 * m:
                        ctx.fail(cid, 'base.unitvec_norm', 'mismatch', P, 'unitvec_norm of a vector of length %g gives %r' % (m, un))
                    if not bool(isu):
                        ctx.fail(cid, 'base.isunitvec', 'mismatch', P, 'isunitvec(v / |v|) is %r' % (isu,))
                    if abs(float(nn) - m) > 1e-12 * m:
                        ctx.fail(cid, 'base.norm', 'mismatch', P, 'norm gives %r for a vector of length %g' % (nn, m))
                    if bool(isz):
                        ctx.fail(cid, 'base.iszerovec', 'mismatch', P, 'a vector of length %g is reported as zero' % m)
        z = np.zeros(n)
        cid = 'C13/helpers/n=%d/zero' % n
        if ctx.want(cid):
            ctx.case(cid, key=cid, trivial=True)
            ok, r = call(lambda: (b.unitvec(z.copy()), b.iszerovec(z.copy()), b.norm(z.copy())))
            if ok and (r[0] is not None or not bool(r[1]) or float(r[2]) != 0.0):
                ctx.fail(cid, 'base.unitvec', 'mismatch', dict(law='unitvec', n=n, mag=0.0), 'zero vector: unitvec %r, iszerovec %r, norm %r' % r)


def shards(tier, seed):
    K = 6 if tier == 'quick' else 24
    return [('lin',), ('delta',), ('sym',), ('helpers',)] + [('adj', k, K) for k in range(K)] + [('expad', k, K) for k in range(K)]


def run_shard(ctx, shard):
    k = shard[0]
    if k == 'lin':
        lin_maps(ctx)
    elif k == 'delta':
        delta_cases(ctx)
    elif k == 'sym':
        symbolic_maps(ctx)
    elif k == 'helpers':
        vector_helpers(ctx)
    elif k == 'adj':
        adjoint_cases(ctx, shard[1], shard[2])
    else:
        expad_cases(ctx, shard[1], shard[2])
