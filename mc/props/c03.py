"""
C03  Exponential and logarithm are correct and mutually inverse on the whole group.

E1 product explorer: rotation magnitude ladder (0, 1e-12..1e-1, generic, pi-1e-1..pi-1e-12, pi)
x axes x translation part ({0} + magnitudes x {parallel, perpendicular, generic}) x argument form
(vector, matrix) x twist flag x {so(2), se(2), so(3), se(3)} for the base functions and the class
wrappers.  exp is compared with a 50-digit reference exponential; log(T) is checked for dtype,
finiteness, algebra form, |w| <= pi and by exponentiating it with the REFERENCE exponential, so a
log defect cannot hide behind an exp defect.  Group elements are built by the 50-digit reference.
"""
import itertools
import math
import numpy as np
from mc import ref, alph, hist
from mc.core import call, HarnessError

PROP = 'C03'
LEVEL = 'exploration'
RULE = ('full product theta-ladder x axis x translation-part x form x twist-flag x entry point; reference = '
        '50-digit closed-form exponential (self-tested against mpmath.expm); non-trivial = not the zero element; '
        'distinct = distinct (entry point, algebra element) pairs')
ASSUME = ['tolerance 1e-7*max(1,|t|) as stated; |t| = translation of the group element (and |v| when comparing algebra elements)',
          'log(exp(S)) = S demanded only for |w| <= pi - 1e-6, as stated',
          'mpmath 50-digit arithmetic is the trusted reference']
ANCHORS = [('spatialmath.base.transforms3d', 'trlog'), ('spatialmath.base.transforms3d', 'trexp'),
           ('spatialmath.base.transforms2d', 'trlog2'), ('spatialmath.base.transforms2d', 'trexp2'),
           ('spatialmath.base.transformsNd', 'rodrigues'), ('spatialmath.base.vectors', 'unittwist_norm'),
           ('spatialmath.base.vectors', 'unittwist2_norm'), ('spatialmath.base.vectors', 'unitvec_norm'),
           ('spatialmath.pose3d', 'SO3.Exp'), ('spatialmath.pose3d', 'SE3.Exp'), ('spatialmath.pose2d', 'SO2.Exp'),
           ('spatialmath.pose2d', 'SE2.Exp'), ('spatialmath.super_pose', 'SMPose.log'),
           ('spatialmath.twist', 'Twist3.exp'), ('spatialmath.twist', 'Twist2.exp')]

PI = math.pi
TOL = 1e-7


def vparts(tier, axis):
    """translational part of the algebra element relative to the rotation axis"""
    a = np.asarray(axis, dtype=float)
    perp = np.cross(a, (0.3, -0.5, 0.8))
    perp = perp / np.linalg.norm(perp)
    gen = alph.unit((0.6, -0.2, 0.77))
    out = [('0', np.zeros(3))]
    for mn, m in ([('1e-6', 1e-6), ('1', 1.0), ('1e3', 1e3), ('1e6', 1e6)] if tier == 'quick' else alph.magnitudes('thorough')):
        out.append(('%s*par' % mn, m * a))
        out.append(('%s*perp' % mn, m * perp))
        out.append(('%s*gen' % mn, m * gen))
    return out


def vparts2(tier):
    out = [('0', np.zeros(2))]
    for mn, m in ([('1e-6', 1e-6), ('1', 1.0), ('1e3', 1e3), ('1e6', 1e6)] if tier == 'quick' else alph.magnitudes('thorough')):
        out.append(('%s*x' % mn, np.array([m, 0.0])))
        out.append(('%s*gen' % mn, m * np.array([-0.6, 0.8])))
    return out


def theta2(tier, seed):
    """signed planar angles, |theta| <= pi"""
    out = []
    for n, t in alph.theta_alphabet(tier, seed):
        out.append((n, t))
        if t != 0:
            out.append(('-' + n, -t))
    return out


def vec_of(L, dim, algebra):
    """algebra matrix -> vector"""
    if algebra == 'so3':
        return np.array([L[2, 1], L[0, 2], L[1, 0]])
    if algebra == 'se3':
        return np.r_[L[:3, 3], L[2, 1], L[0, 2], L[1, 0]]
    if algebra == 'so2':
        return np.array([L[1, 0]])
    return np.r_[L[:2, 2], L[1, 0]]


def form_defect(L, algebra):
    """None if L (matrix) has algebra form to 1e-9, else text"""
    n = {'so2': 2, 'so3': 3, 'se2': 2, 'se3': 3}[algebra]
    want = (n, n) if algebra[:2] == 'so' else (n + 1, n + 1)
    if L.shape != want:
        return 'shape %s' % (L.shape,)
    W = L[:n, :n]
    sc = max(1.0, float(np.abs(L).max()))
    if np.abs(W + W.T).max() > 1e-9 * sc:
        return 'rotational block not skew-symmetric (%.3g)' % np.abs(W + W.T).max()
    if algebra[:2] == 'se' and np.abs(L[n, :]).max() > 1e-9:
        return 'last row not zero'
    return None


def ref_exp(S, algebra):
    if algebra == 'so3':
        return ref.mp_to_np(ref.mp_exp_so3(S)[0])
    if algebra == 'se3':
        return ref.mp_exp_se3(S)
    if algebra == 'so2':
        return ref.rot2(float(S[0])) if False else ref.mp_exp_se2(np.r_[0.0, 0.0, S[0]])[:2, :2]
    return ref.mp_exp_se2(S)


def tscale(T, algebra):
    if algebra[:2] == 'so':
        return 1.0
    return max(1.0, float(np.linalg.norm(T[:-1, -1])))


def to_matrix(S, algebra):
    if algebra in ('so3', 'so2'):
        return ref.skew(S)
    return ref.skewa(S)


def check_log_output(ctx, cid, site, P, L, tw, algebra, T, S, theta):
    """L = library logarithm of T (vector if tw else matrix)"""
    if L is None:
        ctx.fail(cid, site, 'returns:NoneType', P, 'log returned None')
        return
    L = np.asarray(L)
    if np.iscomplexobj(L):
        ctx.fail(cid, site, 'complex', P, 'log has complex dtype %s' % L.dtype)
        return
    if L.dtype == object or not np.all(np.isfinite(L.astype(float))):
        ctx.fail(cid, site, 'nan', P, 'log is not finite: %s' % np.array2string(L.astype(float).ravel(), precision=3))
        return
    L = L.astype(float)
    if tw:
        want = {'so2': 1, 'so3': 3, 'se2': 3, 'se3': 6}[algebra]
        if L.shape != (want,):
            ctx.fail(cid, site, 'mismatch', dict(P, what='shape'), 'twist-form log has shape %s' % (L.shape,))
            return
        Lv = L
    else:
        d = form_defect(L, algebra)
        if d:
            ctx.fail(cid, site, 'mismatch', dict(P, what='form'), 'log not of algebra form: ' + d)
            return
        Lv = vec_of(L, None, algebra)
    w = Lv[-1:] if algebra in ('so2', 'se2') else Lv[-3:]
    if np.linalg.norm(w) > PI * (1 + 1e-9):
        ctx.fail(cid, site, 'mismatch', dict(P, what='range'), 'rotation magnitude of log %.17g > pi' % np.linalg.norm(w))
        return
    sc = tscale(T, algebra)
    Tb = ref_exp(Lv, algebra)
    d = ref.maxdiff(Tb, T)
    if d > TOL * sc:
        ctx.fail(cid, site, 'mismatch', dict(P, what='exp(log)'), 'reference exp of the returned log differs from T by %.3g (tol %.1g)' % (d, TOL * sc))
        return
    if S is not None and theta <= PI - 1e-6:
        vs = max(sc, float(np.linalg.norm(S[:-1])) if algebra == 'se2' else (float(np.linalg.norm(S[:3])) if algebra == 'se3' else 1.0))
        d = ref.maxdiff(Lv, S)
        if d > TOL * vs:
            ctx.fail(cid, site, 'mismatch', dict(P, what='log(exp)'), 'log(exp(S)) differs from S by %.3g (tol %.1g)' % (d, TOL * vs))


def check_exp_output(ctx, cid, site, P, T, S, algebra, Tref=None):
    if T is None:
        ctx.fail(cid, site, 'returns:NoneType', P, 'exp returned None')
        return False
    T = np.asarray(T)
    if T.dtype == object or np.iscomplexobj(T) or not np.all(np.isfinite(T)):
        ctx.fail(cid, site, 'nan', P, 'exp not finite/real')
        return False
    if Tref is None:
        Tref = ref_exp(S, algebra)
    if T.shape != Tref.shape:
        ctx.fail(cid, site, 'mismatch', dict(P, what='shape'), 'exp has shape %s' % (T.shape,))
        return False
    d = ref.maxdiff(T, Tref)
    sc = tscale(Tref, algebra)
    if d > TOL * sc:
        ctx.fail(cid, site, 'mismatch', dict(P, what='exp'), 'exp differs from the 50-digit exponential by %.3g (tol %.1g)' % (d, TOL * sc))
        return False
    return True


def one_element(ctx, algebra, S, names, theta):
    """all base-function and class-wrapper checks for one algebra element S (vector form)"""
    import spatialmath as sm
    import spatialmath.base as b
    three = algebra in ('so3', 'se3')
    exp = b.trexp if three else b.trexp2
    log = b.trlog if three else b.trlog2
    en, ln = ('base.trexp', 'base.trlog') if three else ('base.trexp2', 'base.trlog2')
    base = 'C03/%s/%s' % (algebra, '/'.join('%s=%s' % kv for kv in names.items()))
    P0 = dict(names, algebra=algebra, theta_val=theta)
    triv = not np.any(S)
    Tref = ref_exp(S, algebra)
    key = (algebra, tuple(S.tolist()))

    # --- exp, vector and matrix forms
    for form in ('vec', 'mat'):
        cid = base + '/exp/form=%s' % form
        if ctx.want(cid):
            ctx.case(cid, key=(key, 'exp', form), trivial=triv)
            arg = S.copy() if form == 'vec' else to_matrix(S, algebra)
            P = dict(P0, form=form)
            ok, T = call(exp, arg)
            if not ok:
                ctx.fail(cid, en, 'raises:' + type(T).__name__, P, 'exp raised %r' % (T,))
            else:
                check_exp_output(ctx, cid, en, P, T, S, algebra, Tref)
                ctx.cell(en, form, 'zero' if triv else ('small' if theta < 1e-6 else ('nearpi' if theta > PI - 1e-6 else 'mid')))
    # --- log of the reference-built group element, and of the library's own exp
    for tw in (True, False):
        for src in ('ref', 'lib'):
            cid = base + '/log/twist=%d/src=%s' % (tw, src)
            if not ctx.want(cid):
                continue
            ctx.case(cid, key=(key, 'log', tw, src), trivial=triv)
            P = dict(P0, twist=int(tw), src=src)
            if src == 'ref':
                T = Tref
            else:
                ok, T = call(exp, S.copy())
                if not ok or T is None or not np.all(np.isfinite(np.asarray(T, dtype=float))):
                    continue        # reported by the exp case
            ok, L = call(log, np.array(T, dtype=float), twist=tw)
            if not ok:
                ctx.fail(cid, ln, 'raises:' + type(L).__name__, P, 'log raised %r' % (L,))
                continue
            check_log_output(ctx, cid, ln, P, L, tw, algebra, np.asarray(T, dtype=float), S, theta)
            ctx.cell(ln, 'tw%d' % tw, 'zero' if triv else ('small' if theta < 1e-6 else ('nearpi' if theta > PI - 1e-6 else 'mid')))
    # --- class wrappers
    C = {'so2': sm.SO2, 'se2': sm.SE2, 'so3': sm.SO3, 'se3': sm.SE3}[algebra]
    cn = C.__name__
    forms = [('vec', lambda: S.copy()), ('mat', lambda: to_matrix(S, algebra)), ('mat,check=False', None), ('vec,check=False', None)]
    if algebra in ('se2', 'se3', 'so3'):
        forms.append(('list', lambda: S.tolist()))
    for form, mk in forms:
        cid = base + '/%s.Exp/form=%s' % (cn, form)
        if ctx.want(cid):
            ctx.case(cid, key=(key, 'Exp', form), trivial=triv)
            P = dict(P0, form=form)
            if mk is None:
                ok, X = call(lambda: C.Exp(to_matrix(S, algebra) if form.startswith('mat') else S.copy(), check=False))
            else:
                ok, X = call(C.Exp, mk())
            if not ok:
                ctx.fail(cid, cn + '.Exp', 'raises:' + type(X).__name__, P, '%s.Exp(%s) raised %r' % (cn, form, X))
            elif type(X) is not C or len(X.data) != 1:
                ctx.fail(cid, cn + '.Exp', 'returns:' + type(X).__name__, P, 'Exp gave %s with %d values' % (type(X).__name__, len(getattr(X, 'data', []))))
            else:
                check_exp_output(ctx, cid, cn + '.Exp', P, X.data[0], S, algebra, Tref)
    X = C(np.array(Tref), check=False)
    for tw in (True, False):
        cid = base + '/%s.log/twist=%d' % (cn, tw)
        if ctx.want(cid):
            ctx.case(cid, key=(key, 'clog', tw), trivial=triv)
            P = dict(P0, twist=int(tw))
            ok, L = call(X.log, twist=tw)
            if not ok:
                ctx.fail(cid, cn + '.log', 'raises:' + type(L).__name__, P, '%r' % (L,))
            else:
                check_log_output(ctx, cid, cn + '.log', P, L, tw, algebra, Tref, S, theta)
    # the same conversions on objects that came to hold T (S) through a history in which they had already been used
    if not triv:
        conv = [('%s.log/twist=%d' % (cn, tw), (lambda o, tw=tw: o.log(twist=tw)), tw) for tw in (True, False)]
        if algebra in ('se2', 'se3'):
            TWc = sm.Twist3 if three else sm.Twist2
            conv.append(('%s(%s)' % (TWc.__name__, cn), lambda o: TWc(o).data[0], True))
            conv.append(('%s.%s' % (cn, TWc.__name__), lambda o: getattr(o, TWc.__name__)().data[0], True))
        for route, f, tw in conv:
            for tag, Xh in hist.variants(C(np.array(Tref), check=False), f, fresh=False):
                cid = base + '/%s/hist=%s' % (route, tag)
                if not ctx.want(cid):
                    continue
                ctx.case(cid, key=(key, route, tag))
                P = dict(P0, twist=int(tw), hist=tag)
                ok, L = call(f, Xh)
                if not ok:
                    ctx.fail(cid, route.split('/')[0], 'raises:' + type(L).__name__, P, '%s after %s raised %r' % (route, tag, L))
                else:
                    check_log_output(ctx, cid, route.split('/')[0], P, L, tw, algebra, Tref, S, theta)
        if algebra in ('se2', 'se3'):
            for route, f in (('%s.exp' % TWc.__name__, lambda o: o.exp().data[0]), ('%s.%s' % (TWc.__name__, cn), lambda o: getattr(o, cn)().data[0])):
                for tag, Wh in hist.variants(TWc(S.copy()), f, fresh=False):
                    cid = base + '/%s/hist=%s' % (route, tag)
                    if not ctx.want(cid):
                        continue
                    ctx.case(cid, key=(key, route, tag))
                    ok, Y = call(f, Wh)
                    if not ok:
                        ctx.fail(cid, route, 'raises:' + type(Y).__name__, dict(P0, hist=tag), '%s after %s raised %r' % (route, tag, Y))
                    else:
                        check_exp_output(ctx, cid, route, dict(P0, hist=tag), Y, S, algebra, Tref)
    if algebra in ('se2', 'se3'):
        TW = sm.Twist3 if three else sm.Twist2
        tn = TW.__name__
        # pose -> twist
        for route, f in (('%s.%s' % (cn, tn), lambda: getattr(X, tn)()), ('%s(%s)' % (tn, cn), lambda: TW(X))):
            cid = base + '/' + route
            if ctx.want(cid):
                ctx.case(cid, key=(key, route), trivial=triv)
                ok, W = call(f)
                if not ok:
                    ctx.fail(cid, route, 'raises:' + type(W).__name__, P0, '%r' % (W,))
                elif type(W) is not TW or len(W.data) != 1:
                    ctx.fail(cid, route, 'returns:' + type(W).__name__, P0, 'gave %s' % type(W).__name__)
                else:
                    check_log_output(ctx, cid, route, dict(P0, twist=1), W.data[0], True, algebra, Tref, S, theta)
        # twist -> pose
        W = TW(S.copy())
        for route, f in ((tn + '.exp', lambda: W.exp()), (tn + '.' + cn, lambda: getattr(W, cn)()),
                         (tn + '.' + algebra, lambda: exp(getattr(W, algebra)()))):
            cid = base + '/' + route
            if ctx.want(cid):
                ctx.case(cid, key=(key, route), trivial=triv)
                ok, Y = call(f)
                if not ok:
                    ctx.fail(cid, route, 'raises:' + type(Y).__name__, P0, '%r' % (Y,))
                    continue
                if route.endswith(algebra):
                    Yv = Y
                else:
                    if type(Y) is not C or len(Y.data) != 1:
                        ctx.fail(cid, route, 'returns:' + type(Y).__name__, P0, 'gave %s' % type(Y).__name__)
                        continue
                    Yv = Y.data[0]
                check_exp_output(ctx, cid, route, P0, Yv, S, algebra, Tref)


def _quiet(f):
    """the library prints a notice for prismatic twists in degree mode: keep it off the check's stdout"""
    import contextlib, io

    def g():
        with contextlib.redirect_stdout(io.StringIO()):
            return f()
    return g


def unit_twist_cases(ctx, algebra, tier, seed):
    """exp(S, theta) = exp(theta*S) for unit twists (revolute and prismatic)"""
    import spatialmath.base as b
    three = algebra in ('so3', 'se3')
    exp = b.trexp if three else b.trexp2
    en = 'base.trexp' if three else 'base.trexp2'
    thetas = alph.angle_alphabet(tier, seed, many_turns=False)
    units = []
    if algebra == 'so3':
        for an, a in alph.axes(tier, seed):
            units.append(('w=%s' % an, a.copy()))
    elif algebra == 'se3':
        for an, a in alph.axes(tier, seed):
            for qn, q in (('0', np.zeros(3)), ('g', np.array([0.5, -1.5, 2.0])), ('1e3', 1e3 * alph.unit((1, 2, 3)))):
                units.append(('rev(%s,q=%s)' % (an, qn), np.r_[-np.cross(a, q), a]))
            units.append(('pris(%s)' % an, np.r_[a, 0, 0, 0]))
            # screws: unit rotational part, translation of `pitch` per radian along the axis (not periodic in theta)
            for hn, h in (('0.5', 0.5), ('-2', -2.0)):
                units.append(('screw(%s,q=g,h=%s)' % (an, hn), np.r_[-np.cross(a, np.array([0.5, -1.5, 2.0])) + h * a, a]))
    elif algebra == 'so2':
        units = [('w=+1', np.array([1.0])), ('w=-1', np.array([-1.0]))]
    else:
        for qn, q in (('0', (0, 0)), ('g', (0.5, -1.5)), ('1e3', (600.0, 800.0))):
            units.append(('rev(q=%s)' % qn, np.r_[q[1], -q[0], 1.0]))
            units.append(('rev-(q=%s)' % qn, np.r_[-q[1], q[0], -1.0]))        # clockwise unit twist about the same pole
        units.append(('pris(x)', np.r_[1.0, 0, 0]))
        units.append(('pris(g)', np.r_[-0.6, 0.8, 0]))
    for un, U in units:
        for tn, th in thetas:
            for form in ('vec', 'mat'):
                cid = 'C03/%s/unit/%s/theta=%s/form=%s' % (algebra, un, tn, form)
                if not ctx.want(cid):
                    continue
                ctx.case(cid, key=(algebra, un, th, form))
                P = dict(algebra=algebra, unit_twist=un.split('(')[0], theta=tn, form=form, theta_val=th, mode='S,theta')
                arg = U.copy() if form == 'vec' else to_matrix(U, algebra)
                ok, T = call(exp, arg, th)
                if not ok:
                    ctx.fail(cid, en, 'raises:' + type(T).__name__, P, 'exp(S, theta) raised %r' % (T,))
                    continue
                check_exp_output(ctx, cid, en, P, T, U * th, algebra)
        # the twist classes: S.exp(theta) with scalar and vector theta in both units
        if algebra in ('se3', 'se2'):
            import spatialmath as sm
            TW, PC = (sm.Twist3, sm.SE3) if three else (sm.Twist2, sm.SE2)
            tn_ = TW.__name__
            sub = [x for x in thetas if abs(x[1]) < 7][::2]
            for unit in ('rad', 'deg'):
                k = 1.0 if unit == 'rad' else 180 / math.pi
                for tn, th in sub:
                    cid = 'C03/%s/unit/%s/%s.exp/theta=%s/%s' % (algebra, un, tn_, tn, unit)
                    if not ctx.want(cid):
                        continue
                    ctx.case(cid, key=cid)
                    P = dict(algebra=algebra, unit_twist=un.split('(')[0], theta=tn, unit=unit, mode='Twist.exp')
                    ok, X = call(_quiet(lambda: TW(U.copy()).exp(th * k, unit)))
                    if not ok:
                        ctx.fail(cid, tn_ + '.exp', 'raises:' + type(X).__name__, P, '%r' % (X,))
                    elif type(X) is not PC or len(X.data) != 1:
                        ctx.fail(cid, tn_ + '.exp', 'returns:' + type(X).__name__, P, 'expected one %s' % PC.__name__)
                    else:
                        check_exp_output(ctx, cid, tn_ + '.exp', P, X.data[0], U * th, algebra)
                for form in ('list', 'array'):
                    vs = [t for _, t in sub[:5]]
                    cid = 'C03/%s/unit/%s/%s.exp/vector/%s/%s' % (algebra, un, tn_, unit, form)
                    if not ctx.want(cid):
                        continue
                    ctx.case(cid, key=cid)
                    P = dict(algebra=algebra, unit_twist=un.split('(')[0], theta='vector', unit=unit, form=form, mode='Twist.exp')
                    arg = [t * k for t in vs] if form == 'list' else np.array(vs) * k
                    ok, X = call(_quiet(lambda: TW(U.copy()).exp(arg, unit)))
                    if not ok:
                        ctx.fail(cid, tn_ + '.exp', 'raises:' + type(X).__name__, P, '%r' % (X,))
                    elif type(X) is not PC or len(X.data) != len(vs):
                        ctx.fail(cid, tn_ + '.exp', 'mismatch', dict(P, what='count'), 'vector of %d angles gave %s values' % (len(vs), len(getattr(X, 'data', []))))
                    else:
                        for j, t in enumerate(vs):
                            check_exp_output(ctx, cid, tn_ + '.exp', dict(P, j=j), X.data[j], U * t, algebra)


def sequence_cases(ctx):
    """sequence forms of the class wrappers: Exp of several algebra elements, log of multi-valued poses"""
    import spatialmath as sm
    tier, seed = ctx.tier, ctx.seed
    for algebra in ('so3', 'se3', 'se2'):
        els = [(n, S, th) for n, S, th in elements(algebra, tier, seed)]
        els = [e for e in els if alph.thin('seq' + '/'.join('%s=%s' % kv for kv in e[0]), tier, 8, 2)][:60 if tier == 'quick' else 400]
        C = {'so3': sm.SO3, 'se3': sm.SE3, 'se2': sm.SE2}[algebra]
        cn = C.__name__
        for N in (2, 3, 5):
            for start in range(0, max(1, len(els) - N), N):
                grp = els[start:start + N]
                if len(grp) < N:
                    continue
                Ss = [np.asarray(S, dtype=float) for _, S, _ in grp]
                refs = [ref_exp(S, algebra) for S in Ss]
                base = 'C03/%s/seq/N=%d/start=%d' % (algebra, N, start)
                forms = []
                if algebra == 'so3':
                    forms.append(('Nx3/so3=False', lambda: sm.SO3.Exp(np.array(Ss), so3=False)))
                elif algebra == 'se3':
                    forms.append(('list-of-6', lambda: sm.SE3.Exp([S.copy() for S in Ss])))
                    forms.append(('Nx6', lambda: sm.SE3.Exp(np.array(Ss))))
                else:
                    forms.append(('list-of-3', lambda: sm.SE2.Exp([S.copy() for S in Ss])))
                for fname, f in forms:
                    cid = '%s/%s.Exp/%s' % (base, cn, fname)
                    if not ctx.want(cid):
                        continue
                    ctx.case(cid, key=cid)
                    P = dict(algebra=algebra, form=fname, N=N, mode='sequence')
                    ok, X = call(f)
                    if not ok:
                        ctx.fail(cid, cn + '.Exp', 'raises:' + type(X).__name__, P, '%s.Exp(%s) raised %r' % (cn, fname, X))
                        continue
                    if type(X) is not C or len(X.data) != N:
                        ctx.fail(cid, cn + '.Exp', 'mismatch', dict(P, what='count'), 'expected %d values, got %s' % (N, len(getattr(X, 'data', []))))
                        continue
                    for j in range(N):
                        check_exp_output(ctx, cid, cn + '.Exp', dict(P, j=j), X.data[j], Ss[j], algebra, refs[j])
                # log of the multi-valued pose built from the reference group elements
                for tw in (True, False):
                    cid = '%s/%s.log/twist=%d' % (base, cn, tw)
                    if not ctx.want(cid):
                        continue
                    ctx.case(cid, key=cid)
                    P = dict(algebra=algebra, N=N, mode='sequence', twist=int(tw))
                    X = C([r.copy() for r in refs], check=False)
                    ok, L = call(X.log, twist=tw)
                    if not ok:
                        ctx.fail(cid, cn + '.log', 'raises:' + type(L).__name__, P, '%r' % (L,))
                        continue
                    if not isinstance(L, (list, np.ndarray)) or len(L) != N:
                        ctx.fail(cid, cn + '.log', 'mismatch', dict(P, what='count'), 'log of %d values gave %s' % (N, type(L).__name__))
                        continue
                    for j in range(N):
                        check_log_output(ctx, cid, cn + '.log', dict(P, j=j), L[j], tw, algebra, refs[j], Ss[j], grp[j][2])


def mixed_sequences(ctx):
    """multi-valued poses and twists whose values are of different kinds (identity, pure translation, rotation about an axis off the
    origin, half turn) in every order of two and three: log, the pose <-> twist conversions and the twist exponential answer for value j
    what they answer for value j alone (a branch must not be chosen from value 0)"""
    import spatialmath as sm
    kinds3 = [('I', np.zeros(6)), ('T', np.r_[1.0, -2.0, 0.5, 0, 0, 0]), ('R', np.r_[0.3, 0.2, -0.1, 0.4, -0.5, 0.6]), ('R0', np.r_[0, 0, 0, 0, 0, 1.2]), ('H', np.r_[0.5, 0, 0, math.pi - 1e-3, 0, 0])]
    kinds2 = [('I', np.zeros(3)), ('T', np.r_[1.0, -2.0, 0.0]), ('R', np.r_[0.3, 0.2, 0.7]), ('R-', np.r_[0, 0, -1.2])]
    # rotations only: identity, generic, within 1e-3 / 1e-10 of a half turn about a generic axis, exact half turns (symmetric matrices)
    ga = alph.unit((1, 2, 3))
    kso3 = [('I', np.zeros(3)), ('R', np.array([0.4, -0.5, 0.6])), ('H', (math.pi - 1e-3) * ga), ('H10', (math.pi - 1e-10) * ga), ('Hx', np.array([math.pi, 0, 0])), ('Hg', math.pi * ga)]
    kso2 = [('I', np.zeros(1)), ('R', np.array([0.7])), ('H', np.array([math.pi - 1e-10])), ('Hx', np.array([math.pi])), ('R-', np.array([-1.2]))]
    for algebra, kinds, C in (('so3', kso3, sm.SO3), ('so2', kso2, sm.SO2)):
        cn = C.__name__
        for N in (2, 3):
            for combo in itertools.permutations(kinds, N):
                if N == 3 and not alph.thin('.'.join(k for k, _ in combo), 'quick', 3, 3):
                    continue
                names = '.'.join(k for k, _ in combo)
                Ss = [S_.copy() for _, S_ in combo]
                refs = [ref_exp(S_, algebra) for S_ in Ss]
                X = C([r.copy() for r in refs], check=False)
                for tw in (True, False):
                    cid = 'C03/%s/mixed/%s/%s.log/twist=%d' % (algebra, names, cn, tw)
                    if not ctx.want(cid):
                        continue
                    ctx.case(cid, key=cid)
                    P0 = dict(algebra=algebra, mode='mixed-sequence', N=N, twist=int(tw))
                    ok, L = call(X.log, twist=tw)
                    if not ok:
                        ctx.fail(cid, cn + '.log', 'raises:' + type(L).__name__, P0, 'log on %s raised %r' % (names, L))
                        continue
                    if not isinstance(L, (list, np.ndarray)) or len(L) != N:
                        ctx.fail(cid, cn + '.log', 'mismatch', dict(P0, what='count'), 'log of %d values gave %s' % (N, type(L).__name__))
                        continue
                    for j in range(N):
                        check_log_output(ctx, cid, cn + '.log', dict(P0, j=j), L[j], tw, algebra, refs[j], Ss[j], float(np.linalg.norm(Ss[j])))
                # the class exponential on the same values as a table (one row per value) and as lists of vectors / matrices
                forms = [('list-of-vectors', lambda: [S_.copy() for S_ in Ss], {}), ('list-of-matrices', lambda: [ref.skew(S_) for S_ in Ss], {})]
                if algebra == 'so3':
                    forms += [('Nx3', lambda: np.array(Ss), {'so3': False}), ('Nx3/check=False', lambda: np.array(Ss), {'so3': False, 'check': False})]
                for fn_, mk_, kw_ in forms:
                    cid = 'C03/%s/mixed/%s/%s.Exp/%s' % (algebra, names, cn, fn_)
                    if not ctx.want(cid):
                        continue
                    if N == 3 and algebra == 'so3' and fn_ == 'Nx3':
                        continue            # a 3 x 3 table of rotation vectors cannot be told from one so(3) matrix (documented: so3=True by default)
                    ctx.case(cid, key=cid)
                    P0 = dict(algebra=algebra, mode='mixed-sequence', N=N, form=fn_)
                    ok, Y = call(lambda: C.Exp(mk_(), **kw_))
                    if not ok:
                        ctx.note('Exp_sequence_form_refused', '%s.Exp(%s) -> %s' % (cn, fn_, type(Y).__name__))
                        if (fn_.startswith('Nx3') or fn_ == 'list-of-vectors') and algebra == 'so3' or fn_ == 'list-of-matrices':
                            # these forms are documented for the class exponential: a refusal that depends on the VALUES (a zero row) is a failure
                            alt_ = (np.array([Ss_ + 0.1 for Ss_ in Ss]) if fn_.startswith('Nx3') else [Ss_ + 0.1 for Ss_ in Ss]) if fn_ != 'list-of-matrices' else [ref.skew(Ss_ + 0.1) for Ss_ in Ss]
                            ok2, _ = call(lambda: C.Exp(alt_, **kw_))
                            if ok2:
                                ctx.fail(cid, cn + '.Exp', 'raises:' + type(Y).__name__, P0, '%s.Exp(%s) of %s raised %r while the same form with other values is accepted' % (cn, fn_, names, Y))
                        continue
                    if type(Y) is not C or len(Y.data) != N:
                        ctx.fail(cid, cn + '.Exp', 'mismatch', dict(P0, what='count'), '%s.Exp(%s) of %d values gave %s[%s]' % (cn, fn_, N, type(Y).__name__, len(getattr(Y, 'data', []))))
                        continue
                    for j in range(N):
                        check_exp_output(ctx, cid, cn + '.Exp', dict(P0, j=j), Y.data[j], Ss[j], algebra, refs[j])
    for algebra, kinds, C, TW in (('se3', kinds3, sm.SE3, sm.Twist3), ('se2', kinds2, sm.SE2, sm.Twist2)):
        cn, tn = C.__name__, TW.__name__
        for N in (2, 3):
            for combo in itertools.permutations(kinds, N):
                names = '.'.join(k for k, _ in combo)
                Ss = [S_.copy() for _, S_ in combo]
                refs = [ref_exp(S_, algebra) for S_ in Ss]
                base = 'C03/%s/mixed/%s' % (algebra, names)
                P0 = dict(algebra=algebra, mode='mixed-sequence', N=N)
                X = C([r.copy() for r in refs], check=False)
                for route, f in ((cn + '.log/twist=1', lambda: X.log(twist=True)), (cn + '.log/twist=0', lambda: X.log(twist=False)),
                                 ('%s.%s' % (cn, tn), lambda: [np.asarray(d) for d in getattr(X, tn)().data]), ('%s(%s)' % (tn, cn), lambda: [np.asarray(d) for d in TW(X).data])):
                    cid = base + '/' + route
                    if not ctx.want(cid):
                        continue
                    ctx.case(cid, key=cid)
                    tw = not route.endswith('twist=0')
                    ok, L = call(f)
                    if not ok:
                        ctx.fail(cid, route.split('/')[0], 'raises:' + type(L).__name__, P0, '%s on %s raised %r' % (route, names, L))
                        continue
                    if not isinstance(L, (list, np.ndarray)) or len(L) != N:
                        ctx.fail(cid, route.split('/')[0], 'mismatch', dict(P0, what='count'), '%s of %d values gave %s' % (route, N, type(L).__name__))
                        continue
                    for j in range(N):
                        th = abs(Ss[j][-1]) if algebra == 'se2' else float(np.linalg.norm(Ss[j][3:]))
                        check_log_output(ctx, cid, route.split('/')[0], dict(P0, j=j, twist=int(tw)), L[j], tw, algebra, refs[j], Ss[j], th)
                for fn_, mk_ in (('list-of-vectors', lambda: [S_.copy() for S_ in Ss]), ('list-of-matrices', lambda: [ref.skewa(S_) for S_ in Ss])):
                    cid = base + '/%s.Exp/%s' % (cn, fn_)
                    if not ctx.want(cid):
                        continue
                    ctx.case(cid, key=cid)
                    Pe = dict(P0, form=fn_)
                    ok, Y = call(lambda: C.Exp(mk_()))
                    if not ok:
                        ok2, _ = call(lambda: C.Exp([ref_unitish(S_) for S_ in Ss] if fn_ == 'list-of-vectors' else [ref.skewa(ref_unitish(S_)) for S_ in Ss]))
                        if ok2:
                            ctx.fail(cid, cn + '.Exp', 'raises:' + type(Y).__name__, Pe, '%s.Exp(%s) of %s raised %r while the same form with unit twists is accepted' % (cn, fn_, names, Y))
                        else:
                            ctx.note('Exp_sequence_form_refused', '%s.Exp(%s) -> %s' % (cn, fn_, type(Y).__name__))
                        continue
                    if type(Y) is not C or len(Y.data) != N:
                        ctx.fail(cid, cn + '.Exp', 'mismatch', dict(Pe, what='count'), '%s.Exp(%s) of %d values gave %s[%s]' % (cn, fn_, N, type(Y).__name__, len(getattr(Y, 'data', []))))
                        continue
                    for j in range(N):
                        check_exp_output(ctx, cid, cn + '.Exp', dict(Pe, j=j), Y.data[j], Ss[j], algebra, refs[j])
                W = TW([S_.copy() for S_ in Ss])
                for route, f in ((tn + '.exp', lambda: W.exp()), (tn + '.' + cn, lambda: getattr(W, cn)())):
                    cid = base + '/' + route
                    if not ctx.want(cid):
                        continue
                    ctx.case(cid, key=cid)
                    ok, Y = call(f)
                    if not ok:
                        ctx.note('not_vectorised_refuses', '%s -> %s' % (route, type(Y).__name__))     # a loud refusal for multi-valued twists is C09's matter
                        continue
                    if type(Y) is not C or len(Y.data) != N:
                        ctx.fail(cid, route, 'mismatch', dict(P0, what='count'), '%s of %d twists gave %s[%s]' % (route, N, type(Y).__name__, len(getattr(Y, 'data', []))))
                        continue
                    for j in range(N):
                        check_exp_output(ctx, cid, route, dict(P0, j=j), Y.data[j], Ss[j], algebra, refs[j])


# --------------------------------------------------------------------------- enumeration

def ref_unitish(S_):
    """a unit twist of the same shape (rotation about z through the origin)"""
    out = np.zeros(len(S_))
    out[-1] = 1.0
    return out


def integer_cases(ctx):
    """group and algebra elements held in integer arrays (hand-typed quarter and half turns, integer translations and twists):
    the complete set of signed permutation rotations (4 in 2-D, 24 in 3-D) x integer translations x dtype; oracle = the float
    checks above plus agreement with the same call on the float copy"""
    import spatialmath as sm
    import spatialmath.base as b
    rots2 = [np.array([[c, -s_], [s_, c]]) for c, s_ in ((1, 0), (0, 1), (-1, 0), (0, -1))]
    rots3 = []
    for perm in itertools.permutations(range(3)):
        for sg in itertools.product((1, -1), repeat=3):
            R = np.zeros((3, 3), dtype=int)
            for i in range(3):
                R[i, perm[i]] = sg[i]
            if round(np.linalg.det(R)) == 1:
                rots3.append(R)
    for dim, rots, trs in ((2, rots2, ((0, 0), (5, 3), (-2, 7))), (3, rots3, ((0, 0, 0), (1, 2, 3), (-4, 0, 6)))):
        log = b.trlog if dim == 3 else b.trlog2
        exp = b.trexp if dim == 3 else b.trexp2
        ln, en = ('base.trlog', 'base.trexp') if dim == 3 else ('base.trlog2', 'base.trexp2')
        for ri, R in enumerate(rots):
            for ti, t in enumerate(trs):
                for kind in ('so', 'se'):
                    if kind == 'so' and ti:
                        continue
                    algebra = '%s%d' % (kind, dim)
                    T = R.copy() if kind == 'so' else np.block([[R, np.array(t).reshape(dim, 1)], [np.zeros((1, dim), dtype=int), np.ones((1, 1), dtype=int)]])
                    for dt in ('int64', 'int32', 'float32'):
                        Ti = T.astype(dt)
                        Tf = T.astype(float)
                        C = getattr(sm, algebra.upper())
                        for tw in (True, False):
                            for site, f in ((ln, lambda A: log(A, twist=tw)), (C.__name__ + '.log', lambda A: C(A).log(twist=tw))):
                                cid = 'C03/int/%s/R%d/t%d/%s/%s/twist=%d' % (algebra, ri, ti, dt, site, tw)
                                if not ctx.want(cid):
                                    continue
                                ctx.case(cid, key=cid, trivial=(ri == 0 and ti == 0))
                                P = dict(algebra=algebra, dtype=dt, twist=int(tw), mode='integer', rot=ri, tr=ti)
                                ok, L = call(f, Ti.copy())
                                okf, Lf = call(f, Tf.copy())
                                if not okf:
                                    continue            # the float case is judged by the element shards
                                if not ok:
                                    ctx.fail(cid, site, 'raises:' + type(L).__name__, P, 'log of an %s matrix raised %r (the float copy works)' % (dt, L))
                                    continue
                                check_log_output(ctx, cid, site, P, L, tw, algebra, Tf, None, 0.0)
                                if L is not None and np.asarray(L).shape == np.asarray(Lf).shape and np.asarray(L).dtype != object:
                                    # at a half turn the axis sign is free: compare through the exponential only (done above)
                                    half = abs(np.trace(R) - (dim - 2)) < 1e-9 if dim == 3 else ri == 2
                                    if not half and ref.maxdiff(np.asarray(L, dtype=float), np.asarray(Lf, dtype=float)) > 1e-6 * tscale(Tf, algebra):
                                        ctx.fail(cid, site, 'mismatch', dict(P, what='dtype'), 'log of the %s matrix differs from the log of its float copy' % dt)
        # integer algebra elements: exp of integer vectors and matrices equals exp of the float copy
        ivecs = {2: {'so': [np.array([k]) for k in (0, 1, -2, 3)], 'se': [np.array(v) for v in ((1, 2, 0), (0, 0, 1), (3, -1, 2), (-2, 5, -3))]},
                 3: {'so': [np.array(v) for v in ((0, 0, 0), (1, 0, 0), (0, -2, 0), (1, 1, 1), (2, -1, 2))],
                     'se': [np.array(v) for v in ((1, 2, 3, 0, 0, 0), (0, 0, 0, 0, 0, 1), (1, -2, 3, 1, 0, -1), (4, 0, -5, 0, 2, 0))]}}[dim]
        for kind, vs in ivecs.items():
            algebra = '%s%d' % (kind, dim)
            C = getattr(sm, algebra.upper())
            for vi, v in enumerate(vs):
                for dt, form in itertools.product(('int64', 'int32'), ('vec', 'mat')):
                    for site, f in ((en, exp), (C.__name__ + '.Exp', lambda A: C.Exp(A).A)):
                        cid = 'C03/int/%s/S%d/%s/%s/%s' % (algebra, vi, dt, form, site)
                        if not ctx.want(cid):
                            continue
                        ctx.case(cid, key=cid, trivial=not np.any(v))
                        P = dict(algebra=algebra, dtype=dt, form=form, mode='integer')
                        arg = v.astype(dt) if form == 'vec' else np.round(to_matrix(v.astype(float), algebra)).astype(dt)
                        okf, Tf = call(f, np.asarray(arg, dtype=float))
                        ok, T = call(f, arg.copy())
                        if not okf:
                            continue
                        if not ok:
                            ctx.fail(cid, site, 'raises:' + type(T).__name__, P, 'exp of an %s %s raised %r (the float copy works)' % (dt, form, T))
                            continue
                        check_exp_output(ctx, cid, site, P, T, v.astype(float), algebra)


def elements(algebra, tier, seed):
    """yields (names dict, S vector, theta)"""
    if algebra in ('so3', 'se3'):
        for tn, th in alph.theta_alphabet(tier, seed):
            for an, a in alph.axes(tier, seed):
                if th == 0 and an != '+x':
                    continue
                if algebra == 'so3':
                    yield (('theta', tn), ('axis', an)), th * a, th
                else:
                    for vn, v in vparts(tier, a):
                        yield (('theta', tn), ('axis', an), ('v', vn)), np.r_[v, th * a], th
    elif algebra == 'so2':
        for tn, th in theta2(tier, seed):
            yield (('theta', tn),), np.array([th]), abs(th)
    else:
        for tn, th in theta2(tier, seed):
            for vn, v in vparts2(tier):
                yield (('theta', tn), ('v', vn)), np.r_[v, th], abs(th)


def shards(tier, seed):
    out = []
    n3 = 8 if tier == 'quick' else 48
    for k in range(n3):
        out.append(('el', 'se3', k, n3))
    for k in range(2 if tier == 'quick' else 4):
        out.append(('el', 'so3', k, 2 if tier == 'quick' else 4))
    out.append(('el', 'so2', 0, 1))
    for k in range(2 if tier == 'quick' else 4):
        out.append(('el', 'se2', k, 2 if tier == 'quick' else 4))
    for a in ('so2', 'se2', 'so3', 'se3'):
        out.append(('unit', a))
    out.append(('seq',))
    out.append(('int',))
    out.append(('mixed',))
    return out


def run_shard(ctx, shard):
    if shard[0] == 'el':
        _, algebra, k, K = shard
        for i, (names, S, th) in enumerate(elements(algebra, ctx.tier, ctx.seed)):
            if i % K == k:
                one_element(ctx, algebra, np.asarray(S, dtype=float), dict(names), th)
    elif shard[0] == 'seq':
        sequence_cases(ctx)
    elif shard[0] == 'int':
        integer_cases(ctx)
    elif shard[0] == 'mixed':
        mixed_sequences(ctx)
    else:
        unit_twist_cases(ctx, shard[1], ctx.tier, ctx.seed)
