"""
C14  Normalisation projects onto the group and is idempotent.

E1: members of the generator sets x noise magnitude 1e-15..1e-2 x 4 fixed noise patterns through
trnorm / trnorm2 / the pose norm() methods; vectors, quaternions and twists with norms 1e-6..1e6
(rotational part exactly zero, below and above the library zero threshold) through unitvec(_norm),
unit, Quaternion.unit, the UnitQuaternion constructors, unittwist(_norm), unittwist2(_norm),
Twist3.unit, Twist2.unit; angdiff over multiples of pi/2 +- ladders, +-1e3 and generic angles.
"""
import itertools, math
import numpy as np
from mc import ref, alph
from mc.core import call

PROP = 'C14'
LEVEL = 'exploration'
RULE = ('full products member x noise magnitude x noise pattern; direction x norm ladder x rotational-part ladder; angle letters (pairs for the '
        'two-argument form); non-trivial = input is not already exactly normalised identity/zero; distinct = distinct letter tuples')
ASSUME = ['validity / idempotence / fixed-point tolerance 1e-12 as stated', 'angdiff congruence tolerance 1e-9*max(1,|a|,|b|)',
          'a twist is irrotational when its rotational part is below the library zero threshold (10 eps, absolute)']
ANCHORS = [('spatialmath.base.transforms3d', 'trnorm'), ('spatialmath.base.transforms2d', 'trnorm2'), ('spatialmath.base.quaternions', 'unit'),
           ('spatialmath.base.vectors', 'unitvec'), ('spatialmath.base.vectors', 'unitvec_norm'), ('spatialmath.base.vectors', 'unittwist'),
           ('spatialmath.base.vectors', 'unittwist_norm'), ('spatialmath.base.vectors', 'unittwist2'), ('spatialmath.base.vectors', 'unittwist2_norm'),
           ('spatialmath.base.vectors', 'angdiff'), ('spatialmath.super_pose', 'SMPose.norm'), ('spatialmath.quaternion', 'Quaternion.unit'),
           ('spatialmath.twist', 'SMTwist.unit'), ('spatialmath.twist', 'Twist2.unit')]

PI = math.pi
T12 = 1e-12
NOISE = [np.array([[0.3, -0.7, 0.2], [0.5, 0.1, -0.9], [-0.4, 0.8, 0.6]]), np.array([[1.0, 0, 0], [0, 0, 0], [0, 0, 0]]),
         np.array([[0.0, 1, 0], [1, 0, 0], [0, 0, 1.0]]), np.array([[-0.2, 0.9, -0.5], [0.1, -0.3, 0.7], [0.8, 0.4, -0.6]])]


def valid(M, kind):
    return ref.member_defect(M, kind, T12)


def matrix_cases(ctx, dim, k, K):
    import spatialmath as sm
    import spatialmath.base as b
    tier, seed = ctx.tier, ctx.seed
    f = b.trnorm if dim == 3 else b.trnorm2
    fname = 'base.trnorm' if dim == 3 else 'base.trnorm2'
    mags = [('0', 0.0)] + [('1e%d' % kk, 10.0 ** kk) for kk in ((-15, -12, -9, -6, -3, -2) if tier == 'quick' else range(-15, -1))]
    members = [(n, M, 'SO%d' % dim) for n, M in (alph.gen_SO3(tier, seed) if dim == 3 else alph.gen_SO2(tier, seed))] + \
              [(n, M, 'SE%d' % dim) for n, M in alph.gen_SE(dim, tier, seed)]
    i = 0
    for (gn, M, kind), (mn, m), (pi_, N) in itertools.product(members, mags, enumerate(NOISE)):
        i += 1
        if i % K != k:
            continue
        if m == 0 and pi_ > 0:
            continue
        X = M.copy()
        X[:dim, :dim] += m * N[:dim, :dim]
        if kind[:2] == 'SE' and pi_ == len(NOISE) - 1:
            # last pattern: the noise covers the whole matrix, bottom row included (a "nearly valid rigid-motion matrix")
            X[dim, :] += m * np.array([0.3, -0.7, 0.2, 0.5])[:dim + 1]
        cid = 'C14/%s/%s/noise=%s/p%d' % (fname, gn, mn, pi_)
        P = dict(kind=kind, g=gn.split('|')[0], noise=mn, pattern=pi_)
        C = getattr(sm, kind)
        for site, call_ in ((fname, lambda A: f(A)), (kind + '.norm', lambda A: C(A, check=False).norm().A)):
            c2 = cid + '/' + site
            if not ctx.want(c2):
                continue
            ctx.case(c2, key=c2, trivial=(m == 0 and gn.startswith('I')))
            ok, Y = call(call_, X.copy())
            if not ok:
                ctx.fail(c2, site, 'raises:' + type(Y).__name__, P, '%r' % (Y,))
                continue
            Y = np.asarray(Y)
            d = valid(Y, kind)
            if d:
                ctx.fail(c2, site, 'invalid-member', P, 'normalised value: ' + d)
                continue
            ok2, Z = call(call_, Y.copy())
            if not ok2 or ref.maxdiff(Z, Y) > T12:
                ctx.fail(c2, site, 'mismatch', dict(P, law='idempotent'), 'second application changes the value by %s' % (ref.maxdiff(Z, Y) if ok2 else repr(Z)))
            if m == 0 and ref.maxdiff(Y, M) > T12 * ref.tnorm(M) if kind[:2] == 'SE' else (m == 0 and ref.maxdiff(Y, M) > T12):
                ctx.fail(c2, site, 'mismatch', dict(P, law='fixed-point'), 'valid input changed by %.3g' % ref.maxdiff(Y, M))
            if kind[:2] == 'SE' and not np.array_equal(Y[:dim, dim], X[:dim, dim]):
                ctx.fail(c2, site, 'mismatch', dict(P, law='translation'), 'translation changed')
            # directions: last rotation column kept; second column stays in span(old col 2, old col 3)
            R, R0 = Y[:dim, :dim], X[:dim, :dim]
            last = R0[:, dim - 1] / np.linalg.norm(R0[:, dim - 1])
            if np.abs(R[:, dim - 1] - last).max() > T12:
                ctx.fail(c2, site, 'mismatch', dict(P, law='approach-axis'), 'direction of the last axis changed by %.3g' % np.abs(R[:, dim - 1] - last).max())
            if dim == 3:
                nrm = np.cross(R0[:, 1], R0[:, 2])
                nrm = nrm / np.linalg.norm(nrm)
                if abs(float(R[:, 1] @ nrm)) > T12:
                    ctx.fail(c2, site, 'mismatch', dict(P, law='plane'), 'new second axis leaves the plane of the old second and third axes (%.3g)' % abs(float(R[:, 1] @ nrm)))
            ctx.cell(site, kind, 'noise' if m else 'clean')


def vector_cases(ctx):
    import spatialmath as sm
    import spatialmath.base as b
    tier, seed = ctx.tier, ctx.seed
    mags = alph.magnitudes(tier)
    dirs3 = [('e1', (1.0, 0, 0)), ('-e3', (0, 0, -1.0))] + [(n, v) for n, v in alph.pick(alph.G_VEC3, tier, seed, 3)]
    for (dn, d), (mn, m) in itertools.product(dirs3, mags):
        u = alph.unit(d)
        v = u * m
        P = dict(dir=dn, mag=mn)
        for site, f in (('base.unitvec', lambda x: b.unitvec(x)), ('base.unitvec_norm', lambda x: b.unitvec_norm(x)[0])):
            cid = 'C14/%s/%s/%s' % (site, dn, mn)
            if not ctx.want(cid):
                continue
            ctx.case(cid, key=cid)
            ok, r = call(f, v.copy())
            if not ok or r is None:
                ctx.fail(cid, site, ('raises:' + type(r).__name__) if not ok else 'returns:NoneType', P, '%r' % (r,))
                continue
            r = np.asarray(r, dtype=float)
            if abs(np.linalg.norm(r) - 1) > T12 or np.abs(r - u).max() > T12:
                ctx.fail(cid, site, 'mismatch', dict(P, law='unit/direction'), 'result %s' % r.tolist())
            ok2, r2 = call(f, r.copy())
            if not ok2 or np.abs(np.asarray(r2) - r).max() > T12:
                ctx.fail(cid, site, 'mismatch', dict(P, law='idempotent'), 'second application changes the value')
        cid = 'C14/base.unitvec_norm/norm/%s/%s' % (dn, mn)
        if ctx.want(cid):
            ctx.case(cid, key=cid)
            ok, r = call(b.unitvec_norm, v.copy())
            if ok and r is not None and abs(float(r[1]) - m) > T12 * max(1.0, m) * 10:
                ctx.fail(cid, 'base.unitvec_norm', 'mismatch', dict(P, law='norm'), 'norm %r, expected %r' % (r[1], m))
    # quaternions
    dirs4 = [('1000', (1.0, 0, 0, 0)), ('0-100', (0, -1.0, 0, 0)), ('g', (0.5, -1.5, 2.0, 0.7)), ('g2', (-2.0, 1.0, 0.5, -0.3)), ('half', (1.0, 1, 1, 1))]
    for (dn, d), (mn, m) in itertools.product(dirs4, mags):
        u = np.array(d) / np.linalg.norm(d)
        q = u * m
        P = dict(dir=dn, mag=mn)
        entries = [('base.unit', lambda x: b.unit(x)), ('Quaternion.unit', lambda x: sm.Quaternion(x).unit().vec),
                   ('UnitQuaternion(s,v)', lambda x: sm.UnitQuaternion(x[0], x[1:]).vec), ('UnitQuaternion(list)', lambda x: sm.UnitQuaternion(x.tolist()).vec),
                   ('UnitQuaternion(array)', lambda x: sm.UnitQuaternion(x).vec)]
        # the validation switch does not govern normalisation (that is `norm`, default True)
        entries += [('UnitQuaternion(array,check=False)', lambda x: sm.UnitQuaternion(x, check=False).vec), ('UnitQuaternion(list,check=False)', lambda x: sm.UnitQuaternion(x.tolist(), check=False).vec),
                    ('UnitQuaternion(s,v,check=False)', lambda x: sm.UnitQuaternion(x[0], x[1:], check=False).vec), ('UnitQuaternion(tuple)', lambda x: sm.UnitQuaternion(tuple(x.tolist())).vec)]
        # the same normalising method on the subclass: a UnitQuaternion object built with the documented norm=False option holds the raw numbers
        entries += [('UnitQuaternion(norm=False).unit', lambda x: sm.UnitQuaternion(x, norm=False, check=False).unit().vec),
                    ('UnitQuaternion(s,v,norm=False).unit', lambda x: sm.UnitQuaternion(x[0], x[1:], norm=False, check=False).unit().vec)]
        for site, f in entries:
            cid = 'C14/%s/%s/%s' % (site, dn, mn)
            if not ctx.want(cid):
                continue
            ctx.case(cid, key=cid)
            ok, r = call(f, q.copy())
            if not ok or r is None:
                ctx.fail(cid, site, ('raises:' + type(r).__name__) if not ok else 'returns:NoneType', P, '%r' % (r,))
                continue
            r = np.asarray(r, dtype=float)
            if r.shape != (4,) or abs(np.linalg.norm(r) - 1) > T12 or np.abs(r - u).max() > T12:
                ctx.fail(cid, site, 'mismatch', dict(P, law='unit/direction'), 'result %s, expected %s' % (r.tolist(), u.tolist()))
                continue
            ok2, r2 = call(f, r.copy())
            if not ok2 or np.abs(np.asarray(r2) - r).max() > T12:
                ctx.fail(cid, site, 'mismatch', dict(P, law='idempotent'), 'second application changes the value')


def twist_cases(ctx):
    import spatialmath as sm
    import spatialmath.base as b
    tier, seed = ctx.tier, ctx.seed
    wmag = [('0', 0.0), ('1e-17', 1e-17), ('1e-15', 1e-15), ('3e-15', 3e-15), ('1e-12', 1e-12), ('1e-6', 1e-6), ('1', 1.0), ('1e6', 1e6)]
    vmag = [('0', 0.0), ('1e-6', 1e-6), ('1', 1.0), ('1e6', 1e6)] if tier == 'quick' else [('0', 0.0)] + alph.magnitudes(tier)
    wd = [('e3', np.array([0, 0, 1.0])), ('g', alph.unit((1, 2, 3))), ('-e3', np.array([0, 0, -1.0]))]      # -e3: clockwise in the plane
    vd = [('e1', np.array([1.0, 0, 0])), ('g', alph.unit((-2, 1, 0.5)))]
    ZERO = 10 * np.finfo(float).eps
    for (wn, wm), (vn, vm), (wdn, wdir), (vdn, vdir) in itertools.product(wmag, vmag, wd, vd):
        if wm == 0 and vm == 0:
            continue
        for dim in (3, 2):
            if dim == 3:
                S = np.r_[vm * vdir, wm * wdir]
                entries = [('base.unittwist', lambda x: b.unittwist(x)), ('base.unittwist_norm', lambda x: b.unittwist_norm(x)[0]), ('Twist3.unit', lambda x: sm.Twist3(x).unit.S)]
            else:
                if wdn not in ('e3', '-e3'):
                    continue
                S = np.r_[vm * vdir[:2] / np.linalg.norm(vdir[:2]), wm * wdir[2]]
                entries = [('base.unittwist2', lambda x: b.unittwist2(x)), ('base.unittwist2_norm', lambda x: b.unittwist2_norm(x)[0]), ('Twist2.unit', lambda x: sm.Twist2(x).unit.S)]
            w = S[dim:] if dim == 3 else S[2:]
            v = S[:dim]
            irrot = np.linalg.norm(w) < ZERO
            if irrot and np.linalg.norm(v) < 1e-6:
                continue
            P = dict(dim=dim, wmag=wn, vmag=vn, wdir=wdn, vdir=vdn, wval=float(np.linalg.norm(w)),
                     ratio=float(np.linalg.norm(w) / np.linalg.norm(v)) if np.linalg.norm(v) > 0 else 1e300)
            for site, f in entries:
                cid = 'C14/%s/w=%s*%s/v=%s*%s' % (site, wn, wdn, vn, vdn)
                if not ctx.want(cid):
                    continue
                ctx.case(cid, key=cid)
                ok, r = call(f, S.copy())
                if not ok or r is None:
                    ctx.fail(cid, site, ('raises:' + type(r).__name__) if not ok else 'returns:NoneType', P, '%r' % (r,))
                    continue
                r = np.asarray(r, dtype=float)
                if r.shape != S.shape or not np.all(np.isfinite(r)):
                    ctx.fail(cid, site, 'nan', P, 'result %s' % (r.tolist(),))
                    continue
                rw, rv = (r[dim:] if dim == 3 else r[2:]), r[:dim]
                th = np.linalg.norm(v) if irrot else np.linalg.norm(w)
                if irrot:
                    okk = abs(np.linalg.norm(rv) - 1) <= T12
                else:
                    okk = abs(np.linalg.norm(rw) - 1) <= T12
                if not okk:
                    ctx.fail(cid, site, 'mismatch', dict(P, law='unit'), 'unit twist has |w|=%.15g |v|=%.15g (irrotational=%s)' % (np.linalg.norm(rw), np.linalg.norm(rv), irrot))
                    continue
                if np.abs(r * th - S).max() > T12 * max(1.0, float(np.abs(S).max())):
                    ctx.fail(cid, site, 'mismatch', dict(P, law='direction'), 'unit twist times magnitude does not reproduce the twist')
                elif th > 0 and np.abs(r - S / th).max() > T12 * max(1.0, float(np.abs(S / th).max())):
                    # the same law at the scale of the result (a tiny twist divided by its magnitude): the whole vector is scaled, not one half of it
                    ctx.fail(cid, site, 'mismatch', dict(P, law='direction'), 'unit twist is not the twist divided by its magnitude (off by %.3g)' % np.abs(r - S / th).max())
                ok2, r2 = call(f, r.copy())
                if not ok2 or r2 is None or np.abs(np.asarray(r2) - r).max() > T12 * max(1.0, float(np.abs(r).max())):
                    ctx.fail(cid, site, 'mismatch', dict(P, law='idempotent'), 'second application changes the value')
            site = 'base.unittwist_norm' if dim == 3 else 'base.unittwist2_norm'
            cid = 'C14/%s/norm/w=%s*%s/v=%s*%s' % (site, wn, wdn, vn, vdn)
            if ctx.want(cid):
                ctx.case(cid, key=cid)
                ok, r = call(b.unittwist_norm if dim == 3 else b.unittwist2_norm, S.copy())
                th = np.linalg.norm(v) if irrot else np.linalg.norm(w)
                if ok and r[0] is not None and abs(float(r[1]) - th) > T12 * max(1.0, th):
                    ctx.fail(cid, site, 'mismatch', dict(P, law='norm'), 'magnitude %r, expected %r' % (r[1], th))


def multi_cases(ctx):
    """normalisation of multi-valued objects is the normalisation of each value"""
    import spatialmath as sm
    import spatialmath.base as b
    rev = lambda k: np.array([1.0 * k, 2.0, -0.5, 0.3 * k, -0.4, 0.5])
    pri = lambda k: np.array([1.0 * k, 2.0, -0.5, 0.0, 0.0, 0.0])
    for M in range(1, 7):
        for pat in range(2 ** M if M <= 4 else 6):
            kinds = [(pat >> j) & 1 for j in range(M)] if M <= 4 else [((pat + j) % 3 == 0) * 1 for j in range(M)]
            vals = [pri(j + 1) if kd else rev(j + 1) for j, kd in enumerate(kinds)]
            cid = 'C14/Twist3.unit/multi/M=%d/pattern=%s' % (M, ''.join(map(str, kinds)))
            if ctx.want(cid):
                ctx.case(cid, key=cid)
                P = dict(M=M, pattern=''.join(map(str, kinds)), mode='multi')
                ok, r = call(lambda: sm.Twist3([v.copy() for v in vals]).unit)
                if not ok:
                    ctx.fail(cid, 'Twist3.unit', 'raises:' + type(r).__name__, P, '%r' % (r,))
                elif not hasattr(r, 'data') or len(r.data) != M:
                    ctx.fail(cid, 'Twist3.unit', 'mismatch', dict(P, law='count'), 'expected %d values' % M)
                else:
                    for j, v in enumerate(vals):
                        th = np.linalg.norm(v[:3]) if kinds[j] else np.linalg.norm(v[3:])
                        if not np.all(np.isfinite(r.data[j])) or np.abs(r.data[j] - v / th).max() > T12 * 10:
                            ctx.fail(cid, 'Twist3.unit', 'mismatch', dict(P, law='unit', j=j), 'value %d of the sequence is not the unit twist of value %d' % (j, j))
            v2 = [np.r_[v[:2], v[5] if not kinds[j] else 0.0] for j, v in enumerate(vals)]
            cid = 'C14/Twist2.unit/multi/M=%d/pattern=%s' % (M, ''.join(map(str, kinds)))
            if ctx.want(cid):
                ctx.case(cid, key=cid)
                P = dict(M=M, pattern=''.join(map(str, kinds)), mode='multi')
                ok, r = call(lambda: sm.Twist2([v.copy() for v in v2]).unit)
                if not ok:
                    ctx.fail(cid, 'Twist2.unit', 'raises:' + type(r).__name__, P, '%r' % (r,))
                elif not hasattr(r, 'data') or len(r.data) != M:
                    ctx.fail(cid, 'Twist2.unit', 'mismatch', dict(P, law='count'), 'expected %d values' % M)
                else:
                    for j, v in enumerate(v2):
                        th = np.linalg.norm(v[:2]) if kinds[j] else abs(v[2])
                        if not np.all(np.isfinite(r.data[j])) or np.abs(r.data[j] - v / th).max() > T12 * 10:
                            ctx.fail(cid, 'Twist2.unit', 'mismatch', dict(P, law='unit', j=j), 'value %d of the sequence is not the unit twist of value %d' % (j, j))
        # quaternions
        qs = [np.array([1.0 + j, -2.0, 0.5 * j, 3.0]) * 10.0 ** (j - 2) for j in range(M)]
        cid = 'C14/Quaternion.unit/multi/M=%d' % M
        if ctx.want(cid):
            ctx.case(cid, key=cid)
            P = dict(M=M, mode='multi')
            ok, r = call(lambda: sm.Quaternion([q.copy() for q in qs]).unit())
            if not ok:
                ctx.fail(cid, 'Quaternion.unit', 'raises:' + type(r).__name__, P, '%r' % (r,))
            elif type(r) is not sm.UnitQuaternion or len(r.data) != M:
                ctx.fail(cid, 'Quaternion.unit', 'mismatch', dict(P, law='count'), 'expected a UnitQuaternion with %d values, got %s[%s]' % (M, type(r).__name__, len(getattr(r, 'data', []))))
            else:
                for j, q in enumerate(qs):
                    if np.abs(r.data[j] - q / np.linalg.norm(q)).max() > T12:
                        ctx.fail(cid, 'Quaternion.unit', 'mismatch', dict(P, law='unit', j=j), 'value %d is not the normalised value %d' % (j, j))
        # the documented N x 4 array form of the UnitQuaternion constructor: one quaternion per row, each row normalised
        # rows that are already of unit length mixed with rows that are not (first, last, every second): each row is normalised on its own
        urow = [np.array([1.0, 0, 0, 0]), np.array([0.6, 0, 0.8, 0]), np.array([0.5, -0.5, 0.5, 0.5])]
        variants = [('Nx4', list(qs))]
        if M >= 2:
            variants += [('Nx4/unit-first', [urow[0]] + list(qs[1:])), ('Nx4/unit-last', list(qs[:-1]) + [urow[1]]), ('Nx4/unit-alternate', [urow[k % 3] if k % 2 else qs[k] for k in range(M)])]
        for form, qsv in variants:      # (a list of 4-vectors is a list of values, validated not normalised)
            mkarg = lambda qsv=qsv: np.array([q.copy() for q in qsv])
            cid = 'C14/UnitQuaternion(%s)/multi/M=%d' % (form, M)
            if ctx.want(cid):
                ctx.case(cid, key=cid)
                P = dict(M=M, mode='multi', form=form)
                ok, r = call(lambda: sm.UnitQuaternion(mkarg()))
                if not ok:
                    ctx.fail(cid, 'UnitQuaternion(array)', 'raises:' + type(r).__name__, P, '%r' % (r,))
                elif len(r.data) != M:
                    ctx.fail(cid, 'UnitQuaternion(array)', 'mismatch', dict(P, law='count'), 'expected %d values, got %d' % (M, len(r.data)))
                else:
                    for j, q in enumerate(qsv):
                        if np.abs(r.data[j] - q / np.linalg.norm(q)).max() > T12:
                            ctx.fail(cid, 'UnitQuaternion(array)', 'mismatch', dict(P, law='unit', j=j), 'value %d is not the normalised row %d' % (j, j))
                    ok2, r2 = call(lambda: sm.UnitQuaternion(np.array(r.data) if form.startswith('Nx4') else [x.copy() for x in r.data]))
                    if not ok2 or len(r2.data) != M or any(np.abs(x - y).max() > T12 for x, y in zip(r2.data, r.data)):
                        ctx.fail(cid, 'UnitQuaternion(array)', 'mismatch', dict(P, law='idempotent'), 'second application changes the value')
        # poses: norm() of M values
        for cn, dim in (('SO3', 3), ('SE3', 3), ('SO2', 2), ('SE2', 2)):
            C = getattr(sm, cn)
            G = alph.gen_SO3('quick', 0) if cn == 'SO3' else alph.gen_SO2('quick', 0) if cn == 'SO2' else alph.gen_SE(dim, 'quick', 0)
            Ms = []
            for j in range(M):
                X = G[(2 * j + 1) % len(G)][1].copy()
                X[:dim, :dim] += 1e-6 * (j + 1) * NOISE[j % 4][:dim, :dim]
                Ms.append(X)
            cid = 'C14/%s.norm/multi/M=%d' % (cn, M)
            if ctx.want(cid):
                ctx.case(cid, key=cid)
                P = dict(M=M, mode='multi', kind=cn)
                f1 = b.trnorm if dim == 3 else b.trnorm2
                ok, r = call(lambda: C([x.copy() for x in Ms], check=False).norm())
                if not ok:
                    ctx.fail(cid, cn + '.norm', 'raises:' + type(r).__name__, P, '%r' % (r,))
                elif type(r) is not C or len(r.data) != M:
                    ctx.fail(cid, cn + '.norm', 'mismatch', dict(P, law='count'), 'expected %d values' % M)
                else:
                    for j, x in enumerate(Ms):
                        if ref.maxdiff(r.data[j], f1(x.copy())) > T12 * ref.tnorm(x) if cn[:2] == 'SE' else ref.maxdiff(r.data[j], f1(x.copy())) > T12:
                            ctx.fail(cid, cn + '.norm', 'mismatch', dict(P, law='value', j=j), 'value %d is not the normalisation of value %d' % (j, j))


def angle_letters(tier, seed):
    out = []
    for k in range(-8, 9):
        b0 = k * PI / 2
        out.append(('%dpi/2' % k, b0))
        for kk in ((-12, -6) if tier == 'quick' else (-15, -12, -9, -6, -3)):
            out.append(('%dpi/2+1e%d' % (k, kk), b0 + 10.0 ** kk))
            out.append(('%dpi/2-1e%d' % (k, kk), b0 - 10.0 ** kk))
    out += [('1e3', 1e3), ('-1e3', -1e3), ('999.5', 999.5)]
    out += alph.pick(alph.G_ANGLES, tier, seed, 4)
    return out


def congruent(r, x, tol):
    k = round((x - r) / (2 * PI))
    return abs((x - r) - 2 * PI * k) <= tol


def angdiff_cases(ctx):
    import spatialmath.base as b
    tier, seed = ctx.tier, ctx.seed
    L = angle_letters(tier, seed)
    for an, a in L:
        cid = 'C14/angdiff/a=%s' % an
        if not ctx.want(cid):
            continue
        ctx.case(cid, key=cid, trivial=(a == 0))
        P = dict(a=an, form='scalar')
        ok, r = call(b.angdiff, a)
        if not ok:
            ctx.fail(cid, 'base.angdiff', 'raises:' + type(r).__name__, P, '%r' % (r,))
            continue
        r = float(r)
        if not (-PI - 1e-15 <= r <= PI + 1e-15) or not congruent(r, a, 1e-9 * max(1.0, abs(a))):
            ctx.fail(cid, 'base.angdiff', 'mismatch', P, 'angdiff(%r) = %r' % (a, r))
    sub = L if tier != 'quick' else L[::3]
    for (an, a), (bn, bb) in itertools.product(sub, sub):
        cid = 'C14/angdiff/a=%s/b=%s' % (an, bn)
        if not ctx.want(cid):
            continue
        ctx.case(cid, key=cid, trivial=(a == 0 and bb == 0))
        P = dict(a=an, b=bn, form='scalar')
        ok, r = call(b.angdiff, a, bb)
        if not ok:
            ctx.fail(cid, 'base.angdiff', 'raises:' + type(r).__name__, P, '%r' % (r,))
            continue
        r = float(r)
        if not (-PI - 1e-15 <= r <= PI + 1e-15) or not congruent(r, a - bb, 1e-9 * max(1.0, abs(a), abs(bb))):
            ctx.fail(cid, 'base.angdiff', 'mismatch', P, 'angdiff(%r, %r) = %r' % (a, bb, r))
    # array forms: same values element-wise
    arr = np.array([a for _, a in L])
    for form in ('a', 'a,b', 'a,scalar'):
        cid = 'C14/angdiff/array/%s' % form
        if not ctx.want(cid):
            continue
        ctx.case(cid, key=cid)
        P = dict(form='array:' + form)
        if form == 'a':
            ok, r = call(b.angdiff, arr.copy())
            want = [b.angdiff(x) for x in arr]
        elif form == 'a,b':
            ok, r = call(b.angdiff, arr.copy(), arr[::-1].copy())
            want = [b.angdiff(x, y) for x, y in zip(arr, arr[::-1])]
        else:
            ok, r = call(b.angdiff, arr.copy(), 0.7)
            want = [b.angdiff(x, 0.7) for x in arr]
        if not ok:
            ctx.fail(cid, 'base.angdiff', 'raises:' + type(r).__name__, P, '%r' % (r,))
        elif np.asarray(r).shape != arr.shape or np.abs(np.asarray(r) - np.array(want)).max() > 1e-12:
            ctx.fail(cid, 'base.angdiff', 'mismatch', P, 'array result differs from the element-wise scalar results')


def angdiff_forms(ctx):
    """every container form of either argument gives the element-wise scalar results"""
    import spatialmath.base as b
    L = [a for _, a in angle_letters('quick', 0)][::5]
    arr = np.array(L)
    rev = arr[::-1].copy() + 0.3
    mk = {'1d': lambda x: x.copy(), 'list': lambda x: x.tolist(), 'tuple': lambda x: tuple(x.tolist())}
    for fa, fb in itertools.product(('scalar', '1d', 'list', 'tuple'), ('none', 'scalar', '1d', 'list', 'tuple')):
        if fa == 'scalar' and fb in ('none', 'scalar'):
            continue
        cid = 'C14/angdiff/forms/a=%s/b=%s' % (fa, fb)
        if not ctx.want(cid):
            continue
        ctx.case(cid, key=cid)
        P = dict(form='%s,%s' % (fa, fb))
        A_ = 0.7 if fa == 'scalar' else mk[fa](arr)
        if fb == 'none':
            ok, r = call(b.angdiff, A_)
            want = [float(b.angdiff(float(x))) for x in arr]
        else:
            B_ = -2.9 if fb == 'scalar' else mk[fb](rev)
            ok, r = call(b.angdiff, A_, B_)
            want = [float(b.angdiff(0.7 if fa == 'scalar' else float(x), -2.9 if fb == 'scalar' else float(y))) for x, y in zip(arr, rev)]
        if not ok:
            ctx.fail(cid, 'base.angdiff', 'raises:' + type(r).__name__, P, '%r' % (r,))
        elif np.asarray(r).shape != arr.shape or np.abs(np.asarray(r, dtype=float) - np.array(want)).max() > 1e-12:
            ctx.fail(cid, 'base.angdiff', 'mismatch', P, 'result for the (%s, %s) forms differs from the element-wise scalar results' % (fa, fb))


def element_types(ctx):
    """the value held in an array of another element type (single / half precision, integers) or a list of NumPy scalars: the same real
    numbers, so the same normalised value to 1e-12 (differential against the float64 copy of the same numbers)"""
    import spatialmath as sm
    import spatialmath.base as b
    v3 = np.array([1.5, -2.0, 0.25])
    q4 = np.array([0.5, -1.5, 2.0, 0.75])
    s6 = np.array([1.0, 2.0, -0.5, 0.25, -0.5, 0.75])
    p6 = np.array([1.0, 2.0, -0.5, 0.0, 0.0, 0.0])
    s3 = np.array([1.5, -2.0, -0.5])
    conv = {'float32': lambda x: x.astype(np.float32), 'float16': lambda x: x.astype(np.float16), 'int64': lambda x: (4 * x).astype(np.int64),
            'list-f32': lambda x: [np.float32(e) for e in x], 'list-int': lambda x: [int(4 * e) for e in x]}
    fns = [('base.unitvec', b.unitvec, v3), ('base.unitvec_norm', lambda x: b.unitvec_norm(x)[0], v3), ('base.unit', b.unit, q4), ('base.unittwist', b.unittwist, s6),
           ('base.unittwist', b.unittwist, p6), ('base.unittwist_norm', lambda x: b.unittwist_norm(x)[0], s6), ('base.unittwist2', b.unittwist2, s3),
           ('base.unittwist2_norm', lambda x: b.unittwist2_norm(x)[0], s3), ('Quaternion.unit', lambda x: sm.Quaternion(x).unit().vec, q4),
           ('UnitQuaternion(array)', lambda x: sm.UnitQuaternion(x).vec, q4), ('Twist3.unit', lambda x: sm.Twist3(x).unit.S, s6), ('Twist2.unit', lambda x: sm.Twist2(x).unit.S, s3)]
    for (site, f, x), (tn, cv), mag in itertools.product(fns, conv.items(), (1.0, 1024.0, 1.0 / 1024)):
        if 'int' in tn and mag < 1:
            continue
        cid = 'C14/etype/%s/%s/%g/%d' % (site, tn, mag, len(x) + int(np.count_nonzero(x)))
        if not ctx.want(cid):
            continue
        ctx.case(cid, key=cid)
        xx = x * mag
        okf, rf = call(f, xx.copy() * (4.0 if 'int' in tn else 1.0))
        ok, r = call(f, cv(xx))
        P = dict(mode='etype', etype=tn, mag=mag)
        if not okf or rf is None:
            continue
        if not ok or r is None:
            ctx.note('etype_refused', '%s(%s) -> %s' % (site, tn, type(r).__name__))
            continue
        r, rf = np.asarray(r, dtype=float), np.asarray(rf, dtype=float)
        if r.shape != rf.shape or np.abs(r - rf).max() > T12:
            ctx.fail(cid, site, 'mismatch', dict(P, law='unit/direction'), '%s of a %s value differs from the float64 copy by %.3g' % (site, tn, np.abs(r - rf).max() if r.shape == rf.shape else float('nan')))


def shards(tier, seed):
    K = 4 if tier == 'quick' else 12
    return [('m3', k, K) for k in range(K)] + [('m2', k, K) for k in range(K)] + [('vec',), ('twist',), ('angdiff',), ('multi',), ('etype',)]


def run_shard(ctx, shard):
    k = shard[0]
    if k == 'm3':
        matrix_cases(ctx, 3, shard[1], shard[2])
    elif k == 'm2':
        matrix_cases(ctx, 2, shard[1], shard[2])
    elif k == 'vec':
        vector_cases(ctx)
    elif k == 'twist':
        twist_cases(ctx)
    elif k == 'multi':
        multi_cases(ctx)
    elif k == 'etype':
        element_types(ctx)
    else:
        angdiff_cases(ctx)
        angdiff_forms(ctx)
