"""
C02  Group laws: associativity, identity, inverse, division, integer powers.

Exhaustive ordered triples over the generator set G(C) of each class, all exponents -8..8,
every full binary expression tree of depth <= 3 over {*, /} with unary inv / **n on a 4-letter
leaf alphabet, and a breadth-first value-graph exploration (E2) in which the laws are
re-checked at every newly reached group element with every generator (non-initial states).
The operators are the library's; the value of X*Y is additionally compared with the reference
matrix / Hamilton product of the operand values (the opposite group satisfies all laws too).
"""
import itertools, math
import operator
import numpy as np
from mc import ref, alph
from mc.core import call, HarnessError

PROP = 'C02'
LEVEL = 'model_checking'
RULE = ('all ordered triples of generators per class (associativity, identity, inverse, anti-homomorphism of inv, '
        'division), all exponents -8..8 per generator, all full binary trees of depth<=3 over {*,/} with unary '
        'inv/**n on 4 leaves, and BFS over the value graph (transitions: *g, g*, /g, inv, **2, **-1, **3) with the laws '
        're-checked at every new state; states de-duplicated on the value rounded to 1e-9*max(1,|t|); '
        'non-trivial = not every operand is the identity; distinct = distinct (class, law, operand names)')
ASSUME = ['generators are built by the reference (50-digit Rodrigues where near 0 / pi), not by library constructors',
          'twists: / and ** are not defined by the library for twist classes and are not demanded; twist laws are '
          'compared through the reference exponential of both sides (1e-7)',
          'BFS merges values closer than 1e-9*max(1,|t|), below the tolerance of the property itself']
ANCHORS = [('spatialmath.super_pose', 'SMPose.__mul__'), ('spatialmath.super_pose', 'SMPose.__truediv__'),
           ('spatialmath.super_pose', 'SMPose.__pow__'), ('spatialmath.super_pose', 'SMPose._op2'),
           ('spatialmath.base.transforms3d', 'trinv'), ('spatialmath.base.transforms2d', 'trinv2'),
           ('spatialmath.pose3d', 'SE3.inv'), ('spatialmath.pose3d', 'SO3.inv'),
           ('spatialmath.pose2d', 'SE2.inv'), ('spatialmath.pose2d', 'SO2.inv'),
           ('spatialmath.base.quaternions', 'qqmul'), ('spatialmath.base.quaternions', 'qpow'),
           ('spatialmath.base.quaternions', 'conj'),
           ('spatialmath.twist', 'Twist3.__mul__'), ('spatialmath.twist', 'Twist2.__mul__'),
           ('spatialmath.twist', 'SMTwist.inv')]

CLASSES = ['SO2', 'SE2', 'SO3', 'SE3', 'UnitQuaternion', 'Twist2', 'Twist3']


# --------------------------------------------------------------------------- class adapters

class Rep:
    """adapter: reference value <-> library object, comparison, reference product"""

    def __init__(self, cname, tier, seed):
        import spatialmath as sm
        self.cname = cname
        self.C = getattr(sm, cname)
        self.tol = 1e-7 if cname.startswith('Twist') else 1e-9
        if cname == 'SO2':
            g = alph.gen_SO2(tier, seed)
        elif cname == 'SO3':
            g = alph.gen_SO3(tier, seed)
        elif cname == 'SE2':
            g = alph.gen_SE(2, tier, seed)
        elif cname == 'SE3':
            g = alph.gen_SE(3, tier, seed)
        elif cname == 'UnitQuaternion':
            g = [(n, ref.r2q_ref(R)) for n, R in alph.gen_SO3(tier, seed)]
            g = [(n, q / math.sqrt(q @ q)) for n, q in g]
        elif cname == 'Twist3':
            g = twist3_gens(tier, seed)
        else:
            g = twist2_gens(tier, seed)
        if tier == 'quick' and len(g) > 10:
            g = alph.subset(g, 10, 4)
        if cname == 'UnitQuaternion':
            # exact half turns: scalar part exactly 0.0 (what r2q gives for a half-turn matrix), not a rounding residue
            g = g + [('half(x)', np.array([0.0, 1.0, 0.0, 0.0])), ('half(g)', np.array([0.0, 0.6, 0.8, 0.0]))]
        self.gens = g

    # library object from reference value
    def make(self, v):
        a = np.array(v, dtype=float)
        try:
            return self.C(a)
        except ValueError:
            # a state of the value graph that the operations themselves produced (third BFS level): a member to ~1e-13, outside the
            # constructor's 100 eps validation band - held the way the operations hold their own results, without re-validation
            if self.cname in ('SO2', 'SE2', 'SO3', 'SE3') and not ref.member_defect(a, self.cname, 1e-9):
                return self.C(a.copy(), check=False)
            raise

    def val(self, o):
        d = o.data
        if len(d) != 1:
            raise HarnessError('expected single value')
        return np.asarray(d[0])

    def motion(self, v):
        """value -> comparable array (twists: the motion they generate, by the reference exponential)"""
        if self.cname == 'Twist3':
            return ref.mp_exp_se3(v)
        if self.cname == 'Twist2':
            return ref.mp_exp_se2(v)
        return np.asarray(v, dtype=float)

    def scale(self, *vals):
        s = 1.0
        for v in vals:
            v = np.asarray(v, dtype=float)
            if self.cname in ('SE2', 'SE3'):
                s = max(s, float(np.linalg.norm(v[:-1, -1])))
            elif self.cname.startswith('Twist'):
                m = self.motion(v)
                s = max(s, float(np.linalg.norm(m[:-1, -1])))
        return s

    def same(self, a, b, scale):
        if not (np.all(np.isfinite(a)) and np.all(np.isfinite(b))):
            return False, float('nan')
        ma, mb = self.motion(a), self.motion(b)
        if self.cname == 'UnitQuaternion':
            d = min(ref.maxdiff(ma, mb), ref.maxdiff(ma, -mb))
        else:
            d = ref.maxdiff(ma, mb)
        return d <= self.tol * scale, d

    def ref_mul(self, a, b):
        if self.cname == 'UnitQuaternion':
            return ref.qmul(a, b)
        if self.cname.startswith('Twist'):
            return self.motion(a) @ self.motion(b)      # a motion, compare via same_motion
        return a @ b

    def ident(self):
        return self.C()


def twist3_gens(tier, seed):
    out = [('0', np.zeros(6))]
    axes = alph.axes(tier, seed, neardeg=False)
    ths = [('0.3', 0.3), ('1.9', 1.9), ('pi-1e-9', math.pi - 1e-9), ('1e-9', 1e-9), ('pi/2', math.pi / 2), ('2.9', 2.9),
           ('3e-6', 3e-6), ('pi-1e-12', math.pi - 1e-12)]
    vs = [('0', np.zeros(3)), ('g', np.array([0.5, -1.5, 2.0])), ('1e3', 1e3 * alph.unit((1, 2, 3))), ('1e-6', 1e-6 * alph.unit((3, 1, 2)))]
    for (an, a) in axes:
        for (tn, th) in ths:
            for vn, v in vs:
                name = 'w=%s*%s,v=%s' % (tn, an, vn)
                if alph.thin(name, tier, 16, 8):
                    out.append((name, np.r_[v, th * a]))
    out.append(('w=0,v=g', np.r_[1.0, -2.0, 0.5, 0, 0, 0]))
    out.append(('w=0,v=1e6', np.r_[1e6 * alph.unit((1, 2, 3)), 0, 0, 0]))
    out.append(('w=3e-6*g,v=g', np.r_[0.5, -1.5, 2.0, 3e-6 * alph.unit((1, 2, 3))]))
    out.append(('w=(pi-1e-12)*g,v=g', np.r_[0.5, -1.5, 2.0, (math.pi - 1e-12) * alph.unit((-2, 1, 0.5))]))
    return out


def twist2_gens(tier, seed):
    out = [('0', np.zeros(3))]
    for tn, th in [('0.3', 0.3), ('-1.9', -1.9), ('pi-1e-9', math.pi - 1e-9), ('1e-9', 1e-9), ('pi/2', math.pi / 2), ('-2.9', -2.9),
                   ('3e-6', 3e-6), ('-1e-6', -1e-6)]:
        for vn, v in [('0', (0, 0)), ('g', (0.5, -1.5)), ('1e3', (600.0, 800.0))]:
            out.append(('w=%s,v=%s' % (tn, vn), np.r_[v, th]))
    out.append(('w=0,v=g', np.r_[1.0, -2.0, 0.0]))
    out.append(('w=0,v=1e6', np.r_[6e5, 8e5, 0.0]))
    if tier == 'quick':
        out = [o for o in out if o[0] in ('0', 'w=0,v=g', 'w=0,v=1e6', 'w=3e-6,v=g', 'w=-1e-6,v=1e3') or alph.thin(o[0], tier, 3, 1)]
    return out


# --------------------------------------------------------------------------- law checking

def lib(ctx, cid, site, params, f, *a):
    """run a library operation that the property says must return; None on (reported) exception"""
    ok, v = call(f, *a)
    if not ok:
        ctx.fail(cid, site, 'raises:' + type(v).__name__, params, '%s raised %r' % (site, v))
        return None
    return v


def eqcheck(ctx, rep, cid, site, law, params, lhs, rhs, scale_vals, what):
    """compare two library results (objects of the class)"""
    if lhs is None or rhs is None:
        return
    a, b = rep.val(lhs), rep.val(rhs)
    p = dict(params, law=law)
    if type(lhs) is not rep.C or type(rhs) is not rep.C:
        ctx.fail(cid, site, 'returns:' + type(lhs).__name__, p, '%s: result classes %s / %s' % (what, type(lhs).__name__, type(rhs).__name__))
        return
    if not (np.all(np.isfinite(a)) and np.all(np.isfinite(b))):
        ctx.fail(cid, site, 'nan', p, '%s: non-finite result' % what)
        return
    ok, d = rep.same(a, b, rep.scale(a, b, *scale_vals))
    if not ok:
        ctx.fail(cid, site, 'mismatch', p, '%s: sides differ by %.3g (tol %.1g x scale)' % (what, d, rep.tol))


def hasdiv(rep):
    return not rep.cname.startswith('Twist')


def laws_pair(ctx, rep, xn, x, yn, y, base, extra=None):
    """laws involving two elements; x, y reference values"""
    c = rep.cname
    P = dict(cls=c, x=xn, y=yn)
    if extra:
        P.update(extra)
    X, Y = rep.make(x), rep.make(y)
    mul = lambda a, b: a * b
    XY = lib(ctx, base, c + '.mul', P, mul, X, Y)
    if XY is None:
        return
    # value against the reference product
    v = rep.val(XY)
    if not np.all(np.isfinite(v)):
        ctx.fail(base, c + '.mul', 'nan', dict(P, law='value'), 'X*Y non-finite for X=%s Y=%s' % (xn, yn))
        return
    r = rep.ref_mul(x, y)
    if c.startswith('Twist'):
        d = ref.maxdiff(rep.motion(v), r)
        okv = d <= rep.tol * max(1.0, float(np.linalg.norm(r[:-1, -1])))
    else:
        okv, d = rep.same(v, r, rep.scale(v, r))
    if not okv:
        ctx.fail(base, c + '.mul', 'mismatch', dict(P, law='value'), 'X*Y differs from the reference product by %.3g' % d)
    # (XY)^-1 = Y^-1 X^-1
    inv = lambda a: a.inv()
    Xi, Yi = lib(ctx, base, c + '.inv', P, inv, X), lib(ctx, base, c + '.inv', P, inv, Y)
    XYi = lib(ctx, base, c + '.inv', P, inv, XY)
    if Xi is not None and Yi is not None:
        eqcheck(ctx, rep, base, c + '.inv', 'antihom', P, XYi, lib(ctx, base, c + '.mul', P, mul, Yi, Xi), (x, y), '(XY)^-1 = Y^-1 X^-1')
        if hasdiv(rep):
            div = lambda a, b: a / b
            eqcheck(ctx, rep, base, c + '.div', 'div', P, lib(ctx, base, c + '.div', P, div, X, Y),
                    lib(ctx, base, c + '.mul', P, mul, X, Yi), (x, y), 'X/Y = X*Y^-1')


def laws_single(ctx, rep, xn, x, base, extra=None, powers=range(-8, 9)):
    c = rep.cname
    P = dict(cls=c, x=xn)
    if extra:
        P.update(extra)
    X = rep.make(x)
    E = rep.ident()
    mul = lambda a, b: a * b
    eqcheck(ctx, rep, base, c + '.mul', 'identity-left', P, lib(ctx, base, c + '.mul', P, mul, E, X), X, (x,), 'E*X = X')
    eqcheck(ctx, rep, base, c + '.mul', 'identity-right', P, lib(ctx, base, c + '.mul', P, mul, X, E), X, (x,), 'X*E = X')
    Xi = lib(ctx, base, c + '.inv', P, lambda a: a.inv(), X)
    if Xi is not None:
        eqcheck(ctx, rep, base, c + '.inv', 'inverse-right', P, lib(ctx, base, c + '.mul', P, mul, X, Xi), E, (x,), 'X*X^-1 = E')
        eqcheck(ctx, rep, base, c + '.inv', 'inverse-left', P, lib(ctx, base, c + '.mul', P, mul, Xi, X), E, (x,), 'X^-1*X = E')
    # structured inverse against the true matrix inverse
    if c in ('SE2', 'SE3', 'SO2', 'SO3') and Xi is not None:
        ti = np.linalg.inv(np.asarray(x, dtype=float))
        ok, d = rep.same(rep.val(Xi), ti, rep.scale(x, ti))
        if not ok:
            ctx.fail(base, c + '.inv', 'mismatch', dict(P, law='true-inverse'), 'inv() differs from the matrix inverse by %.3g' % d)
    if c in ('SE2', 'SE3'):
        import spatialmath.base as b
        f = b.trinv if c == 'SE3' else b.trinv2
        ok, v = call(f, np.array(x, dtype=float))
        site = 'base.trinv' if c == 'SE3' else 'base.trinv2'
        if not ok:
            ctx.fail(base, site, 'raises:' + type(v).__name__, P, '%r' % (v,))
        else:
            ti = np.linalg.inv(np.asarray(x, dtype=float))
            okk, d = rep.same(v, ti, rep.scale(x, ti))
            if not okk:
                ctx.fail(base, site, 'mismatch', dict(P, law='true-inverse'), 'differs from the matrix inverse by %.3g' % d)
    if hasdiv(rep):
        acc = {0: E}
        cur = E
        for n in range(1, max(abs(p) for p in powers) + 1):
            cur = lib(ctx, base, c + '.mul', P, mul, cur, X)
            if cur is None:
                break
            acc[n] = cur
        for n in powers:
            Pn = dict(P, n=n)
            Xn = lib(ctx, base, c + '.pow', Pn, lambda a, k: a ** k, X, n)
            if Xn is None or abs(n) not in acc:
                continue
            if n >= 0:
                eqcheck(ctx, rep, base, c + '.pow', 'pow', Pn, Xn, acc[n], (x, rep.val(acc[abs(n)])), 'X**%d = %d-fold product' % (n, n))
            else:
                inv = lib(ctx, base, c + '.inv', Pn, lambda a: a.inv(), acc[-n])
                eqcheck(ctx, rep, base, c + '.pow', 'pow', Pn, Xn, inv, (x, rep.val(acc[abs(n)])), 'X**%d = (X**%d)^-1' % (n, -n))


def laws_triple(ctx, rep, xn, x, yn, y, zn, z, base):
    c = rep.cname
    P = dict(cls=c, x=xn, y=yn, z=zn)
    X, Y, Z = rep.make(x), rep.make(y), rep.make(z)
    mul = lambda a, b: a * b
    XY = lib(ctx, base, c + '.mul', P, mul, X, Y)
    YZ = lib(ctx, base, c + '.mul', P, mul, Y, Z)
    if XY is None or YZ is None:
        return
    eqcheck(ctx, rep, base, c + '.mul', 'assoc', P, lib(ctx, base, c + '.mul', P, mul, XY, Z),
            lib(ctx, base, c + '.mul', P, mul, X, YZ), (x, y, z), '(XY)Z = X(YZ)')


# --------------------------------------------------------------------------- expression trees

def trees(depth, leaves):
    """all expressions: leaf | inv(e) | pow(e,n) n in {2,-1,0} | (e1 * e2) | (e1 / e2), up to depth 2 (5620 expressions over 4 leaves);
    the third level (thorough tier) is bounded: every depth-2 expression under each unary operator and combined with each LEAF on either
    side (the full third level has ~6e7 members)"""
    leaf = [('leaf', l) for l in leaves]
    level = list(leaf)
    allx = list(level)
    for d in range(1, depth + 1):
        new = []
        prev_all = list(allx)
        lv = set(level)
        for e in level:
            new.append(('inv', e))
            for n in (2, -1, 0):
                new.append(('pow', e, n))
        if d <= 2:
            for a in prev_all:
                for b in prev_all:
                    if a in lv or b in lv:
                        new.append(('mul', a, b))
                        new.append(('div', a, b))
        else:
            for a in level:
                for b in leaf:
                    new += [('mul', a, b), ('mul', b, a), ('div', a, b), ('div', b, a)]
        level = new
        allx += new
    return allx


def eval_lib(rep, e, env):
    k = e[0]
    if k == 'leaf':
        return env[e[1]][0]
    if k == 'inv':
        return eval_lib(rep, e[1], env).inv()
    if k == 'pow':
        return eval_lib(rep, e[1], env) ** e[2]
    a, b = eval_lib(rep, e[1], env), eval_lib(rep, e[2], env)
    return a * b if k == 'mul' else a / b


def eval_ref(rep, e, env):
    k = e[0]
    uq = rep.cname == 'UnitQuaternion'
    if k == 'leaf':
        return env[e[1]][1]
    if k == 'inv':
        v = eval_ref(rep, e[1], env)
        return ref.qconj(v) if uq else np.linalg.inv(v)
    if k == 'pow':
        v = eval_ref(rep, e[1], env)
        n = e[2]
        if uq:
            r = np.array([1.0, 0, 0, 0])
            for _ in range(abs(n)):
                r = ref.qmul(r, v)
            return ref.qconj(r) if n < 0 else r
        return np.linalg.matrix_power(v, n)
    a, b = eval_ref(rep, e[1], env), eval_ref(rep, e[2], env)
    if k == 'div':
        b = ref.qconj(b) if uq else np.linalg.inv(b)
    return ref.qmul(a, b) if uq else a @ b


def estr(e):
    k = e[0]
    if k == 'leaf':
        return e[1]
    if k == 'inv':
        return 'inv(%s)' % estr(e[1])
    if k == 'pow':
        return '(%s)**%d' % (estr(e[1]), e[2])
    return '(%s%s%s)' % (estr(e[1]), '*' if k == 'mul' else '/', estr(e[2]))


# --------------------------------------------------------------------------- shards

def seq_pairings(ctx, rep):
    """products and quotients of operands of DIFFERENT lengths (M x 1 and 1 x M, M = 2..4): element i is the reference product of the
    i-th elements (the single value reused), for every class including the twists"""
    c = rep.cname
    G = [g for g in rep.gens if np.all(np.abs(np.asarray(g[1])) < 1e4)]
    ops = [('mul', lambda a, b: a * b, False)] + ([('div', lambda a, b: a / b, True)] if hasdiv(rep) else [])
    for M, off, (on, of, isdiv), shape in itertools.product((2, 3, 4), (0, 1), ops, ('M1', '1M')):
        multi = [G[(off + 2 * j + 1) % len(G)] for j in range(M)]
        single = G[(off + 3) % len(G)]
        cid = 'C02/%s/seqpair/%s/M=%d/off=%d/%s' % (c, on, M, off, shape)
        if not ctx.want(cid):
            continue
        ctx.case(cid, key=cid)
        P = dict(cls=c, law='seqpair', m=M if shape == 'M1' else 1, n=1 if shape == 'M1' else M, op=on)
        Xm = rep.C([np.array(v, dtype=float) for _, v in multi])
        Xs = rep.make(single[1])
        L, R = (Xm, Xs) if shape == 'M1' else (Xs, Xm)
        r = lib(ctx, cid, c + '.' + on, P, of, L, R)
        if r is None:
            continue
        if type(r) is not rep.C or len(r.data) != M:
            ctx.fail(cid, c + '.' + on, 'mismatch', P, '%s of lengths %s gives %s with %d values' % (on, shape, type(r).__name__, len(getattr(r, 'data', []))))
            continue
        for i in range(M):
            a_ = multi[i][1] if shape == 'M1' else single[1]
            b_ = single[1] if shape == 'M1' else multi[i][1]
            if isdiv:
                one = lib(ctx, cid, c + '.inv', P, lambda x: x.inv(), rep.make(b_))
                if one is None:
                    continue
                b_ = rep.val(one)
            want = rep.ref_mul(np.asarray(a_, dtype=float), np.asarray(b_, dtype=float))
            v = np.asarray(r.data[i], dtype=float)
            if c.startswith('Twist'):
                okk = np.all(np.isfinite(v)) and ref.maxdiff(rep.motion(v), want) <= rep.tol * max(1.0, float(np.linalg.norm(want[:-1, -1])))
            else:
                okk, _ = rep.same(v, want, rep.scale(v, want))
            if not okk:
                ctx.fail(cid, c + '.' + on, 'mismatch', dict(P, i=i), 'element %d of the %s %s differs from the reference' % (i, shape, on))
                break


def chain_laws(ctx, rep):
    """accumulation: n steps forward with a generator and n steps back return to the start; n right-multiplications equal
    the integer power of the reference (n = 10, 100, 1000), with the binary, the in-place and the inverse forms"""
    c = rep.cname
    G = [g for g in rep.gens if np.all(np.abs(np.asarray(g[1])) < 1e4)]
    if c.startswith('Twist'):
        G = G[:3]
    else:
        G = G[:5]
    fw = [('x*g', lambda x, g: x * g, lambda x, g: x * g.inv()), ('g*x', lambda x, g: g * x, lambda x, g: g.inv() * x)]
    if hasdiv(rep):
        fw.append(('x*g;x/g', lambda x, g: x * g, lambda x, g: x / g))
        fw.append(('x*=g;x/=g', lambda x, g: operator.imul(x, g), lambda x, g: operator.itruediv(x, g)))
    for (xn, xv), (gn, gv), (pn, f, bk), n in itertools.product(G[:3], G, fw, (10, 100, 1000)):
        if c.startswith('Twist') and n == 1000:
            continue
        cid = 'C02/%s/chain/%s/x=%s/g=%s/n=%d' % (c, pn, xn, gn, n)
        if not ctx.want(cid):
            continue
        ctx.case(cid, key=cid, trivial=(gn.startswith('I') and xn.startswith('I')))
        P = dict(cls=c, law='chain', prog=pn, n=n)
        x, g = rep.make(xv), rep.make(gv)

        def go():
            y = rep.make(xv)
            for _ in range(n):
                y = f(y, g)
            mid = rep.val(y).copy()
            # the drifted intermediate value (a member to ~n*1e-16) is itself invertible and divisible
            e1 = rep.val(y.inv() * y)
            e2 = rep.val(y / y) if hasdiv(rep) else e1
            if hasdiv(rep) and n <= 100 and rep.scale(mid) < 1e3:
                pw = ((y ** 8) ** 8) ** 8
                e3 = rep.val(pw.inv() * pw)
            else:
                e3 = e1
            for _ in range(n):
                y = bk(y, g)
            return mid, rep.val(y), e1, e2, e3
        ok, r = call(go)
        ctx.count('transitions', 2 * n)
        if not ok:
            ctx.fail(cid, c + '.expr', 'raises:' + type(r).__name__, P, '%d steps of %s raised %r' % (n, pn, r))
            continue
        mid, back, e1, e2, e3 = r
        I0 = rep.val(rep.ident())
        for nm_, e_ in (('y.inv()*y', e1), ('y/y', e2), ('((y**8)**8)**8 inverted', e3)):
            if c.startswith('Twist'):
                okk_ = np.all(np.isfinite(e_)) and ref.maxdiff(rep.motion(e_), rep.motion(I0)) <= rep.tol * n * max(1.0, float(np.abs(rep.motion(mid)).max()))
            else:
                okk_, _ = rep.same(e_, I0, rep.scale(mid) * max(n, 64))
            if not okk_:
                ctx.fail(cid, c + '.expr', 'mismatch', dict(P, law='chain-inverse', expr=nm_), 'after %d steps of %s: %s is not the identity' % (n, pn, nm_))
        if not (np.all(np.isfinite(mid)) and np.all(np.isfinite(back))):
            ctx.fail(cid, c + '.expr', 'nan', P, 'non-finite value after %d steps of %s' % (n, pn))
            continue
        x0 = np.asarray(xv, dtype=float)
        if c.startswith('Twist'):
            okk = ref.maxdiff(rep.motion(back), rep.motion(x0)) <= rep.tol * n * max(1.0, float(np.abs(rep.motion(mid)).max()))
            d = ref.maxdiff(rep.motion(back), rep.motion(x0))
        else:
            okk, d = rep.same(back, x0, rep.scale(back, x0, mid) * n)
        if not okk:
            ctx.fail(cid, c + '.expr', 'mismatch', P, '%d steps of %s and back differ from the start by %.3g' % (n, pn, d))


def shards(tier, seed):
    out = []
    for c in CLASSES:
        out.append(('single', c))
        n = 9 if tier == 'quick' else None
        out.append(('pairs', c))
        for k in range(4 if tier == 'quick' else 16):
            out.append(('triples', c, k, 4 if tier == 'quick' else 16))
        if not c.startswith('Twist'):
            out.append(('trees', c))
        for k in range(2 if tier == 'quick' else 8):
            out.append(('bfs', c, k, 2 if tier == 'quick' else 8))
        out.append(('seq', c))
        out.append(('chain', c))
    return out


def run_shard(ctx, shard):
    kind, c = shard[0], shard[1]
    rep = Rep(c, ctx.tier, ctx.seed)
    G = rep.gens
    triv = lambda *names: all(n in ('I', '0', 'I|t=0') for n in names)
    if kind == 'single':
        for xn, x in G:
            cid = 'C02/%s/single/x=%s' % (c, xn)
            if ctx.want(cid):
                ctx.case(cid, trivial=triv(xn), n=17 + 6)
                laws_single(ctx, rep, xn, x, cid)
    elif kind == 'pairs':
        for (xn, x), (yn, y) in itertools.product(G, G):
            cid = 'C02/%s/pair/x=%s/y=%s' % (c, xn, yn)
            if ctx.want(cid):
                ctx.case(cid, trivial=triv(xn, yn), n=3)
                laws_pair(ctx, rep, xn, x, yn, y, cid)
    elif kind == 'triples':
        _, _, k, K = shard
        GZ = G
        if len(G) > 40:
            # thorough tier of the large generator sets (~100 letters): x and y range over all of them, z over a landmark-preserving
            # subset of 24 plus every letter of the quick tier (so that the quick enumeration stays a subset)
            qn = {n for n, _ in Rep(c, 'quick', ctx.seed).gens}
            zs = {n for n, _ in alph.subset(G, 24, 6)} | qn
            GZ = [g for g in G if g[0] in zs]
        for i, ((xn, x), (yn, y), (zn, z)) in enumerate(itertools.product(G, G, GZ)):
            if i % K != k:
                continue
            cid = 'C02/%s/triple/x=%s/y=%s/z=%s' % (c, xn, yn, zn)
            if ctx.want(cid):
                ctx.case(cid, trivial=triv(xn, yn, zn))
                laws_triple(ctx, rep, xn, x, yn, y, zn, z, cid)
    elif kind == 'trees':
        # 4-letter leaf alphabet: identity, two generic, one extreme
        pickn = [0, 1, min(4, len(G) - 1), len(G) - 2]
        env = {}
        for j, gi in enumerate(pickn):
            env['abcd'[j]] = (rep.make(G[gi][1]), np.asarray(G[gi][1], dtype=float), G[gi][0])
        depth = 2 if ctx.tier == 'quick' else 3
        for e in trees(depth, list(env)):
            s = estr(e)
            cid = 'C02/%s/tree/%s' % (c, s)
            if not ctx.want(cid):
                continue
            ctx.case(cid, trivial=(e[0] == 'leaf'))
            P = dict(cls=c, expr=s if len(s) < 40 else s[:40], law='tree')
            ok, v = call(eval_lib, rep, e, env)
            if not ok:
                ctx.fail(cid, c + '.expr', 'raises:' + type(v).__name__, P, '%s raised %r' % (s, v))
                continue
            r = eval_ref(rep, e, env)
            okk, d = rep.same(rep.val(v), r, rep.scale(rep.val(v), r, *[env[l][1] for l in env]))
            if not okk:
                ctx.fail(cid, c + '.expr', 'mismatch', P, '%s differs from the reference evaluation by %.3g' % (s, d))
    elif kind == 'bfs':
        _, _, k, K = shard
        bfs(ctx, rep, k, K)
    elif kind == 'seq':
        seq_laws(ctx, rep)
        seq_pairings(ctx, rep)
    elif kind == 'chain':
        chain_laws(ctx, rep)


def canon(rep, v):
    v = np.asarray(v, dtype=float)
    if rep.cname == 'UnitQuaternion':
        i = int(np.argmax(np.abs(v) > 1e-6))
        if v[i] < 0:
            v = -v
    s = 1e-9 * rep.scale(v) if not rep.cname.startswith('Twist') else 1e-9
    return tuple(np.round(v / s).astype(np.int64).ravel().tolist())


def bfs(ctx, rep, k, K):
    """E2: value graph from G under the library's operators; laws re-checked at each new state.
    shard k explores the sub-graph rooted at generators i with i % K == k (states are de-duplicated per shard)"""
    c = rep.cname
    G = rep.gens
    depth = 2 if ctx.tier == 'quick' else 3
    roots = [(n, v) for i, (n, v) in enumerate(G) if i % K == k]
    seen = {}
    frontier = []
    for n, v in roots:
        h = canon(rep, v)
        if h not in seen:
            seen[h] = n
            frontier.append((n, np.asarray(v, dtype=float)))
    gsub = G[:5] if ctx.tier == 'quick' else alph.subset(G, 12, 5)      # composition letters (every generator is a root)
    ntrans = 0
    for d in range(depth):
        nxt = []
        for sn, sv in frontier:
            S = rep.make(sv)
            moves = []
            for gn, gv in gsub:
                g = rep.make(gv)
                moves.append(('*%s' % gn, lambda S=S, g=g: S * g))
                moves.append(('%s*' % gn, lambda S=S, g=g: g * S))
                if hasdiv(rep):
                    moves.append(('/%s' % gn, lambda S=S, g=g: S / g))
            moves.append(('inv', lambda S=S: S.inv()))
            if hasdiv(rep):
                for n in (2, -1, 3):
                    moves.append(('**%d' % n, lambda S=S, n=n: S ** n))
            for mn, mv in moves:
                name = '%s.%s' % (sn, mn)
                cid = 'C02/%s/bfs/%s' % (c, name)
                if not ctx.want(cid, walk=True):
                    continue
                ctx.case(cid)
                ntrans += 1
                ok, r = call(mv)
                P = dict(cls=c, law='bfs', depth=d + 1, move=mn.strip('*/').split('|')[0][:12])
                if not ok:
                    ctx.fail(cid, c + '.expr', 'raises:' + type(r).__name__, P, '%s raised %r' % (name, r))
                    continue
                v = rep.val(r)
                if not np.all(np.isfinite(v)):
                    ctx.fail(cid, c + '.expr', 'nan', P, '%s is non-finite' % name)
                    continue
                if not c.startswith('Twist'):
                    # closure is the first group axiom: a result that is not a member is reported here and not expanded
                    # (the laws below are stated for members; C01 judges membership to 1e-9, here only gross failures)
                    bad = ref.member_defect(v, {'UnitQuaternion': 'UQ'}.get(c, c), 1e-6)
                    if bad:
                        ctx.fail(cid, c + '.expr', 'invalid-member', P, '%s is not a group member: %s' % (name, bad))
                        continue
                h = canon(rep, v)
                if h in seen:
                    continue
                seen[h] = name
                # laws at the new state with a few generators (non-initial states)
                laws_single(ctx, rep, name, v, cid, extra={'law_at': 'bfs'}, powers=(-2, 0, 3))
                for gn, gv in gsub[:3]:
                    laws_pair(ctx, rep, name, v, gn, gv, cid, extra={'law_at': 'bfs'})
                    laws_triple(ctx, rep, name, v, gn, gv, gsub[1][0], gsub[1][1], cid)
                if d + 1 < depth and (d == 0 or alph.thin(name, 'quick', 8, 8)):
                    nxt.append((name, v))           # the third level (thorough) is entered from one in eight of the second-level states
        frontier = nxt
    ctx.count('states', len(seen))
    ctx.count('transitions', ntrans)
    ctx.count('lockstep', ntrans)


def seq_laws(ctx, rep):
    """the same laws on 2- and 3-valued operands (element-wise)"""
    c = rep.cname
    G = rep.gens
    mul = lambda a, b: a * b
    sets = [G[1:3], G[2:5], G[-3:]]
    # long operands (31, 32, 33 and 64 values: trajectories; the generators repeated cyclically with two different phases)
    Gf = [g for g in G if np.all(np.abs(np.asarray(g[1], dtype=float)) < 1e4)] or G
    for N_ in (31, 32, 33, 64):
        sets.append([Gf[(j * 2 + 1) % len(Gf)] for j in range(N_)])
        sets.append([Gf[(j * 3 + 2) % len(Gf)] for j in range(N_)])
    for si, s in enumerate(sets):
        for ti, t in enumerate(sets):
            if len(s) != len(t):
                continue
            cid = 'C02/%s/seq/%d/%d' % (c, si, ti)
            if not ctx.want(cid):
                continue
            ctx.case(cid)
            P = dict(cls=c, law='seq', m=len(s))
            X = rep.C([np.array(v, dtype=float) for _, v in s])
            Y = rep.C([np.array(v, dtype=float) for _, v in t])
            XY = lib(ctx, cid, c + '.mul', P, mul, X, Y)
            XYi = lib(ctx, cid, c + '.inv', P, lambda a: a.inv(), XY) if XY is not None else None
            Xi = lib(ctx, cid, c + '.inv', P, lambda a: a.inv(), X)
            Yi = lib(ctx, cid, c + '.inv', P, lambda a: a.inv(), Y)
            if any(o is None for o in (XY, XYi, Xi, Yi)):
                continue
            YiXi = lib(ctx, cid, c + '.mul', P, mul, Yi, Xi)
            if YiXi is None:
                continue
            if len(XY.data) != len(s) or len(XYi.data) != len(s) or len(YiXi.data) != len(s):
                ctx.fail(cid, c + '.mul', 'mismatch', P, 'sequence lengths %d %d %d' % (len(XY.data), len(XYi.data), len(YiXi.data)))
                continue
            # every operator applied to the sequence equals the single-valued operator on the elements
            seqops = [('inv', lambda a, b: a.inv())]
            if hasdiv(rep):
                seqops.append(('div', lambda a, b: a / b))
                seqops += [('pow%d' % n, (lambda n: (lambda a, b: a ** n))(n)) for n in range(-8, 9)]
            for on, of in seqops:
                whole = lib(ctx, cid, c + '.' + on.rstrip('-0123456789'), dict(P, seqop=on), of, X, Y)
                if whole is None:
                    continue
                if type(whole) is not rep.C or len(whole.data) != len(s):
                    ctx.fail(cid, c + '.' + on.rstrip('-0123456789'), 'mismatch', dict(P, seqop=on), 'sequence %s gives %s with %d values' % (on, type(whole).__name__, len(getattr(whole, 'data', []))))
                    continue
                for i in range(len(s)):
                    one = lib(ctx, cid, c + '.' + on.rstrip('-0123456789'), dict(P, seqop=on, i=i), of, rep.make(s[i][1]), rep.make(t[i][1]))
                    if one is None:
                        continue
                    okk, d = rep.same(whole.data[i], one.data[0], rep.scale(whole.data[i], one.data[0]))
                    if not okk:
                        ctx.fail(cid, c + '.' + on.rstrip('-0123456789'), 'mismatch', dict(P, seqop=on, i=i),
                                 'element %d of sequence %s differs from the single-valued result by %.3g' % (i, on, d))
            for i in range(len(s)):
                r = rep.ref_mul(s[i][1], t[i][1])
                v = XY.data[i]
                if c.startswith('Twist'):
                    okk = np.all(np.isfinite(v)) and ref.maxdiff(rep.motion(v), r) <= rep.tol * max(1, np.linalg.norm(r[:-1, -1]))
                else:
                    okk, _ = rep.same(v, r, rep.scale(v, r))
                if not okk:
                    ctx.fail(cid, c + '.mul', 'mismatch', dict(P, i=i), 'element %d of the sequence product differs from the reference' % i)
                a, b = XYi.data[i], YiXi.data[i]
                okk, d = rep.same(a, b, rep.scale(a, b))
                if not okk:
                    ctx.fail(cid, c + '.inv', 'mismatch', dict(P, i=i, law='antihom'), 'element %d: (XY)^-1 vs Y^-1X^-1 differ by %.3g' % (i, d))
