"""
C09  Sequence broadcasting: element-wise results and strict length rules.

E1: classes SO2 SE2 SO3 SE3 Quaternion UnitQuaternion Twist2 Twist3 x operators * / + - == != **,
pose x point x all length pairs (m, n) in {1..5}^2 with operands made of pairwise distinct values
(so a result taken from the wrong index or operand differs), and the per-value accessors / unary
methods the statement lists on M = 1..5.  The oracle is differential: element i of the sequence
result must equal the library's own single-valued operation on the i-th elements (the lone value
reused when one side has length 1); m != n, both > 1, must raise ValueError.
"""
import itertools, math, operator
import numpy as np
from mc import ref, hist
from mc.core import call, HarnessError

PROP = 'C09'
LEVEL = 'exploration'
RULE = ('full product class x operator x (m,n) in {1..5}^2 x two value sets; accessors x M in 1..5 x options; oracle = the '
        'single-valued operation on the corresponding elements; non-trivial = max(m,n) > 1; distinct = distinct (class, op, m, n, set)')
ASSUME = ['operators a class does not define at all are skipped (recorded under notes), they belong to C08',
          'layout of M array-valued results is not fixed by the statement: list, first axis or last axis are all accepted',
          'accessor alphabet = the operations the statement lists (inverse, rotation part, translation, angle sets, log, determinant, norm, conjugate, power, interp over a vector of s)']
ANCHORS = [('spatialmath.smuserlist', 'SMUserList.binop'), ('spatialmath.smuserlist', 'SMUserList.unop'), ('spatialmath.super_pose', 'SMPose._op2'),
           ('spatialmath.super_pose', 'SMPose.__mul__'), ('spatialmath.super_pose', 'SMPose.interp'), ('spatialmath.super_pose', 'SMPose.log'),
           ('spatialmath.super_pose', 'SMPose.det'), ('spatialmath.super_pose', 'SMPose.norm'), ('spatialmath.super_pose', 'SMPose.__pow__'),
           ('spatialmath.pose3d', 'SO3.R'), ('spatialmath.pose3d', 'SO3.inv'), ('spatialmath.pose3d', 'SE3.inv'), ('spatialmath.pose3d', 'SE3.t'),
           ('spatialmath.pose3d', 'SO3.eul'), ('spatialmath.pose3d', 'SO3.rpy'), ('spatialmath.pose2d', 'SO2.R'), ('spatialmath.pose2d', 'SO2.inv'),
           ('spatialmath.pose2d', 'SE2.inv'), ('spatialmath.pose2d', 'SE2.t'), ('spatialmath.quaternion', 'Quaternion.conj'),
           ('spatialmath.quaternion', 'Quaternion.norm'), ('spatialmath.quaternion', 'Quaternion.log'), ('spatialmath.quaternion', 'UnitQuaternion.inv'),
           ('spatialmath.quaternion', 'UnitQuaternion.interp'), ('spatialmath.quaternion', 'UnitQuaternion.rpy'), ('spatialmath.quaternion', 'UnitQuaternion.eul')]

CLASSES = ['SO2', 'SE2', 'SO3', 'SE3', 'Quaternion', 'UnitQuaternion', 'Twist2', 'Twist3']
OPS = [('*', operator.mul), ('/', operator.truediv), ('+', operator.add), ('-', operator.sub), ('==', operator.eq), ('!=', operator.ne)]
TOL = 1e-12
OPERATORS = ('neg',)


def value(cname, k):
    """k-th distinct element value of a class (k = 1..20); k = 'I': the identity / zero element, k = 'P': an element of another
    kind (half turn, pure translation, prismatic twist, real quaternion) - per-element branches must not be taken from element 0"""
    if k == 'I':
        return {'SO2': np.eye(2), 'SE2': np.eye(3), 'SO3': np.eye(3), 'SE3': np.eye(4), 'Quaternion': np.array([1.0, 0, 0, 0]), 'UnitQuaternion': np.array([1.0, 0, 0, 0]),
                'Twist2': np.zeros(3), 'Twist3': np.zeros(6)}[cname].copy()
    if k == 'P':
        return {'SO2': ref.rot2(math.pi), 'SE2': ref.rt(np.eye(2), (3.0, -1.0)), 'SO3': ref.rotx(math.pi), 'SE3': ref.rt(np.eye(3), (3.0, -1.0, 2.0)),
                'Quaternion': np.array([-2.0, 0, 0, 0]), 'UnitQuaternion': np.array([0.0, 0, 1.0, 0]), 'Twist2': np.array([1.0, 2.0, 0.0]),
                'Twist3': np.array([1.0, 2.0, 3.0, 0, 0, 0])}[cname].copy()
    if k == 'N':        # just inside the other end of the angle range (-3 rad): next to 'P' (pi) the angle jumps by almost a full turn
        return {'SO2': ref.rot2(-3.0), 'SE2': ref.rt(ref.rot2(-3.0), (1.0, 2.0)), 'SO3': ref.rotz(-3.0), 'SE3': ref.rt(ref.rotz(-3.0), (1.0, 2.0, 0.5)),
                'Quaternion': np.array([0.5, 0, 0, -3.0]), 'UnitQuaternion': ref.r2q_ref(ref.rotz(-3.0)), 'Twist2': np.array([1.0, 2.0, -3.0]),
                'Twist3': np.array([1.0, 2.0, 3.0, 0, 0, -3.0])}[cname].copy()
    if k == 'Q':        # +3 rad
        return {'SO2': ref.rot2(3.0), 'SE2': ref.rt(ref.rot2(3.0), (1.0, 2.0)), 'SO3': ref.rotz(3.0), 'SE3': ref.rt(ref.rotz(3.0), (1.0, 2.0, 0.5)),
                'Quaternion': np.array([0.5, 0, 0, 3.0]), 'UnitQuaternion': ref.r2q_ref(ref.rotz(3.0)), 'Twist2': np.array([1.0, 2.0, 3.0]),
                'Twist3': np.array([1.0, 2.0, 3.0, 0, 0, 3.0])}[cname].copy()
    if isinstance(k, str) and k.startswith('Z'):
        # values held in INTEGER arrays (hand-typed quarter turns, integer translations and components: Quaternion([1, 2, 3, 4]), SE3(1, 2, 3))
        j = int(k[1:])
        q2 = [np.array([[1, 0], [0, 1]]), np.array([[0, -1], [1, 0]]), np.array([[-1, 0], [0, -1]]), np.array([[0, 1], [-1, 0]])][j % 4]
        q3 = [np.eye(3, dtype=int), np.array([[0, -1, 0], [1, 0, 0], [0, 0, 1]]), np.array([[1, 0, 0], [0, 0, -1], [0, 1, 0]]), np.array([[0, 0, 1], [0, 1, 0], [-1, 0, 0]]),
              np.array([[-1, 0, 0], [0, -1, 0], [0, 0, 1]])][j % 5]
        if cname == 'SO2':
            return q2.astype('int64')
        if cname == 'SO3':
            return q3.astype('int64')
        if cname == 'SE2':
            T = np.eye(3, dtype='int64'); T[:2, :2] = q2; T[:2, 2] = (1 + j, -2 * j)
            return T
        if cname == 'SE3':
            T = np.eye(4, dtype='int64'); T[:3, :3] = q3; T[:3, 3] = (1 + j, 2, -3 * j)
            return T
        if cname == 'Quaternion':
            return np.array([1 + j, 2, 3 - j, 4 + 2 * j], dtype='int64')
        if cname == 'UnitQuaternion':
            return np.array([[1, 0, 0, 0], [0, 1, 0, 0], [0, 0, -1, 0], [0, 0, 0, 1], [-1, 0, 0, 0]][j % 5], dtype='int64')
        if cname == 'Twist2':
            return np.array([1 + j, -2, j % 2], dtype='int64')
        return np.array([1 + j, 2, -3, j % 2, 0, 1 - (j % 2)], dtype='int64')
    a = 0.17 * k + 0.05
    if cname == 'SO2':
        return ref.rot2(a)
    if cname == 'SE2':
        return ref.rt(ref.rot2(a), (1.0 * k, -0.5 * k))
    if cname == 'SO3':
        return ref.rotx(a) @ ref.roty(0.1 * k) @ ref.rotz(-0.07 * k)
    if cname == 'SE3':
        return ref.rt(ref.rotx(a) @ ref.roty(0.1 * k), (1.0 * k, 2.0, -0.5 * k))
    if cname == 'Quaternion':
        return np.array([1.0 * k, 2.0, -3.0 + k, 0.5 * k])
    if cname == 'UnitQuaternion':
        q = ref.r2q_ref(ref.rotx(a) @ ref.roty(0.1 * k))
        return q / math.sqrt(q @ q)
    if cname == 'Twist2':
        return np.array([1.0 * k, 2.0, 0.1 * k])
    if cname == 'Twist3':
        return np.array([1.0 * k, 2.0, 3.0, 0.1 * k, -0.2, 0.05 * k])
    raise HarnessError(cname)


def build(cname, ks):
    import spatialmath as sm
    C = getattr(sm, cname)
    o = C()
    o.data = [value(cname, k).copy() for k in ks]
    return o


def split(res, M):
    """candidate decompositions of a result into M per-value results: list of lists of arrays (or scalars)"""
    out = []
    if M == 1:
        if hasattr(res, 'data') and isinstance(res.data, list):
            if len(res.data) == 1:
                out.append([res.data[0]])
        elif isinstance(res, list) and len(res) == 1:
            out.append([res[0]])
            out.append([res])
        else:
            out.append([res])
            if isinstance(res, np.ndarray) and res.ndim >= 1 and res.shape[0] == 1:
                out.append([res[0]])
        return out
    if hasattr(res, 'data') and isinstance(res.data, list):
        if len(res.data) == M:
            out.append(list(res.data))
        return out
    if isinstance(res, (list, tuple)):
        if len(res) == M:
            out.append(list(res))
        return out
    if isinstance(res, np.ndarray):
        if res.ndim >= 1 and res.shape[0] == M:
            out.append([res[i] for i in range(M)])
        if res.ndim >= 2 and res.shape[-1] == M:
            out.append([res[..., i] for i in range(M)])
    return out


def same(a, b):
    """a: element of the sequence result, b: single-valued result"""
    if hasattr(b, 'data') and isinstance(b.data, list):
        b = b.data[0]
    if hasattr(a, 'data') and isinstance(a.data, list):
        a = a.data[0] if len(a.data) == 1 else None
    if isinstance(b, (bool, np.bool_)):
        return isinstance(a, (bool, np.bool_)) and bool(a) == bool(b)
    if isinstance(b, tuple):
        return isinstance(a, tuple) and len(a) == len(b) and all(same(x, y) for x, y in zip(a, b))
    try:
        a, b = np.asarray(a, dtype=float), np.asarray(b, dtype=float)
    except Exception:
        return False
    if a.size != b.size:
        return False
    a, b = a.ravel(), b.ravel()
    if not (np.all(np.isfinite(a)) and np.all(np.isfinite(b))):
        return False
    return bool(np.abs(a - b).max() <= TOL * max(1.0, float(np.abs(b).max()))) if a.size else True


def compare(ctx, cid, site, P, res, singles, M):
    """res: sequence result; singles: list of M single-valued results"""
    cands = split(res, M)
    if not cands:
        ctx.fail(cid, site, 'mismatch', dict(P, what='count'), 'result %s cannot be read as %d per-value results' % (descr(res), M))
        return
    for c in cands:
        if all(same(x, y) for x, y in zip(c, singles)):
            return
    bad = [i for i, (x, y) in enumerate(zip(cands[0], singles)) if not same(x, y)]
    ctx.fail(cid, site, 'mismatch', dict(P, what='value', i=bad[0] if bad else -1), 'element %s of the sequence result differs from the single-valued operation' % bad)


def descr(v):
    if isinstance(v, np.ndarray):
        return 'ndarray%s' % (v.shape,)
    if hasattr(v, 'data') and isinstance(v.data, list):
        return '%s[%d]' % (type(v).__name__, len(v.data))
    if isinstance(v, list):
        return 'list[%d]' % len(v)
    return type(v).__name__


def aliased(ctx, cname):
    """x op x with the SAME object on both sides (two names for one trajectory): element i of the result is the
    single-valued operation on element i with itself, a list of M booleans for == and !="""
    top = 6 if ctx.tier == 'quick' else 8
    for (opn, opf), m in itertools.product(OPS, range(1, top)):
        cid = 'C09/%s/%s/alias/m=%d' % (cname, opn, m)
        if not ctx.want(cid):
            continue
        lk = [2 + j for j in range(m)]
        site = '%s.%s' % (cname, {'*': 'mul', '/': 'div', '+': 'add', '-': 'sub', '==': 'eq', '!=': 'ne'}[opn])
        P = dict(cls=cname, op=opn, m=m, n=m, alias=1)
        ok1, r1 = call(opf, build(cname, lk[:1]), build(cname, lk[:1]))
        if not ok1:
            continue
        ctx.case(cid, key=cid, trivial=(m == 1))
        X = build(cname, lk)
        ok, res = call(opf, X, X)
        if not ok:
            ctx.fail(cid, site, 'raises:' + type(res).__name__, P, '%s[%d] %s itself raised %r' % (cname, m, opn, res))
            continue
        singles = [opf(build(cname, [kk]), build(cname, [kk])) for kk in lk]
        compare(ctx, cid, site, P, res, singles, m)
        if opn in ('==', '!=') and m > 1 and not (isinstance(res, list) and len(res) == m and all(isinstance(x, (bool, np.bool_)) for x in res)):
            ctx.fail(cid, site, 'mismatch', dict(P, what='type'), 'x %s x on %d values gives %s, not a list of %d booleans' % (opn, m, descr(res), m))


DELTAS = (0.0, 1e-12, 1e-9, 1e-7, 3e-6, 1e-4, 1e-2)


def near_equal(ctx, cname):
    """== and != on sequences whose i-th elements differ by delta_i in {0 .. 1e-2} at magnitudes 1, 1e3, 1e6: whatever tolerance
    the single-valued comparison applies, element i of the sequence comparison must apply the same one (differential oracle)"""
    def mk(ks, mag, deltas):
        X = build(cname, ks)
        for x, d in zip(X.data, deltas):
            if cname in ('SE2', 'SE3'):
                n = x.shape[0] - 1
                x[:n, n] *= mag
                x[0, n] += d
                x[1, 0] += d * 1e-3 if mag == 1 else 0.0
            elif cname in ('SO2', 'SO3'):
                x[0, 1] += d
            else:
                x *= mag if cname != 'UnitQuaternion' else 1.0
                x[1] += d
        return X
    mags = (1.0, 1e3, 1e6) if cname not in ('SO2', 'SO3', 'UnitQuaternion') else (1.0,)
    for (opn, opf), M, mag, off, shape in itertools.product(OPS[4:], range(2, 6), mags, range(0, len(DELTAS), 2), ('MM', '1M', 'M1')):
        cid = 'C09/%s/%s/near/M=%d/mag=%g/off=%d/%s' % (cname, opn, M, mag, off, shape)
        if not ctx.want(cid):
            continue
        ks = [2 + j for j in range(M)]
        if shape == '1M':
            lks, rks = [ks[0]], [ks[0]] * M
        elif shape == 'M1':
            lks, rks = [ks[0]] * M, [ks[0]]
        else:
            lks, rks = ks, ks
        dl = [DELTAS[(off + j) % len(DELTAS)] for j in range(M)]
        zero = [0.0] * M
        site = '%s.%s' % (cname, 'eq' if opn == '==' else 'ne')
        P = dict(cls=cname, op=opn, m=len(lks), n=len(rks), mode='near', mag=mag)
        ok1, r1 = call(opf, mk(ks[:1], mag, zero), mk(ks[:1], mag, zero))
        if not ok1:
            continue
        ctx.case(cid, key=cid)
        # the perturbation sits on the side that has M values
        L = mk(lks, mag, dl if shape == 'M1' else zero[:len(lks)])
        R = mk(rks, mag, dl if shape != 'M1' else zero[:len(rks)])
        ok, res = call(opf, L, R)
        if not ok:
            ctx.fail(cid, site, 'raises:' + type(res).__name__, P, '%r' % (res,))
            continue
        singles = []
        for i in range(M):
            a = mk([lks[i if len(lks) > 1 else 0]], mag, [dl[i] if shape == 'M1' else 0.0])
            b_ = mk([rks[i if len(rks) > 1 else 0]], mag, [dl[i] if shape != 'M1' else 0.0])
            singles.append(opf(a, b_))
        compare(ctx, cid, site, P, res, singles, M)
        ctx.cell(site, 'near', shape, 'mixed' if len({bool(x) for x in singles}) > 1 else 'uniform')


def mixed_binary(ctx, cname):
    """binary operators on sequences whose elements are of different kinds (identity, half turn / pure translation / prismatic /
    real quaternion at the first and at later positions): element i is still the single-valued operation on the i-th elements"""
    sets = {1: [['I'], ['P'], [3]], 3: [['I', 4, 5], [2, 'I', 'P'], ['P', 3, 'I'], [2, 3, 'P']]}
    for (opn, opf), (m, n) in itertools.product(OPS, ((1, 3), (3, 1), (3, 3))):
        for (li, lk), (ri, rk) in itertools.product(enumerate(sets[m]), enumerate(sets[n])):
            cid = 'C09/%s/%s/mixed/m=%d/n=%d/%d.%d' % (cname, opn, m, n, li, ri)
            if not ctx.want(cid):
                continue
            site = '%s.%s' % (cname, {'*': 'mul', '/': 'div', '+': 'add', '-': 'sub', '==': 'eq', '!=': 'ne'}[opn])
            P = dict(cls=cname, op=opn, m=m, n=n, mode='mixed')
            M = max(m, n)
            oks, singles = call(lambda: [opf(build(cname, [lk[i if m > 1 else 0]]), build(cname, [rk[i if n > 1 else 0]])) for i in range(M)])
            if not oks:
                continue        # the operator is not defined for one of the element pairs alone (e.g. division by a zero quaternion)
            ctx.case(cid, key=cid)
            ok, res = call(opf, build(cname, lk), build(cname, rk))
            if not ok:
                ctx.fail(cid, site, 'raises:' + type(res).__name__, P, '%s[%d] %s %s[%d] with elements of mixed kinds raised %r' % (cname, m, opn, cname, n, res))
            else:
                compare(ctx, cid, site, P, res, singles, M)


def binary(ctx, cname):
    mixed_binary(ctx, cname)
    near_equal(ctx, cname)
    aliased(ctx, cname)
    top = 6 if ctx.tier == 'quick' else 8
    for (opn, opf), m, n, vs in itertools.product(OPS, range(1, top), range(1, top), (0, 1) if ctx.tier == 'quick' else (0, 1, 2, 3)):
        cid = 'C09/%s/%s/m=%d/n=%d/set=%d' % (cname, opn, m, n, vs)
        if not ctx.want(cid):
            continue
        lk = [1 + j + 3 * (vs % 2) + (vs // 2) for j in range(m)]
        rk = [7 + j - 2 * (vs % 2) + 2 * (vs // 2) for j in range(n)]
        if opn in ('==', '!=') and vs % 2 == 1:
            rk = [lk[j % m] if j % 2 == 0 else 7 + j for j in range(n)]      # some equal, some different elements
        L, R = build(cname, lk), build(cname, rk)
        site = '%s.%s' % (cname, {'*': 'mul', '/': 'div', '+': 'add', '-': 'sub', '==': 'eq', '!=': 'ne'}[opn])
        P = dict(cls=cname, op=opn, m=m, n=n)
        # does the class define the operator at all (single-valued)?
        ok1, r1 = call(opf, build(cname, lk[:1]), build(cname, rk[:1]))
        if not ok1:
            ctx.note('operator_not_defined', '%s %s %s -> %s' % (cname, opn, cname, type(r1).__name__))
            continue
        ctx.case(cid, key=cid, trivial=(m == 1 and n == 1))
        ok, res = call(opf, L, R)
        ctx.cell(site, 'm%s' % ('1' if m == 1 else 'M'), 'n%s' % ('1' if n == 1 else ('M' if n == m else 'N')), 'raised' if not ok else 'ok')
        if m != n and m > 1 and n > 1:
            if ok:
                ctx.fail(cid, site, 'no-raise', P, 'lengths %d and %d returned %s instead of raising ValueError' % (m, n, descr(res)))
            elif not isinstance(res, ValueError):
                ctx.fail(cid, site, 'raises:' + type(res).__name__, P, 'lengths %d and %d raised %s, not ValueError' % (m, n, type(res).__name__))
            continue
        if not ok:
            ctx.fail(cid, site, 'raises:' + type(res).__name__, P, '%s[%d] %s %s[%d] raised %r' % (cname, m, opn, cname, n, res))
            continue
        M = max(m, n)
        singles = []
        for i in range(M):
            oks, s = call(opf, build(cname, [lk[i if m > 1 else 0]]), build(cname, [rk[i if n > 1 else 0]]))
            if not oks:
                raise HarnessError('single-valued %s failed inside a broadcast check: %r' % (cid, s))
            singles.append(s)
        compare(ctx, cid, site, P, res, singles, M)


def power_point(ctx, cname):
    import spatialmath as sm
    # ** with integer exponents
    if not cname.startswith('Twist'):
        for M, k in itertools.product(range(1, 6), range(-2, 4)):
            cid = 'C09/%s/pow/M=%d/k=%d' % (cname, M, k)
            if not ctx.want(cid):
                continue
            ctx.case(cid, key=cid, trivial=(M == 1))
            ks = [2 + j for j in range(M)]
            P = dict(cls=cname, op='**', M=M, k=k)
            ok, res = call(lambda: build(cname, ks) ** k)
            if not ok:
                ctx.fail(cid, cname + '.pow', 'raises:' + type(res).__name__, P, '%r' % (res,))
                continue
            singles = [build(cname, [kk]) ** k for kk in ks]
            compare(ctx, cid, cname + '.pow', P, res, singles, M)
    # pose x point: M poses x one point
    if cname in ('SO2', 'SE2', 'SO3', 'SE3', 'UnitQuaternion'):
        dim = 2 if cname in ('SO2', 'SE2') else 3
        for M, (pn, p) in itertools.product(range(1, 6), (('g', (0.5, -1.5, 2.0)), ('e', (1.0, 0, 0)), ('big', (1e3, -2e3, 5e2)))):
            p = np.array(p[:dim])
            # M poses x a d x n array of points with n != M (both > 1): two different lengths, must raise ValueError; n == M is the
            # documented "one point per pose" form for the pose classes (column i = pose i applied to column i) when it is supported
            if pn == 'g' and M > 1 and cname != 'UnitQuaternion':
                for n_ in range(2, 6):
                    cidn = 'C09/%s/points/M=%d/n=%d' % (cname, M, n_)
                    if not ctx.want(cidn):
                        continue
                    ctx.case(cidn, key=cidn)
                    A_ = np.stack([p * (j + 1) for j in range(n_)], axis=1)
                    okn, rn = call(lambda: build(cname, [3 + j for j in range(M)]) * A_.copy())
                    Pn = dict(cls=cname, op='points', m=M, n=n_)
                    if n_ != M:
                        if okn:
                            ctx.fail(cidn, cname + '.mul', 'no-raise', Pn, '%d poses x %d points returned %s instead of raising ValueError' % (M, n_, descr(rn)))
                        elif not isinstance(rn, ValueError):
                            ctx.note('mismatched_points_exception', '%s: %s' % (cname, type(rn).__name__))
                    elif okn:
                        if not (isinstance(rn, np.ndarray) and rn.shape == (dim, M)) or not all(same(rn[:, i], build(cname, [3 + i]) * A_[:, i].copy()) for i in range(M)):
                            ctx.fail(cidn, cname + '.mul', 'mismatch', Pn, '%d poses x %d points: column i is not pose i applied to point i (%s)' % (M, M, descr(rn)))
            for form in ('1d', 'list', 'col', 'row'):
                cid = 'C09/%s/point/M=%d/p=%s/%s' % (cname, M, pn, form)
                if not (ctx.want(cid) or ctx.want(cid + '/mixed')):
                    continue
                ctx.case(cid, key=cid, trivial=(M == 1))
                ks = [3 + j for j in range(M)]
                arg = {'1d': lambda: p.copy(), 'list': lambda: p.tolist(), 'col': lambda: p.reshape(-1, 1).copy(), 'row': lambda: p.reshape(1, -1).copy()}[form]
                if form in ('col', 'row') and not call(lambda: build(cname, [3]) * arg())[0]:
                    continue        # the single pose does not take this form either (C15 / C06)
                if ctx.want(cid + '/mixed') and M > 1:
                    # poses of mixed kinds: the identity / a pure translation first, the others later (and the reverse)
                    for tag, ksm in (('I-first', ['I'] + ks[1:]), ('P-first', ['P'] + ks[1:]), ('I-last', ks[:-1] + ['I']), ('P-mid', ks[:1] + ['P'] + ks[2:])):
                        okm, resm = call(lambda: build(cname, ksm) * arg())
                        Pm_ = dict(cls=cname, op='point', M=M, point=pn, form=form, mixed=tag)
                        ctx.case(cid + '/mixed', key=cid + tag)
                        if not okm:
                            ctx.fail(cid + '/mixed', cname + '.mul', 'raises:' + type(resm).__name__, Pm_, '%r' % (resm,))
                        elif not (isinstance(resm, np.ndarray) and resm.shape == (dim, M)) or not all(same(resm[:, i], build(cname, [kk]) * arg()) for i, kk in enumerate(ksm)):
                            ctx.fail(cid + '/mixed', cname + '.mul', 'mismatch', dict(Pm_, what='value'), 'poses of mixed kinds (%s): column i is not pose i applied to the point' % tag)
                P = dict(cls=cname, op='point', M=M, point=pn, form=form)
                arg = (lambda: p.copy()) if form == '1d' else (lambda: p.tolist())
                ok, res = call(lambda: build(cname, ks) * arg())
                if not ok:
                    ctx.fail(cid, cname + '.mul', 'raises:' + type(res).__name__, P, '%r' % (res,))
                    continue
                singles = [build(cname, [kk]) * arg() for kk in ks]
                if M > 1 and not (isinstance(res, np.ndarray) and res.shape == (dim, M)):
                    ctx.fail(cid, cname + '.mul', 'mismatch', dict(P, what='shape'), 'M poses x one point gives %s, expected one column per pose (%d,%d)' % (descr(res), dim, M))
                    continue
                if M > 1:
                    if not all(same(res[:, i], singles[i]) for i in range(M)):
                        ctx.fail(cid, cname + '.mul', 'mismatch', dict(P, what='value'), 'column i is not pose i applied to the point')
                else:
                    compare(ctx, cid, cname + '.mul', P, res, singles, 1)


def accessors(cname):
    """[(name, callable(obj))] per-value accessors / unary methods the statement lists"""
    A = []
    pose = cname in ('SO2', 'SE2', 'SO3', 'SE3')
    if pose:
        A += [('inv', lambda x: x.inv()), ('R', lambda x: x.R), ('log', lambda x: x.log()), ('log_twist', lambda x: x.log(twist=True)),
              ('det', lambda x: x.det()), ('norm', lambda x: x.norm())]
        if cname[:2] == 'SE':
            A.append(('t', lambda x: x.t))
        if cname in ('SO3', 'SE3'):
            for u in ('rad', 'deg'):
                A.append(('eul/%s' % u, lambda x, u=u: x.eul(unit=u)))
                A.append(('eul/%s/flip' % u, lambda x, u=u: x.eul(unit=u, flip=True)))
                for o in ('zyx', 'xyz', 'yxz'):
                    A.append(('rpy/%s/%s' % (u, o), lambda x, u=u, o=o: x.rpy(unit=u, order=o)))
        else:
            for u in ('rad', 'deg'):
                A.append(('theta/%s' % u, lambda x, u=u: x.theta(unit=u)))
            if cname == 'SE2':
                A.append(('xyt', lambda x: x.xyt()))
    elif cname in ('Twist3', 'Twist2'):
        # per-value predicates (the code's own multi-valued arm says: a list of M answers)
        A += [('isprismatic', lambda x: x.isprismatic), ('isrevolute', lambda x: x.isrevolute)]
    elif cname == 'Quaternion':
        A += [('neg', lambda x: -x), ('conj', lambda x: x.conj()), ('norm', lambda x: x.norm()), ('log', lambda x: x.log())]
    elif cname == 'UnitQuaternion':
        A += [('neg', lambda x: -x), ('inv', lambda x: x.inv()), ('conj', lambda x: x.conj()), ('norm', lambda x: x.norm()), ('R', lambda x: x.R), ('log', lambda x: x.log())]
        for u in ('rad', 'deg'):
            A.append(('eul/%s' % u, lambda x, u=u: x.eul(unit=u)))
            for o in ('zyx', 'xyz', 'yxz'):
                A.append(('rpy/%s/%s' % (u, o), lambda x, u=u, o=o: x.rpy(unit=u, order=o)))
    else:
        A += [('inv', lambda x: x.inv())]
    return A


def unary(ctx, cname):
    for (an, f), M in itertools.product(accessors(cname), range(1, 6)):
        cid = 'C09/%s/acc/%s/M=%d' % (cname, an, M)
        if not (ctx.want(cid) or (ctx.only and ctx.only.startswith(cid + '/'))):
            continue
        ks = [2 + j for j in range(M)]
        site = '%s.%s' % (cname, an.split('/')[0])
        P = dict(cls=cname, acc=an, M=M)
        ok1, s1 = call(f, build(cname, ks[:1]))
        if not ok1 and an in OPERATORS:
            # "1 op -> 1": a documented unary operator must produce one result from one value
            ctx.case(cid, key=cid)
            ctx.fail(cid, site, 'raises:' + type(s1).__name__, P, 'unary operator %s on one value raised %r' % (an, s1))
            continue
        if not ok1:
            # the single-valued accessor itself fails: not a broadcasting matter (other properties), only noted
            ctx.note('single_valued_accessor_fails', '%s.%s -> %s' % (cname, an, type(s1).__name__))
            continue
        ctx.case(cid, key=cid, trivial=(M == 1))
        ok, res = call(f, build(cname, ks))
        ctx.cell(site, 'M=%d' % M, 'raised' if not ok else 'ok')
        if not ok:
            ctx.fail(cid, site, 'raises:' + type(res).__name__, P, '%s on %d values raised %r' % (an, M, res))
            continue
        singles = [f(build(cname, [kk])) for kk in ks]
        compare(ctx, cid, site, P, res, singles, M)
        # elements of different kinds in one object (identity, half turn / pure translation / prismatic) at the first and at a later position
        if M >= 2:
            for sk, pos in itertools.product(('I', 'P'), (0, 1, M - 1)):
                ksm = list(ks)
                ksm[pos] = sk
                cidm = cid + '/mixed=%s@%d' % (sk, pos)
                if not ctx.want(cidm):
                    continue
                oks, sing = call(lambda: [f(build(cname, [kk])) for kk in ksm])
                if not oks:
                    continue            # the accessor is undefined for that element alone (another property's matter)
                ctx.case(cidm, key=cidm)
                okm, resm = call(f, build(cname, ksm))
                if not okm:
                    ctx.fail(cidm, site, 'raises:' + type(resm).__name__, dict(P, mixed=sk, pos=pos), '%s on %d values with a %s element at %d raised %r' % (an, M, sk, pos, resm))
                else:
                    compare(ctx, cidm, site, dict(P, mixed=sk, pos=pos), resm, sing, M)
            # consecutive values either side of the +-pi wrap point (3.0, -3.0, 3.0, ...): no value is adjusted to its neighbours
            ksw = ['Q' if j % 2 == 0 else 'N' for j in range(M)]
            cidw = cid + '/wrap'
            if ctx.want(cidw):
                oks, sing = call(lambda: [f(build(cname, [kk])) for kk in ksw])
                if oks:
                    ctx.case(cidw, key=cidw)
                    okw, resw = call(f, build(cname, ksw))
                    if not okw:
                        ctx.fail(cidw, site, 'raises:' + type(resw).__name__, dict(P, mixed='wrap'), '%s on %d values alternating +3 / -3 rad raised %r' % (an, M, resw))
                    else:
                        compare(ctx, cidw, site, dict(P, mixed='wrap'), resw, sing, M)
            # every value held in an integer array
            ksz = ['Z%d' % j for j in range(M)]
            cidz = cid + '/int'
            if ctx.want(cidz):
                oks, sing = call(lambda: [f(build(cname, [kk])) for kk in ksz])
                if oks:
                    ctx.case(cidz, key=cidz)
                    okz, resz = call(f, build(cname, ksz))
                    if not okz:
                        ctx.fail(cidz, site, 'raises:' + type(resz).__name__, dict(P, mixed='int'), '%s on %d integer-typed values raised %r' % (an, M, resz))
                    else:
                        compare(ctx, cidz, site, dict(P, mixed='int'), resz, sing, M)
        # the same object reached through a history during which the accessor had already been used (item assignment over a
        # decoy, reverse of a reversed copy, append + pop): the M results are those of the values it holds NOW
        for tag, X in hist.variants(build(cname, ks), f, fresh=False):
            cidh = cid + '/hist=' + tag
            if not ctx.want(cidh):
                continue
            ctx.case(cidh, key=cidh)
            okh, resh = call(f, X)
            if not okh:
                ctx.fail(cidh, site, 'raises:' + type(resh).__name__, dict(P, hist=tag), '%s after %s raised %r' % (an, tag, resh))
            else:
                compare(ctx, cidh, site, dict(P, hist=tag), resh, singles, M)
    # interpolation over a vector of s (one pose, several s) and of several poses at one s
    svec_all = [0.0, 0.25, 0.5, 0.8, 1.0]
    if cname in ('SO2', 'SE2', 'SO3', 'SE3'):
        for n in range(1, 6):
            cid = 'C09/%s/interp/svec=%d' % (cname, n)
            if ctx.want(cid):
                ctx.case(cid, key=cid, trivial=(n == 1))
                sv = svec_all[:n] if n > 1 else [0.4]
                P = dict(cls=cname, acc='interp', n=n, mode='1xS')
                ok, res = call(lambda: build(cname, [3]).interp(list(sv)))
                if not ok:
                    ctx.fail(cid, cname + '.interp', 'raises:' + type(res).__name__, P, 'interp over %d s values raised %r' % (n, res))
                else:
                    oks, singles = call(lambda: [build(cname, [3]).interp(s) for s in sv])
                    if oks:
                        compare(ctx, cid, cname + '.interp', P, res, singles, n)
                    else:
                        ctx.note('single_valued_accessor_fails', '%s.interp -> %s' % (cname, type(singles).__name__))
            cid = 'C09/%s/interp/M=%d' % (cname, n)
            if ctx.want(cid):
                ctx.case(cid, key=cid, trivial=(n == 1))
                ks = [2 + j for j in range(n)]
                P = dict(cls=cname, acc='interp', M=n, mode='Mx1')
                ok, res = call(lambda: build(cname, ks).interp(0.3))
                if not ok:
                    ctx.fail(cid, cname + '.interp', 'raises:' + type(res).__name__, P, 'interp of %d poses raised %r' % (n, res))
                else:
                    oks, singles = call(lambda: [build(cname, [kk]).interp(0.3) for kk in ks])
                    if oks:
                        compare(ctx, cid, cname + '.interp', P, res, singles, n)
    if cname in ('SO3', 'SE3', 'SO2', 'SE2'):
        # several poses interpolated from an explicit start pose at one s: element i is what pose i gives alone - also when start and pose are more
        # than half a turn apart by the short way round (quaternions in opposite hemispheres)
        import spatialmath as sm
        C_ = getattr(sm, cname)
        three = cname in ('SO3', 'SE3')
        rot = (lambda a_: ref.rotx(a_)) if three else (lambda a_: ref.rot2(a_))
        wrap = (lambda R_, j_: ref.rt(R_, ((1.0 + j_, -2.0, 0.5) if three else (1.0 + j_, -2.0)))) if cname[:2] == 'SE' else (lambda R_, j_: R_)
        for a0, angs in ((-2.0, [2.0, 0.3, -2.5]), (0.4, [0.5, 3.0, -2.9]), (3.0, [-3.0, 2.9])):
            for s_ in (0.25, 0.5, 0.8):
                cid = 'C09/%s/interp/start=%g/M=%d/s=%g' % (cname, a0, len(angs), s_)
                if not ctx.want(cid):
                    continue
                ctx.case(cid, key=cid)
                P = dict(cls=cname, acc='interp', M=len(angs), mode='Mx1', start=a0)
                mkX = lambda: C_([wrap(rot(a_), j_) for j_, a_ in enumerate(angs)])
                mk0 = lambda: C_(wrap(rot(a0), 7))
                ok, res = call(lambda: mkX().interp(s_, start=mk0()))
                if not ok:
                    ctx.fail(cid, cname + '.interp', 'raises:' + type(res).__name__, P, 'interp of %d poses from a start pose raised %r' % (len(angs), res))
                    continue
                oks, singles = call(lambda: [C_(wrap(rot(a_), j_)).interp(s_, start=mk0()) for j_, a_ in enumerate(angs)])
                if oks:
                    compare(ctx, cid, cname + '.interp', P, res, singles, len(angs))
    if cname in ('Twist3', 'Twist2'):
        # one twist, a vector of joint values, either unit: element i is what the scalar call with value i gives (whatever a unit means for a
        # prismatic joint, it means the same in both spellings)
        import spatialmath as sm
        TW = getattr(sm, cname)
        kinds = [('revolute', lambda: TW.Revolute([0, 0, 1], [1, 2, 0]) if cname == 'Twist3' else TW.Revolute([1, 2])), ('prismatic', lambda: TW.Prismatic([0, 1, 0]) if cname == 'Twist3' else TW.Prismatic([0, 1])),
                 ('general', lambda: TW(value(cname, 3)))]
        for (kn, mk), u, form in itertools.product(kinds, ('rad', 'deg'), ('list', 'array')):
            cid = 'C09/%s/exp/thetavec/%s/%s/%s' % (cname, kn, u, form)
            if not ctx.want(cid):
                continue
            ctx.case(cid, key=cid)
            th = [20.0, 45.0, 80.0, -30.0] if u == 'deg' else [0.3, 0.8, 1.4, -0.5]
            P = dict(cls=cname, acc='exp', n=4, mode='1xS', unit=u, kind=kn)
            import io, contextlib
            with contextlib.redirect_stdout(io.StringIO()):         # (the library prints a remark for prismatic twists in degree mode)
                ok, res = call(lambda: mk().exp(th if form == 'list' else np.array(th), u))
                oks, singles = call(lambda: [mk().exp(t_, u) for t_ in th]) if ok else (False, None)
            if not ok:
                ctx.fail(cid, cname + '.exp', 'raises:' + type(res).__name__, P, 'exp over 4 joint values raised %r' % (res,))
                continue
            if oks:
                compare(ctx, cid, cname + '.exp', P, res, singles, 4)
    if cname == 'UnitQuaternion':
        # vector of s with a destination on the other hemisphere, with and without the shorter-arc option
        for n, sh in itertools.product(range(2, 6), (False, True)):
            cid = 'C09/UnitQuaternion/interp/dest/svec=%d/shortest=%d' % (n, sh)
            if ctx.want(cid):
                ctx.case(cid, key=cid)
                sv = svec_all[:n]
                import spatialmath as sm
                mkdest = lambda: sm.UnitQuaternion(-value(cname, 9), norm=False, check=False)
                P = dict(cls=cname, acc='interp', n=n, mode='1xS', shortest=int(sh))
                ok, res = call(lambda: build(cname, [3]).interp(list(sv), dest=mkdest(), shortest=sh))
                if not ok:
                    ctx.fail(cid, 'UnitQuaternion.interp', 'raises:' + type(res).__name__, P, 'interp over %d s values raised %r' % (n, res))
                else:
                    singles = [build(cname, [3]).interp(s, dest=mkdest(), shortest=sh) for s in sv]
                    compare(ctx, cid, 'UnitQuaternion.interp', P, res, singles, n)
        # two orientations close together (0.01 .. 0.1 rad apart), s away from 0, 1/2 and 1: a vector of s gives what each s gives alone
        import spatialmath as sm
        for dl, sh in itertools.product((0.01, 0.03, 0.05, 0.063, 0.08, 0.1), (False, True)):
            cid = 'C09/UnitQuaternion/interp/close=%g/shortest=%d' % (dl, sh)
            if ctx.want(cid):
                ctx.case(cid, key=cid)
                sv = [0.1, 0.21, 0.37, 0.79, 0.9]
                q0 = value(cname, 3)
                q1 = ref.qmul(q0, np.r_[math.cos(dl / 2), math.sin(dl / 2) * np.array([1.0, 2.0, -2.0]) / 3.0])
                mkdest = lambda: sm.UnitQuaternion(q1.copy(), norm=False, check=False)
                P = dict(cls=cname, acc='interp', n=5, mode='1xS', shortest=int(sh), close=dl)
                for nm_, fv, fs in (('dest', lambda: build(cname, [3]).interp(list(sv), dest=mkdest(), shortest=sh), lambda s_: build(cname, [3]).interp(s_, dest=mkdest(), shortest=sh)),
                                    ('nodest', lambda: mkdest().interp(list(sv), shortest=sh) if False else sm.UnitQuaternion(np.r_[math.cos(dl / 2), math.sin(dl / 2) * np.array([1.0, 2.0, -2.0]) / 3.0]).interp(list(sv), shortest=sh),
                                     lambda s_: sm.UnitQuaternion(np.r_[math.cos(dl / 2), math.sin(dl / 2) * np.array([1.0, 2.0, -2.0]) / 3.0]).interp(s_, shortest=sh))):
                    ok, res = call(fv)
                    if not ok:
                        ctx.fail(cid, 'UnitQuaternion.interp', 'raises:' + type(res).__name__, dict(P, form=nm_), 'interp over 5 s values raised %r' % (res,))
                        continue
                    singles = [fs(s_) for s_ in sv]
                    # tighter than the generic comparison: the two computations are the same formula
                    vals = [np.asarray(d, dtype=float) for d in getattr(res, 'data', [])]
                    if len(vals) != 5 or any(np.abs(v_ - np.asarray(x_.data[0], dtype=float)).max() > 1e-12 for v_, x_ in zip(vals, singles)):
                        ctx.fail(cid, 'UnitQuaternion.interp', 'mismatch', dict(P, form=nm_, what='value'), 'interp over a vector of s differs from the single-s calls (%s, %g rad apart)' % (nm_, dl))
        for n in range(1, 6):
            cid = 'C09/UnitQuaternion/interp/svec=%d' % n
            if ctx.want(cid):
                ctx.case(cid, key=cid, trivial=(n == 1))
                sv = svec_all[:n] if n > 1 else [0.4]
                P = dict(cls=cname, acc='interp', n=n, mode='1xS')
                ok, res = call(lambda: build(cname, [3]).interp(list(sv) if n > 1 else sv[0]))
                if not ok:
                    ctx.fail(cid, 'UnitQuaternion.interp', 'raises:' + type(res).__name__, P, 'interp over %d s values raised %r' % (n, res))
                else:
                    singles = [build(cname, [3]).interp(s) for s in sv]
                    compare(ctx, cid, 'UnitQuaternion.interp', P, res, singles, n)


def extras(cname):
    """per-value methods, properties and conversions the statement does not name one by one ("all per-value methods").
    Oracle for these: on M values they either refuse loudly (noted, not a violation) or return M results equal to the
    single-valued results - a silently shortened, first-element-only or mis-indexed result is a violation"""
    import spatialmath as sm
    E = []
    if cname == 'SO2':
        E += [('SE2()', lambda x: x.SE2()), ('SE2(x)', lambda x: sm.SE2(x)), ('A', lambda x: x.A)]
    elif cname == 'SE2':
        E += [('SE3()', lambda x: x.SE3()), ('SE3(z)', lambda x: x.SE3(z=2.5)), ('Twist2()', lambda x: x.Twist2()), ('Twist2(x)', lambda x: sm.Twist2(x)),
              ('SO2(x)', lambda x: sm.SO2(x)), ('A', lambda x: x.A), ('SE2(x)', lambda x: sm.SE2(x))]
    elif cname == 'SO3':
        E += [('SE3(x)', lambda x: sm.SE3(x)), ('SE3.SO3(x)', lambda x: sm.SE3.SO3(x)), ('UnitQuaternion(x)', lambda x: sm.UnitQuaternion(x)),
              ('angvec', lambda x: x.angvec()), ('n', lambda x: x.n), ('o', lambda x: x.o), ('a', lambda x: x.a), ('A', lambda x: x.A), ('SO3(x)', lambda x: sm.SO3(x))]
    elif cname == 'SE3':
        E += [('SO3(x)', lambda x: sm.SO3(x)), ('Twist3()', lambda x: x.Twist3()), ('Twist3(x)', lambda x: sm.Twist3(x)), ('UnitQuaternion(x)', lambda x: sm.UnitQuaternion(x)),
              ('Ad', lambda x: x.Ad()), ('jacob', lambda x: x.jacob()), ('angvec', lambda x: x.angvec()), ('delta', lambda x: x.delta(sm.SE3(0.01, 0.02, 0.03))),
              ('n', lambda x: x.n), ('o', lambda x: x.o), ('a', lambda x: x.a), ('A', lambda x: x.A), ('SE3(x)', lambda x: sm.SE3(x))]
    elif cname == 'Quaternion':
        E += [('s', lambda x: x.s), ('v', lambda x: x.v), ('vec', lambda x: x.vec), ('matrix', lambda x: x.matrix), ('unit', lambda x: x.unit()),
              ('exp', lambda x: x.exp()), ('A', lambda x: x.A), ('Quaternion(x)', lambda x: sm.Quaternion(x))]
    elif cname == 'UnitQuaternion':
        E += [('SO3()', lambda x: x.SO3()), ('SE3()', lambda x: x.SE3()), ('SO3(x)', lambda x: sm.SO3(x)), ('angvec', lambda x: x.angvec()), ('angvec/deg', lambda x: x.angvec(unit='deg')),
              ('vec3', lambda x: x.vec3), ('vec', lambda x: x.vec), ('s', lambda x: x.s), ('v', lambda x: x.v), ('matrix', lambda x: x.matrix), ('A', lambda x: x.A),
              ('UnitQuaternion(x)', lambda x: sm.UnitQuaternion(x)), ('unit', lambda x: x.unit())]
    elif cname == 'Twist3':
        E += [('v', lambda x: x.v), ('w', lambda x: x.w), ('S', lambda x: x.S), ('A', lambda x: x.A), ('isprismatic', lambda x: x.isprismatic), ('isrevolute', lambda x: x.isrevolute),
              ('isunit', lambda x: x.isunit), ('unit', lambda x: x.unit), ('ad', lambda x: x.ad()), ('Ad', lambda x: x.Ad()), ('SE3()', lambda x: x.SE3()),
              ('se3', lambda x: x.se3()), ('exp', lambda x: x.exp()), ('exp(s)', lambda x: x.exp(0.3)), ('pitch', lambda x: x.pitch()), ('pole', lambda x: x.pole()),
              ('theta', lambda x: x.theta()), ('line', lambda x: x.line()), ('Twist3(x)', lambda x: sm.Twist3(x))]
    elif cname == 'Twist2':
        E += [('v', lambda x: x.v), ('w', lambda x: x.w), ('S', lambda x: x.S), ('A', lambda x: x.A), ('isprismatic', lambda x: x.isprismatic), ('isrevolute', lambda x: x.isrevolute),
              ('isunit', lambda x: x.isunit), ('unit', lambda x: x.unit), ('SE2()', lambda x: x.SE2()), ('se2', lambda x: x.se2()), ('exp', lambda x: x.exp()),
              ('exp(s)', lambda x: x.exp(0.3)), ('pole', lambda x: x.pole()), ('Twist2(x)', lambda x: sm.Twist2(x)), ('ad', lambda x: x.ad()), ('Ad', lambda x: x.Ad())]
    return E


def unary_extra(ctx, cname):
    for (an, f), M in itertools.product(extras(cname), range(1, 6)):
        cid = 'C09/%s/extra/%s/M=%d' % (cname, an, M)
        if not (ctx.want(cid) or (ctx.only and ctx.only.startswith(cid + '/hist='))):
            continue
        ks = [2 + j for j in range(M)]
        site = '%s.%s' % (cname, an.split('/')[0])
        P = dict(cls=cname, acc=an, M=M, mode='extra')
        ok1, s1 = call(f, build(cname, ks[:1]))
        if not ok1:
            ctx.note('single_valued_accessor_fails', '%s.%s -> %s' % (cname, an, type(s1).__name__))
            continue
        ctx.case(cid, key=cid, trivial=(M == 1))
        ok, res = call(f, build(cname, ks))
        ctx.cell(site, 'M=%d' % M, 'raised' if not ok else 'ok')
        if not ok:
            ctx.note('not_vectorised_refuses', '%s.%s -> %s' % (cname, an, type(res).__name__))
            continue
        oks, singles = call(lambda: [f(build(cname, [kk])) for kk in ks])
        if not oks:
            raise HarnessError('single-valued %s failed: %r' % (cid, singles))
        compare(ctx, cid, site, P, res, singles, M)
        for tag, X in hist.variants(build(cname, ks), f, fresh=False):
            cidh = cid + '/hist=' + tag
            if not ctx.want(cidh):
                continue
            ctx.case(cidh, key=cidh)
            okh, resh = call(f, X)
            if okh:
                compare(ctx, cidh, site, dict(P, hist=tag), resh, singles, M)
            else:
                ctx.fail(cidh, site, 'raises:' + type(resh).__name__, dict(P, hist=tag), '%s works on a fresh object but raised %r after %s' % (an, resh, tag))


def shards(tier, seed):
    out = []
    for c in CLASSES:
        out += [('binary', c), ('powpoint', c), ('unary', c), ('extra', c)]
    return out


def run_shard(ctx, shard):
    k, c = shard
    if k == 'binary':
        binary(ctx, c)
    elif k == 'powpoint':
        power_point(ctx, c)
    elif k == 'extra':
        unary_extra(ctx, c)
    else:
        unary(ctx, c)
