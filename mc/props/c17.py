"""
C17  Functions and operators never modify their arguments.

E4 call-history explorer.  Call descriptors are built for every public base function (from the C15
signature table plus the matrix-argument functions) and, by reflection, for every public property,
nullary method, selected methods with arguments, binary and augmented operator of every class (single-
and multi-valued receivers).  Depth 1: every descriptor x every container form of each vector argument.
Depth 2 (thorough: 3): every ordered pair (triple) of descriptors in which the result of the earlier call
is type-compatible with an argument of the later one - results alias internal storage (t2r, tr2rt, .A,
.R, .t, x[i], copy constructors), so this is where a write into a shared array shows.  Oracle: byte-level
snapshots (dtype, shape, bytes, recursively through lists, tuples and .data) of EVERY live value - all
original arguments, receivers and all earlier results - are equal before and after each step, except the
receiver of the documented list mutators; every non-random call repeated on equal inputs returns equal
outputs.
"""
import itertools, math, operator, inspect
import numpy as np
from mc import ref, alph
from mc.core import call, HarnessError
PI = math.pi
_PRINT0 = {k: v for k, v in np.get_printoptions().items() if k != 'override_repr'}
_ERR0 = dict(np.geterr())

PROP = 'C17'
LEVEL = 'model_checking'
RULE = ('states = histories of calls with the tuple of live values (arguments, receivers, earlier results); transitions = one more call whose '
        'arguments are fresh values or earlier results of a compatible kind; depth 1 exhaustively over descriptors x container forms, depth 2 over all '
        'type-compatible ordered pairs (thorough: depth 3 over a thinned set); invariant = byte snapshots of all live values unchanged; '
        'non-trivial = the call returned (did not raise); distinct = distinct histories')
ASSUME = ['observation is by byte snapshots from outside; values reachable only through private attributes other than .data / .real / .dual are not observed',
          'documented mutators (append extend insert pop clear reverse __setitem__ __delitem__) may change their receiver only',
          'kinds of results are inferred from type and shape; a result that fits several kinds is passed to descriptors of each of them']
ANCHORS = [('spatialmath.base.argcheck', 'getvector'), ('spatialmath.base.argcheck', 'getmatrix'), ('spatialmath.base.transformsNd', 't2r'),
           ('spatialmath.base.transformsNd', 'r2t'), ('spatialmath.base.transformsNd', 'tr2rt'), ('spatialmath.base.transformsNd', 'rt2tr'),
           ('spatialmath.base.transforms3d', 'transl'), ('spatialmath.base.transforms3d', 'trinv'), ('spatialmath.base.transforms3d', 'trnorm'),
           ('spatialmath.base.transforms2d', 'transl2'), ('spatialmath.base.transforms2d', 'trinv2'), ('spatialmath.smuserlist', 'SMUserList.arghandler')]

MUTATORS = ('append', 'extend', 'insert', 'pop', 'clear', 'reverse', 'setitem', 'delitem')


# --------------------------------------------------------------------------- snapshots

def snap(x, depth=0):
    if depth > 6:
        return ('deep',)
    if isinstance(x, np.ndarray):
        if x.dtype == object:
            return ('ndo', x.shape, tuple(repr(e) for e in x.ravel()))
        return ('nd', x.dtype.str, x.shape, x.tobytes())
    if isinstance(x, (list, tuple)):
        return (type(x).__name__, tuple(snap(e, depth + 1) for e in x))
    if isinstance(x, dict):
        return ('dict', tuple((k, snap(v, depth + 1)) for k, v in sorted(x.items(), key=repr)))
    if x is None or isinstance(x, (bool, int, float, str, complex, np.number, np.bool_)):
        return ('s', type(x).__name__, repr(x))
    mod = type(x).__module__ or ''
    if mod.startswith('spatialmath'):
        parts = [type(x).__name__]
        d = getattr(x, '__dict__', {})
        for k in sorted(d):
            parts.append((k, snap(d[k], depth + 1)))
        return tuple(parts)
    return ('o', type(x).__name__)


# --------------------------------------------------------------------------- typed value pool

R3 = ref.rotx(0.3) @ ref.roty(-0.4) @ ref.rotz(0.2)
T3 = ref.rt(R3, (1.0, -2.0, 0.5))
R2 = ref.rot2(0.3)
T2 = ref.rt(R2, (1.0, -2.0))
QU = ref.r2q_ref(R3)
VECS = {'v2': [1.0, -2.0], 'v3': [0.3, -0.4, 0.5], 'v4': [1.0, 2.0, -3.0, 0.5], 'v6': [1.0, 2.0, 3.0, 0.3, -0.2, 0.1], 'q': QU.tolist(), 'v1': [0.3]}
FORMS = ('1d', 'list', 'tuple', 'row', 'col')


def sm():
    import spatialmath
    return spatialmath


def make(kind, form='1d', alt=0):
    """a FRESH value of the kind"""
    S = sm()
    if kind.endswith('@T'):
        # the same numbers in column-major memory, as the transpose of a C-ordered table is (P.T of an N x 3 array of points, X.t.T, a block
        # sliced out of a larger array): a view that does not own its data, for which "make it contiguous" conversions of its transpose copy nothing
        a = make(kind[:-2], form, alt)
        return np.ascontiguousarray(a.T).T
    if kind in VECS:
        v = np.array(VECS[kind], dtype=float) * (1 + 0.5 * alt)
        if kind == 'q':
            v = v / np.linalg.norm(v)
        return {'1d': v, 'list': v.tolist(), 'tuple': tuple(v.tolist()), 'row': v.reshape(1, -1), 'col': v.reshape(-1, 1)}[form]
    if kind == 'ang':
        return 0.3 + 0.2 * alt
    if kind == 's':
        return 2.0 + alt
    if kind == 'int':
        return 2
    if kind == 'R3':
        return (R3 if not alt else ref.rotx(0.5)).copy()
    if kind == 'T3':
        return (T3 if not alt else ref.rt(ref.roty(0.4), (0.5, 0.5, 2.0))).copy()
    if kind == 'R2':
        return (R2 if not alt else ref.rot2(-0.7)).copy()
    if kind == 'T2':
        return (T2 if not alt else ref.rt(ref.rot2(-0.7), (3.0, 1.0))).copy()
    # values carrying rounding residues (what products and quarter turns leave behind): elements of 3e-15 and below
    if kind == 'R3z':
        R = ref.rotz(PI / 2) @ ref.rotx(PI if alt else 0.0)
        R[0, 2] += 3e-15
        return R
    if kind == 'R3u':
        # a product that is the identity up to rounding, with a diagonal element one ulp ABOVE 1 (passes every validity test)
        R = ref.rotx(0.08) @ ref.rotx(-0.08) if not alt else ref.rotz(0.08) @ ref.rotz(-0.08)
        if not R.max() > 1:
            raise HarnessError('R3u has no element above 1')
        return R
    if kind == 'T3u':
        return ref.rt(make('R3u', alt=alt), (1.0, 2.0 + alt, 3.0))
    if kind == 'T3z':
        return ref.rt(ref.rotz(PI / 2), (3e-15, 2.0 + alt, -1e-15))
    if kind == 'R2z':
        return ref.rot2(PI / 2 if not alt else PI)
    if kind == 'T2z':
        return ref.rt(ref.rot2(PI / 2), (3e-15, 2.0 + alt))
    if kind == 'ang0d':
        return np.array(0.6 + 0.2 * alt)             # an angle held in a 0-d array (what indexing a 1-D array with [()] or np.asarray(x) gives)
    if kind == 'ang1':
        return np.array([0.6 + 0.2 * alt, -0.3])     # a vector of angles
    if kind == 'qN':
        return np.array([[1.0, 2.0, -1.0, 0.5], [0.5, 0.5, 0.5, 0.5 + alt], [3.0, 0.0, 0.0, 4.0]])      # N x 4, rows not of unit norm
    if kind == 'bnd':
        return np.array([1.0, -1.0, -1.0, 1.0, 1.0 + alt, -1.0])          # each axis pair given as [max, min] or [min, max]
    if kind == 'so3m':
        return ref.skew([0.3, -0.4, 0.5])
    if kind == 'se3m':
        return ref.skewa([1.0, 2.0, 3.0, 0.3, -0.4, 0.5])
    if kind == 'so2m':
        return ref.skew([0.3])
    if kind == 'se2m':
        return ref.skewa([1.0, 2.0, 0.3])
    if kind == 'pts3':
        return np.array([[1.0, 2, 3, 4], [0.5, -1, 0, 2], [3.0, 1, -2, 0]])
    if kind == 'pts2':
        return np.array([[1.0, 2, 3, 4], [0.5, -1, 0, 2]])
    multi = kind.endswith('*')
    k = kind.rstrip('*')
    n = 3 if multi else 1

    def seq(f):
        vals = [f(i + alt) for i in range(n)]
        return vals
    if k == 'SO3':
        return S.SO3([ref.rotx(0.3 + 0.2 * i) @ ref.roty(0.1) for i in range(alt, alt + n)])
    if k == 'SE3':
        return S.SE3([ref.rt(ref.rotx(0.3 + 0.2 * i) @ ref.roty(0.1), (1.0 + i, 2.0, -0.5)) for i in range(alt, alt + n)])
    if k == 'SO2':
        return S.SO2([ref.rot2(0.3 + 0.2 * i) for i in range(alt, alt + n)])
    if k == 'SE2':
        return S.SE2([ref.rt(ref.rot2(0.3 + 0.2 * i), (1.0 + i, -2.0)) for i in range(alt, alt + n)])
    if k == 'UQ':
        return S.UnitQuaternion([ref.r2q_ref(ref.rotx(0.3 + 0.2 * i) @ ref.roty(0.1)) for i in range(alt, alt + n)])
    if k == 'Q':
        return S.Quaternion([np.array([1.0 + i, 2.0, -3.0, 0.5]) for i in range(alt, alt + n)])
    if k == 'Tw3':
        return S.Twist3([np.array([1.0 + i, 2.0, 3.0, 0.3, -0.2, 0.1]) for i in range(alt, alt + n)])
    if k == 'Tw2':
        return S.Twist2([np.array([1.0 + i, 2.0, 0.3]) for i in range(alt, alt + n)])
    if k in ('SV', 'SA', 'SF', 'SM'):
        C = {'SV': S.SpatialVelocity, 'SA': S.SpatialAcceleration, 'SF': S.SpatialForce, 'SM': S.SpatialMomentum}[k]
        o = C(np.array([1.0 + alt, 2.0, 3.0, 0.3, -0.2, 0.1]))
        if multi:
            o.data = [np.array([1.0 + i, 2.0, 3.0, 0.3, -0.2, 0.1]) for i in range(alt, alt + n)]
        return o
    if k == 'SE3u':
        return S.SE3(make('T3u', alt=alt))
    if k == 'SO3u':
        return S.SO3(make('R3u', alt=alt))
    if k == 'SE3z':
        return S.SE3(make('T3z', alt=alt))
    if k == 'SE2z':
        return S.SE2(make('T2z', alt=alt))
    if k == 'SO3z':
        return S.SO3(make('R3z', alt=alt), check=False)
    if k in ('SE3sym', 'SO3sym', 'SE2sym', 'SO2sym'):
        import sympy
        th, xs = sympy.symbols('theta x', real=True)
        one = {'SE3sym': lambda: S.SE3.Rx(th) * S.SE3.Rx(th) * S.SE3(xs, 2 + alt, 0), 'SO3sym': lambda: S.SO3.Rx(th) * S.SO3.Ry(th),
               'SE2sym': lambda: S.SE2(xs, 1 + alt, th) * S.SE2(xs, 1, th), 'SO2sym': lambda: S.SO2(th) * S.SO2(th)}[k]
        if not multi:
            return one()
        o = one()
        o.data = [one().data[0], (one() * one()).data[0]]
        return o
    if k == 'SI':
        return S.SpatialInertia(2.0 + alt, [0.1, 0.2, 0.3], np.diag([1.0, 2.0, 3.0]))
    if k == 'PL':
        return S.Plucker.PQ([1.0 + alt, 2, 3], [4.0, 6, 9])
    if k == 'PLp':
        return S.Plucker.PointDir([0.5, -1.0, 2.0 + alt], [9.0, 12.0, 18.0])        # parallel to PL (direction x 3), another point
    if k == 'PLa':
        return S.Plucker.PointDir([0.5, -1.0, 2.0 + alt], [-1.5, -2.0, -3.0])       # antiparallel, direction x -0.5
    if k == 'PLi':
        return S.Plucker.PQ([4.0, 6, 9], [2.0 + alt, -1.0, 0.5])                    # meets PL at its second defining point
    if k == 'PLN':
        return S.Plane.PN([1.0, -2.0 + alt, 0.5], [2.0, 1.0, -3.0])          # non-unit normal, non-zero offset
    if k == 'Qtiny':
        return S.Quaternion([0.5 + alt, 1e-15, -2e-15, 0.0])        # a vector part of round-off size (below every "is it zero" threshold, not zero)
    if k == 'UQtiny':
        return S.UnitQuaternion(np.array([-1.0, 1.2e-16 * (1 + alt), 0.0, -3e-17]), norm=False, check=False)      # what Rx(2 pi) holds
    if k == 'UQn':
        return S.UnitQuaternion(-ref.r2q_ref(ref.rotx(2.6 + 0.1 * alt) @ ref.roty(0.1)), norm=False, check=False)   # same rotation, negative scalar part
    if k == 'DQ':
        return S.DualQuaternion(S.Quaternion([1.0 + alt, 2, 3, 4]), S.Quaternion([0.5, -1, 2, 1]))
    if k == 'UDQ':
        return S.UnitDualQuaternion(S.SE3(ref.rt(ref.rotx(0.3 + alt), (1.0, 2, 3))))
    raise HarnessError('no value of kind ' + kind)


OBJ_KINDS = ['SO2', 'SE2', 'SO3', 'SE3', 'UQ', 'Q', 'Tw2', 'Tw3', 'SV', 'SA', 'SF', 'SM', 'SI', 'PL', 'PLN', 'UQn', 'DQ', 'UDQ']
MULTI = ['SO2*', 'SE2*', 'SO3*', 'SE3*', 'UQ*', 'Q*', 'Tw2*', 'Tw3*', 'SV*', 'SF*']
CLS2KIND = {'SO2': 'SO2', 'SE2': 'SE2', 'SO3': 'SO3', 'SE3': 'SE3', 'UnitQuaternion': 'UQ', 'Quaternion': 'Q', 'Twist2': 'Tw2', 'Twist3': 'Tw3',
            'SpatialVelocity': 'SV', 'SpatialAcceleration': 'SA', 'SpatialForce': 'SF', 'SpatialMomentum': 'SM', 'SpatialInertia': 'SI', 'Plucker': 'PL',
            'DualQuaternion': 'DQ', 'UnitDualQuaternion': 'UDQ', 'Plane': 'PLN'}


def kinds_of(x):
    """kinds a runtime value can stand in for"""
    if isinstance(x, np.ndarray) and x.dtype != object:
        sh = x.shape
        out = {(3, 3): ['R3', 'T2', 'so3m', 'se2m'], (4, 4): ['T3', 'se3m'], (2, 2): ['R2', 'so2m'], (2,): ['v2'], (3,): ['v3'], (4,): ['v4', 'q'], (6,): ['v6'],
               (1,): ['v1'], (3, 1): ['v3'], (2, 1): ['v2'], (1, 3): ['v3']}.get(sh, [])
        if len(sh) == 2 and sh[0] == 3 and sh[1] > 1 and sh != (3, 3):
            out = out + ['pts3']
        return out
    if isinstance(x, (float, np.floating)):
        return ['ang', 's']
    n = type(x).__name__
    if n in CLS2KIND and (type(x).__module__ or '').startswith('spatialmath'):
        d = getattr(x, 'data', None)
        if isinstance(d, list) and any(isinstance(e, np.ndarray) and e.dtype == object for e in d):
            return []           # symbolic values are explored by their own descriptors only (SymPy is slow; see `slow`)
        if isinstance(d, list) and len(d) != 1:
            return [CLS2KIND[n] + '*'] if len(d) > 1 else []
        return [CLS2KIND[n]]
    return []


# --------------------------------------------------------------------------- call descriptors

class D:
    """name, f(*args), kinds per argument ('=' + constant for fixed), mutates receiver?, random?"""

    def __init__(self, name, f, kinds, consts=None, mut=False, rand=False, site=None):
        self.name, self.f, self.kinds, self.consts, self.mut, self.rand = name, f, list(kinds), consts or {}, mut, rand
        self.site = site or name.split('/')[0]

    def fresh_args(self, forms=None, alt=0):
        out = []
        for i, k in enumerate(self.kinds):
            if i in self.consts:
                out.append(self.consts[i])
            else:
                out.append(make(k, (forms or {}).get(i, '1d'), alt=alt + (i if i else 0) % 2))
        return out


_DESC = []


def descriptors():
    if _DESC:
        return _DESC
    S = sm()
    import spatialmath.base as b
    from mc.props import c15
    out = []
    # 1. vector functions and class constructors from the C15 signature table
    for ei, (site, f, params, kw, kind) in enumerate(c15.table()):
        kinds, consts = [], {}
        for i, p in enumerate(params):
            if p[0] == 'v':
                n = p[1]
                kinds.append({1: 'v1', 2: 'v2', 3: 'v3', 4: 'q' if site.endswith(('q2r', 'q2v', 'isunit', 'qvmul', 'slerp', 'dot', 'dotb', 'angle')) else 'v4', 6: 'v6'}[n])
                if site in ('base.v2q', 'base.vvmul', 'UnitQuaternion.Vec3'):
                    consts[i] = None        # needs |v| < 1: a small vector, built below
            else:
                kinds.append('c')
                consts[i] = p[1]
        ff = (lambda f, kw: (lambda *a: f(*a, **kw)))(f, kw)
        d = D('%s#%d' % (site, ei), ff, kinds, consts, site=site)
        d.vecforms = 'base' if kind == 'base' else 'class'
        if any(v is None for v in consts.values()):
            small = [i for i, v in consts.items() if v is None]
            for i in small:
                del d.consts[i]
            d.small = small
        out.append(d)
    # 2. matrix-argument base functions
    M = [('t2r', ['T3']), ('t2r', ['T2']), ('r2t', ['R3']), ('r2t', ['R2']), ('tr2rt', ['T3']), ('tr2rt', ['T2']), ('rt2tr', ['R3', 'v3']), ('rt2tr', ['R2', 'v2']),
         ('trinv', ['T3']), ('trinv2', ['T2']), ('trlog', ['T3']), ('trlog', ['R3']), ('trlog2', ['T2']), ('trlog2', ['R2']), ('trnorm', ['T3']), ('trnorm', ['R3']),
         ('trnorm2', ['T2']), ('trnorm2', ['R2']), ('tr2rpy', ['T3']), ('tr2rpy', ['R3']), ('tr2eul', ['R3']), ('tr2angvec', ['R3']), ('tr2angvec', ['T3']),
         ('tr2xyt', ['T2']), ('tr2delta', ['T3']), ('tr2delta', ['T3', 'T3']), ('tr2jac', ['T3']), ('trinterp', ['T3', 'T3', '=0.3']), ('trinterp', ['R3', 'R3', '=0.3']),
         ('trinterp2', ['T2', 'T2', '=0.3']), ('trinterp2', ['R2', 'R2', '=0.3']), ('r2q', ['R3']), ('isR', ['R3']), ('isrot', ['R3']), ('ishom', ['T3']),
         ('isrot2', ['R2']), ('ishom2', ['T2']), ('isskew', ['so3m']), ('isskewa', ['se3m']), ('iseye', ['R3']), ('vex', ['so3m']), ('vex', ['so2m']), ('vexa', ['se3m']),
         ('vexa', ['se2m']), ('trexp', ['so3m']), ('trexp', ['se3m']), ('trexp2', ['so2m']), ('trexp2', ['se2m']), ('transl', ['T3']), ('transl2', ['T2']),
         ('homtrans', ['T3', 'pts3']), ('homtrans', ['T3', 'v3']), ('homtrans', ['T2', 'pts2']), ('h2e', ['pts3']), ('e2h', ['pts3']), ('e2h', ['v3']), ('h2e', ['v4']),
         ('removesmall', ['T3']), ('removesmall', ['v6']), ('Ab2M', ['R3', 'v3']), ('ismatrix', ['T3', '=(4, 4)']), ('getmatrix', ['T3', '=(4, 4)']),
         ('trotx', ['ang']), ('rotx', ['ang']), ('rot2', ['ang']), ('trot2', ['ang']), ('det', ['R3'])]
    for name, kinds in M:
        if not hasattr(b, name):
            continue
        consts = {i: eval(k[1:]) for i, k in enumerate(kinds) if k.startswith('=')}
        out.append(D('base.%s/%s' % (name, ','.join(kinds)), getattr(b, name), [k if not k.startswith('=') else 'c' for k in kinds], consts, site='base.' + name))
        zk = [{'T3': 'T3z', 'T2': 'T2z', 'R3': 'R3z', 'R2': 'R2z'}.get(k, k) for k in kinds]
        if zk != kinds:
            out.append(D('base.%s/%s' % (name, ','.join(zk)), getattr(b, name), [k if not k.startswith('=') else 'c' for k in zk], consts, site='base.' + name))
        uk = [{'T3': 'T3u', 'R3': 'R3u'}.get(k, k) for k in kinds]
        if uk != kinds:
            out.append(D('base.%s/%s' % (name, ','.join(uk)), getattr(b, name), [k if not k.startswith('=') else 'c' for k in uk], consts, site='base.' + name))
    # 2b. printing and formatting (output to a scratch stream): reading a value must not change it
    import io
    for name, kinds in (('trprint', ['T3']), ('trprint', ['R3']), ('trprint', ['T3z']), ('trprint', ['R3z']), ('trprint', ['T3u']), ('trprint', ['R3u']), ('trprint2', ['T2']), ('trprint2', ['R2']), ('trprint2', ['T2z']),
                        ('trprint2', ['R2z'])):
        for kw in ({}, {'orient': 'eul'}, {'orient': 'angvec'}, {'unit': 'rad'}, {'label': 'T'}, {'fmt': '{:.4f}'}, {'fmt': '{:.2g}', 'unit': 'rad'}, {'degsym': False},
                   {'orient': 'eul', 'fmt': '{:.3f}'}, {'orient': 'eul', 'degsym': False}):
            if name == 'trprint2' and 'orient' in kw:
                continue
            def ff(T, name=name, kw=kw):
                f = io.StringIO()
                r = getattr(b, name)(T, file=f, **kw)
                return (r, f.getvalue())            # what was written is part of the answer
            out.append(D('base.%s/%s/%s' % (name, ','.join(kinds), ','.join('%s=%s' % kv for kv in kw.items())), ff, kinds, {}, site='base.' + name))
    def quiet(f):
        def g(*a):
            import contextlib
            with contextlib.redirect_stdout(io.StringIO()):
                return f(*a)
        return g
    for kind in ['SO2', 'SE2', 'SO3', 'SE3', 'SE3z', 'SE2z', 'SO3z', 'SE3u', 'SO3u', 'SE3*', 'SE2*', 'SO3*', 'SO2*']:
        cn = type(make(kind)).__name__
        out.append(D('%s.printline(None)/%s' % (cn, kind), quiet(lambda x: x.printline(file=None)), [kind], site=cn + '.printline'))
        out.append(D('%s.printline(file)/%s' % (cn, kind), quiet(lambda x: x.printline(file=io.StringIO())), [kind], site=cn + '.printline'))
        out.append(D('%s.printline(eul)/%s' % (cn, kind), quiet(lambda x: x.printline(file=io.StringIO(), orient='eul') if x.N == 3 else x.printline(file=io.StringIO(), unit='rad')), [kind], site=cn + '.printline'))
    for kind in OBJ_KINDS + MULTI + ['SE3z', 'SE2z', 'SO3z', 'SE3u', 'SO3u', 'Qtiny', 'UQtiny']:
        cn = type(make(kind)).__name__
        out.append(D('str/%s' % kind, lambda x: str(x), [kind], site=cn + '.__str__'))
        out.append(D('repr/%s' % kind, lambda x: __import__('re').sub(r'0x[0-9a-f]+', '0x', repr(x)), [kind], site=cn + '.__repr__'))      # (default object repr carries an address)
    out.append(D('Plucker.intersect_volume/PL,bnd', lambda l, bnd: l.intersect_volume(bnd), ['PL', 'bnd'], {}, site='Plucker.intersect_volume'))
    out.append(D('Plucker.intersect_volume/PL,bnd6', lambda l, bnd: l.intersect_volume(-2.0 * bnd), ['PL', 'bnd'], {}, site='Plucker.intersect_volume'))
    # 3. classes by reflection: properties and nullary methods, on single- and multi-valued receivers
    skip = {'plot', 'animate', 'printline', 'print', 'about', 'Rand', 'Alloc', 'Empty', 'simplify', 'plot_intersect_volume', 'intersect_volume', 'pop', 'clear',
            'reverse', 'copy', 'sort', 'count', 'index', 'remove', 'append', 'extend', 'insert', 'arghandler', 'binop', 'unop', 'isvalid', 'data'}
    for kind in OBJ_KINDS + MULTI + ['SE3z', 'SE2z', 'SO3z', 'SE3u', 'SO3u', 'Qtiny', 'UQtiny']:
        o = make(kind)
        C = type(o)
        for an in sorted(set(dir(C))):
            if an.startswith('_') or an in skip:
                continue
            attr = inspect.getattr_static(C, an)
            if isinstance(attr, property):
                out.append(D('%s.%s[prop]/%s' % (C.__name__, an, kind), (lambda an: (lambda x: getattr(x, an)))(an), [kind], site='%s.%s' % (C.__name__, an)))
            elif isinstance(attr, (staticmethod, classmethod)):
                continue
            elif callable(attr):
                try:
                    sig = inspect.signature(attr)
                except (TypeError, ValueError):
                    continue
                req = [p for p in list(sig.parameters.values())[1:] if p.default is inspect._empty and p.kind in (p.POSITIONAL_ONLY, p.POSITIONAL_OR_KEYWORD)]
                if not req:
                    out.append(D('%s.%s()/%s' % (C.__name__, an, kind), (lambda an: (lambda x: getattr(x, an)()))(an), [kind], site='%s.%s' % (C.__name__, an)))
    # 4. methods with arguments
    A = [('SO3.interp', lambda x, s: x.interp(s), ['SO3', 'c'], {1: 0.3}), ('SE3.interp', lambda x, s: x.interp(s), ['SE3', 'c'], {1: 0.3}),
         ('SE3.interp/start', lambda x, y: x.interp(0.3, start=y), ['SE3', 'SE3'], {}), ('SE2.interp', lambda x, s: x.interp(s), ['SE2', 'c'], {1: 0.3}),
         ('UnitQuaternion.interp', lambda x, y: x.interp(0.3, dest=y), ['UQ', 'UQ'], {}), ('SE3.delta', lambda x, y: x.delta(y), ['SE3', 'SE3'], {}),
         ('Twist3.exp', lambda x, a: x.exp(a), ['Tw3', 'ang'], {}), ('Twist2.exp', lambda x, a: x.exp(a), ['Tw2', 'ang'], {}),
         ('Quaternion.inner', lambda x, y: x.inner(y), ['Q', 'Q'], {}), ('UnitQuaternion.dot', lambda x, w: x.dot(w), ['UQ', 'v3'], {}),
         ('UnitQuaternion.angle', lambda x, y: x.angle(y), ['UQ', 'UQ'], {}), ('SpatialVelocity.cross', lambda x, y: x.cross(y), ['SV', 'SA'], {}),
         ('SpatialVelocity.cross/F', lambda x, y: x.cross(y), ['SV', 'SF'], {}), ('Plucker.closest', lambda x, p: x.closest(p), ['PL', 'v3'], {}),
         ('Plucker.contains', lambda x, p: x.contains(p), ['PL', 'v3'], {}), ('Plucker.point', lambda x, l: x.point(l), ['PL', 's'], {}),
         ('UnitQuaternion.interp/shortest', lambda x, y: x.interp(0.3, dest=y, shortest=True), ['UQ', 'UQn'], {}),
         ('UnitQuaternion.interp/shortest/vec', lambda x, y: x.interp([0.2, 0.6], dest=y, shortest=True), ['UQ', 'UQn'], {}),
         ('UnitQuaternion.interp/shortest/nodest', lambda x: x.interp(0.3, shortest=True), ['UQn'], {}),
         ('base.slerp/shortest', lambda x, y: __import__('spatialmath.base', fromlist=['slerp']).slerp(x.vec, y.vec, 0.3, shortest=True), ['UQ', 'UQn'], {}),
         ('UnitQuaternion.eq', lambda x, y: x == y, ['UQ', 'UQn'], {}),
         ('Plucker.intersect_plane', lambda l, pl: l.intersect_plane(pl), ['PL', 'PLN'], {}),
         ('UnitQuaternion(Nx4)', lambda M: sm().UnitQuaternion(M), ['qN'], {}), ('UnitQuaternion(Nx4,norm=False)', lambda M: sm().UnitQuaternion(M, norm=False, check=False), ['qN'], {}),
         ('Quaternion(Nx4)?', lambda M: sm().Quaternion(list(M)), ['qN'], {}),
         ('Plucker.distance', lambda l, m: l.distance(m), ['PL', 'PL'], {}), ('Plucker.distance/par', lambda l, m: l.distance(m), ['PL', 'PLp'], {}),
         ('Plucker.distance/par', lambda l, m: l.distance(m), ['PLp', 'PL'], {}), ('Plucker.distance/anti', lambda l, m: l.distance(m), ['PL', 'PLa'], {}),
         ('Plucker.distance/meet', lambda l, m: l.distance(m), ['PL', 'PLi'], {}), ('Plucker.commonperp', lambda l, m: l.commonperp(m), ['PL', 'PLi'], {}),
         ('Plucker.commonperp/skew', lambda l, m: l.commonperp(m), ['PL', 'PL'], {}), ('Plucker.isparallel', lambda l, m: l.isparallel(m), ['PL', 'PLp'], {}),
         ('Plucker.xor', lambda l, m: l ^ m, ['PL', 'PLi'], {}), ('Plucker.xor/par', lambda l, m: l ^ m, ['PL', 'PLp'], {}), ('Plucker.or', lambda l, m: l | m, ['PL', 'PLa'], {}),
         ('Plucker.eq', lambda l, m: l == m, ['PL', 'PLp'], {}), ('Plucker.ne', lambda l, m: l != m, ['PL', 'PLa'], {}),
         ('Plucker.intersects', lambda l, m: l.intersects(m), ['PL', 'PLi'], {}), ('Plucker.intersects/par', lambda l, m: l.intersects(m), ['PL', 'PLp'], {}),
         ('Plucker.intersect_plane/4vec', lambda l, v: l.intersect_plane(v), ['PL', 'v4'], {}),
         ('Plucker.Planes', lambda p1, p2: sm().Plucker.Planes(p1, p2), ['PLN', 'PLN'], {}),
         ('Plane.contains', lambda pl, p: pl.contains(p), ['PLN', 'v3'], {}),
         ('Plane.PN', lambda p, n: sm().Plane.PN(p, n), ['v3', 'v3'], {}),
         ('Plane.P3', lambda M: sm().Plane.P3(M), ['R3'], {}),
         ('x[i]', lambda x: x[0], ['SE3*'], {}), ('x[i]', lambda x: x[1], ['SO3*'], {}), ('x[i]', lambda x: x[2], ['UQ*'], {}), ('x[i]', lambda x: x[0], ['Tw3*'], {}),
         ('x[a:b]', lambda x: x[0:2], ['SE3*'], {}), ('x[a:b]', lambda x: x[::-1], ['SO2*'], {}), ('iter', lambda x: [e for e in x], ['SE3*'], {}),
         ('copy-ctor', lambda x: type(x)(x), ['SE3*'], {}), ('copy-ctor', lambda x: type(x)(x), ['SO3'], {}), ('copy-ctor', lambda x: type(x)(x), ['UQ*'], {}),
         ('copy-ctor', lambda x: type(x)(x), ['Tw3'], {}), ('list-ctor', lambda x, y: type(x)([x, y]), ['SE3', 'SE3'], {}), ('list-ctor', lambda x, y: type(x)([x, y]), ['UQ', 'UQ'], {}),
         ('array-ctor', lambda T: sm().SE3(T), ['T3'], {}), ('array-ctor', lambda R: sm().SO3(R), ['R3'], {}), ('array-ctor', lambda T: sm().SE2(T), ['T2'], {}),
         ('array-ctor', lambda q: sm().UnitQuaternion(q), ['q'], {}), ('array-ctor', lambda v: sm().Twist3(v), ['v6'], {}), ('arraylist-ctor', lambda T, U: sm().SE3([T, U]), ['T3', 'T3'], {}),
         ('UnitQuaternion(SE3)', lambda x: sm().UnitQuaternion(x), ['SE3'], {}), ('UnitQuaternion(R)', lambda R: sm().UnitQuaternion(R), ['R3'], {}),
         ('Twist3(SE3)', lambda x: sm().Twist3(x), ['SE3'], {}), ('UnitDualQuaternion(SE3)', lambda x: sm().UnitDualQuaternion(x), ['SE3'], {}),
         ('SE3.SO3', lambda x: sm().SE3.SO3(x), ['SO3'], {}), ('SpatialInertia', lambda m, c, I: sm().SpatialInertia(m, c, I), ['s', 'v3', 'R3'], {})]
    for ak in ('ang0d', 'ang1'):
        for cn in ('SO3', 'SE3', 'UnitQuaternion', 'Twist3'):
            for fn in ('Rx', 'Ry', 'Rz'):
                for u in ('rad', 'deg'):
                    A.append(('%s.%s/%s/%s' % (cn, fn, ak, u), (lambda cn, fn, u: (lambda a: getattr(getattr(sm(), cn), fn)(a, u)))(cn, fn, u), [ak], {}))
        for u in ('rad', 'deg'):
            A.append(('UnitQuaternion.AngVec/%s/%s' % (ak, u), (lambda u: (lambda a, v: sm().UnitQuaternion.AngVec(a, v, unit=u)))(u), [ak, 'v3'], {}))
            A.append(('SO3.AngVec/%s/%s' % (ak, u), (lambda u: (lambda a, v: sm().SO3.AngVec(a, v, unit=u)))(u), [ak, 'v3'], {}))
            A.append(('SO2/%s/%s' % (ak, u), (lambda u: (lambda a: sm().SO2(a, unit=u)))(u), [ak], {}))
            A.append(('Twist3.exp/%s/%s' % (ak, u), quiet((lambda u: (lambda x, a: x.exp(a, u)))(u)), ['Tw3', ak], {}))
            A.append(('Twist2.exp/%s/%s' % (ak, u), quiet((lambda u: (lambda x, a: x.exp(a, u)))(u)), ['Tw2', ak], {}))
            A.append(('base.getunit/%s/%s' % (ak, u), (lambda u: (lambda a: __import__('spatialmath.base', fromlist=['getunit']).getunit(a, u)))(u), [ak], {}))
            for fn in ('rotx', 'trotz', 'rot2'):
                A.append(('base.%s/%s/%s' % (fn, ak, u), (lambda fn, u: (lambda a: getattr(__import__('spatialmath.base', fromlist=[fn]), fn)(a, u)))(fn, u), [ak], {}))
        A.append(('SE3.interp/%s' % ak, lambda x, a: x.interp(a * 0.5), ['SE3', ak], {}))
        A.append(('UnitQuaternion.interp/%s' % ak, lambda x, y, a: x.interp(a * 0.5, dest=y), ['UQ', 'UQ', ak], {}))
    for name, f, kinds, consts in A:
        out.append(D('%s/%s' % (name, ','.join(kinds)), f, kinds, consts, site=name.split('/')[0]))
    # 5. binary and augmented operators
    BIN = [('*', operator.mul), ('/', operator.truediv), ('+', operator.add), ('-', operator.sub), ('==', operator.eq), ('!=', operator.ne), ('@', operator.matmul)]
    AUG = [('*=', operator.imul), ('/=', operator.itruediv), ('+=', operator.iadd), ('-=', operator.isub)]
    pairs = []
    for k in ['SO2', 'SE2', 'SO3', 'SE3', 'UQ', 'Q', 'Tw2', 'Tw3', 'SV', 'SA', 'SF', 'SM', 'SI', 'PL', 'DQ', 'UDQ']:
        pairs += [(k, k), (k, 's')]
        if k + '*' in MULTI:
            pairs += [(k + '*', k), (k, k + '*'), (k + '*', k + '*')]
    pairs += [('s', k) for k in ('SO3', 'SE3', 'SE2', 'UQ', 'Q', 'Tw3', 'Tw2')]
    pairs += [('SO3', 'v3'), ('SE3', 'v3'), ('SE3', 'pts3'), ('SO2', 'v2'), ('SE2', 'v2'), ('UQ', 'v3'), ('UDQ', 'v3'), ('SE3*', 'v3'), ('SE3', 'PL'), ('SE3', 'SV'), ('SE3', 'SF'),
              ('Tw3', 'SE3'), ('Tw2', 'SE2'), ('SI', 'SA'), ('SI', 'SV'), ('SV', 'SA'), ('SV', 'SF'), ('Q', 'UQ'), ('UQ', 'Q'), ('SE3', 'T3'), ('SO3', 'R3')]
    # a NumPy array on the LEFT (NumPy defers to the reflected methods of the library classes)
    left_arrays = [('T3', 'SE3'), ('R3', 'SO3'), ('T2', 'SE2'), ('R2', 'SO2'), ('T3', 'SE3*'), ('v3', 'SO3'), ('v3', 'SE3'), ('v2', 'SE2'), ('pts3', 'SE3'), ('v4', 'Q'), ('v4', 'UQ'), ('v6', 'Tw3'),
                   ('R3', 'UQ'), ('T3', 'Tw3')]
    for (lk, rk), (on, of) in itertools.product(left_arrays, BIN):      # binary forms only: `list += obj` is Python's own list.extend
        out.append(D('op %s/%s,%s' % (on, lk, rk), of, [lk, rk], site='operator' + on))
    for (lk, rk), (on, of) in itertools.product(pairs, BIN):
        out.append(D('op %s/%s,%s' % (on, lk, rk), of, [lk, rk], site='operator' + on))
    for (lk, rk), (on, of) in itertools.product(pairs, AUG):
        d = D('op %s/%s,%s' % (on, lk, rk), of, [lk, rk], site='operator' + on)
        d.aug = {'*=': operator.mul, '/=': operator.truediv, '+=': operator.add, '-=': operator.sub}[on]
        out.append(d)
    for k in ['SO2', 'SE2', 'SO3', 'SE3', 'UQ', 'Q', 'SE3*', 'UQ*']:
        for n in (-2, 0, 3):
            out.append(D('op **%d/%s' % (n, k), (lambda n: (lambda x: x ** n))(n), [k], site='operator**'))
        out.append(D('op **=/%s' % k, lambda x: operator.ipow(x, 2), [k], site='operator**='))
    # 6. documented mutators: receiver may change, arguments may not
    for k, e in (('SE3*', 'SE3'), ('UQ*', 'UQ'), ('Tw3*', 'Tw3'), ('SO2*', 'SO2'), ('Q*', 'Q')):
        out.append(D('append/%s' % k, lambda x, y: x.append(y), [k, e], mut=True, site='list.append'))
        out.append(D('extend/%s' % k, lambda x, y: x.extend(y), [k, k], mut=True, site='list.extend'))
        out.append(D('insert/%s' % k, lambda x, y: x.insert(1, y), [k, e], mut=True, site='list.insert'))
        out.append(D('setitem/%s' % k, lambda x, y: x.__setitem__(0, y), [k, e], mut=True, site='list.setitem'))
        out.append(D('pop/%s' % k, lambda x: x.pop(), [k], mut=True, site='list.pop'))
        out.append(D('reverse/%s' % k, lambda x: x.reverse(), [k], mut=True, site='list.reverse'))
        out.append(D('clear/%s' % k, lambda x: x.clear(), [k], mut=True, site='list.clear'))
        out.append(D('delitem/%s' % k, lambda x: x.__delitem__(0), [k], mut=True, site='list.delitem'))
    # 7. random constructors (outputs may differ; arguments must not change)
    for cn in ('SO2', 'SE2', 'SO3', 'SE3', 'UnitQuaternion', 'Twist3'):
        out.append(D('%s.Rand' % cn, (lambda cn: (lambda: getattr(sm(), cn).Rand()))(cn), [], rand=True, site=cn + '.Rand'))
    # 7b. symbolic poses (object-dtype values): simplify(), inverse, products, element access - the receiver's expressions stay as they are
    for k in ('SE3sym', 'SO3sym', 'SE2sym', 'SO2sym', 'SE3sym*', 'SO3sym*'):
        cn = k[:3]
        sym = [D('%s.simplify/%s' % (cn, k), lambda x: x.simplify(), [k], site=cn + '.simplify'), D('%s.inv/%s' % (cn, k), lambda x: x.inv(), [k], site=cn + '.inv'),
               D('%s.A/%s' % (cn, k), lambda x: x.A, [k], site=cn + '.A'), D('str/%s' % k, lambda x: str(x), [k], site=cn + '.__str__')]
        if not k.endswith('*'):
            sym.append(D('op */%s,%s' % (k, k), operator.mul, [k, k], site='operator*'))
            sym.append(D('%s[0]/%s' % (cn, k), lambda x: x[0], [k], site=cn + '.getitem'))
        else:
            sym.append(D('%s[1]/%s' % (cn, k), lambda x: x[1], [k], site=cn + '.getitem'))
        for d_ in sym:
            d_.slow = True          # depth 1 and pairs among themselves only
        out += sym
    # 8. memory layout: every matrix-argument base function, and the methods / operators that take a block of points, once more with
    #    column-major arguments
    ARR2 = ('R3', 'T3', 'R2', 'T2', 'pts3', 'pts2', 'so3m', 'se3m', 'so2m', 'se2m', 'qN')
    out.append(D('Plucker.contains/PL,pts3', lambda x, p: x.contains(p), ['PL', 'pts3'], {}, site='Plucker.contains'))
    out.append(D('Plucker.contains/PLp,pts3', lambda x, p: x.contains(p), ['PLp', 'pts3'], {}, site='Plucker.contains'))
    extra = []
    for d in out:
        if (d.name.startswith('base.') or d.name.startswith(('Plucker.contains/', 'op '))) and any(k in ARR2 for k in d.kinds) and not d.mut and not d.rand:
            if d.name.startswith('base.trprint'):
                continue
            kk = [k + '@T' if k in ARR2 else k for k in d.kinds]
            e = D(d.name + '/colmajor', d.f, kk, dict(d.consts), site=d.site)
            for a in ('aug', 'vecforms', 'small'):
                if hasattr(d, a):
                    setattr(e, a, getattr(d, a))
            extra.append(e)
    out += extra
    _DESC.extend(out)
    return _DESC


def fresh(d, forms=None, alt=0):
    args = d.fresh_args(forms, alt)
    for i in getattr(d, 'small', []):
        args[i] = np.array([0.1, 0.2, -0.3]) * (1 + 0.3 * alt) if not forms or forms.get(i, '1d') == '1d' else \
            {'list': [0.1, 0.2, -0.3], 'tuple': (0.1, 0.2, -0.3), 'row': np.array([[0.1, 0.2, -0.3]]), 'col': np.array([[0.1], [0.2], [-0.3]])}[forms[i]]
    return args


def world():
    """interpreter-wide state a library call has no business changing (a later identical call would print or round differently)"""
    st = np.random.get_state()
    return (repr(sorted(np.get_printoptions().items(), key=lambda kv: kv[0])), repr(sorted(np.geterr().items())), st[0], st[1][:8].tobytes(), st[2])


def step(ctx, cid, d, args, live, P):
    """execute one call; `live` = list of (label, value, snapshot) that must survive. Returns (ok, result)"""
    before = [snap(a) for a in args]
    w0 = world()
    ok, r = call(d.f, *args)
    if not d.rand:
        w1 = world()
        if w1 != w0:
            what = 'NumPy print options' if w1[0] != w0[0] else ('NumPy error handling' if w1[1] != w0[1] else 'the global random generator')
            ctx.fail(cid, d.site, 'mutated', dict(P, arg='global', what=what), '%s changed %s' % (d.name, what))
            np.set_printoptions(**_PRINT0)
            np.seterr(**_ERR0)
    ctx.count('transitions')
    ctx.count('lockstep')
    for i, (a, s0) in enumerate(zip(args, before)):
        if i in d.consts:
            continue
        if d.mut and i == 0:
            continue
        if snap(a) != s0:
            ctx.fail(cid, d.site, 'mutated', dict(P, arg=i, kind=d.kinds[i]), '%s changed its argument %d (%s)%s' % (d.name, i, d.kinds[i], '' if ok else ' (the call raised %s)' % type(r).__name__))
    for label, v, s0 in live:
        if d.mut and any(v is a for a in args[:1]):
            continue
        if snap(v) != s0:
            ctx.fail(cid, d.site, 'mutated', dict(P, arg=label), '%s changed an earlier value (%s)' % (d.name, label))
    return ok, r


def depth1(ctx, k, K):
    DS = descriptors()
    for di, d in enumerate(DS):
        if di % K != k:
            continue
        vec_idx = [i for i, kk in enumerate(d.kinds) if kk in VECS and i not in d.consts]
        formsets = [{}]
        allowed = FORMS if getattr(d, 'vecforms', 'base') == 'base' else FORMS[:3]
        for i in vec_idx:
            for f in allowed[1:]:
                formsets.append({i: f})
        for fs in formsets:
            tag = ','.join('%d=%s' % kv for kv in sorted(fs.items())) or '1d'
            cid = 'C17/d1/%s/%s' % (d.name, tag)
            if not ctx.want(cid):
                continue
            P = dict(desc=d.name.split('#')[0].split('/')[0], forms=tag, depth=1)
            args = fresh(d, fs)
            ok, r = step(ctx, cid, d, args, [], P)
            ctx.case(cid, key=cid, trivial=not ok)
            ctx.cell(d.site, 'ok' if ok else 'raised')
            if d.rand:
                continue
            # determinism: the same call on equal fresh inputs gives an equal output
            args2 = fresh(d, fs)
            ok2, r2 = call(d.f, *args2)
            if ok != ok2 or (ok and snap(r) != snap(r2)) or ((not ok) and type(r) is not type(r2)):
                ctx.fail(cid, d.site, 'mismatch', dict(P, what='repeat'), '%s evaluated twice on equal inputs gave different outputs' % d.name)
            if hasattr(d, 'aug') and ok:
                argsb = fresh(d, fs)
                okb, rb = call(d.aug, *argsb)
                if not okb or snap(rb) != snap(r):
                    ctx.fail(cid, d.site, 'mismatch', dict(P, what='augmented'), '%s differs from the binary operator' % d.name)


def depth2(ctx, k, K, depth3=False):
    DS = descriptors()
    by_kind = {}
    for d in DS:
        for i, kk in enumerate(d.kinds):
            if i not in d.consts and kk != 'c':
                by_kind.setdefault(kk, []).append((d, i))
    nstates = 0
    for di, d1 in enumerate(DS):
        if di % K != k or d1.rand:
            continue
        args1 = fresh(d1)
        ok1, r1 = call(d1.f, *args1)
        if not ok1 or r1 is None:
            continue
        results = list(r1) if isinstance(r1, tuple) else [r1]
        for ri, r in enumerate(results):
            for kk in kinds_of(r):
                for d2, slot in by_kind.get(kk, []):
                    cid = 'C17/d2/%s/r%d->%s@%d' % (d1.name, ri, d2.name, slot)
                    if not (ctx.want(cid) or (depth3 and ctx.only and ctx.only.startswith(cid + '/->'))):
                        continue
                    # rebuild the history so that every case starts from fresh, unshared values
                    a1 = fresh(d1)
                    okx, rx = call(d1.f, *a1)
                    if not okx:
                        continue
                    rr = (list(rx) if isinstance(rx, tuple) else [rx])[ri]
                    a2 = fresh(d2, alt=1)
                    a2[slot] = rr
                    live = [('arg%d of %s' % (i, d1.name), a, snap(a)) for i, a in enumerate(a1) if i not in d1.consts and not (d1.mut and i == 0)]
                    live.append(('result of %s' % d1.name, rx, snap(rx)))
                    P = dict(desc=d2.name.split('#')[0].split('/')[0], first=d1.name.split('#')[0].split('/')[0], depth=2, slot=slot)
                    ok2, r2 = step(ctx, cid, d2, a2, live, P)
                    ctx.case(cid, key=cid, trivial=not ok2)
                    nstates += 1
                    if depth3 and ok2 and r2 is not None and alph.thin(cid, 'thorough', 16, 16):
                        res2 = list(r2) if isinstance(r2, tuple) else [r2]
                        # values the second call is documented to change (the receiver of a mutating method) are re-read afterwards
                        live2 = [(l, v, s0) for l, v, s0 in live if not (d2.mut and v is a2[0])] + [('arg%d of %s' % (i, d2.name), a, snap(a)) for i, a in enumerate(a2) if i not in d2.consts and not (d2.mut and i == 0)]
                        live2.append(('result of %s' % d2.name, r2, snap(r2)))
                        for k3 in kinds_of(res2[0]):
                            for d3, slot3 in by_kind.get(k3, [])[::7]:
                                cid3 = cid + '/->%s@%d' % (d3.name, slot3)
                                if not ctx.want(cid3):
                                    continue
                                a3 = fresh(d3, alt=2)
                                a3[slot3] = res2[0]
                                ok3, r3 = step(ctx, cid3, d3, a3, live2, dict(P, desc=d3.name.split('#')[0].split('/')[0], depth=3))
                                ctx.case(cid3, key=cid3, trivial=not ok3)
                                nstates += 1
                                # the live values of the prefix must be intact for the next sibling: rebuild if something changed
                                if any(snap(v) != s0 for _, v, s0 in live2):
                                    break
    ctx.count('states', nstates)


def independent(ctx, k, K):
    """histories (d1 ; d2) in which the second call does NOT receive the first result: an earlier result (and the earlier
    arguments) must survive ANY later call - this is where a scratch buffer hoisted to module scope, or a result that
    aliases shared state, shows.  quick: d2 ranges over the non-operator descriptors; thorough: over all of them"""
    DS = descriptors()
    second = [d for d in DS if not d.site.startswith('operator')] if ctx.tier == 'quick' else DS
    n = 0
    # what each second call answers when nothing was called before it in this history
    base2 = {}
    for d2 in second:
        if not d2.rand and not d2.mut:
            if getattr(d2, 'slow', False) and not any(getattr(d, 'slow', False) for i_, d in enumerate(DS) if i_ % K == k):
                continue
            okb, rb = call(d2.f, *fresh(d2, alt=1))
            base2[d2.name] = (okb, snap(rb) if okb else type(rb).__name__)
    for di, d1 in enumerate(DS):
        if di % K != k or d1.rand:
            continue
        a1 = fresh(d1)
        ok1, r1 = call(d1.f, *a1)
        if not ok1 or r1 is None or isinstance(r1, (bool, float, int, np.bool_, np.floating)):
            continue
        s1, sa = snap(r1), [snap(a) for a in a1]
        # the same function again with other arguments, then every other descriptor
        for d2 in [d1] + second:
            if getattr(d2, 'slow', False) and not getattr(d1, 'slow', False) and d2 is not d1:
                continue
            cid = 'C17/ind/%s;%s' % (d1.name, d2.name)
            if not ctx.want(cid, walk=True):
                continue
            a2 = fresh(d2, alt=1)
            ok2, r2 = call(d2.f, *a2)
            n += 1
            ctx.case(cid, key=cid, trivial=not ok2)
            ctx.count('transitions')
            ctx.count('lockstep')
            bad = None
            if snap(r1) != s1:
                bad = 'the result of the earlier call %s' % d1.name
            elif [snap(a) for a in a1] != sa:
                bad = 'an argument of the earlier call %s' % d1.name
            if d2.name in base2 and base2[d2.name] != (ok2, snap(r2) if ok2 else type(r2).__name__):
                ctx.fail(cid, d2.site, 'mismatch', dict(desc=d2.name.split('#')[0].split('/')[0], first=d1.name.split('#')[0].split('/')[0], depth=2, mode='independent', what='history'),
                         '%s on equal inputs answers differently after %s than before it' % (d2.name, d1.name))
                np.set_printoptions(**_PRINT0)
            if bad:
                ctx.fail(cid, d2.site, 'mutated', dict(desc=d2.name.split('#')[0].split('/')[0], first=d1.name.split('#')[0].split('/')[0], depth=2, mode='independent'),
                         'calling %s changed %s' % (d2.name, bad))
                a1 = fresh(d1)
                ok1, r1 = call(d1.f, *a1)
                s1, sa = snap(r1), [snap(a) for a in a1]
    ctx.count('states', n)


def shards(tier, seed):
    K = 16
    out = [('d1', k, K) for k in range(K)]
    out += [('ind', k, 32) for k in range(32)]
    K2 = 32 if tier == 'quick' else 64
    out += [('d2', k, K2) for k in range(K2)]
    return out


def run_shard(ctx, shard):
    np.random.seed(12345)          # the Rand constructors draw from NumPy's global generator: owned by the harness
    if shard[0] == 'd1':
        depth1(ctx, shard[1], shard[2])
        ctx.count('states', 1)
    elif shard[0] == 'ind':
        independent(ctx, shard[1], shard[2])
    else:
        depth2(ctx, shard[1], shard[2], depth3=(ctx.tier != 'quick'))
