"""
C19  Pluecker lines: incidence, projection and rigid transformation are consistent.

E1 product explorer.  A *base line* is a letter tuple (point letter x magnitude, unit direction letter x
length letter); it is handed to the library through every constructor (PQ, PointDir, Planes in two plane
forms and two dihedral angles).  For every constructed line the single-line family checks the constructor
result, contains (defining points, point(lambda), points off the line, 3xN form), pp / ppd, point(lambda),
closest(x), T*L for every T of the SE(3) generator set and intersect_plane for a plane alphabet.  The pair
family builds, for every base line, second lines in known relative position (skew with known feet,
intersecting in a known point, parallel / antiparallel at known distance, coincident with exact power-of-two
rescaling, reversed) and checks ==, !=, |, isparallel, ^, distance and commonperp in both operand orders
against the ground truth of the construction.  A small third family checks Plane.PN / Plane.P3 membership.

All reference values are computed from the defining data with plain numpy (mc.props.c19 helpers), never
from the library's (v, w).  Tolerance: 1e-9 x (largest norm of any position datum of the case).
Predicates are only tested where the ground truth is exact in the defining data (common defining point,
identical or power-of-two rescaled direction vector) or separated by >= 1e-3 relative / 1e-2 rad.
"""
import math, itertools
import numpy as np
from mc.core import call, HarnessError
from mc import alph, hist

PROP = 'C19'
LEVEL = 'exploration'
RULE = ('full product of base lines (point letter {origin, 2 axis points, generic pool} x magnitude ladder x unit '
        'direction alphabet {coordinate axes, generic pool, near-degenerate} x length {1e-3,1,1e3}) x constructor '
        '{PQ, PointDir, Planes x {Plane objects, 4-vectors} x dihedral {pi/2, 0.7}} x { single-line methods x their '
        'argument alphabets (lambda, query points, SE3 generator set, plane angle x normal length x plane form) ; on the '
        'quick magnitude/length ladder and 3 (quick) or 4 (thorough) of the constructors: '
        'second line in relation {skew, intersecting, parallel, coincident} x {angle, distance, offsets, rescaling, '
        'sign, constructor and length of the second line} x operand order x method }; cases whose points leave the '
        'coordinate bound 1e3 or whose direction length leaves [1e-3,1e3] are dropped; a case is trivial when the '
        'line is a coordinate axis through the origin with unit direction; distinct = distinct concrete inputs')
ASSUME = ['reference geometry (foot points, distances, plane intersections) is evaluated in float64 from the defining '
          'data; its own rounding error (<= 1e-13 relative for the angles >= 1e-2 rad used) is far below the 1e-9 tolerance',
          'data magnitude of a case = largest Euclidean norm among its position data (points, query point, |lambda|, '
          'translation); when every position datum is the origin the largest direction length is used instead',
          'a line pair whose two members share a float defining point / the same float direction vector (possibly '
          'rescaled by an exact power of two) is intersecting / parallel / coincident for the purpose of the predicates',
          'SE3 objects are built with SE3(T, check=False) from reference matrices']
_PL = ('PQ', 'Planes', 'PointDir', 'pp', 'ppd', 'point', 'contains', '__eq__', '__ne__', 'isparallel', '__or__',
       '__xor__', 'intersects', 'distance', 'closest', 'commonperp', '__mul__', '__rmul__', 'intersect_plane')
ANCHORS = [('spatialmath.geom3d', 'Plucker.' + n) for n in _PL] + \
          [('spatialmath.geom3d', 'Plane.' + n) for n in ('__init__', 'PN', 'P3', 'contains')]

TOL = 1e-9
LIM = 1e3            # coordinate bound of the quantifier
DMIN, DMAX = 1e-3, 1e3
PI = math.pi


def _lib():
    from spatialmath import SE3
    from spatialmath.geom3d import Plucker, Plane
    return SE3, Plucker, Plane


# --------------------------------------------------------------------------- small vector helpers (reference side)

def vec(x):
    return np.array(x, dtype=float).reshape(-1)


def cross(a, b):
    return np.array([a[1] * b[2] - a[2] * b[1], a[2] * b[0] - a[0] * b[2], a[0] * b[1] - a[1] * b[0]])


def dot(a, b):
    return float(a[0] * b[0] + a[1] * b[1] + a[2] * b[2])


def norm(a):
    return math.sqrt(dot(a, a))


def unit(a):
    return a / norm(a)


def frame(u):
    """unit n, b with n _|_ u, b = n x u (so u, b, n is an orthonormal triple)"""
    k = int(np.argmin(np.abs(u)))
    e = np.zeros(3)
    e[k] = 1.0
    n = unit(cross(u, e))
    b = cross(n, u)
    return n, unit(b)


def pl_dist(x, p, u):
    """distance of x from the line through p with unit direction u"""
    return norm(cross(x - p, u))


def foot(x, p, u):
    return p + dot(x - p, u) * u


def ll_dist(p1, u1, p2, u2):
    n = cross(u1, u2)
    s = norm(n)
    r = p2 - p1
    if s < 1e-6:
        return norm(cross(r, u1))
    return abs(dot(r, n)) / s


def indom(*pts):
    for p in pts:
        if float(np.max(np.abs(p))) > LIM:
            return False
    return True


def inward(p, v):
    """+v or -v, whichever does not move p away from the origin"""
    return -v if dot(p, v) > 0 else v


def finite(*xs):
    for x in xs:
        if not np.all(np.isfinite(np.asarray(x, dtype=float))):
            return False
    return True


def nfkind(*xs):
    for x in xs:
        if np.any(np.isnan(np.asarray(x, dtype=float))):
            return 'nan'
    return 'nonfinite'


def f3(x):
    return '(' + ', '.join('%.17g' % float(t) for t in np.asarray(x, dtype=float).ravel()) + ')'


# --------------------------------------------------------------------------- alphabets

def mags(tier):
    if tier == 'quick':
        return [('1e-3', 1e-3), ('1', 1.0), ('1e3', 1e3)]
    return [('1e-3', 1e-3), ('1e-2', 1e-2), ('1e-1', 1e-1), ('1', 1.0), ('10', 10.0), ('1e2', 1e2), ('1e3', 1e3)]


PAIR_MAGS = ('1e-3', '1', '1e3')      # the pair family uses the quick magnitude ladder in both tiers

LENS = [('1e-3', 1e-3), ('1', 1.0), ('1e3', 1e3)]


def lens(tier):
    if tier == 'quick':
        return list(LENS)
    return LENS + [('0.03', 0.03), ('25', 25.0)]


PAIR_LENS = ('1e-3', '1', '1e3')


def points(tier, seed):
    """[(point letter, magnitude letter, P)]"""
    out = [('O', '0', np.zeros(3))]
    dirs = [('+x', np.array([1.0, 0, 0])), ('-y', np.array([0, -1.0, 0]))]
    dirs += [(n, alph.unit(v)) for n, v in alph.pick(alph.G_VEC3, tier, seed, 4)]
    for mn, m in mags(tier):
        for dn, d in dirs:
            out.append((dn, mn, m * d))
    return out


def directions(tier, seed):
    return alph.axes(tier, seed)


CTORS = [('PQ', '-', '-'), ('PointDir', '-', '-'),
         ('Planes', 'PN', 'pi/2'), ('Planes', 'vec4', '0.7'), ('Planes', 'vec4', 'pi/2'), ('Planes', 'PN', '0.7'),
         # one plane as an object, the other as coefficients (array, list): the two arguments are converted independently
         ('Planes', 'PN+vec4', '0.7'), ('Planes', 'list+PN', 'pi/2')]


def pair_ctors(tier):
    return CTORS[:3] if tier == 'quick' else CTORS[:4]


PHI = {'pi/2': PI / 2, '0.7': 0.7}

LAMBDAS = [('0', 0.0), ('1e-3', 1e-3), ('-0.7', -0.7), ('30', 30.0), ('-1e3', -1e3)]


def queries(tier, seed):
    """query points for closest(): [(name, x)]; the magnitude is tied to the pool index of the generic letter"""
    out = [('O', np.zeros(3))]
    ms = [1e-3, 1.0, 1e3]
    for n, v in alph.pick(alph.G_VEC3, tier, seed, 4):
        m = ms[int(n[1:]) % 3]
        out.append(('%s*%g' % (n, m), m * alph.unit(v)))
    out.append(('ez*1e3', np.array([0, 0, 1e3])))
    return out


def motions(tier, seed):
    """SE(3) generator set (name-thinned in alph: the quick set of every seed is inside the thorough set)"""
    return alph.gen_SE(3, tier, seed)


PSI = [('0', 0.0), ('0.7', 0.7), ('pi/2-1e-2', PI / 2 - 1e-2)]
NLEN = [('1e-3', 1e-3), ('1', 1.0), ('1e3', 1e3)]
PFORM = ['Plane', 'vec4']

THETAS = [('pi/2', PI / 2), ('0.7', 0.7), ('1e-2', 1e-2)]
HS = [('1e-3', 1e-3), ('0.3', 0.3)]
OFFS = [('0', 0.0, 0.0), ('g', 0.4, -0.7)]
L2FORMS = [('PointDir', '1e-3', 1e-3), ('PointDir', '1e3', 1e3), ('PQ', '1', 1.0), ('PointDir', '1', 1.0)]


def l2forms(tier):
    return L2FORMS[:3] if tier == 'quick' else L2FORMS


SCALES = [('1', 1.0), ('2', 2.0), ('0.5', 0.5)]
SIGNS = [('+', 1.0), ('-', -1.0)]
ORDS = ['12', '21']
PAIR_METHODS = ['eq', 'ne', 'or', 'isparallel', 'xor', 'distance', 'commonperp']
SITE = {'eq': 'Plucker.__eq__', 'ne': 'Plucker.__ne__', 'or': 'Plucker.__or__', 'isparallel': 'Plucker.isparallel',
        'xor': 'Plucker.__xor__', 'distance': 'Plucker.distance', 'commonperp': 'Plucker.commonperp'}


# --------------------------------------------------------------------------- base lines and their constructors

class LineDesc:
    """one base line handed to one constructor: defining data + reference line (pref, uref)"""
    __slots__ = ('ctor', 'form', 'phi', 'pt', 'mag', 'dir', 'len', 'P', 'u', 'ln', 'd', 'defpts', 'planes',
                 'pref', 'uref', 'm', 'trivial', 'Q', 'pair', 'tag')

    def params(self):
        return {'ctor': self.ctor, 'form': self.form, 'phi': self.phi, 'pt': self.pt, 'mag': self.mag,
                'dir': self.dir, 'len': self.len, 'rel': '-'}

    def base(self):
        c = self.ctor if self.ctor != 'Planes' else 'Planes:%s:%s' % (self.form, self.phi)
        return 'C19/%s/pt=%s*%s/dir=%s*%s' % (c, self.pt, self.mag, self.dir, self.len) + ('/hist=%s' % self.tag if getattr(self, 'tag', None) else '')


def make_desc(ctor, form, phi, pt, mag, P, dname, u, lname, ln):
    """None when the constructor's data leave the domain of the quantifier"""
    ld = LineDesc()
    ld.ctor, ld.form, ld.phi, ld.pt, ld.mag, ld.dir, ld.len = ctor, form, phi, pt, mag, dname, lname
    ld.P, ld.u, ld.ln = P, u, ln
    ld.m = norm(P) if norm(P) > 0 else 1.0
    ld.planes = None
    ld.Q = None
    ld.trivial = (pt == 'O' and dname[0] in '+-' and ln == 1.0)
    if ctor == 'PQ':
        Q = P - ln * u
        if not indom(P, Q):
            return None
        ld.Q = Q
        ld.d = P - Q
        ld.defpts = [('P', P), ('Q', Q)]
        ld.pref = P
    elif ctor == 'PointDir':
        ld.d = ln * u
        ld.defpts = [('P', P)]
        ld.pref = P
    else:
        n, b = frame(u)
        f = PHI[phi]
        n1 = ln * n
        n2 = 2.0 * (math.cos(f) * n + math.sin(f) * b)
        d1 = -float(np.dot(n1, P))
        d2 = -float(np.dot(n2, P))
        ld.planes = (n1, d1, n2, d2)
        ld.d = np.cross(n1, n2)
        ld.defpts = []
        # point of both planes closest to the origin: minimum-norm solution of [n1;n2] x = -[d1;d2]
        A = np.array([n1 / norm(n1), n2 / norm(n2)])
        rhs = -np.array([d1 / norm(n1), d2 / norm(n2)])
        ld.pref = np.linalg.lstsq(A, rhs, rcond=None)[0]
    dl = norm(ld.d)
    if not (dl > 0):
        raise HarnessError('zero direction in alphabet')
    ld.uref = ld.d / dl
    return ld


def build(ld):
    """(ok, value, site): run the constructor of the line under test"""
    SE3, Plucker, Plane = _lib()
    if ld.ctor == 'PQ':
        ok, L = call(Plucker.PQ, ld.P.copy(), ld.Q.copy())
        return ok, L, 'Plucker.PQ'
    if ld.ctor == 'PointDir':
        ok, L = call(Plucker.PointDir, ld.P.copy(), ld.d.copy())
        return ok, L, 'Plucker.PointDir'
    n1, d1, n2, d2 = ld.planes
    if ld.form in ('PN+vec4', 'list+PN'):
        ok, pn = call(Plane.PN, ld.P.copy(), (n1 if ld.form == 'PN+vec4' else n2).copy())
        if not ok:
            return ok, pn, 'Plane.PN'
        # the coefficient form of the other plane passes through the same point: n.x + d = 0 with d = -n.P
        if ld.form == 'PN+vec4':
            p1, p2 = pn, np.r_[n2, -float(n2 @ ld.P)]
        else:
            p1, p2 = np.r_[n1, -float(n1 @ ld.P)].tolist(), pn
    elif ld.form == 'PN':
        ok, p1 = call(Plane.PN, ld.P.copy(), n1.copy())
        if not ok:
            return ok, p1, 'Plane.PN'
        ok, p2 = call(Plane.PN, ld.P.copy(), n2.copy())
        if not ok:
            return ok, p2, 'Plane.PN'
    else:
        p1, p2 = np.r_[n1, d1], np.r_[n2, d2]
    ok, L = call(Plucker.Planes, p1, p2)
    return ok, L, 'Plucker.Planes'


def all_letters(tier, seed):
    """letter tuples of every (base line, constructor); the last entry says whether the pair family runs on it"""
    out = []
    for pt, mag, P in points(tier, seed):
        for dn, u in directions(tier, seed):
            for ln_name, ln in lens(tier):
                for ctor, form, phi in CTORS:
                    pair = ((mag in PAIR_MAGS or mag == '0') and ln_name in PAIR_LENS and (ctor, form, phi) in pair_ctors(tier))
                    out.append((ctor, form, phi, pt, mag, P, dn, u, ln_name, ln, pair))
    return out


def lineinfo(L):
    """library-side geometric reading of a Plucker object: (v, w, pp) as float arrays"""
    return vec(L.v), vec(L.w), vec(L.pp)


def magnitude(pts, fallback):
    M = 0.0
    for p in pts:
        M = max(M, norm(np.asarray(p, dtype=float).ravel()) if np.ndim(p) else abs(float(p)))
    return M if M > 0 else fallback


def asbool(val):
    if isinstance(val, (bool, np.bool_)):
        return bool(val)
    if isinstance(val, (int, np.integer)) and val in (0, 1):
        return bool(val)
    if isinstance(val, np.ndarray) and val.size == 1 and val.dtype == bool:
        return bool(val.ravel()[0])
    return None


def check_lineobj(L, M, what):
    """None, or (kind, detail) when L is not a finite single Plucker line satisfying v.w = 0 to tolerance"""
    SE3, Plucker, Plane = _lib()
    if not isinstance(L, Plucker):
        return 'returns:' + type(L).__name__, '%s returned %r' % (what, L)
    if len(L.data) != 1:
        return 'mismatch', '%s returned %d lines' % (what, len(L.data))
    v, w = vec(L.v), vec(L.w)
    if not finite(v, w):
        return nfkind(v, w), '%s has v=%s w=%s' % (what, f3(v), f3(w))
    ww = dot(w, w)
    if not ww > 0:
        return 'invalid-member', '%s has zero direction' % what
    r = abs(dot(v, w)) / ww
    if r > TOL * M:
        return 'invalid-member', '%s violates the Pluecker constraint: |v.w|/|w|^2 = %.3g > %.3g (v=%s w=%s)' % (
            what, r, TOL * M, f3(v), f3(w))
    return None


# --------------------------------------------------------------------------- single-line family

def fam_single(ctx, ld, L, okL, siteL, tier, seed):
    SE3, Plucker, Plane = _lib()
    base = ld.base()
    P0 = ld.params()
    defnorms = [p for _, p in ld.defpts] or [ld.P]
    fb = ld.ln
    Mline = magnitude(defnorms, fb)

    # ---- constructor
    cid = base + '/ctor'
    if ctx.want(cid):
        ctx.case(cid, key=('ctor', ld.ctor, ld.form, ld.phi, ld.P.tobytes(), ld.d.tobytes()), trivial=ld.trivial)
        p = dict(P0, method='ctor')
        if not okL:
            ctx.fail(cid, siteL, 'raises:' + type(L).__name__, p, '%s raised %r' % (siteL, L))
            ctx.cell(siteL, 'raises')
        else:
            bad = check_lineobj(L, Mline, siteL)
            if bad:
                ctx.fail(cid, siteL, bad[0], p, bad[1])
                ctx.cell(siteL, bad[0])
            else:
                ok, info = call(lineinfo, L)
                if not ok:
                    ctx.fail(cid, 'Plucker.pp', 'raises:' + type(info).__name__, p, 'pp/w of a fresh line raised %r' % (info,))
                else:
                    v, w, pp = info
                    uw = unit(w)
                    msg = None
                    if not finite(pp):
                        msg = (nfkind(pp), 'pp = %s' % f3(pp))
                    for nm, X in ld.defpts:
                        r = pl_dist(X, pp, uw)
                        if msg is None and not r <= TOL * Mline:
                            msg = ('mismatch', 'defining point %s=%s is %.3g away from the line (pp=%s, w=%s); allowed %.3g'
                                   % (nm, f3(X), r, f3(pp), f3(w), TOL * Mline))
                    if ld.planes is not None and msg is None:
                        n1, d1, n2, d2 = ld.planes
                        for k, (n, d) in enumerate(((n1, d1), (n2, d2))):
                            r = abs(dot(n, pp) + d) / norm(n)
                            a = abs(dot(uw, n)) / norm(n)
                            if not (r <= TOL * Mline and a <= TOL):
                                msg = ('mismatch', 'line of Planes is not in plane %d: offset of pp %.3g (allowed %.3g), '
                                       'w.n/|w||n| = %.3g' % (k + 1, r, TOL * Mline, a))
                                break
                    if msg:
                        ctx.fail(cid, siteL, msg[0], p, msg[1])
                    ctx.cell(siteL, 'ok' if not msg else msg[0])
    if not okL:
        return
    n_, b_ = frame(ld.uref)

    # ---- pp, ppd
    ppref = foot(np.zeros(3), ld.pref, ld.uref)
    for meth in ('pp', 'ppd'):
        cid = base + '/' + meth
        if not ctx.want(cid):
            continue
        ctx.case(cid, key=(meth, ld.ctor, ld.form, ld.phi, ld.P.tobytes(), ld.d.tobytes()), trivial=ld.trivial)
        site = 'Plucker.' + meth
        p = dict(P0, method=meth)
        ok, val = call(lambda: getattr(L, meth))
        if not ok:
            ctx.fail(cid, site, 'raises:' + type(val).__name__, p, '%s raised %r' % (meth, val))
            continue
        if meth == 'pp':
            val = vec(val)
            if val.shape != (3,):
                ctx.fail(cid, site, 'mismatch', p, 'pp has shape %s' % (val.shape,))
            elif not finite(val):
                ctx.fail(cid, site, nfkind(val), p, 'pp = %s' % f3(val))
            elif not norm(val - ppref) <= TOL * Mline:
                ctx.fail(cid, site, 'mismatch', p, 'pp = %s, point of the line closest to the origin is %s (off by %.3g, allowed %.3g)'
                         % (f3(val), f3(ppref), norm(val - ppref), TOL * Mline))
            else:
                ctx.cell(site, 'ok')
        else:
            try:
                x = float(val)
            except Exception:
                ctx.fail(cid, site, 'returns:' + type(val).__name__, p, 'ppd = %r' % (val,))
                continue
            if not math.isfinite(x):
                ctx.fail(cid, site, nfkind(x), p, 'ppd = %r' % x)
            elif not abs(x - norm(ppref)) <= TOL * Mline:
                ctx.fail(cid, site, 'mismatch', p, 'ppd = %.17g, distance of the line from the origin is %.17g' % (x, norm(ppref)))
            else:
                ctx.cell(site, 'ok')

    # ---- contains: defining points, points off the line, 3xN form
    def contains_case(cid, X, expect, what, form, M):
        if not ctx.want(cid):
            return
        ctx.case(cid, key=('contains', form, ld.ctor, ld.form, ld.phi, ld.P.tobytes(), ld.d.tobytes(), X.tobytes()),
                 trivial=ld.trivial and not np.any(X))
        p = dict(P0, method='contains', what=what, argform=form, expect=str(expect))
        arg = X.copy() if form == 'vec' else np.c_[X, X]
        ok, val = call(L.contains, arg)
        if not ok:
            ctx.fail(cid, 'Plucker.contains', 'raises:' + type(val).__name__, p, 'contains(%s) raised %r' % (f3(X), val))
            return
        if form == 'vec':
            got = asbool(val)
        else:
            try:
                l = [asbool(t) for t in val]
            except TypeError:
                l = [None]
            got = l[0] if (len(l) == 2 and l[0] is not None and l[0] == l[1]) else None
        if got is None:
            ctx.fail(cid, 'Plucker.contains', 'returns:' + type(val).__name__, p, 'contains(%s argument) returned %r' % (form, val))
        elif got != expect:
            ctx.fail(cid, 'Plucker.contains', 'mismatch', p,
                     'contains(%s) is %s for a point that is %s the line (%s; distance from the reference line %.3g, '
                     'data magnitude %.3g)' % (f3(X), got, 'on' if expect else 'off', what, pl_dist(X, ld.pref, ld.uref), M))
        ctx.cell('Plucker.contains', what, form, expect, 'ok' if got == expect else 'bad')

    for nm, X in ld.defpts:
        for form in ('vec', '3xN'):
            contains_case(base + '/contains/def=%s/%s' % (nm, form), X, True, 'defining point', form, Mline)
    for hn, h in HS:
        for ln_, lam in (('0', 0.0), ('g', 0.4)):
            X = ld.pref + inward(ld.pref, lam * ld.m * ld.uref)
            X = X + inward(X, h * ld.m * n_)
            if not indom(X):
                continue
            contains_case(base + '/contains/off=%s/at=%s/vec' % (hn, ln_), X, False, 'off the line', 'vec',
                          magnitude(defnorms + [X], fb))

    # ---- contains, 3xN form with N = 1..5 distinct columns, one of them (at every position) off the line:
    #      element i of the answer is the single-point answer for column i
    onl = [ld.pref + inward(ld.pref, lam * ld.m * ld.uref) for lam in (0.0, 0.4, -0.7, 1.3, -1.9)]
    offp = onl[1] + inward(onl[1], 0.5 * ld.m * n_)
    if all(indom(X) for X in onl + [offp]) and ld.m > 0:
        for N in range(1, 6):
            for j in [None] + list(range(N)):
                cid = base + '/contains/3xN/N=%d/off=%s' % (N, j)
                if not ctx.want(cid):
                    continue
                cols = [X.copy() for X in onl[:N]]
                if j is not None:
                    cols[j] = offp.copy()
                A_ = np.stack(cols, axis=1)
                ctx.case(cid, key=('contains3xN', ld.ctor, ld.form, ld.phi, ld.P.tobytes(), ld.d.tobytes(), N, j), trivial=False)
                p = dict(P0, method='contains', what='columns', argform='3x%d' % N, N=N)
                ok, val = call(L.contains, A_.copy())
                oks, singles = call(lambda: [asbool(L.contains(c.copy())) for c in cols])
                if not oks:
                    continue
                if not ok:
                    ctx.fail(cid, 'Plucker.contains', 'raises:' + type(val).__name__, p, 'contains(3x%d array) raised %r' % (N, val))
                    continue
                try:
                    got = [asbool(t) for t in val]
                except TypeError:
                    got = [asbool(val)] if N == 1 else None       # a 3x1 array is also a 3-vector
                if got is None or len(got) != N:
                    ctx.fail(cid, 'Plucker.contains', 'returns:' + type(val).__name__, p, 'contains(3x%d array) returned %r' % (N, val))
                elif got != singles:
                    ctx.fail(cid, 'Plucker.contains', 'mismatch', p, 'contains(3x%d array) = %r but the single-point answers for its columns are %r' % (N, got, singles))

    # ---- point(lambda), and contains(point(lambda))
    for lname, lam in LAMBDAS:
        cid = base + '/point/lam=%s' % lname
        cid2 = base + '/contains/point/lam=%s' % lname
        if not (ctx.want(cid) or ctx.want(cid2)):
            continue
        M = magnitude(defnorms + [lam], fb)
        p = dict(P0, method='point', lam=lname)
        ok, val = call(L.point, lam)
        X = None
        if ctx.want(cid):
            ctx.case(cid, key=('point', ld.ctor, ld.form, ld.phi, ld.P.tobytes(), ld.d.tobytes(), lam), trivial=ld.trivial and lam == 0)
            if not ok:
                ctx.fail(cid, 'Plucker.point', 'raises:' + type(val).__name__, p, 'point(%g) raised %r' % (lam, val))
            else:
                a = np.asarray(val, dtype=float)
                if a.size != 3:
                    ctx.fail(cid, 'Plucker.point', 'mismatch', p, 'point(%g) has shape %s' % (lam, a.shape))
                elif not finite(a):
                    ctx.fail(cid, 'Plucker.point', nfkind(a), p, 'point(%g) = %s' % (lam, f3(a)))
                else:
                    X = a.ravel().copy()
                    r = pl_dist(X, ld.pref, ld.uref)
                    if not r <= TOL * max(M, norm(X)):
                        ctx.fail(cid, 'Plucker.point', 'mismatch', p, 'point(%g) = %s is %.3g away from the line through the '
                                 'defining data (allowed %.3g)' % (lam, f3(X), r, TOL * max(M, norm(X))))
                    else:
                        ctx.cell('Plucker.point', 'ok')
        elif ok:
            a = np.asarray(val, dtype=float)
            if a.size == 3 and finite(a):
                X = a.ravel().copy()
        if X is not None and pl_dist(X, ld.pref, ld.uref) <= TOL * max(M, norm(X)):
            contains_case(cid2, X, True, 'point(lambda)', 'vec', max(M, norm(X)))

    # ---- closest(x)
    for qn, x in queries(tier, seed) + [('P', ld.pref.copy())]:
        cid = base + '/closest/x=%s' % qn
        if not ctx.want(cid):
            continue
        ctx.case(cid, key=('closest', ld.ctor, ld.form, ld.phi, ld.P.tobytes(), ld.d.tobytes(), x.tobytes()),
                 trivial=ld.trivial and not np.any(x))
        M = magnitude(defnorms + [x], fb)
        p = dict(P0, method='closest', x=qn)
        ok, val = call(L.closest, x.copy())
        if not ok:
            ctx.fail(cid, 'Plucker.closest', 'raises:' + type(val).__name__, p, 'closest(%s) raised %r' % (f3(x), val))
            continue
        # the query point in the other container forms a point comes in (a (3,1) column is what point() and SE3 * p return)
        if ok and alph.thin(cid, 'quick', 4, 4):
            for fn_, fx in (('col', x.reshape(3, 1).copy()), ('row', x.reshape(1, 3).copy()), ('list', x.tolist()), ('tuple', tuple(x.tolist()))):
                okf, vf = call(L.closest, fx)
                if not okf:
                    ctx.note('form_refused', 'Plucker.closest(%s) -> %s' % (fn_, type(vf).__name__))
                    continue
                try:
                    same_ = np.array_equal(vec(vf.p), vec(val.p)) and float(vf.d) == float(val.d) and float(vf.lam) == float(val.lam)
                except Exception:
                    same_ = False
                if not same_:
                    ctx.fail(cid, 'Plucker.closest', 'mismatch', dict(p, field='form', argform=fn_), 'closest() of the %s form of %s differs from the 1-D array form: %r' % (fn_, f3(x), vf))
                    break
        try:
            cp, cd, cl = vec(val.p), float(val.d), float(val.lam)
        except Exception as e:
            ctx.fail(cid, 'Plucker.closest', 'returns:' + type(val).__name__, p, 'closest() result has no p/d/lam: %r (%r)' % (val, e))
            continue
        if not (finite(cp, cd, cl) and cp.shape == (3,)):
            ctx.fail(cid, 'Plucker.closest', nfkind(cp, cd, cl), p, 'closest(%s) = %r' % (f3(x), val))
            continue
        # the documented order of the result is (p, d, lam): reading it positionally gives the same three things as the field names
        try:
            up, ud, ul = val
            same_order = np.array_equal(vec(up), cp) and float(ud) == cd and float(ul) == cl and np.array_equal(vec(val[0]), cp) and float(val[1]) == cd and float(val[2]) == cl
        except Exception:
            same_order = False
        if not same_order:
            ctx.fail(cid, 'Plucker.closest', 'mismatch', dict(p, field='order'), 'closest(%s) unpacked as (p, d, lam) is not (.p, .d, .lam): %r' % (f3(x), val))
            continue
        ft = foot(x, ld.pref, ld.uref)
        dd = pl_dist(x, ld.pref, ld.uref)
        if not norm(cp - ft) <= TOL * M:
            ctx.fail(cid, 'Plucker.closest', 'mismatch', dict(p, field='p'),
                     'closest(%s).p = %s, orthogonal projection is %s (off by %.3g, allowed %.3g)' % (f3(x), f3(cp), f3(ft), norm(cp - ft), TOL * M))
            continue
        if not abs(cd - dd) <= TOL * M:
            ctx.fail(cid, 'Plucker.closest', 'mismatch', dict(p, field='d'),
                     'closest(%s).d = %.17g, distance to the line is %.17g' % (f3(x), cd, dd))
            continue
        ok, pl = call(L.point, cl)
        if not ok:
            ctx.fail(cid, 'Plucker.point', 'raises:' + type(pl).__name__, p, 'point(closest.lam) raised %r' % (pl,))
            continue
        pl = np.asarray(pl, dtype=float).ravel()
        if pl.shape != (3,) or not finite(pl) or not norm(pl - cp) <= TOL * M:
            ctx.fail(cid, 'Plucker.closest', 'mismatch', dict(p, field='lam'),
                     'closest(%s).lam = %.17g but point(lam) = %s is not the reported point %s' % (f3(x), cl, f3(pl), f3(cp)))
            continue
        ctx.cell('Plucker.closest', 'ok')

    # ---- T * L
    second = ld.Q if ld.Q is not None else ld.pref + ld.d
    for tn, T in motions(tier, seed):
        cid = base + '/rmul/T=%s' % tn
        if not ctx.want(cid):
            continue
        ctx.case(cid, key=('rmul', ld.ctor, ld.form, ld.phi, ld.P.tobytes(), ld.d.tobytes(), T.tobytes()),
                 trivial=ld.trivial and tn == 'I|t=0')
        p = dict(P0, method='rmul', T=tn)
        R, t = T[:3, :3], T[:3, 3]
        A, B = R @ ld.pref + t, R @ second + t
        M = magnitude(defnorms + [t, A, B], fb)
        ok, X = call(lambda: SE3(T.copy(), check=False) * L)
        if not ok:
            ctx.fail(cid, 'Plucker.__rmul__', 'raises:' + type(X).__name__, p, 'SE3 * Plucker raised %r' % (X,))
            continue
        bad = check_lineobj(X, M, 'T*L')
        if bad:
            ctx.fail(cid, 'Plucker.__rmul__', bad[0], p, bad[1])
            continue
        ok, info = call(lineinfo, X)
        ok0, w0 = call(lambda: vec(L.w))
        if not ok or not ok0:
            ctx.fail(cid, 'Plucker.pp', 'raises:' + type(info).__name__, p, 'pp of T*L raised %r' % (info,))
            continue
        v, w, pp = info
        if not finite(pp):
            ctx.fail(cid, 'Plucker.__rmul__', nfkind(pp), p, 'pp of T*L = %s' % f3(pp))
            continue
        uw = unit(w)
        ra, rb = pl_dist(A, pp, uw), pl_dist(B, pp, uw)
        orient = dot(uw, R @ unit(w0))
        if not (ra <= TOL * M and rb <= TOL * M):
            ctx.fail(cid, 'Plucker.__rmul__', 'mismatch', p, 'T*L misses the transformed points by %.3g and %.3g (allowed %.3g); '
                     'T*L = v%s w%s' % (ra, rb, TOL * M, f3(v), f3(w)))
        elif not orient > 0:
            ctx.fail(cid, 'Plucker.__rmul__', 'mismatch', p, 'T*L has reversed orientation: w.(R w0) = %.3g' % orient)
        else:
            ctx.cell('Plucker.__rmul__', 'ok')

    # ---- intersect_plane
    X0 = ld.pref + inward(ld.pref, 0.5 * ld.m * ld.uref)
    for sn, psi in PSI:
        nh = math.cos(psi) * ld.uref + math.sin(psi) * b_
        ppl = X0 + inward(X0, 0.3 * ld.m * n_)
        if not indom(ppl):
            continue
        for nn, nl in NLEN:
            n = nl * nh
            for pf in PFORM:
                cid = base + '/intersect_plane/psi=%s/nlen=%s/%s' % (sn, nn, pf)
                if not ctx.want(cid):
                    continue
                ctx.case(cid, key=('ip', pf, ld.ctor, ld.form, ld.phi, ld.P.tobytes(), ld.d.tobytes(), n.tobytes(), ppl.tobytes()))
                p = dict(P0, method='intersect_plane', psi=sn, nlen=nn, planeform=pf)
                M = magnitude(defnorms + [ppl], fb)
                if pf == 'Plane':
                    ok, plane = call(Plane.PN, ppl.copy(), n.copy())
                    if not ok:
                        ctx.fail(cid, 'Plane.PN', 'raises:' + type(plane).__name__, p, 'Plane.PN raised %r' % (plane,))
                        continue
                    dpl = -float(np.dot(n, ppl))
                else:
                    dpl = -float(np.dot(n, ppl))
                    plane = np.r_[n, dpl]
                Xref = ld.pref - ld.uref * ((dot(n, ld.pref) + dpl) / dot(n, ld.uref))
                ok, val = call(L.intersect_plane, plane)
                if not ok:
                    ctx.fail(cid, 'Plucker.intersect_plane', 'raises:' + type(val).__name__, p, 'intersect_plane raised %r' % (val,))
                    continue
                if val is None:
                    ctx.fail(cid, 'Plucker.intersect_plane', 'returns:NoneType', p,
                             'no intersection reported for a plane at %.3g rad from the line' % (PI / 2 - psi))
                    continue
                try:
                    ip, il = vec(val.p), float(val.lam)
                except Exception as e:
                    ctx.fail(cid, 'Plucker.intersect_plane', 'returns:' + type(val).__name__, p, 'result has no p/lam: %r' % (val,))
                    continue
                if ip.shape != (3,) or not finite(ip, il):
                    ctx.fail(cid, 'Plucker.intersect_plane', nfkind(ip, il), p, 'intersect_plane = %r' % (val,))
                    continue
                M2 = max(M, norm(Xref))
                if not norm(ip - Xref) <= TOL * M2:
                    ctx.fail(cid, 'Plucker.intersect_plane', 'mismatch', dict(p, field='p'),
                             'intersection point %s, from the defining data %s (off by %.3g, allowed %.3g)' % (f3(ip), f3(Xref), norm(ip - Xref), TOL * M2))
                    continue
                ok, pl = call(L.point, il)
                if not ok:
                    ctx.fail(cid, 'Plucker.point', 'raises:' + type(pl).__name__, p, 'point(lam) raised %r' % (pl,))
                    continue
                pl = np.asarray(pl, dtype=float).ravel()
                if pl.shape != (3,) or not finite(pl) or not norm(pl - ip) <= TOL * max(M2, abs(il)):
                    ctx.fail(cid, 'Plucker.intersect_plane', 'mismatch', dict(p, field='lam'),
                             'lam = %.17g but point(lam) = %s is not the intersection point %s' % (il, f3(pl), f3(ip)))
                    continue
                ctx.cell('Plucker.intersect_plane', 'ok')


# --------------------------------------------------------------------------- pair family

def second_lines(ld, tier):
    """yield (tag, params, args, (p2, u2), M-points, expectations) for every second line in known relative position"""
    u1, P1, m = ld.uref, ld.pref, ld.m
    n, b = frame(u1)
    for tn, th in THETAS:
        u2 = math.cos(th) * u1 + math.sin(th) * b
        u2 = u2 / norm(u2)
        for on, a, bb in OFFS:
            F1 = P1 + inward(P1, a * m * u1) if a else P1
            for c2, l2n, l2 in l2forms(tier):
                # intersecting in X = F1
                for rel, hs in (('intersecting', [('0', 0.0)]), ('skew', HS)):
                    for hn, h in hs:
                        F2 = F1 + inward(F1, h * m * n) if h else F1
                        P2 = F2 + inward(F2, abs(bb) * m * u2) if bb else F2
                        if c2 == 'PQ':
                            Q2 = P2 - l2 * u2
                            if not indom(P2, Q2):
                                continue
                            d2 = P2 - Q2
                            args = ('PQ', P2, Q2)
                            pts = [P2, Q2]
                        else:
                            if not indom(P2):
                                continue
                            d2 = l2 * u2
                            args = ('PointDir', P2, d2)
                            pts = [P2]
                        tag = '%s/th=%s/h=%s/off=%s/L2=%s*%s' % (rel, tn, hn, on, c2, l2n)
                        prm = {'rel': rel, 'theta': tn, 'h': hn, 'off': on, 'ctor2': c2, 'len2': l2n, 'scale': '-', 'sign': '+', 'shift': '-'}
                        yield tag, prm, args, (P2, unit(d2)), pts, F1
    # parallel and coincident: direction vector is the float direction of line 1, rescaled by an exact power of two
    for sn, s in SCALES:
        for gn, g in SIGNS:
            d2 = (g * s) * ld.d
            if not (DMIN <= norm(d2) <= DMAX):
                continue
            for hn, h in HS:
                for on, a, bb in OFFS:
                    P2 = P1 + inward(P1, h * m * n)
                    if bb:
                        P2 = P2 + inward(P2, abs(bb) * m * u1)
                    if not indom(P2):
                        continue
                    tag = 'parallel/scale=%s%s/h=%s/off=%s/L2=PointDir' % (gn, sn, hn, on)
                    prm = {'rel': 'parallel', 'theta': '0', 'h': hn, 'off': on, 'ctor2': 'PointDir', 'len2': '-', 'scale': sn, 'sign': gn, 'shift': '-'}
                    yield tag, prm, ('PointDir', P2, d2), (P2, unit(d2)), [P2], None
            if ld.ctor != 'Planes':
                for shn in ('0', 's'):
                    P2 = ld.P if shn == '0' else ld.P + inward(ld.P, ld.d)
                    if not indom(P2):
                        continue
                    tag = 'coincident/scale=%s%s/shift=%s/L2=PointDir' % (gn, sn, shn)
                    prm = {'rel': 'coincident', 'theta': '0', 'h': '0', 'off': '-', 'ctor2': 'PointDir', 'len2': '-', 'scale': sn, 'sign': gn, 'shift': shn}
                    yield tag, prm, ('PointDir', P2, d2), (P2, unit(d2)), [P2], None
    prm = {'rel': 'coincident', 'theta': '0', 'h': '0', 'off': '-', 'ctor2': 'same', 'len2': '-', 'scale': '1', 'sign': '+', 'shift': '0'}
    yield 'coincident/same', prm, ('same',), (P1, u1), [], None


def build2(ld, args):
    SE3, Plucker, Plane = _lib()
    if args[0] == 'same':
        ok, L, _ = build(ld)
        return ok, L
    if args[0] == 'PQ':
        return call(Plucker.PQ, args[1].copy(), args[2].copy())
    return call(Plucker.PointDir, args[1].copy(), args[2].copy())


def expected(prm, meth, ctor1):
    """ground truth of a predicate: True / False / None (not judged: the statement is silent, or the relation holds
    only up to the rounding of a harness-computed point, where a tolerance-based predicate may legitimately flip)"""
    rel, sign = prm['rel'], prm['sign']
    if meth in ('eq', 'ne'):
        if rel == 'coincident' and sign == '+' and prm['shift'] == 's':
            return None                       # second point P + d is on the line only up to rounding
        e = (rel == 'coincident' and sign == '+')
        return e if meth == 'eq' else not e
    if meth in ('or', 'isparallel'):
        return rel in ('parallel', 'coincident')      # direction vectors are bit-identical up to an exact factor
    if meth == 'xor':
        if rel == 'coincident':
            return None
        if rel == 'intersecting':
            # exact only when both lines are defined through the same float point
            return True if (prm['off'] == '0' and ctor1 != 'Planes') else None
        return False
    raise HarnessError(meth)


def fam_pairs(ctx, ld, L1, tier):
    SE3, Plucker, Plane = _lib()
    base = ld.base()
    P0 = ld.params()
    defnorms = [p for _, p in ld.defpts] or [ld.P]
    k1 = (ld.ctor, ld.form, ld.phi, ld.P.tobytes(), ld.d.tobytes())
    for tag, prm, args, (p2, u2), pts2, X in second_lines(ld, tier):
        pre = base + '/pair/' + tag + '/'
        if ctx.only is not None and not ctx.only.startswith(pre):
            continue
        ok2, L2 = build2(ld, args)
        if not ok2:
            cid = pre + 'ctor2'
            if ctx.want(cid):
                ctx.case(cid, key=('ctor2', k1, tag))
                ctx.fail(cid, 'Plucker.' + (ld.ctor if args[0] == 'same' else args[0]), 'raises:' + type(L2).__name__,
                         dict(P0, method='ctor', **prm), 'constructor of the second line raised %r' % (L2,))
            continue
        M = magnitude(defnorms + pts2, max(ld.ln, norm(args[2]) if len(args) > 2 and args[0] == 'PointDir' else ld.ln))
        rel = prm['rel']
        dref = 0.0 if rel in ('intersecting', 'coincident') else ll_dist(ld.pref, ld.uref, p2, u2)
        k2 = tuple(a.tobytes() if isinstance(a, np.ndarray) else a for a in args)
        for o in ORDS:
            A, B = (L1, L2) if o == '12' else (L2, L1)
            for meth in PAIR_METHODS:
                if meth == 'commonperp' and rel == 'coincident':
                    continue
                cid = pre + 'ord=%s/%s' % (o, meth)
                if not ctx.want(cid):
                    continue
                ctx.case(cid, key=(meth, o, k1, k2), trivial=False)
                site = SITE[meth]
                p = dict(P0, method=meth, ord=o, **prm)
                if meth in ('eq', 'ne', 'or', 'isparallel', 'xor'):
                    e = expected(prm, meth, ld.ctor)
                    p['expect'] = str(e)
                    f = {'eq': lambda: A == B, 'ne': lambda: A != B, 'or': lambda: A | B,
                         'isparallel': lambda: A.isparallel(B), 'xor': lambda: A ^ B}[meth]
                    ok, val = call(f)
                    if not ok:
                        ctx.fail(cid, site, 'raises:' + type(val).__name__, p, '%s raised %r' % (meth, val))
                        continue
                    got = asbool(val)
                    if got is None:
                        ctx.fail(cid, site, 'returns:' + type(val).__name__, p, '%s returned %r' % (meth, val))
                    elif e is not None and got != e:
                        ctx.fail(cid, site, 'mismatch', p, '%s is %s for %s lines (L1: %s through %s dir %s; L2: %s; true distance %.3g, '
                                 'data magnitude %.3g)' % (meth, got, rel if prm['sign'] == '+' else rel + ' reversed', ld.ctor, f3(ld.pref), f3(ld.d),
                                                           ' '.join(f3(a) if isinstance(a, np.ndarray) else a for a in args), dref, M))
                    ctx.cell(site, rel, prm['sign'], got)
                    if meth == 'xor' and (rel == 'skew' or got) and rel in ('skew', 'intersecting') and prm['off'] == '0':
                        ok, val = call(A.intersects, B)
                        ctx.note('intersects() of %s lines (outside the statement, not judged)' % rel, 'raises %r' % (val,) if not ok else
                                 ('returns %s of shape %s' % (type(val).__name__, getattr(val, 'shape', None))))
                elif meth == 'distance':
                    ok, val = call(A.distance, B)
                    if not ok:
                        ctx.fail(cid, site, 'raises:' + type(val).__name__, p, 'distance of %s lines raised %r' % (rel, val))
                        ctx.cell(site, rel, 'raises')
                        continue
                    try:
                        x = float(val)
                    except Exception:
                        ctx.fail(cid, site, 'returns:' + type(val).__name__, p, 'distance returned %r' % (val,))
                        continue
                    if not math.isfinite(x):
                        ctx.fail(cid, site, nfkind(x), p, 'distance of %s lines is %r' % (rel, x))
                    elif not abs(x - dref) <= TOL * M:
                        ctx.fail(cid, site, 'mismatch', p, 'distance of %s lines is %.17g, from the defining data %.17g (allowed error %.3g)' % (rel, x, dref, TOL * M))
                        ctx.cell(site, rel, 'bad')
                    else:
                        ctx.cell(site, rel, 'ok')
                else:
                    ok, C = call(A.commonperp, B)
                    if not ok:
                        ctx.fail(cid, site, 'raises:' + type(C).__name__, p, 'commonperp of %s lines raised %r' % (rel, C))
                        continue
                    if C is None:
                        if rel != 'parallel':
                            ctx.fail(cid, site, 'returns:NoneType', p, 'no common perpendicular reported for %s lines' % rel)
                        ctx.cell(site, rel, 'None')
                        continue
                    bad = check_lineobj(C, M, 'commonperp')
                    if bad:
                        ctx.fail(cid, site, bad[0], p, bad[1])
                        ctx.cell(site, rel, bad[0])
                        continue
                    ok, info = call(lineinfo, C)
                    if not ok:
                        ctx.fail(cid, 'Plucker.pp', 'raises:' + type(info).__name__, p, 'pp of commonperp raised %r' % (info,))
                        continue
                    v, w, pp = info
                    if not finite(pp):
                        ctx.fail(cid, site, nfkind(pp), p, 'pp of commonperp = %s' % f3(pp))
                        continue
                    uw = unit(w)
                    a1, a2 = abs(dot(uw, ld.uref)), abs(dot(uw, u2))
                    r1, r2 = ll_dist(pp, uw, ld.pref, ld.uref), ll_dist(pp, uw, p2, u2)
                    if not (a1 <= TOL and a2 <= TOL):
                        ctx.fail(cid, site, 'mismatch', p, 'commonperp is not orthogonal to the lines: cosines %.3g, %.3g' % (a1, a2))
                        ctx.cell(site, rel, 'bad')
                    elif not (r1 <= TOL * max(M, norm(pp)) and r2 <= TOL * max(M, norm(pp))):
                        ctx.fail(cid, site, 'mismatch', p, 'commonperp misses the lines by %.3g and %.3g (allowed %.3g)' % (r1, r2, TOL * max(M, norm(pp))))
                        ctx.cell(site, rel, 'bad')
                    else:
                        ctx.cell(site, rel, 'ok')


# --------------------------------------------------------------------------- plane family

def fam_planes(ctx, tier, seed):
    SE3, Plucker, Plane = _lib()
    for pt, mag, P in points(tier, seed):
        m = norm(P) if norm(P) > 0 else 1.0
        for dn, u in directions(tier, seed):
            n_, b_ = frame(u)
            for nn, nl in NLEN:
                n = nl * u
                base = 'C19/Plane/pt=%s*%s/n=%s*%s' % (pt, mag, dn, nn)
                if ctx.only is not None and not ctx.only.startswith(base + '/'):
                    continue
                P0 = {'ctor': 'Plane.PN', 'pt': pt, 'mag': mag, 'dir': dn, 'len': nn}
                triv = (pt == 'O' and dn[0] in '+-' and nl == 1.0)
                okp, pl = call(Plane.PN, P.copy(), n.copy())
                cands = [('def', P, True)]
                for hn, h in HS:
                    X = P + inward(P, h * m * u)
                    if indom(X):
                        cands.append(('off=%s' % hn, X, False))
                for nm, X, e in cands:
                    cid = base + '/PN/contains/%s' % nm
                    if not ctx.want(cid):
                        continue
                    ctx.case(cid, key=('PN', P.tobytes(), n.tobytes(), X.tobytes()), trivial=triv)
                    p = dict(P0, method='contains', expect=str(e), what=nm)
                    if not okp:
                        ctx.fail(cid, 'Plane.PN', 'raises:' + type(pl).__name__, p, 'Plane.PN raised %r' % (pl,))
                        continue
                    ok, val = call(pl.contains, X.copy())
                    if not ok:
                        ctx.fail(cid, 'Plane.contains', 'raises:' + type(val).__name__, p, 'contains raised %r' % (val,))
                        continue
                    got = asbool(val)
                    if got is None:
                        ctx.fail(cid, 'Plane.contains', 'returns:' + type(val).__name__, p, 'contains returned %r' % (val,))
                    elif got != e:
                        ctx.fail(cid, 'Plane.contains', 'mismatch', p, 'Plane.PN(p=%s, n=%s).contains(%s) is %s; the point is %s'
                                 % (f3(P), f3(n), f3(X), got, 'the defining point' if e else '%.3g off the plane' % abs(dot(X - P, u))))
                    ctx.cell('Plane.contains', e, got)
                # three points
                A, B, C = P, P + inward(P, 0.5 * m * n_), P + inward(P, 0.25 * m * b_) + inward(P, 0.125 * m * n_)
                if nn != '1' or not indom(A, B, C):
                    continue
                cid = base + '/P3/contains'
                if not ctx.want(cid):
                    continue
                ctx.case(cid, key=('P3', A.tobytes(), B.tobytes(), C.tobytes()), trivial=False)
                p = dict(P0, ctor='Plane.P3', method='contains', expect='True', what='def')
                Mx = np.c_[A, B, C]
                ok, pl3 = call(Plane.P3, Mx.copy())
                if not ok:
                    ctx.fail(cid, 'Plane.P3', 'raises:' + type(pl3).__name__, p, 'Plane.P3(3x3 matrix of three non-collinear points) raised %r' % (pl3,))
                    ctx.cell('Plane.P3', 'raises')
                    continue
                if not isinstance(pl3, Plane):
                    ctx.fail(cid, 'Plane.P3', 'returns:' + type(pl3).__name__, p, 'Plane.P3 returned %r' % (pl3,))
                    continue
                res = {}
                for rd, pts in (('columns', (A, B, C)), ('rows', tuple(Mx))):
                    r = []
                    for X in pts:
                        ok, val = call(pl3.contains, np.array(X, dtype=float))
                        r.append(ok and asbool(val) is True)
                    res[rd] = all(r)
                if not (res['columns'] or res['rows']):
                    ctx.fail(cid, 'Plane.contains', 'mismatch', p, 'plane built from three points does not contain them '
                             '(neither reading the matrix by columns nor by rows)')
                ctx.cell('Plane.P3', 'ok' if (res['columns'] or res['rows']) else 'bad')


def fam_far_triangles(ctx):
    """planes through three points that are close together compared with their distance from the origin (edges 1e-2 .. 30 at coordinates
    around 900, non-integer): the plane contains its defining points, and a line through two of them lies in it"""
    SE3, Plucker, Plane = _lib()
    centres = [('c900', np.array([900.3, -870.7, 910.9])), ('c37', np.array([37.3, 12.1, -25.7])), ('c1', np.array([0.3, -0.7, 0.9]))]
    d1, d2 = unit(np.array([1.0, 2.0, -0.5])), unit(np.array([-0.3, 0.4, 1.0]))
    for (cn, c), e in itertools.product(centres, (1e-2, 0.1, 1.0, 30.0)):
        A, B, C = c, c + e * d1, c + 0.7 * e * d2
        if np.abs(np.r_[A, B, C]).max() > 1e3:
            continue
        cid = 'C19/Plane/far-triangle/%s/edge=%g' % (cn, e)
        if not ctx.want(cid):
            continue
        ctx.case(cid, key=cid)
        p = dict(ctor='Plane.P3', method='contains', expect='True', what='far-triangle', centre=cn, edge=e)
        for layout, Mx in (('columns', np.c_[A, B, C]), ('rows', np.array([A, B, C]))):
            ok, pl = call(Plane.P3, Mx.copy())
            if not ok or not isinstance(pl, Plane):
                continue
            good = []
            for X in (A, B, C, (A + B + C) / 3):
                okc, val = call(pl.contains, X.copy())
                good.append(okc and asbool(val) is True)
            p['layout_' + layout] = all(good)
        if not (p.get('layout_columns') or p.get('layout_rows')):
            ctx.fail(cid, 'Plane.contains', 'mismatch', dict(ctor='Plane.P3', method='contains', expect='True', what='far-triangle'),
                     'the plane through three points %.3g apart around %s does not contain them (nor their centroid)' % (e, f3(c)))


def fam_nearparallel(ctx):
    """skew lines whose directions are 1e-3 .. 1e-6 rad from parallel (not parallel: the distance is the length of the common perpendicular, known
    by construction), and query points 1e-5 .. 1e-8 off a line far along it (closest() reports that distance)"""
    SE3, Plucker, Plane = _lib()
    u1 = unit(np.array([1.0, 2.0, -0.5]))
    n, b = frame(u1)
    for (pn, P1), th, h in itertools.product((('O', np.zeros(3)), ('g', np.array([3.7, -2.1, 5.3])), ('g30', np.array([37.0, -21.0, 53.0]))), (1e-3, 1e-4, 1e-5, 1e-6), (0.3, 1e-2, 2.0)):
        u2 = unit(math.cos(th) * u1 + math.sin(th) * b)
        P2 = P1 + h * n + 0.7 * u2
        cid = 'C19/nearparallel/pt=%s/th=%g/h=%g' % (pn, th, h)
        if ctx.want(cid):
            ctx.case(cid, key=cid)
            p = dict(method='distance', rel='skew', th=th, h=h, what='near-parallel')
            for o1, o2, lab in ((1, 1, '12'), (-1, 1, '12-'), (1, 1, '21')):
                L1, L2 = Plucker.PointDir(P1.copy(), o1 * u1), Plucker.PointDir(P2.copy(), o2 * u2)
                ok, d = call((L2.distance if lab == '21' else L1.distance), (L1 if lab == '21' else L2))
                if not ok:
                    ctx.fail(cid, 'Plucker.distance', 'raises:' + type(d).__name__, p, '%r' % (d,))
                    break
                if not abs(float(d) - h) <= 1e-9 * max(1.0, h, float(np.abs(P2).max())):
                    ctx.fail(cid, 'Plucker.distance', 'mismatch', dict(p, order=lab), 'lines %g rad from parallel, %g apart: distance() = %.12g' % (th, h, float(d)))
                    break
    # directions a few 1e-8 rad apart are still not parallel (for unit-size directions the library's own threshold is a few eps)
    for th, ln in itertools.product((3e-8, 1e-7, 1e-6, 1e-4), (1.0, 1e-3, 1e3)):
        u2 = unit(math.cos(th) * u1 + math.sin(th) * b)
        cid = 'C19/nearparallel/isparallel/th=%g/len=%g' % (th, ln)
        if not ctx.want(cid):
            continue
        ctx.case(cid, key=cid)
        L1, L2 = Plucker.PointDir(np.array([0.5, -1.0, 2.0]), ln * u1), Plucker.PointDir(np.array([0.5, -1.0, 2.0]) + 0.3 * n, u2)
        p = dict(method='isparallel', rel='skew', th=th, what='near-parallel')
        for nm_, f in (('isparallel', lambda: L1.isparallel(L2)), ('|', lambda: L1 | L2), ('isparallel/21', lambda: L2.isparallel(L1))):
            ok, r = call(f)
            if not ok:
                ctx.fail(cid, 'Plucker.isparallel', 'raises:' + type(r).__name__, p, '%r' % (r,))
            elif asbool(r) is not False:
                ctx.fail(cid, 'Plucker.isparallel', 'mismatch', dict(p, op=nm_), 'lines %g rad apart are reported parallel (%s)' % (th, nm_))
    L = Plucker.PointDir(np.array([0.5, -1.0, 2.0]), u1)
    for lam, off in itertools.product((0.7, 30.0, 300.0), (0.0, 1e-8, 1e-7, 1e-5, 1e-3)):
        cid = 'C19/nearline/lam=%g/off=%g' % (lam, off)
        if not ctx.want(cid):
            continue
        ctx.case(cid, key=cid)
        foot = np.array([0.5, -1.0, 2.0]) + lam * u1
        x = foot + off * n
        p = dict(method='closest', what='near-line', lam=lam, off=off)
        ok, r = call(L.closest, x.copy())
        if not ok:
            ctx.fail(cid, 'Plucker.closest', 'raises:' + type(r).__name__, p, '%r' % (r,))
            continue
        try:
            cands = [(np.asarray(r[0], dtype=float).ravel(), float(r[1])), (np.asarray(r[1], dtype=float).ravel(), float(r[0]))] if np.ndim(r[0]) else [(np.asarray(r[1], dtype=float).ravel(), float(r[0]))]
        except Exception:
            cands = []
            try:
                cands = [(np.asarray(r[0], dtype=float).ravel(), float(r[1]))]
            except Exception:
                pass
        sc = max(1.0, float(np.abs(x).max()))
        if not any(pt.shape == (3,) and norm(pt - foot) <= 1e-9 * sc and abs(dd - off) <= 1e-9 * sc for pt, dd in cands):
            ctx.fail(cid, 'Plucker.closest', 'mismatch', p, 'point %g off the line at parameter %g: closest() = %r' % (off, lam, r))


def fam_reuse(ctx, tier, seed):
    """the SAME Plane / Plucker objects used in several operations in a row (added after a seeded change that rescaled a
    Plane's normal in place): every result must be what elementary geometry gives for the defining data"""
    sm = _lib()
    import spatialmath as S
    planes = [('PN', lambda: S.Plane.PN([1.0, -2.0, 0.5], [2.0, 1.0, -3.0]), np.array([1.0, -2.0, 0.5]), np.array([2.0, 1.0, -3.0])),
              ('PN-far', lambda: S.Plane.PN([30.0, 10.0, -20.0], [0.0, 0.5, 0.5]), np.array([30.0, 10.0, -20.0]), np.array([0.0, 0.5, 0.5])),
              ('P3', lambda: S.Plane.P3(np.array([[1.0, 4.0, 2.0], [2.0, -1.0, 0.5], [3.0, 0.0, 7.0]])), np.array([1.0, 2.0, 3.0]),
               np.cross(np.array([4.0, -1.0, 0.0]) - np.array([1.0, 2.0, 3.0]), np.array([2.0, 0.5, 7.0]) - np.array([1.0, 2.0, 3.0])))]
    lines = [(np.array([0.0, 0.0, 0.0]), np.array([1.0, 2.0, 3.0])), (np.array([5.0, -1.0, 2.0]), np.array([0.0, 0.0, 2.0])), (np.array([-3.0, 4.0, 1.0]), np.array([1.0, -1.0, 0.5])),
             (np.array([2.0, 2.0, 2.0]), np.array([-4.0, 1.0, 1.0]))]
    for (pn, mk, p0, n), order in itertools.product(planes, itertools.permutations(range(len(lines)), 3)):
        cid = 'C19/reuse/%s/%s' % (pn, ''.join(map(str, order)))
        if not ctx.want(cid):
            continue
        ctx.case(cid, key=cid)
        P = dict(ctor='Plane.' + pn.split('-')[0], method='intersect_plane', rel='reuse', mag='1')
        pl = mk()
        for step, li in enumerate(order):
            q, d = lines[li]
            L = S.Plucker.PointDir(q, d)
            ok, r = call(L.intersect_plane, pl)
            if not ok or r is None:
                ctx.fail(cid, 'Plucker.intersect_plane', 'raises:' + type(r).__name__ if not ok else 'returns:NoneType', dict(P, step=step), 'step %d: %r' % (step, r))
                break
            lam = float(np.dot(n, p0 - q) / np.dot(n, d))
            want = q + lam * d
            if np.abs(np.asarray(r.p, dtype=float) - want).max() > 1e-9 * max(1.0, float(np.abs(want).max()), float(np.abs(q).max())):
                ctx.fail(cid, 'Plucker.intersect_plane', 'mismatch', dict(P, step=step, what='reuse'),
                         'step %d with the same Plane object: intersection %s, elementary geometry gives %s' % (step, np.asarray(r.p).tolist(), want.tolist()))
                break
        ok, c = call(pl.contains, p0)
        if ok and not bool(c):
            ctx.fail(cid, 'Plane.contains', 'mismatch', dict(P, what='reuse-contains'), 'after the intersections the plane no longer contains its defining point')


# --------------------------------------------------------------------------- shards

def nshards(tier):
    return 32 if tier == 'quick' else 96


def fam_etypes(ctx):
    """defining data held in arrays of another element type (single / half precision, integers) or in lists of NumPy scalars: the same
    points, so the same line - coordinates, principal point, contains() and point() agree with the line built from the float64 copy"""
    SE3, Plucker, Plane = _lib()
    pts = [(np.array([1.0, 2.0, -0.5]), np.array([3.0, -1.0, 2.5])), (np.array([0.0, 0.0, 0.0]), np.array([0.25, 4.0, -2.0])), (np.array([512.0, -256.0, 128.0]), np.array([513.0, -254.0, 128.5]))]
    conv = {'float32': lambda x: x.astype(np.float32), 'float16': lambda x: x.astype(np.float16), 'int64': lambda x: (4 * x).astype(np.int64),
            'list-f32': lambda x: [np.float32(e) for e in x], 'list-int': lambda x: [int(4 * e) for e in x], 'tuple': lambda x: tuple(x.tolist())}
    for (pi_, (P_, Q_)), (tn, cv) in itertools.product(enumerate(pts), conv.items()):
        k = 4.0 if 'int' in tn else 1.0
        for cn, mk in (('PQ', lambda a, b_: Plucker.PQ(a, b_)), ('PointDir', lambda a, b_: Plucker.PointDir(a, b_))):
            cid = 'C19/etype/%s/%s/p%d' % (cn, tn, pi_)
            if not ctx.want(cid):
                continue
            ctx.case(cid, key=cid)
            p = dict(ctor=cn, etype=tn, method='ctor', rel='-')
            second = Q_ if cn == 'PQ' else Q_ - P_
            okf, Lf = call(mk, k * P_, k * second)
            ok, L = call(mk, cv(P_), cv(second))
            if not okf:
                continue
            if not ok:
                ctx.note('etype_refused', 'Plucker.%s(%s) -> %s' % (cn, tn, type(L).__name__))
                continue
            M = max(1.0, float(np.abs(k * P_).max()), float(np.abs(k * Q_).max()))
            for what, f in (('vec', lambda o: vec(o.vec) / norm(vec(o.w))), ('pp', lambda o: vec(o.pp)), ('point', lambda o: vec(o.point(0.75)).ravel()),
                            ('contains', lambda o: np.array([float(asbool(o.contains(k * P_))), float(asbool(o.contains(k * (P_ + 0.3 * (Q_ - P_)))))]))):
                o1, r1 = call(f, L)
                o2, r2 = call(f, Lf)
                if not o2:
                    continue
                if not o1:
                    ctx.fail(cid, 'Plucker.' + cn, 'raises:' + type(r1).__name__, dict(p, what=what), '%s of the line built from %s data raised %r' % (what, tn, r1))
                elif np.shape(r1) != np.shape(r2) or not np.all(np.abs(np.asarray(r1, dtype=float) - np.asarray(r2, dtype=float)) <= TOL * M * (M if what == 'vec' else 1.0)):
                    ctx.fail(cid, 'Plucker.' + cn, 'mismatch', dict(p, what=what), '%s of the line built from %s data differs from the float64 copy: %s vs %s' %
                             (what, tn, np.asarray(r1).tolist(), np.asarray(r2).tolist()))


def shards(tier, seed):
    n = nshards(tier)
    return [('lines', k, n, tier, seed) for k in range(n)] + [('planes', 0, 1, tier, seed), ('reuse', 0, 1, tier, seed), ('etype', 0, 1, tier, seed)]


def run_shard(ctx, shard):
    kind, k, n, tier, seed = shard
    _lib()
    if kind == 'planes':
        fam_planes(ctx, tier, seed)
        return
    if kind == 'reuse':
        fam_reuse(ctx, tier, seed)
        fam_far_triangles(ctx)
        fam_nearparallel(ctx)
        return
    if kind == 'etype':
        fam_etypes(ctx)
        return
    letters = all_letters(tier, seed)
    # pair-family lines are much heavier than the others: deal both kinds round-robin separately
    heavy = [l for l in letters if l[-1]]
    light = [l for l in letters if not l[-1]]
    # (i + i // n) % n instead of i % n: the letter product has a period that is a multiple of n
    mine = [l for part in (heavy, light) for i, l in enumerate(part) if (i + i // n) % n == k]
    for l in mine:
        ld = make_desc(*l[:-1])
        if ld is None:
            ctx.count('dropped_out_of_domain_lines')
            continue
        ld.pair = l[-1]
        ld.tag = None
        base = ld.base()
        if ctx.only is not None and not ctx.only.startswith(base + '/'):
            continue
        okL, L, siteL = build(ld)
        fam_single(ctx, ld, L, okL, siteL, tier, seed)
        if okL and alph.thin(base, 'quick', 10, 10) and check_lineobj(L, 1.0, '') is None:
            # the same line held by an object with a history: every query had been answered for another line before
            def warm(o):
                for f in (lambda: o.pp, lambda: o.ppd, lambda: o.uw, lambda: o.contains(ld.pref), lambda: o.point(0.3), lambda: o.closest(np.array([1.0, 2.0, 3.0])),
                          lambda: o.vec, lambda: o.skew(), lambda: o == o, lambda: o.distance(o), lambda: o.intersect_plane([0, 0, 1, 0])):
                    try:
                        f()
                    except Exception:
                        pass
            for tag, Lh in hist.variants(L, warm, fresh=False):
                ld.tag = tag
                if ctx.only is None or ctx.only.startswith(ld.base() + '/'):
                    fam_single(ctx, ld, Lh, True, siteL, tier, seed)
                ld.tag = None
        if okL and ld.pair:
            fam_pairs(ctx, ld, L, tier)
