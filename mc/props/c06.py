"""
C06  Applying a pose to points is the rigid motion p -> R p + t.

E1 product explorer: pose (generator set of each class) x point (coordinates 1e-6..1e6) x point
argument form (list, tuple, 1-D array, row, column, d x N for N = 1..7 incl. N = d) x entry
route (pose object, unit quaternion, unit dual quaternion, homtrans, h2e/e2h, qvmul), and
multi-valued poses (M = 1..5 pairwise distinct values) x one point.
Oracle: reference R p + t (float64; data spans are <= 1e12 so float64 is adequate at 1e-9
relative to the data magnitude), shapes for d x N and M-valued cases, (XY)p = X(Yp),
X^-1(Xp) = p.
"""
import itertools, math, operator
import numpy as np
from mc import ref, alph, hist
from mc.core import call

PROP = 'C06'
LEVEL = 'exploration'
RULE = ('full product pose x point x argument form x route per class; multi-valued poses x points; relational laws '
        'on pose pairs x points; non-trivial = pose is not the identity; distinct = distinct (route, pose, point, form)')
ASSUME = ['tolerance 1e-9 * max(1, |p|, |t|)', 'for a single vector only the values are compared (shape (d,) vs (d,1) is not fixed by the property)',
          'multi-valued pose x d x N array is outside the statement']
ANCHORS = [('spatialmath.super_pose', 'SMPose.__mul__'), ('spatialmath.base.transformsNd', 'h2e'), ('spatialmath.base.transformsNd', 'e2h'),
           ('spatialmath.base.transformsNd', 'homtrans'), ('spatialmath.base.quaternions', 'qvmul'),
           ('spatialmath.quaternion', 'UnitQuaternion.__mul__'), ('spatialmath.DualQuaternion', 'DualQuaternion.__mul__')]

TOL = 1e-9


def points(dim, tier):
    P3 = [('e1', (1.0, 0, 0)), ('1e-6', (1e-6, -1e-6, 1e-6)), ('g', (0.5, -1.5, 2.0)), ('-1', (-1.0, -1.0, 1.0)),
          ('1e6', (1e6, -1e6, 5e5)), ('mixed', (1e6, 1e-6, -1.0)), ('0', (0.0, 0.0, 0.0))]
    if tier != 'quick':
        P3 += [('g2', (-2.0, 1.0, 0.5)), ('1e3', (1e3, 2e3, -3e3)), ('-1e6', (-1e6, 0.0, 0.0)), ('e3', (0, 0, 1.0))]
    return [(n, np.array(p[:dim], dtype=float)) for n, p in P3]


def forms(p):
    return [('list', p.tolist()), ('tuple', tuple(p.tolist())), ('1d', p.copy()), ('row', p.reshape(1, -1).copy()), ('col', p.reshape(-1, 1).copy())]


def apply_ref(M, P):
    """M (d+1,d+1) or (d,d); P (d,) or (d,N)"""
    d = P.shape[0]
    R = M[:d, :d]
    t = M[:d, d] if M.shape[0] == d + 1 else np.zeros(d)
    return (R @ P.reshape(d, -1) + t.reshape(d, 1))


def scale(M, P):
    d = P.shape[0]
    t = M[:d, d] if M.shape[0] == d + 1 else np.zeros(d)
    # "1e-9 relative to the data magnitude": the data are the point coordinates and the translation (not the unit-size rotation entries);
    # all-zero data are compared exactly
    return max(float(np.abs(P).max()) if P.size else 0.0, float(np.linalg.norm(t)))


def routes(cname, M):
    """[(site, callable(point argument))] for one pose value"""
    import spatialmath as sm
    import spatialmath.base as b
    out = []
    if cname == 'SO3':
        X = sm.SO3(M.copy())
        q = ref.r2q_ref(M)
        U = sm.UnitQuaternion(q)
        # the same rotation held as -q (negative scalar part), as products and turns beyond pi produce it
        Um = sm.UnitQuaternion(-q, norm=False, check=False)
        out = [('SO3.mul', lambda p: X * p), ('UnitQuaternion.mul', lambda p: U * p), ('UnitQuaternion(-q).mul', lambda p: Um * p)]
        # the route a user takes: the library's own conversion of the matrix / the SO3 object, then the quaternion action
        out += [('UnitQuaternion(R).mul', lambda p: sm.UnitQuaternion(M.copy()) * p), ('UnitQuaternion(SO3).mul', lambda p: sm.UnitQuaternion(X) * p)]
    elif cname == 'SE3':
        X = sm.SE3(M.copy())
        # the dual quaternion is built from the reference quaternion (real = q, dual = t q / 2) so that the
        # 1e-9 comparison is about the point transformation, not about the matrix->quaternion conversion (C04, 1e-6)
        q = ref.r2q_ref(M[:3, :3])
        D = sm.UnitDualQuaternion(sm.UnitQuaternion(q), sm.Quaternion(0.5 * ref.qmul(np.r_[0.0, M[:3, 3]], q)))
        out = [('SE3.mul', lambda p: X * p), ('base.homtrans', lambda p: b.homtrans(M.copy(), p)),
               ('base.h2e.e2h', lambda p: b.h2e(M @ b.e2h(p))), ('UnitDualQuaternion.mul', lambda p: D * p),
               ('UnitDualQuaternion(SE3).mul', lambda p: sm.UnitDualQuaternion(X) * p)]
    elif cname == 'SO2':
        X = sm.SO2(M.copy())
        out = [('SO2.mul', lambda p: X * p)]
    elif cname == 'SE2':
        X = sm.SE2(M.copy())
        out = [('SE2.mul', lambda p: X * p), ('base.homtrans', lambda p: b.homtrans(M.copy(), p)), ('base.h2e.e2h', lambda p: b.h2e(M @ b.e2h(p)))]
    return out


def gens(cname, tier, seed):
    if cname == 'SO3':
        return alph.gen_SO3(tier, seed)
    if cname == 'SO2':
        return alph.gen_SO2(tier, seed)
    return alph.gen_SE(3 if cname == 'SE3' else 2, tier, seed)


def accepts(site, fname):
    """argument forms each route documents: homtrans / h2e / e2h take arrays (a 2-D array is a set of points);
    the unit dual quaternion documents a 3-vector only"""
    if site in ('base.h2e.e2h',):
        return fname in ('1d', 'col', 'list', 'tuple') or fname.startswith('N=')
    if site == 'base.homtrans':
        return fname in ('1d', 'col', 'list', 'tuple') or fname.startswith('N=')
    if site in ('UnitDualQuaternion.mul', 'UnitDualQuaternion(SE3).mul'):
        return fname in ('1d', 'list', 'tuple', 'row', 'col')
    return True


def check_value(ctx, cid, site, P, got, want, sc, shape=None):
    if got is None:
        ctx.fail(cid, site, 'returns:NoneType', P, 'returned None')
        return
    got = np.asarray(got)
    if got.dtype == object or not np.all(np.isfinite(got.astype(float))):
        ctx.fail(cid, site, 'nan', P, 'non-finite / non-numeric result')
        return
    if shape is not None and got.shape != shape:
        ctx.fail(cid, site, 'mismatch', dict(P, what='shape'), 'result shape %s, expected %s' % (got.shape, shape))
        return
    if got.size != want.size:
        ctx.fail(cid, site, 'mismatch', dict(P, what='shape'), 'result has %d entries, expected %d' % (got.size, want.size))
        return
    g = got.astype(float)
    if shape is None:
        g, w = g.ravel(), want.ravel()
    else:
        w = want
    d = float(np.abs(g - w).max()) if g.size else 0.0
    if d > TOL * sc:
        ctx.fail(cid, site, 'mismatch', dict(P, what='value'), 'differs from R p + t by %.3g (tol %.3g)' % (d, TOL * sc))


CONVERTED = ('UnitQuaternion(R).mul', 'UnitQuaternion(SO3).mul', 'UnitDualQuaternion(SE3).mul')


def conv_slack(rname, gn):
    """routes through the library's matrix -> quaternion conversion: within a micro-radian of a half turn the conversion itself is only
    good to ~1e-8 (square root of a rounding error; decided to 1e-6 under C04), everywhere else the 1e-9 of this property applies"""
    return 1e3 if rname in CONVERTED and any(k in gn for k in alph.SPECIAL) else 1.0


def single_points(ctx, cname, k, K):
    tier, seed = ctx.tier, ctx.seed
    dim = int(cname[2])
    G = gens(cname, tier, seed)
    PT = points(dim, tier)
    for gi, (gn, M) in enumerate(G):
        if gi % K != k:
            continue
        R = routes(cname, M)
        triv = gn.startswith('I') and (gn == 'I' or gn.endswith('t=0'))
        for pn, p in PT:
            want = apply_ref(M, p)
            sc = scale(M, p)
            for fname, arg in forms(p):
                for rname, f in R:
                    site = rname.replace('(-q)', '')
                    if not accepts(site, fname):
                        continue
                    cid = 'C06/%s/%s/p=%s/form=%s/%s' % (cname, gn, pn, fname, rname)
                    if not ctx.want(cid):
                        continue
                    ctx.case(cid, key=(cname, gn, pn, fname, rname), trivial=triv)
                    Pm = dict(cls=cname, g=gn.split('|')[0], point=pn, form=fname)
                    a = arg.copy() if isinstance(arg, np.ndarray) else arg
                    ok, r = call(f, a)
                    if not ok:
                        ctx.fail(cid, site, 'raises:' + type(r).__name__, Pm, '%r' % (r,))
                        continue
                    check_value(ctx, cid, site, Pm, r, want, sc * conv_slack(rname, gn))
                    ctx.cell(site, fname)
        # d x N arrays
        for N in range(1, 8):
            cols = [PT[(j * 2 + N) % len(PT)][1] for j in range(N)]
            A = np.stack(cols, axis=1)
            want = apply_ref(M, A)
            sc = scale(M, A)
            for rname, f in R:
                site = rname.replace('(-q)', '')
                if site in ('UnitDualQuaternion.mul', 'UnitDualQuaternion(SE3).mul'):
                    continue
                sc = scale(M, A) * conv_slack(rname, gn)
                cid = 'C06/%s/%s/N=%d/%s' % (cname, gn, N, rname)
                if not ctx.want(cid):
                    continue
                ctx.case(cid, key=(cname, gn, 'N', N, rname), trivial=triv)
                Pm = dict(cls=cname, g=gn.split('|')[0], form='N=%d' % N, N=N)
                ok, r = call(f, A.copy())
                if not ok:
                    ctx.fail(cid, site, 'raises:' + type(r).__name__, Pm, '%r' % (r,))
                    continue
                check_value(ctx, cid, site, Pm, r, want, sc, shape=(dim, N) if N > 1 else None)
                # column j equals the single-vector call on column j
                if N > 1 and r is not None and np.asarray(r).shape == (dim, N):
                    for j in range(N):
                        ok2, rj = call(f, A[:, j].copy())
                        if ok2 and rj is not None and np.asarray(rj).size == dim:
                            if np.abs(np.asarray(rj, dtype=float).ravel() - np.asarray(r, dtype=float)[:, j]).max() > TOL * sc:
                                ctx.fail(cid, site, 'mismatch', dict(Pm, what='column', j=j), 'column %d differs from the single-vector call' % j)
                ctx.cell(site, 'N=%d' % N)


def multi_valued(ctx, cname):
    import spatialmath as sm
    tier, seed = ctx.tier, ctx.seed
    dim = int(cname[2]) if cname != 'UnitQuaternion' else 3
    base_c = 'SO3' if cname == 'UnitQuaternion' else cname
    G = [g for g in gens(base_c, tier, seed)]
    PT = points(dim, tier)
    C = getattr(sm, cname)
    for Mn in range(1, 6):
        for start in range(0, len(G), 2 if tier == 'quick' else 1):
            sel = [G[(start + 2 * j) % len(G)] for j in range(Mn)]
            if len({n for n, _ in sel}) < Mn:
                continue
            if cname == 'UnitQuaternion':
                X = C([ref.r2q_ref(M) for _, M in sel])
            else:
                X = C([M.copy() for _, M in sel])
            for pn, p in PT:
                for fname, arg in forms(p)[:3]:
                    cid = 'C06/%s/multi/M=%d/start=%d/p=%s/form=%s' % (cname, Mn, start, pn, fname)
                    if not ctx.want(cid):
                        continue
                    ctx.case(cid, key=(cname, Mn, start, pn, fname))
                    Pm = dict(cls=cname, M=Mn, point=pn, form=fname)
                    site = cname + '.mul'
                    ok, r = call(lambda: X * (arg.copy() if isinstance(arg, np.ndarray) else arg))
                    if not ok:
                        ctx.fail(cid, site, 'raises:' + type(r).__name__, Pm, '%r' % (r,))
                        continue
                    want = np.stack([apply_ref(M, p).ravel() for _, M in sel], axis=1)
                    sc = max(scale(M, p) for _, M in sel)
                    check_value(ctx, cid, site, Pm, r, want, sc, shape=(dim, Mn) if Mn > 1 else None)


def relational(ctx, cname):
    """(XY)p = X(Yp), X^-1(Xp) = p on generator pairs (library against library)"""
    import spatialmath as sm
    tier, seed = ctx.tier, ctx.seed
    dim = int(cname[2]) if cname != 'UnitQuaternion' else 3
    base_c = 'SO3' if cname == 'UnitQuaternion' else cname
    G = gens(base_c, tier, seed)
    if tier == 'quick':
        G = alph.subset(G, 8, 3)
    C = getattr(sm, cname)
    mk = (lambda M: C(ref.r2q_ref(M))) if cname == 'UnitQuaternion' else (lambda M: C(M.copy()))
    PT = points(dim, tier)
    for (xn, Mx), (yn, My) in itertools.product(G, G):
        X, Y = mk(Mx), mk(My)
        for pn, p in PT:
            cid = 'C06/%s/rel/%s/%s/p=%s' % (cname, xn, yn, pn)
            if not ctx.want(cid):
                continue
            ctx.case(cid, key=(cname, xn, yn, pn), trivial=(xn == yn == G[0][0]))
            Pm = dict(cls=cname, x=xn.split('|')[0], y=yn.split('|')[0], point=pn)
            site = cname + '.mul'
            ok, r = call(lambda: ((X * Y) * p.copy(), X * (Y * p.copy()), X.inv() * (X * p.copy())))
            if not ok:
                ctx.fail(cid, site, 'raises:' + type(r).__name__, Pm, '%r' % (r,))
                continue
            a, b, c = [np.asarray(v, dtype=float).ravel() for v in r]
            tx = float(np.linalg.norm(Mx[:dim, dim])) if Mx.shape[0] == dim + 1 else 0.0
            ty = float(np.linalg.norm(My[:dim, dim])) if My.shape[0] == dim + 1 else 0.0
            sc = max(1.0, float(np.abs(p).max()), tx, ty)
            if a.shape != b.shape or np.abs(a - b).max() > TOL * sc:
                ctx.fail(cid, site, 'mismatch', dict(Pm, law='assoc'), '(XY)p and X(Yp) differ by %.3g' % (np.abs(a - b).max() if a.shape == b.shape else float('nan')))
            if c.shape != p.shape or np.abs(c - p).max() > TOL * sc:
                ctx.fail(cid, site, 'mismatch', dict(Pm, law='inverse'), 'X^-1(Xp) differs from p by %.3g' % (np.abs(c - p).max() if c.shape == p.shape else float('nan')))


def relational_multi(ctx, cname):
    """the same laws on multi-valued poses: (XY)p = X(Yp) and X^-1(Xp) = p column by column"""
    import spatialmath as sm
    tier, seed = ctx.tier, ctx.seed
    dim = int(cname[2]) if cname != 'UnitQuaternion' else 3
    base_c = 'SO3' if cname == 'UnitQuaternion' else cname
    G = gens(base_c, tier, seed)
    C = getattr(sm, cname)
    mk = (lambda Ms: C([ref.r2q_ref(M) for M in Ms])) if cname == 'UnitQuaternion' else (lambda Ms: C([M.copy() for M in Ms]))
    PT = points(dim, tier)[:4]
    for Mn in (2, 3, 5):
        for start in range(0, len(G), 2 if tier == 'quick' else 1):
            sx = [G[(start + 2 * j) % len(G)] for j in range(Mn)]
            sy = [G[(start + 1 + 3 * j) % len(G)] for j in range(Mn)]
            X, Y = mk([m for _, m in sx]), mk([m for _, m in sy])
            for pn, p in PT:
                cid = 'C06/%s/relmulti/M=%d/start=%d/p=%s' % (cname, Mn, start, pn)
                if not (ctx.want(cid) or (ctx.only and ctx.only.startswith(cid + '/'))):
                    continue
                ctx.case(cid, key=cid)
                Pm = dict(cls=cname, M=Mn, point=pn, multi=1)
                site = cname + '.mul'
                ok, r = call(lambda: ((X * Y) * p.copy(), X.inv() * p.copy(), (X / Y) * p.copy()))
                if not ok:
                    ctx.fail(cid, site, 'raises:' + type(r).__name__, Pm, '%r' % (r,))
                    continue
                want_xy = np.stack([apply_ref(mx, apply_ref(my, p).ravel()).ravel() for (_, mx), (_, my) in zip(sx, sy)], axis=1)
                inv = (lambda M: ref.inv_h(M)) if base_c[:2] == 'SE' else (lambda M: M.T)
                want_inv = np.stack([apply_ref(inv(mx), p).ravel() for _, mx in sx], axis=1)
                want_div = np.stack([apply_ref(mx, apply_ref(inv(my), p).ravel()).ravel() for (_, mx), (_, my) in zip(sx, sy)], axis=1)
                tmax = max([float(np.linalg.norm(m[:dim, dim])) if m.shape[0] == dim + 1 else 0.0 for _, m in sx + sy])
                sc = max(1.0, float(np.abs(p).max()), tmax)
                for law, got, want in (('(XY)p', r[0], want_xy), ('X^-1 p', r[1], want_inv), ('(X/Y)p', r[2], want_div)):
                    check_value(ctx, cid, site, dict(Pm, law=law), got, want, sc, shape=(dim, Mn))
                # every length pairing (1xM, Mx1, MxM) of the binary and of the in-place operators, then the point
                for (lx, ly), (on, of) in itertools.product(((1, Mn), (Mn, 1), (Mn, Mn)), (('*', operator.mul), ('*=', operator.imul), ('/', operator.truediv), ('/=', operator.itruediv))):
                    cid2 = cid + '/%dx%d/%s' % (lx, ly, on)
                    if not ctx.want(cid2):
                        continue
                    ctx.case(cid2, key=cid2)
                    ax, ay = sx[:lx], sy[:ly]
                    Xa, Ya = mk([m for _, m in ax]), mk([m for _, m in ay])
                    ok2, r2 = call(lambda: of(Xa, Ya) * p.copy())
                    P2 = dict(Pm, law='(X %s Y)p' % on, m=lx, n=ly)
                    if not ok2:
                        ctx.fail(cid2, site, 'raises:' + type(r2).__name__, P2, '%r' % (r2,))
                        continue
                    cols = []
                    for j in range(Mn):
                        mx, my = ax[j if lx > 1 else 0][1], ay[j if ly > 1 else 0][1]
                        cols.append(apply_ref(mx, apply_ref(my if on[0] == '*' else inv(my), p).ravel()).ravel())
                    check_value(ctx, cid2, site, P2, r2, np.stack(cols, axis=1), sc, shape=(dim, Mn))
                # the multi-valued pose with a history: X * p had been used before the object received its present values
                wantX = np.stack([apply_ref(mx, p).ravel() for _, mx in sx], axis=1)
                for tag, Xh in hist.variants(mk([m for _, m in sx]), lambda o: o * p.copy(), fresh=False):
                    cid3 = cid + '/hist=' + tag
                    if not ctx.want(cid3):
                        continue
                    ctx.case(cid3, key=cid3)
                    ok3, r3 = call(lambda: Xh * p.copy())
                    if not ok3:
                        ctx.fail(cid3, site, 'raises:' + type(r3).__name__, dict(Pm, hist=tag), '%r' % (r3,))
                    else:
                        check_value(ctx, cid3, site, dict(Pm, hist=tag, law='Xp'), r3, wantX, sc, shape=(dim, Mn))


def udq_assoc(ctx):
    """unit dual quaternions: (XY)p = X(Yp) and agreement with the matrix route after composition"""
    import spatialmath as sm
    tier, seed = ctx.tier, ctx.seed
    G = gens('SE3', tier, seed)
    if tier == 'quick':
        G = alph.subset(G, 9, 3)
    def mk(M):
        q = ref.r2q_ref(M[:3, :3])
        return sm.UnitDualQuaternion(sm.UnitQuaternion(q), sm.Quaternion(0.5 * ref.qmul(np.r_[0.0, M[:3, 3]], q)))
    for (xn, Mx), (yn, My) in itertools.product(G, G):
        for pn, p in points(3, tier)[:4]:
            cid = 'C06/UnitDualQuaternion/rel/%s/%s/p=%s' % (xn, yn, pn)
            if not ctx.want(cid):
                continue
            ctx.case(cid, key=cid)
            Pm = dict(cls='UnitDualQuaternion', x=xn.split('|')[0], y=yn.split('|')[0], point=pn)
            X, Y = mk(Mx), mk(My)
            ok, r = call(lambda: ((X * Y) * p.copy(), X * (Y * p.copy())))
            if not ok:
                ctx.fail(cid, 'UnitDualQuaternion.mul', 'raises:' + type(r).__name__, Pm, '%r' % (r,))
                continue
            want = apply_ref(Mx, apply_ref(My, p).ravel())
            sc = max(1.0, float(np.abs(p).max()), float(np.linalg.norm(Mx[:3, 3])), float(np.linalg.norm(My[:3, 3])))
            check_value(ctx, cid, 'UnitDualQuaternion.mul', dict(Pm, law='(XY)p'), r[0], want, sc)
            check_value(ctx, cid, 'UnitDualQuaternion.mul', dict(Pm, law='X(Yp)'), r[1], want, sc)


def temporaries(ctx):
    """a series of poses applied to a point with every pose object a temporary (created, used once, dropped - what `for X in path: UDQ(X) * p`
    does): each result is that pose's R p + t, whatever storage the previous temporary left behind"""
    import spatialmath as sm
    tier, seed = ctx.tier, ctx.seed
    G = alph.subset(gens('SE3', tier, seed), 9, 3)
    p = np.array([0.3, -0.2, 0.5])
    routes3 = [('UnitDualQuaternion(SE3).mul', lambda M: sm.UnitDualQuaternion(sm.SE3(M.copy())) * p.copy(), lambda M: apply_ref(M, p)),
               ('SE3.mul', lambda M: sm.SE3(M.copy()) * p.copy(), lambda M: apply_ref(M, p)),
               ('UnitQuaternion(R).mul', lambda M: sm.UnitQuaternion(M[:3, :3].copy()) * p.copy(), lambda M: apply_ref(M[:3, :3], p)),
               ('SO3.mul', lambda M: sm.SO3(M[:3, :3].copy()) * p.copy(), lambda M: apply_ref(M[:3, :3], p))]
    for rname, f, want in routes3:
        for start in range(len(G)):
            seq = [G[(start + 2 * j) % len(G)] for j in range(4)]
            cid = 'C06/temporaries/%s/start=%d' % (rname, start)
            if not ctx.want(cid):
                continue
            ctx.case(cid, key=cid)
            ok, r = call(lambda: [f(M) for _, M in seq])
            Pm = dict(cls=rname.split('.')[0].split('(')[0], law='temporaries')
            if not ok:
                ctx.fail(cid, rname, 'raises:' + type(r).__name__, Pm, '%r' % (r,))
                continue
            for j, ((gn, M), v) in enumerate(zip(seq, r)):
                check_value(ctx, cid, rname, dict(Pm, j=j, g=gn.split('|')[0]), v, want(M), scale(M, p) * conv_slack(rname, gn))


def conversion_ladder(ctx):
    """the quaternion routes through the library's own conversions on a ladder the landmark letters skip: rotation angles between 1e-6 and 0.1 rad
    (matrix -> quaternion), and quaternions given as numbers that are unit only to 2 .. 7 decimals (normalising constructor)"""
    import spatialmath as sm
    p = np.array([0.3, -0.2, 0.5])
    axes = [alph.unit((1, 2, 3)), alph.unit((0.1, 1, 0.3)), alph.unit((-2, 1, 0.5))]
    for th in (1e-6, 1e-5, 6e-5, 1e-4, 3e-4, 5e-4, 1e-3, 3e-3, 1e-2, 0.03, 0.06, 0.08, 0.1):
        for ai, ax in enumerate(axes):
            R = ref.mp_rot(ax, th)
            M = ref.rt(R, (1.0, -2.0, 0.5))
            for rname, f, Mref in (('UnitQuaternion(R).mul', lambda: sm.UnitQuaternion(R.copy()) * p.copy(), R), ('UnitQuaternion(SO3).mul', lambda: sm.UnitQuaternion(sm.SO3(R.copy())) * p.copy(), R),
                                   ('UnitDualQuaternion(SE3).mul', lambda: sm.UnitDualQuaternion(sm.SE3(M.copy())) * p.copy(), M), ('UnitQuaternion(R).mul/3xN', lambda: sm.UnitQuaternion(R.copy()) * np.c_[p, 2 * p, -p], R)):
                cid = 'C06/ladder/theta=%g/axis=%d/%s' % (th, ai, rname)
                if not ctx.want(cid):
                    continue
                ctx.case(cid, key=cid)
                Pm = dict(cls=rname.split('(')[0], law='ladder', theta=th)
                ok, r = call(f)
                if not ok:
                    ctx.fail(cid, rname.split('/')[0], 'raises:' + type(r).__name__, Pm, '%r' % (r,))
                    continue
                want = apply_ref(Mref, np.c_[p, 2 * p, -p]) if rname.endswith('3xN') else apply_ref(Mref, p)
                check_value(ctx, cid, rname.split('/')[0], Pm, r, want, scale(Mref, p) * (2 if rname.endswith('3xN') else 1))
    # the documented list-of-pose-objects form of the quaternion constructor (SO3 and SE3 elements, single and several)
    Ra, Rb = ref.rotx(0.7) @ ref.roty(-0.4), ref.rotz(1.1) @ ref.rotx(0.3)
    for kind, mk in (('SO3', lambda R: sm.SO3(R.copy())), ('SE3', lambda R: sm.SE3(ref.rt(R, (1.0, -2.0, 0.5))))):
        for nm_, Rs in (('1', [Ra]), ('2', [Ra, Rb]), ('3', [Rb, Ra, Rb])):
            cid = 'C06/ladder/UnitQuaternion([%s x %s])' % (kind, nm_)
            if not ctx.want(cid):
                continue
            ctx.case(cid, key=cid)
            Pm = dict(cls='UnitQuaternion', law='ladder', form='list-of-' + kind)
            ok, r = call(lambda: sm.UnitQuaternion([mk(R) for R in Rs]) * p.copy())
            if not ok:
                ctx.fail(cid, 'UnitQuaternion.mul', 'raises:' + type(r).__name__, Pm, '%r' % (r,))
                continue
            want = np.stack([R @ p for R in Rs], axis=1)
            check_value(ctx, cid, 'UnitQuaternion.mul', Pm, np.asarray(r).reshape(3, -1) if np.asarray(r).size == want.size else r, want, 1.0)
    q0 = ref.r2q_ref(ref.rotx(0.7) @ ref.roty(-0.4) @ ref.rotz(0.9))
    R0 = ref.q2r(q0)
    for e in (1e-2, 1e-3, 3e-4, 1e-4, 1e-5, 1e-6, 1e-7):
        for sg in (1, -1):
            qn = q0 * (1 + sg * e)
            for rname, f in (('UnitQuaternion(array)', lambda: sm.UnitQuaternion(qn.copy()) * p.copy()), ('UnitQuaternion(list)', lambda: sm.UnitQuaternion(qn.tolist()) * p.copy()),
                             ('UnitQuaternion(s,v)', lambda: sm.UnitQuaternion(qn[0], qn[1:].copy()) * p.copy()), ('UnitQuaternion(Nx4)', lambda: (sm.UnitQuaternion(np.array([qn, q0])) * p.copy())[:, 0])):
                cid = 'C06/ladder/norm=1%+g/%s' % (sg * e, rname)
                if not ctx.want(cid):
                    continue
                ctx.case(cid, key=cid)
                Pm = dict(cls='UnitQuaternion', law='ladder', normerr=sg * e, form=rname)
                ok, r = call(f)
                if not ok:
                    ctx.fail(cid, 'UnitQuaternion.mul', 'raises:' + type(r).__name__, Pm, '%r' % (r,))
                    continue
                check_value(ctx, cid, 'UnitQuaternion.mul', Pm, r, R0 @ p, 1.0)


def qvmul_cases(ctx):
    import spatialmath.base as b
    tier, seed = ctx.tier, ctx.seed
    for gn, M in alph.gen_SO3(tier, seed):
        q = ref.r2q_ref(M)
        for sg in (1, -1):
            for pn, p in points(3, tier):
                for fname, arg in forms(p)[:3]:
                    cid = 'C06/qvmul/%s/sign=%d/p=%s/form=%s' % (gn, sg, pn, fname)
                    if not ctx.want(cid):
                        continue
                    ctx.case(cid, key=('qvmul', gn, sg, pn, fname), trivial=(gn == 'I'))
                    Pm = dict(g=gn, point=pn, form=fname, sign=sg)
                    ok, r = call(b.qvmul, sg * q, arg.copy() if isinstance(arg, np.ndarray) else arg)
                    if not ok:
                        ctx.fail(cid, 'base.qvmul', 'raises:' + type(r).__name__, Pm, '%r' % (r,))
                        continue
                    check_value(ctx, cid, 'base.qvmul', Pm, r, apply_ref(M, p), scale(M, p))


def shards(tier, seed):
    out = []
    for c in ('SO2', 'SE2', 'SO3', 'SE3'):
        K = 2 if tier == 'quick' else 8
        out += [('single', c, k, K) for k in range(K)]
    for c in ('SO2', 'SE2', 'SO3', 'SE3', 'UnitQuaternion'):
        out += [('multi', c), ('rel', c), ('relmulti', c)]
    out.append(('qvmul',))
    out.append(('udq',))
    out.append(('temporaries',))
    out.append(('ladder',))
    return out


def run_shard(ctx, shard):
    k = shard[0]
    if k == 'single':
        single_points(ctx, shard[1], shard[2], shard[3])
    elif k == 'multi':
        multi_valued(ctx, shard[1])
    elif k == 'rel':
        relational(ctx, shard[1])
    elif k == 'relmulti':
        relational_multi(ctx, shard[1])
    elif k == 'udq':
        udq_assoc(ctx)
    elif k == 'temporaries':
        temporaries(ctx)
    elif k == 'ladder':
        conversion_ladder(ctx)
    else:
        qvmul_cases(ctx)
