"""
C18  Unit twists encode screw geometry.

E1 product explorer.  A unit twist is built by the library from its DEFINING DATA
(axis direction a, point q on the axis; or translation direction a; or planar point q) and every
observable the statement names is compared with the screw motion computed by the harness from
the same defining data:

    revolute, 3-D :  T(theta) = [ R(theta, a^)   (I - R) q ]      a^ = a / |a|
    prismatic     :  T(theta) = [ I              theta a^  ]
    revolute, 2-D :  T(theta) = [ R(theta)       (I - R) q ]

R is evaluated as  I + sin(theta) K + 2 sin^2(theta/2) K^2  (no cancellation for small theta), and is
itself cross-checked against a 50-digit Rodrigues formula for every twist (a disagreement is a harness
error, never a verdict).  What is observed:

  * S.exp(theta)  for scalar theta (float, numpy float64, int), units rad and deg, and for vector theta
    (list, tuple, ndarray; rad and deg): rotation part = R(theta, a^) to 1e-9, every point q + lambda a^
    (lambda in {0, +-1, +-1e3}) is fixed and off-axis points go where the reference motion sends them,
    to 1e-9 max(1, |q|, |lambda|);
  * (S*k).exp() against the same reference motion for theta = k and against S.exp(k);
  * S.inv() is the negated twist and generates the inverse motion;
  * S.se3() / S.se2() is the augmented skew matrix of the defining data, its matrix exponential
    (50-digit mpmath.expm, no structure assumed) is the reference motion, and base.trexp/trexp2 of the
    matrix form (scaled by theta, or with theta as second argument) is the reference motion;
  * pitch() = 0, pole() on the axis, line() incident with the axis and parallel to it (incidence
    computed here from the Plucker object's moment .v and direction .w, convention v = w x p as
    documented by Plucker.PointDir), theta() = 1 (0 for a prismatic twist), isprismatic.

Observations that the statement does not constrain (isrevolute, isunit, the accessors that Twist2
does not have, accessors of multi-valued twist objects) are executed for coverage and recorded as
notes, never as violations.
"""
import io, math, contextlib
import numpy as np
from mc import alph, ref
from mc.core import call, HarnessError

PROP = 'C18'
LEVEL = 'exploration'
RULE = ('full Cartesian products  {Twist3.Revolute: axis letter x axis length x point letter | Twist3.Prismatic: axis '
        'letter x axis length | Twist2.Revolute: point letter | Twist2.Prismatic: direction letter x length} x theta '
        'letter x method (exp scalar float/np64/int, rad/deg; S*k with k float/int, np64 at the k pi/2 and integer '
        'letters; inv; se matrix and twist vector through trexp/trexp2) plus, per twist, '
        'every vector-theta form x unit and every accessor.  Block A: all axes x all lengths x the short point list; '
        'block B (thorough): all axes x length 1 x every point with coordinates in {0,+-1,0.7,+-1e3}^3.  theta '
        'letters: k pi/2 (|k|<=4) each with a +-10^k ladder clipped to [-2pi,2pi], a dense ladder at 0 including the '
        'iszerovec threshold 10 eps, integers, generic values in (-pi,pi) and in pi<|theta|<2pi.  A case is trivial '
        'when theta = 0; distinct = distinct (constructor, defining data, theta, method, unit) tuples')
ASSUME = ['reference screw motion evaluated in float64 as I + sin(t) K + 2 sin^2(t/2) K^2 and (I-R) q from the defining '
          'data; cross-checked for every twist against 50-digit mpmath Rodrigues to 1e-12 max(1,|q|)',
          'the statement names no tolerance: 1e-9 max(1, |q|, |lambda|) (DESIGN C18) is used for point images, 1e-9 for '
          'rotation-matrix entries and dimensionless accessors',
          'a Plucker object (v, w) is read with the convention documented by Plucker.PointDir / Plucker.PQ: '
          'w = direction, v = w x p for any point p of the line',
          'Twist.exp(theta, "deg") of a PRISMATIC twist: the statement does not say whether the translation is theta '
          'or theta pi/180 (the library prints a notice and converts); both are accepted',
          'library stdout (the notice above) is discarded while a shard runs']
ANCHORS = ([('spatialmath.twist', 'Twist3.' + n) for n in
            ('Revolute', 'Prismatic', 'se3', 'pitch', 'line', 'pole', 'theta', 'exp', '__mul__')] +
           [('spatialmath.twist', 'Twist2.' + n) for n in ('Revolute', 'Prismatic', 'se2', 'exp', '__mul__')] +
           [('spatialmath.twist', 'SMTwist.' + n) for n in ('isprismatic', 'isrevolute', 'isunit', 'inv')] +
           [('spatialmath.base.transforms3d', 'trexp'), ('spatialmath.base.transforms2d', 'trexp2'),
            ('spatialmath.base.transformsNd', 'rodrigues'), ('spatialmath.base.transformsNd', 'skewa'),
            ('spatialmath.base.vectors', 'unitvec'), ('spatialmath.base.vectors', 'unittwist_norm'),
            ('spatialmath.base.vectors', 'unittwist2_norm'), ('spatialmath.base.vectors', 'isunittwist'),
            ('spatialmath.base.vectors', 'isunittwist2'), ('spatialmath.base.vectors', 'iszerovec'),
            ('spatialmath.base.vectors', 'norm'), ('spatialmath.base.argcheck', 'getunit')])

TOL = 1e-9
PI = math.pi
LAMBDAS = (0.0, 1.0, -1.0, 1e3, -1e3)
OFF3 = np.array([[0.5, -1.5, 2.0], [-40.0, 3.0, 7.0]]).T        # off-axis offsets added to q (columns)
OFF2 = np.array([[0.5, -1.5], [-40.0, 3.0]]).T
DEGK = {'0': 0, 'pi/2': 1, '-pi/2': -1, 'pi': 2, '-pi': -2, '3pi/2': 3, '-3pi/2': -3, '2pi': 4, '-2pi': -4}
CHECK_MULTI = False      # multi-valued twist objects are outside the statement's quantifier: notes only


# --------------------------------------------------------------------------- alphabets

def thetas(tier, seed):
    """[(name, value)]; value is a float, or an int for the letters named i<k>"""
    out = []
    seen = set()

    def add(n, v):
        if abs(v) <= 2 * PI and n not in seen:
            seen.add(n)
            out.append((n, v))

    bases = [(0.0, '0'), (PI / 2, 'pi/2'), (-PI / 2, '-pi/2'), (PI, 'pi'), (-PI, '-pi'), (3 * PI / 2, '3pi/2'),
             (-3 * PI / 2, '-3pi/2'), (2 * PI, '2pi'), (-2 * PI, '-2pi')]
    for b, nm in bases:
        add(nm, b)
    for k in (1, -1, 2, -3, 6):
        add('i%d' % k, int(k))
    # the iszerovec threshold 10 eps = 2.2e-15 (both tiers)
    for en, ev in (('1e-15', 1e-15), ('2e-15', 2e-15), ('3e-15', 3e-15), ('1e-14', 1e-14)):
        for s in (+1, -1):
            add('0%s%s' % ('+' if s > 0 else '-', en), s * ev)
    # ladders: dense at 0 (where trexp / unittwist_norm / rodrigues branch), sparse elsewhere
    if tier == 'quick':
        k0, kb, ex = (-12, -9, -6, -3, -1), (-12, -6), ()
    else:
        k0, kb, ex = tuple(range(-15, 0)), (-15, -12, -9, -6, -3, -1), (('1.5e-8', 1.5e-8),)
    for b, nm in bases:
        for k in (k0 if b == 0.0 else kb):
            for s in (+1, -1):
                add('%s%s1e%d' % (nm, '+' if s > 0 else '-', k), b + s * 10.0 ** k)
        for en, ev in ex + ((('1.4e-7', 1.4e-7),) if (b == 0.0 and ex) else ()):
            for s in (+1, -1):
                add('%s%s%s' % (nm, '+' if s > 0 else '-', en), b + s * ev)
    # scale factors a hair off 1 (S * k, S.exp(k) with k typed to a few decimals)
    for n, v in (('1+4e-6', 1 + 4e-6), ('1-5e-6', 1 - 5e-6), ('1+2e-7', 1 + 2e-7)):
        add(n, v)
    for n, v in alph.pick(alph.G_ANGLES_SMALL, tier, seed, 4):
        add(n, float(v))
    wide = [g - math.copysign(2 * PI, g) for g in alph.G_ANGLES_SMALL]      # pi < |theta| < 2 pi
    for n, v in alph.pick(wide, tier, seed, 4):
        add('w' + n[1:], float(v))
    return out


def lengths(tier):
    # '1+4e-6' / '1-1e-5': almost, but not, unit (a direction typed to a few decimals): it is normalised like any other length
    if tier == 'quick':
        return [('1e-3', 1e-3), ('1', 1.0), ('1e6', 1e6), ('1+4e-6', 1 + 4e-6)]
    return [('1e%d' % k if k else '1', 10.0 ** k) for k in range(-3, 7)] + [('1+4e-6', 1 + 4e-6), ('1-1e-5', 1 - 1e-5), ('1+1e-9', 1 + 1e-9)]


COORDS = [('0', 0.0), ('1', 1.0), ('-1', -1.0), ('g', 0.7), ('1e3', 1e3), ('-1e3', -1e3)]
_CV = dict(COORDS)
SHORT3 = [('0', '0', '0'), ('1', '0', '0'), ('0', '0', '1'), ('1', '-1', '0'), ('g', '1', '-1'), ('1e3', '0', '0'),
          ('0', '-1e3', '0'), ('1e3', '1e3', '1e3'), ('-1e3', '1e3', 'g'), ('1e3', '1', '0')]


def cname(t):
    return 'c(%s)' % ','.join(t)


def points3_short(tier, seed, ahat):
    """short point list (block A): landmark coordinate triples, generic vectors, points tied to the axis"""
    out = [(cname(t), np.array([_CV[c] for c in t])) for t in SHORT3]
    for n, v in alph.pick(alph.G_VEC3, tier, seed, 4):
        out.append((n, np.array(v, dtype=float)))
    out.append(('1e3*d', 1e3 * alph.unit((1, 2, 3))))
    out.append(('2.5*ax', 2.5 * ahat))          # on the axis through the origin: moment exactly/nearly zero
    out.append(('-1e3*ax', -1e3 * ahat))
    return out


def points3_full():
    """block B: every coordinate triple"""
    out = []
    for a in COORDS:
        for b in COORDS:
            for c in COORDS:
                out.append((cname((a[0], b[0], c[0])), np.array([a[1], b[1], c[1]])))
    return out


def points2(tier, seed):
    out = []
    for a in COORDS:
        for b in COORDS:
            out.append((cname((a[0], b[0])), np.array([a[1], b[1]])))
    for n, v in alph.pick(alph.G_VEC2, tier, seed, 4):
        out.append((n, np.array(v, dtype=float)))
    out.append(('1e3*d', 1e3 * alph.unit((1, 2))))
    return out


def axes2(tier, seed):
    out = [('+x', np.array([1.0, 0.0])), ('+y', np.array([0.0, 1.0])), ('-y', np.array([0.0, -1.0]))]
    if tier != 'quick':
        out.append(('-x', np.array([-1.0, 0.0])))
    for n, v in alph.pick(alph.G_VEC2, tier, seed, 3):
        out.append((n, alph.unit(v)))
    out.append(('nd', alph.unit((1, 1e-8))))
    return out


def dirs3(tier, seed):
    return [(an, ln, lv * av) for an, av in alph.axes(tier, seed) for ln, lv in lengths(tier)]


def dirs2(tier, seed):
    return [(an, ln, lv * av) for an, av in axes2(tier, seed) for ln, lv in lengths(tier)]


# --------------------------------------------------------------------------- reference screw motions

class RefScrew:
    """reference motion of one unit twist, from the defining data"""

    def __init__(self, dim, kind, a=None, q=None):
        self.dim, self.kind = dim, kind
        n = dim
        self.q = np.zeros(n) if q is None else np.asarray(q, dtype=float)
        self.qmag = float(np.sqrt(self.q @ self.q))
        if a is not None:
            a = np.asarray(a, dtype=float)
            self.alen = float(np.sqrt(a @ a))
            self.ahat = a / self.alen
        else:
            self.alen = 1.0
            self.ahat = None
        if kind == 'revolute':
            if dim == 3:
                self.K = ref.skew(self.ahat)
            else:
                self.K = np.array([[0.0, -1.0], [1.0, 0.0]])
            self.K2 = self.K @ self.K
            self.Kq = self.K @ self.q
            self.K2q = self.K2 @ self.q
        # test points (columns): points of the axis first (fixed by definition), then off-axis points
        if kind == 'revolute':
            if dim == 3:
                ax = np.stack([self.q + l * self.ahat for l in LAMBDAS], axis=1)
                self.lams = LAMBDAS
            else:
                ax = self.q.reshape(2, 1).copy()
                self.lams = (0.0,)
            off = self.q.reshape(n, 1) + (OFF3 if dim == 3 else OFF2)
            self.P = np.hstack([ax, off])
            self.nax = ax.shape[1]
            self.ptol = np.array([TOL * max(1.0, self.qmag, abs(l)) for l in self.lams] +
                                 [TOL * max(1.0, self.qmag, float(np.linalg.norm(off[:, j] - self.q)))
                                  for j in range(off.shape[1])])
        else:
            self.P = np.hstack([np.zeros((n, 1)), (OFF3 if dim == 3 else OFF2)])
            self.nax = 0
            self.lams = ()
            self.ptol = None
        self.scale = max(1.0, self.qmag)

    def motion(self, theta):
        """(R, t) float64"""
        n = self.dim
        theta = float(theta)
        if self.kind == 'prismatic':
            return np.eye(n), theta * self.ahat
        s = math.sin(theta)
        h = math.sin(theta / 2)
        c1 = 2 * h * h
        R = np.eye(n) + s * self.K + c1 * self.K2
        t = -(s * self.Kq + c1 * self.K2q)
        return R, t

    def motion_mp(self, theta):
        """the same from 50-digit arithmetic (revolute only), rounded to float64"""
        mp = ref.mp
        th = mp.mpf(float(theta))
        q = mp.matrix([mp.mpf(float(x)) for x in self.q])
        if self.dim == 3:
            a = [mp.mpf(float(x)) for x in self.ahat]
            nn = mp.sqrt(sum(x * x for x in a))
            R, _ = ref.mp_exp_so3_mp([x / nn * th for x in a])
        else:
            R = mp.matrix([[mp.cos(th), -mp.sin(th)], [mp.sin(th), mp.cos(th)]])
        t = q - R * q
        return ref.mp_to_np(R), np.array([float(t[i]) for i in range(self.dim)])

    def selfcheck(self, thetalist):
        if self.kind != 'revolute':
            return
        for th in thetalist:
            R, t = self.motion(th)
            Rm, tm = self.motion_mp(th)
            if np.abs(R - Rm).max() > 1e-12 or np.abs(t - tm).max() > 1e-12 * self.scale:
                raise HarnessError('float64 reference screw motion differs from the 50-digit one: theta=%r q=%r a=%r'
                                   % (th, self.q.tolist(), self.ahat.tolist()))


def judge(rs, T, theta, alt_theta=None):
    """None if the (n+1)x(n+1) matrix T is the reference motion for theta, else a description"""
    n = rs.dim
    T = np.asarray(T)
    if T.dtype == object or T.shape != (n + 1, n + 1):
        return 'shape', 'result has shape %s dtype %s' % (T.shape, T.dtype)
    if np.iscomplexobj(T):
        return 'complex', 'complex result'
    T = T.astype(float)
    if not np.all(np.isfinite(T)):
        return ('nan' if np.any(np.isnan(T)) else 'nonfinite'), 'non-finite entries %r' % (T.tolist(),)
    first = None
    for th in ((theta,) if alt_theta is None else (theta, alt_theta)):
        R, t = rs.motion(th)
        msg = None
        e = float(np.abs(T[:n, :n] - R).max())
        last = np.zeros(n + 1)
        last[n] = 1.0
        if e > TOL:
            msg = 'rotation part differs from R(theta=%r, axis) by %.3g (tolerance %.1g)' % (th, e, TOL)
        elif float(np.abs(T[n, :] - last).max()) > TOL:
            msg = 'bottom row %r' % (T[n, :].tolist(),)
        else:
            got = T[:n, :n] @ rs.P + T[:n, n:n + 1]
            if rs.kind == 'revolute':
                E = R @ rs.P + t.reshape(n, 1)
                E[:, :rs.nax] = rs.P[:, :rs.nax]            # the statement: every point of the axis is fixed
                err = np.abs(got - E).max(axis=0)
                bad = np.nonzero(err > rs.ptol)[0]
                if len(bad):
                    j = int(bad[0])
                    if j < rs.nax:
                        msg = ('axis point q%+g a^ moved by %.3g (tolerance %.3g) under exp(%r S)' %
                               (rs.lams[j], err[j], rs.ptol[j], th))
                    else:
                        msg = ('off-axis point q+%r mapped %.3g away from the reference image (tolerance %.3g), theta=%r'
                               % ((rs.P[:, j] - rs.q).tolist(), err[j], rs.ptol[j], th))
            else:
                E = rs.P + t.reshape(n, 1)
                err = float(np.abs(got - E).max())
                tol = TOL * max(1.0, abs(float(th)))
                if err > tol:
                    msg = 'translation %r, expected theta*a^ = %r (error %.3g)' % (T[:n, n].tolist(), t.tolist(), err)
        if msg is None:
            return None
        if first is None:
            first = msg
    return 'mismatch', first


def mats(obj, cls):
    """list of matrices held by a pose object of class cls, or None"""
    if type(obj) is not cls:
        return None
    d = getattr(obj, 'data', None)
    if not isinstance(d, list):
        return None
    return d


# --------------------------------------------------------------------------- one twist: all its cases

class Twister:
    """everything that is enumerated for one unit twist"""

    def __init__(self, ctx, dim, kind, prefix, base_params, key0, ctor, ctor_site, rs, th_list):
        self.ctx, self.dim, self.kind, self.prefix = ctx, dim, kind, prefix
        self.bp, self.key0, self.ctor, self.ctor_site, self.rs = base_params, key0, ctor, ctor_site, rs
        self.th = th_list
        import spatialmath as sm
        import spatialmath.base as smb
        self.sm, self.smb = sm, smb
        self.TW = sm.Twist3 if dim == 3 else sm.Twist2
        self.SE = sm.SE3 if dim == 3 else sm.SE2
        self.cn = 'Twist%d' % dim
        self.trexp = smb.trexp if dim == 3 else smb.trexp2
        self.trexp_name = 'base.trexp' if dim == 3 else 'base.trexp2'
        self.se_name = 'se3' if dim == 3 else 'se2'
        self.S = None

    # -- helpers
    def params(self, **kw):
        p = dict(self.bp)
        p.setdefault('theta', '-')
        p.setdefault('thname', '-')
        p.setdefault('unit', '-')
        p.setdefault('form', '-')
        p.update(kw)
        return p

    def twist(self):
        """the library object, built once; None if the constructor failed (reported under its own case)"""
        if self.S is None:
            ok, S = call(self.ctor)
            self.S = (ok, S)
        ok, S = self.S
        if not ok or type(S) is not self.TW or len(S) != 1:
            return None
        return S

    def start(self, suffix):
        cid = self.prefix + suffix
        if not self.ctx.want(cid, walk=True):    # cases of one twist share the twist object: a replay re-executes the history
            return None
        return cid

    def one(self, cid, site, p, T, theta, alt=None):
        v = judge(self.rs, T, theta, alt)
        self.ctx.cell(site, p.get('method'), p.get('unit'), p.get('form'), 'ok' if v is None else v[0])
        if v is not None:
            kind, msg = v
            self.ctx.fail(cid, site, 'mismatch' if kind == 'shape' else kind, p, msg)
            return False
        return True

    def pose(self, cid, site, p, ok, got, n=1):
        """common checks of a pose result; returns list of matrices or None after reporting"""
        if not ok:
            self.ctx.cell(site, p.get('method'), p.get('unit'), p.get('form'), 'raises')
            self.ctx.fail(cid, site, 'raises:' + type(got).__name__, p, '%s: %s' % (type(got).__name__, got))
            return None
        m = mats(got, self.SE)
        if m is None:
            self.ctx.fail(cid, site, 'returns:' + type(got).__name__, p, 'expected %s' % self.SE.__name__)
            return None
        if len(m) != n:
            self.ctx.fail(cid, site, 'mismatch', p, 'result holds %d values, expected %d' % (len(m), n))
            return None
        return m

    # -- the cases
    def run(self):
        ctx = self.ctx
        if ctx.only is not None and not ctx.only.startswith(self.prefix):
            return
        rs = self.rs
        # constructor
        cid = self.start('ctor')
        if cid:
            ctx.case(cid, key=self.key0 + ('ctor',))
            ok, S = call(self.ctor)
            self.S = (ok, S)
            p = self.params(method='ctor')
            if not ok:
                ctx.fail(cid, self.ctor_site, 'raises:' + type(S).__name__, p, '%s: %s' % (type(S).__name__, S))
            elif type(S) is not self.TW:
                ctx.fail(cid, self.ctor_site, 'returns:' + type(S).__name__, p, 'constructor returned %r' % (S,))
            elif len(S) != 1:
                ctx.fail(cid, self.ctor_site, 'mismatch', p, 'constructor returned %d values' % len(S))
            else:
                ctx.cell(self.ctor_site, 'ok')
        if ctx.only is None:
            pick = [v for n, v in self.th if n in ('0+1e-12', 'pi-1e-6', '2pi')] + [self.th[-1][1], self.th[-5][1]]
            rs.selfcheck(pick)
        self.accessors()
        self.vectors()
        for tn, tv in self.th:
            self.per_theta(tn, tv)
        self.multi()

    def per_theta(self, tn, tv):
        ctx, rs = self.ctx, self.rs
        isint = isinstance(tv, int)
        thf = float(tv)
        triv = (thf == 0.0)
        site = self.cn + '.exp'
        base = 'th=%s/' % tn
        forms = [('float', thf), ('np64', np.float64(thf))] + ([('int', tv)] if isint else [])
        cache = {}
        # --- exp, radians
        for fn, arg in forms:
            cid = self.start(base + 'm=exp/rad/' + fn)
            if not cid:
                continue
            S = self.twist()
            if S is None:
                return
            ctx.case(cid, key=self.key0 + (thf, 'exp', 'rad', fn), trivial=triv)
            p = self.params(method='exp', theta=thf, thname=tn, unit='rad', form=fn)
            ok, got = call(S.exp, arg)
            m = self.pose(cid, site, p, ok, got)
            if m is not None and self.one(cid, site, p, m[0], thf):
                cache[fn] = m[0]
        # --- exp, degrees
        deg = math.degrees(thf)
        dforms = [('float', deg)]
        if tn in DEGK:
            dforms.append(('int', DEGK[tn] * 90))
        for fn, arg in dforms:
            cid = self.start(base + 'm=exp/deg/' + fn)
            if not cid:
                continue
            S = self.twist()
            if S is None:
                return
            ctx.case(cid, key=self.key0 + (thf, 'exp', 'deg', fn), trivial=triv)
            p = self.params(method='exp', theta=thf, thname=tn, unit='deg', form=fn)
            if fn == 'float':
                ok, got = call(S.exp, arg, 'deg')
            else:
                ok, got = call(S.exp, arg, units='deg')
            m = self.pose(cid, site, p, ok, got)
            if m is not None:
                back = math.radians(float(arg))
                # prismatic + deg: the statement does not fix whether theta is converted; accept both
                self.one(cid, site, p, m[0], back, alt=(float(arg) if self.kind == 'prismatic' else None))
        # --- scalar multiple
        msite = self.cn + '.__mul__'
        for fn, arg in forms:
            if fn == 'np64' and not (isint or tn in DEGK):
                continue        # numpy scalars: only at the integer and k pi/2 letters (same isinstance path as float)
            cid = self.start(base + 'm=mulk/' + fn)
            if not cid:
                continue
            S = self.twist()
            if S is None:
                return
            ctx.case(cid, key=self.key0 + (thf, 'mulk', fn), trivial=triv)
            p = self.params(method='mulk', theta=thf, thname=tn, unit='rad', form=fn)
            ok, Sk = call(lambda: S * arg)
            if not ok:
                ctx.fail(cid, msite, 'raises:' + type(Sk).__name__, p, 'S*k: %s: %s' % (type(Sk).__name__, Sk))
                continue
            if type(Sk) is not self.TW or len(Sk) != 1:
                ctx.fail(cid, msite, 'returns:' + type(Sk).__name__, p, 'S*k gave %r' % (Sk,))
                continue
            ok, got = call(Sk.exp)
            m = self.pose(cid, msite, p, ok, got)
            if m is None:
                continue
            if not self.one(cid, msite, p, m[0], thf):
                continue
            if fn in cache:
                m2 = [cache[fn]]
            else:
                ok2, got2 = call(S.exp, arg)
                m2 = mats(got2, self.SE) if ok2 else None
            if m2 and len(m2) == 1 and np.asarray(m2[0]).dtype != object and np.all(np.isfinite(m2[0])):
                d = float(np.abs(np.asarray(m[0], dtype=float) - m2[0]).max())
                if d > TOL * rs.scale:
                    ctx.fail(cid, msite, 'mismatch', p, '(S*k).exp() and S.exp(k) differ by %.3g' % d)
        # --- inverse
        cid = self.start(base + 'm=inv')
        if cid:
            S = self.twist()
            if S is None:
                return
            ctx.case(cid, key=self.key0 + (thf, 'inv'), trivial=triv)
            p = self.params(method='inv', theta=thf, thname=tn, unit='rad', form='float')
            isite = self.cn + '.inv'
            ok, Si = call(S.inv)
            if not ok:
                ctx.fail(cid, isite, 'raises:' + type(Si).__name__, p, '%s: %s' % (type(Si).__name__, Si))
            elif type(Si) is not self.TW or len(Si) != 1:
                ctx.fail(cid, isite, 'returns:' + type(Si).__name__, p, 'inv gave %r' % (Si,))
            else:
                ok, got = call(Si.exp, thf)
                m = self.pose(cid, isite, p, ok, got)
                if m is not None:
                    self.one(cid, isite, p, m[0], -thf)
        # --- se(n) matrix form through the library exponential
        ssite = self.cn + '.' + self.se_name
        for meth in ('se*th', 'se,th', 'S,th'):
            cid = self.start(base + 'm=' + meth)
            if not cid:
                continue
            S = self.twist()
            if S is None:
                return
            ctx.case(cid, key=self.key0 + (thf, meth), trivial=triv)
            p = self.params(method=meth, theta=thf, thname=tn, unit='rad', form='float')
            if meth == 'S,th':
                ok, got = call(lambda: self.trexp(S.S, thf))
                st = self.trexp_name
            else:
                ok, M = call(getattr(S, self.se_name))
                if not ok or not isinstance(M, np.ndarray):
                    ctx.fail(cid, ssite, ('raises:' if not ok else 'returns:') + type(M).__name__, p, repr(M)[:200])
                    continue
                if meth == 'se*th':
                    ok, got = call(lambda: self.trexp(M * thf))
                else:
                    ok, got = call(lambda: self.trexp(M, thf))
                st = ssite
            if not ok:
                ctx.cell(st, meth, 'raises')
                ctx.fail(cid, st, 'raises:' + type(got).__name__, p,
                         '%s(%s) raised %s: %s' % (self.trexp_name, meth, type(got).__name__, got))
                continue
            if not isinstance(got, np.ndarray):
                ctx.fail(cid, st, 'returns:' + type(got).__name__, p, repr(got)[:200])
                continue
            self.one(cid, st, p, got, thf)

    def vectors(self):
        ctx, rs = self.ctx, self.rs
        site = self.cn + '.exp'
        vals = [float(v) for _, v in self.th]
        names = [n for n, _ in self.th]
        gen = [(n, float(v)) for n, v in self.th if n.startswith('g')]
        variants = [('list', None), ('tuple', None), ('ndarray', None)]
        variants += [(f, g) for g in gen for f in ('list1', 'ndarray1')]     # one-element vectors
        # vectors of exactly 2, 3, 4, 6, 7 joint values (the lengths of the twist vectors and of the rows of the matrices: shapes that broadcast
        # against the twist itself)
        variants += [('%s#%d' % (f, k), ('#', k)) for k in (2, 3, 4, 6, 7) for f in ('list', 'ndarray')]
        # a typed table of joint values: multiples of 30 degrees written to six decimals (nearly, not exactly, equally spaced), and its reverse
        variants += [('list#typed', ('T', 1)), ('ndarray#typed', ('T', 1)), ('list#typed-rev', ('T', -1))]
        for unit in ('rad', 'deg'):
            for form, g1 in variants:
                cid = self.start('vec/%s/%s%s' % (unit, form, '' if (g1 is None or g1[0] in ('#', 'T')) else '[%s]' % g1[0]))
                if not cid:
                    continue
                S = self.twist()
                if S is None:
                    return
                if g1 is not None and g1[0] == 'T':
                    vv = [0.0, 0.523599, 1.047198, 1.570796, 2.094395, 2.617994][::g1[1]]
                    nm = ['%.6f' % x for x in vv]
                elif g1 is not None and g1[0] == '#':
                    pick = [i for i, n_ in enumerate(names) if n_ != '0'][:g1[1]]
                    if len(pick) < g1[1]:
                        continue
                    nm, vv = [names[i] for i in pick], [vals[i] for i in pick]
                elif g1 is not None:
                    nm, vv = [g1[0]], [g1[1]]
                else:
                    nm, vv = names, vals
                send = [math.degrees(v) for v in vv] if unit == 'deg' else list(vv)
                arg = {'list': list, 'tuple': tuple, 'ndarray': np.array, 'list1': list, 'ndarray1': np.array}[form.split('#')[0]](send)
                ctx.case(cid, key=self.key0 + ('vec', unit, form, tuple(vv)), n=len(vv))
                p = self.params(method='vec', unit=unit, form=form)
                ok, got = call(S.exp, arg, unit)
                m = self.pose(cid, site, p, ok, got, n=len(vv))
                if m is None:
                    continue
                for i, T in enumerate(m):
                    th = math.radians(send[i]) if unit == 'deg' else vv[i]
                    alt = send[i] if (unit == 'deg' and self.kind == 'prismatic') else None
                    v = judge(rs, T, th, alt)
                    if v is not None:
                        pp = dict(p)
                        pp.update(theta=vv[i], thname=nm[i])
                        ctx.cell(site, 'vec', unit, form, v[0])
                        ctx.fail(cid, site, 'mismatch' if v[0] == 'shape' else v[0], pp,
                                 'element %d (theta %s): %s' % (i, nm[i], v[1]))
                        break
                else:
                    ctx.cell(site, 'vec', unit, form, 'ok')

    def accessors(self):
        ctx, rs, dim, kind = self.ctx, self.rs, self.dim, self.kind
        cn = self.cn

        def acc(name):
            cid = self.start('acc=' + name)
            if not cid:
                return None, None
            S = self.twist()
            if S is None:
                return None, None
            ctx.case(cid, key=self.key0 + ('acc', name))
            return cid, S

        # isprismatic
        cid, S = acc('isprismatic')
        if cid:
            p = self.params(method='isprismatic')
            ok, got = call(lambda: S.isprismatic)
            site = cn + '.isprismatic'
            if not ok:
                ctx.fail(cid, site, 'raises:' + type(got).__name__, p, '%s: %s' % (type(got).__name__, got))
            elif not isinstance(got, (bool, np.bool_)):
                ctx.fail(cid, site, 'returns:' + type(got).__name__, p, 'isprismatic gave %r' % (got,))
            elif bool(got) != (kind == 'prismatic'):
                ctx.fail(cid, site, 'mismatch', p, 'isprismatic is %r for a %s twist' % (got, kind))
            else:
                ctx.cell(site, kind, bool(got))
        # the same question after twists of every other kind have been built in the meantime (a joint list is built first and queried later):
        # the answer belongs to the object
        cid, S = acc('isprismatic/later')
        if cid:
            import spatialmath as sm_
            p = self.params(method='isprismatic', later=1)
            site = cn + '.isprismatic'
            for on, mk in (('Twist3.Revolute', lambda: sm_.Twist3.Revolute([0, 0, 1], [1, 2, 0])), ('Twist3.Prismatic', lambda: sm_.Twist3.Prismatic([0, 1, 0])),
                           ('Twist2.Revolute', lambda: sm_.Twist2.Revolute([1, 2])), ('Twist2.Prismatic', lambda: sm_.Twist2.Prismatic([0, 1])),
                           ('Twist3(v)', lambda: sm_.Twist3([1.0, 2, 3, 0, 0, 0])), ('Twist3(SE3)', lambda: sm_.Twist3(sm_.SE3.Rx(0.3)))):
                ok0, other = call(mk)
                ok, got = call(lambda: S.isprismatic)
                if ok and isinstance(got, (bool, np.bool_)) and bool(got) != (kind == 'prismatic'):
                    ctx.fail(cid, site, 'mismatch', dict(p, other=on), 'isprismatic is %r for a %s twist once a %s has been built after it' % (got, kind, on))
                    break
                if ok0 and other is not None:
                    ok2, g2 = call(lambda: other.isprismatic)
                    want2 = on.endswith('Prismatic') or on == 'Twist3(v)'
                    if ok2 and isinstance(g2, (bool, np.bool_)) and bool(g2) != want2:
                        ctx.fail(cid, on.split('(')[0] + '.isprismatic', 'mismatch', dict(p, other=on), 'isprismatic of a fresh %s is %r while a %s %s is alive' % (on, g2, kind, cn))
                        break
        # exp() without argument: theta = 1
        cid, S = acc('exp()')
        if cid:
            p = self.params(method='exp', theta=1.0, thname='default', unit='rad', form='none')
            ok, got = call(S.exp)
            m = self.pose(cid, cn + '.exp', p, ok, got)
            if m is not None:
                self.one(cid, cn + '.exp', p, m[0], 1.0)
        # observations the statement leaves open: recorded, never judged
        cid, S = acc('notes')
        if cid:
            for name in ('isrevolute', 'isunit'):
                ok, got = call(lambda: getattr(S, name))
                val = repr(got) if ok else 'raises:' + type(got).__name__
                moment0 = (kind == 'revolute' and float(np.abs(np.asarray(S.S)[:dim]).max()) == 0.0)
                ctx.cell(cn + '.' + name, kind, 'moment=0' if moment0 else 'moment!=0', val)
                ctx.note('%s.%s (not constrained by the statement)' % (cn, name),
                         '%s twist, %s: %s' % (kind, 'zero moment' if moment0 else 'non-zero moment', val))
            if dim == 2:
                for name in ('pitch', 'pole', 'theta', 'line'):
                    if not hasattr(S, name):
                        ctx.note('Twist2 accessors absent (not judged)', name)
        # se(n) matrix form: structure from the defining data, and its 50-digit matrix exponential
        cid, S = acc(self.se_name)
        if cid:
            site = cn + '.' + self.se_name
            p = self.params(method=self.se_name)
            ok, M = call(getattr(S, self.se_name))
            n = dim
            if not ok:
                ctx.fail(cid, site, 'raises:' + type(M).__name__, p, '%s: %s' % (type(M).__name__, M))
            elif not isinstance(M, np.ndarray) or M.shape != (n + 1, n + 1):
                ctx.fail(cid, site, 'returns:' + type(M).__name__, p, 'se form is %r' % (M,))
            elif not np.all(np.isfinite(M)):
                ctx.fail(cid, site, 'nonfinite', p, repr(M.tolist()))
            else:
                E = np.zeros((n + 1, n + 1))
                if kind == 'revolute':
                    E[:n, :n] = rs.K
                    E[:n, n] = -rs.Kq            # v = -a^ x q
                else:
                    E[:n, n] = rs.ahat
                d = float(np.abs(M - E).max())
                if d > TOL * rs.scale:
                    ctx.fail(cid, site, 'mismatch', p,
                             'se matrix differs from [[skew(a^), -a^ x q],[0 0]] by %.3g: %r' % (d, M.tolist()))
                else:
                    ctx.cell(site, kind, 'structure ok')
                    for tn in ('i-3', '2pi-1e-6'):           # letters present in both tiers for every seed
                        tv = [float(v) for n_, v in self.th if n_ == tn][0]
                        T = ref.mp_expm(M * tv)
                        v = judge(rs, T, tv)
                        if v is not None:
                            pp = dict(p)
                            pp.update(theta=tv, method=self.se_name + '/expm')
                            ctx.fail(cid, site, 'mismatch', pp, 'expm(theta*%s()): %s' % (self.se_name, v[1]))
                            break
        # inv: negation
        cid, S = acc('inv')
        if cid:
            site = cn + '.inv'
            p = self.params(method='inv/neg')
            ok, Si = call(S.inv)
            if not ok:
                ctx.fail(cid, site, 'raises:' + type(Si).__name__, p, '%s: %s' % (type(Si).__name__, Si))
            elif type(Si) is not self.TW or len(Si) != 1:
                ctx.fail(cid, site, 'returns:' + type(Si).__name__, p, 'inv gave %r' % (Si,))
            elif not np.array_equal(np.asarray(Si.S), -np.asarray(S.S)):
                ctx.fail(cid, site, 'mismatch', p, 'inv() is %r, twist is %r' % (np.asarray(Si.S).tolist(), np.asarray(S.S).tolist()))
            else:
                ctx.cell(site, 'negation ok')
        if dim != 3:
            return
        # theta(): rotation magnitude of the unit twist
        cid, S = acc('theta')
        if cid:
            site = cn + '.theta'
            p = self.params(method='theta')
            exp = 1.0 if kind == 'revolute' else 0.0
            ok, got = call(S.theta)
            self.scalar(cid, site, p, ok, got, exp, TOL, 'theta()')
        if kind != 'revolute':
            return
        # pitch() = 0
        cid, S = acc('pitch')
        if cid:
            site = cn + '.pitch'
            p = self.params(method='pitch')
            ok, got = call(S.pitch)
            self.scalar(cid, site, p, ok, got, 0.0, TOL * rs.scale, 'pitch()')
        # pole() on the axis
        cid, S = acc('pole')
        if cid:
            site = cn + '.pole'
            p = self.params(method='pole')
            ok, got = call(S.pole)
            if not ok:
                ctx.fail(cid, site, 'raises:' + type(got).__name__, p, '%s: %s' % (type(got).__name__, got))
            else:
                g = np.asarray(got)
                if g.dtype == object or g.size != 3:
                    ctx.fail(cid, site, 'returns:' + type(got).__name__, p, 'pole() gave %r' % (got,))
                elif not np.all(np.isfinite(g.astype(float))):
                    ctx.fail(cid, site, 'nan' if np.any(np.isnan(g.astype(float))) else 'nonfinite', p, 'pole() gave %r' % (got,))
                else:
                    g = g.astype(float).ravel()
                    d = g - rs.q
                    lam = float(d @ rs.ahat)
                    dist = float(np.abs(d - lam * rs.ahat).max())
                    tol = TOL * max(1.0, rs.qmag, abs(lam))
                    if dist > tol:
                        ctx.fail(cid, site, 'mismatch', p, 'pole %r is %.3g off the axis (tolerance %.3g)' % (g.tolist(), dist, tol))
                    else:
                        ctx.cell(site, 'on axis')
        # line(): Plucker line incident with and parallel to the axis
        cid, S = acc('line')
        if cid:
            site = cn + '.line'
            p = self.params(method='line')
            ok, L = call(S.line)
            if not ok:
                ctx.fail(cid, site, 'raises:' + type(L).__name__, p, '%s: %s' % (type(L).__name__, L))
            elif type(L) is not self.sm.geom3d.Plucker or len(L) != 1:
                ctx.fail(cid, site, 'returns:' + type(L).__name__, p, 'line() gave %r' % (L,))
            else:
                mv = np.asarray(L.v, dtype=float)        # moment
                dw = np.asarray(L.w, dtype=float)        # direction
                if not (np.all(np.isfinite(mv)) and np.all(np.isfinite(dw))):
                    ctx.fail(cid, site, 'nonfinite', p, 'line() = (%r, %r)' % (mv.tolist(), dw.tolist()))
                else:
                    wn = float(np.sqrt(dw @ dw))
                    if wn == 0.0:
                        ctx.fail(cid, site, 'mismatch', p, 'line() has zero direction')
                    else:
                        par = float(np.abs(np.cross(dw, rs.ahat)).max()) / wn
                        msg = None
                        if par > TOL:
                            msg = 'direction %r not parallel to the axis %r (sine %.3g)' % (dw.tolist(), rs.ahat.tolist(), par)
                        else:
                            for l in LAMBDAS:
                                pt = rs.q + l * rs.ahat
                                dist = float(np.abs(np.cross(dw, pt) - mv).max()) / wn
                                tol = TOL * max(1.0, rs.qmag, abs(l))
                                if dist > tol:
                                    msg = 'axis point q%+g a^ is %.3g from the line (tolerance %.3g)' % (l, dist, tol)
                                    break
                        if msg:
                            ctx.fail(cid, site, 'mismatch', p, msg)
                        else:
                            ctx.cell(site, 'incident and parallel')

    def scalar(self, cid, site, p, ok, got, exp, tol, what):
        ctx = self.ctx
        if not ok:
            ctx.fail(cid, site, 'raises:' + type(got).__name__, p, '%s: %s' % (type(got).__name__, got))
            return
        if isinstance(got, (bool, np.bool_)) or not isinstance(got, (int, float, np.integer, np.floating)):
            g = np.asarray(got)
            if g.dtype == object or g.size != 1 or g.dtype.kind not in 'fiu':
                ctx.fail(cid, site, 'returns:' + type(got).__name__, p, '%s gave %r' % (what, got))
                return
            got = g.ravel()[0]
        got = float(got)
        if math.isnan(got):
            ctx.fail(cid, site, 'nan', p, '%s is NaN' % what)
        elif math.isinf(got):
            ctx.fail(cid, site, 'nonfinite', p, '%s is %r' % (what, got))
        elif abs(got - exp) > tol:
            ctx.fail(cid, site, 'mismatch', p, '%s = %r, expected %r (tolerance %.3g)' % (what, got, exp, tol))
        else:
            ctx.cell(site, 'ok')

    def multi(self):
        """a 2-valued twist object [S, S.inv()]: outside the statement's quantifier -> coverage + notes"""
        ctx, rs = self.ctx, self.rs
        cid = self.start('multi')
        if not cid:
            return
        S = self.twist()
        if S is None:
            return
        ctx.case(cid, key=self.key0 + ('multi',))
        ok, M2 = call(lambda: self.TW([S, S.inv()]))
        if not ok or type(M2) is not self.TW or len(M2) != 2:
            self.multi_report(cid, self.cn, 'ctor', ok, M2)
            return
        g = [1.0, -3.0]
        ok, got = call(M2.exp, g)
        m = mats(got, self.SE) if ok else None
        if m is None or len(m) != 2:
            self.multi_report(cid, self.cn + '.exp', 'vector theta on 2-valued twist', ok, got)
        else:
            v = judge(rs, m[0], g[0]) or judge(rs, m[1], -g[1])
            if v is not None:
                self.multi_report(cid, self.cn + '.exp', 'vector theta on 2-valued twist: ' + v[1], True, None, bad=True)
            else:
                ctx.cell(self.cn + '.exp', 'multi', 'ok')
        ok, got = call(M2.exp, g + [0.1])
        ctx.cell(self.cn + '.exp', 'multi-length-mismatch', 'returns' if ok else 'raises:' + type(got).__name__)
        for name in ('isprismatic', 'isrevolute', 'isunit'):
            ok, got = call(lambda: getattr(M2, name))
            if not ok:
                self.multi_report(cid, self.cn + '.' + name, '2-valued twist', ok, got)
            else:
                exp = [getattr(S, name), getattr(S.inv(), name)]
                if list(got) != exp:
                    self.multi_report(cid, self.cn + '.' + name, '2-valued twist gives %r, singles %r' % (got, exp), True, None, bad=True)
        ok, got = call(getattr(M2, self.se_name))
        if not ok or not isinstance(got, list) or len(got) != 2 or \
                not np.array_equal(got[0], getattr(S, self.se_name)()):
            self.multi_report(cid, self.cn + '.' + self.se_name, '2-valued twist', ok, got, bad=True)

    def multi_report(self, cid, site, what, ok, got, bad=False):
        kind = ('raises:' + type(got).__name__) if not ok else ('mismatch' if bad else 'returns:' + type(got).__name__)
        if CHECK_MULTI:
            self.ctx.fail(cid, site, kind, self.params(method='multi'), '%s: %r' % (what, got))
        else:
            self.ctx.cell(site, 'multi', kind)
            self.ctx.note('multi-valued twist objects (outside the quantifier, not judged)',
                          '%s %s: %s%s' % (site, kind, what, '' if ok else ' (%s)' % got))


# --------------------------------------------------------------------------- shards

def twists3(tier, seed, block):
    """[(axis name, length name, a, point name, q)] of one block, in a fixed order"""
    out = []
    if block == 'A':
        for an, ln, a in dirs3(tier, seed):
            ahat = a / math.sqrt(float(a @ a))
            for qn, q in points3_short(tier, seed, ahat):
                out.append((an, ln, a, qn, q))
    else:
        full = points3_full()
        for an, av in alph.axes(tier, seed):
            sn = set(nm for nm, _ in points3_short(tier, seed, av))      # block A already has these at length 1
            for qn, q in full:
                if qn not in sn:
                    out.append((an, '1', 1.0 * av, qn, q))
    return out


def shards(tier, seed):
    out = []
    na = 24 if tier == 'quick' else 28
    for k in range(na):
        out.append(('rev3A', k, na))
    if tier != 'quick':
        for k in range(34):
            out.append(('rev3B', k, 34))
    out.append(('pris3', 0, 2))
    out.append(('pris3', 1, 2))
    out.append(('rev2', 0, 2))
    out.append(('rev2', 1, 2))
    out.append(('pris2', 0, 1))
    return out


def run_shard(ctx, shard):
    with contextlib.redirect_stdout(io.StringIO()):
        _run_shard(ctx, shard)


def _run_shard(ctx, shard):
    import spatialmath as sm
    tier, seed = ctx.tier, ctx.seed
    kind, k, n = shard
    th = thetas(tier, seed)
    if kind in ('rev3A', 'rev3B'):
        for an, ln, a, qn, q in twists3(tier, seed, kind[-1])[k::n]:
            prefix = 'C18/d3/rev/ax=%s/len=%s/q=%s/' % (an, ln, qn)
            if ctx.only is not None and not ctx.only.startswith(prefix):
                continue
            rs = RefScrew(3, 'revolute', a, q)
            bp = {'dim': 3, 'kind': 'revolute', 'axis': an, 'axislen': rs.alen, 'q': qn, 'qmag': rs.qmag}
            key0 = (3, 'rev', tuple(a.tolist()), tuple(q.tolist()))
            ctor = (lambda a=a, q=q: sm.Twist3.Revolute(a.copy(), q.copy()))
            Twister(ctx, 3, 'revolute', prefix, bp, key0, ctor, 'Twist3.Revolute', rs, th).run()
    elif kind == 'pris3':
        for an, ln, a in dirs3(tier, seed)[k::n]:
            prefix = 'C18/d3/pris/ax=%s/len=%s/' % (an, ln)
            if ctx.only is not None and not ctx.only.startswith(prefix):
                continue
            rs = RefScrew(3, 'prismatic', a, None)
            bp = {'dim': 3, 'kind': 'prismatic', 'axis': an, 'axislen': rs.alen, 'q': '-', 'qmag': 0.0}
            key0 = (3, 'pris', tuple(a.tolist()))
            ctor = (lambda a=a: sm.Twist3.Prismatic(a.copy()))
            Twister(ctx, 3, 'prismatic', prefix, bp, key0, ctor, 'Twist3.Prismatic', rs, th).run()
    elif kind == 'rev2':
        for qn, q in points2(tier, seed)[k::n]:
            prefix = 'C18/d2/rev/q=%s/' % qn
            if ctx.only is not None and not ctx.only.startswith(prefix):
                continue
            rs = RefScrew(2, 'revolute', None, q)
            bp = {'dim': 2, 'kind': 'revolute', 'axis': '-', 'axislen': 1.0, 'q': qn, 'qmag': rs.qmag}
            key0 = (2, 'rev', tuple(q.tolist()))
            ctor = (lambda q=q: sm.Twist2.Revolute(q.copy()))
            Twister(ctx, 2, 'revolute', prefix, bp, key0, ctor, 'Twist2.Revolute', rs, th).run()
    elif kind == 'pris2':
        for an, ln, a in dirs2(tier, seed)[k::n]:
            prefix = 'C18/d2/pris/ax=%s/len=%s/' % (an, ln)
            if ctx.only is not None and not ctx.only.startswith(prefix):
                continue
            rs = RefScrew(2, 'prismatic', a, None)
            bp = {'dim': 2, 'kind': 'prismatic', 'axis': an, 'axislen': rs.alen, 'q': '-', 'qmag': 0.0}
            key0 = (2, 'pris', tuple(a.tolist()))
            ctor = (lambda a=a: sm.Twist2.Prismatic(a.copy()))
            Twister(ctx, 2, 'prismatic', prefix, bp, key0, ctor, 'Twist2.Prismatic', rs, th).run()
    else:
        raise HarnessError('unknown shard %r' % (shard,))
