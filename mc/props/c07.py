"""
C07  Invalid values are rejected: objects never hold non-members.

E1 product explorer: valid member (generator set) x defect (one entry + 10^k, rotation block scaled
by 1+10^k, left / right reflection, last-row corruptions; for twist matrices symmetric part,
diagonal, last row) x container form (bare array, [bad], [good,bad], [bad,good], [good,bad,good],
tuple forms, object of the sub/super class) x class, with check left at its default; and the
membership / unit / zero / skew predicates on members, perturbed members and primitive-constructor
outputs.  The distance from the group is computed by the harness (polar decomposition / norms).
"""
import itertools, math
import numpy as np
from mc import ref, alph
from mc.core import call, HarnessError

PROP = 'C07'
LEVEL = 'exploration'
RULE = ('full product class x member x defect kind x defect magnitude 10^k x container form; predicates x (members, '
        'perturbed members, primitive-constructor outputs); non-trivial = a defect is present or the member is not the identity; '
        'distinct = distinct (class, member, defect, magnitude, container)')
ASSUME = ['distance from the group = max(|R - polar(R)|_max (infinite if det < 0), last-row deviation); rejection is demanded only '
          'when it exceeds 1e-6, acceptance only for exact constructor outputs',
          'whenever an object is returned its .data must hold arrays of the class shape, never None',
          'scalar / norm predicates: True demanded only where the float norm is exactly the defining value, False only outside the 1e-6 band']
ANCHORS = [('spatialmath.base.transformsNd', n) for n in ('isR', 'isskew', 'isskewa', 'iseye')] + \
          [('spatialmath.base.transforms3d', 'ishom'), ('spatialmath.base.transforms3d', 'isrot'),
           ('spatialmath.base.transforms2d', 'ishom2'), ('spatialmath.base.transforms2d', 'isrot2'),
           ('spatialmath.base.quaternions', 'isunit'), ('spatialmath.base.vectors', 'isunitvec'),
           ('spatialmath.base.vectors', 'iszerovec'), ('spatialmath.base.vectors', 'isunittwist'),
           ('spatialmath.base.vectors', 'isunittwist2'), ('spatialmath.smuserlist', 'SMUserList.arghandler'),
           ('spatialmath.smuserlist', 'SMUserList._import'), ('spatialmath.pose3d', 'SO3.isvalid'), ('spatialmath.pose3d', 'SE3.isvalid'),
           ('spatialmath.pose2d', 'SO2.isvalid'), ('spatialmath.pose2d', 'SE2.isvalid'), ('spatialmath.twist', 'Twist3.isvalid'),
           ('spatialmath.twist', 'Twist2.isvalid'), ('spatialmath.twist', 'Twist3._import'), ('spatialmath.twist', 'Twist2._import')]

BAND = 1e-6


def ks(tier):
    return (-12, -9, -7, -5, -3, -1, 0) if tier == 'quick' else tuple(range(-12, 1))


def distance(M, kind):
    """distance of M from the group named kind"""
    n = int(kind[2])
    M = np.asarray(M, dtype=float)
    R = M[:n, :n]
    if np.linalg.det(R) <= 0:
        return float('inf')
    U, s, Vt = np.linalg.svd(R)
    d = float(np.abs(R - U @ Vt).max())
    if kind[:2] == 'SE':
        last = np.zeros(n + 1)
        last[n] = 1
        d = max(d, float(np.abs(M[n, :] - last).max()))
    return d


def defects(M, kind, tier):
    """[(defect name, k or None, bad matrix)]"""
    n = int(kind[2])
    se = kind[:2] == 'SE'
    out = []
    for k in ks(tier):
        e = 10.0 ** k
        for (i, j) in itertools.product(range(n), range(n)):
            B = M.copy()
            B[i, j] += e
            out.append(('entry%d%d' % (i, j), k, B))
        B = M.copy()
        B[:n, :n] *= (1 + e)
        out.append(('scale', k, B))
        B = M.copy()
        B[:n, :n] += e * np.array([[0.3, -0.7, 0.2], [0.5, 0.1, -0.9], [-0.4, 0.8, 0.6]])[:n, :n]
        out.append(('noise', k, B))
        if se:
            for j in range(n):
                B = M.copy()
                B[n, j] = e
                out.append(('lastrow0%d' % j, k, B))
            B = M.copy()
            B[n, n] = 1 + e
            out.append(('lastrow1', k, B))
    if np.array_equal(M, np.round(M)):
        # integer-valued member: the same defects supplied as an INTEGER array (dtype is a container property too)
        Mi = np.round(M).astype(int)
        B = Mi.copy()
        B[n - 1, :n] = -B[n - 1, :n]
        out.append(('int-refl', None, B))
        B = Mi.copy()
        B[0, 1] += 1
        out.append(('int-entry01', 0, B))
        if se:
            B = Mi.copy()
            B[n, 0] = 1
            out.append(('int-lastrow0', 0, B))
            B = Mi.copy()
            B[n, n] = 2
            out.append(('int-lastrow1', 0, B))
        B = Mi.astype(bool) if not se else None
        if B is not None:
            B = B.copy()
            B[0, 1] = True
            out.append(('bool-entry01', 0, B))
    F = np.eye(M.shape[0])
    F[n - 1, n - 1] = -1
    out.append(('reflL', None, F @ M))
    F = np.eye(M.shape[0])
    F[0, 0] = -1
    out.append(('reflR', None, M @ F))
    B = M.copy()
    B[:n, :n] = -B[:n, :n]
    if n % 2 == 1:
        out.append(('negate', None, B))
    return out


def containers(good, bad, C=None):
    extra = []
    if C is not None:
        # lists that START with an instance of the class (a different dispatch arm of the constructor)
        extra = [('[obj,bad]', lambda: [C(good.copy()), bad.copy()]), ('(obj,bad,obj)', lambda: (C(good.copy()), bad.copy(), C(good.copy())))]
        # the array OBJECT has a history with the constructors: it was accepted before without checking, it was accepted while it
        # still held a valid value and was then changed in place, or another class accepted it (a 3x3 is SO(3) or SE(2))
        def h_nocheck():
            b = bad.copy()
            call(C, b, check=False)
            return b

        def h_mutated():
            v = good.copy()
            call(C, v)
            if v.shape == bad.shape:
                v[...] = bad
                return v
            return bad.copy()

        def h_other():
            import spatialmath as sm
            b = bad.copy()
            for K in (sm.SO2, sm.SE2, sm.SO3, sm.SE3, sm.UnitQuaternion, sm.Twist3, sm.Twist2):
                if K is not C:
                    call(K, b)
                    call(K, b, check=False)
            return b
        extra += [('bare/hist=nocheck', h_nocheck), ('bare/hist=mutated', h_mutated), ('bare/hist=otherclass', h_other),
                  ('[good,bad]/hist=nocheck', lambda: [good.copy(), h_nocheck()]), ('[bad]/hist=mutated', lambda: [h_mutated()])]
    # the numbers of the matrix as nested Python sequences (what .tolist() gives), alone and inside a list
    extra += [('nested-list', lambda: bad.tolist()), ('nested-tuple', lambda: tuple(tuple(r) for r in bad.tolist())), ('[nested]', lambda: [bad.tolist()]),
              ('[good,nested]', lambda: [good.copy(), bad.tolist()])] if getattr(bad, 'ndim', 1) == 2 else []
    return extra + [('bare', lambda: bad.copy()), ('[bad]', lambda: [bad.copy()]), ('[good,bad]', lambda: [good.copy(), bad.copy()]),
            ('[bad,good]', lambda: [bad.copy(), good.copy()]), ('[good,bad,good]', lambda: [good.copy(), bad.copy(), good.copy()]),
            ('(bad,)', lambda: (bad.copy(),)), ('(good,bad)', lambda: (good.copy(), bad.copy()))]


def inspect_object(obj, shape, kind, C):
    """None if every element of obj.data is an array of the class shape whose distance from the group is <= BAND"""
    if type(obj) is not C:
        return 'result of class %s' % type(obj).__name__
    d = getattr(obj, 'data', None)
    if not isinstance(d, list):
        return 'data is %s' % type(d).__name__
    for i, e in enumerate(d):
        if e is None:
            return 'element %d is None' % i
        if not isinstance(e, np.ndarray):
            return 'element %d has type %s' % (i, type(e).__name__)
        if e.shape != shape:
            return 'element %d has shape %s, class shape is %s' % (i, e.shape, shape)
        if kind is not None:
            if not np.all(np.isfinite(e)):
                return 'element %d not finite' % i
            if kind == 'UQ':
                if abs(np.linalg.norm(e) - 1) > BAND:
                    return 'element %d has norm %.9g' % (i, np.linalg.norm(e))
            elif distance(e, kind) > BAND:
                return 'element %d is %.3g away from %s' % (i, distance(e, kind), kind)
    return None


def members(kind, tier, seed):
    if kind == 'SO3':
        return alph.gen_SO3(tier, seed)
    if kind == 'SO2':
        return alph.gen_SO2(tier, seed)
    G = alph.gen_SE(int(kind[2]), tier, seed)
    return [g for g in G if '1e6' not in g[0]] if tier == 'quick' else G


def ctor_cases(ctx, cname, k, K):
    import spatialmath as sm
    tier, seed = ctx.tier, ctx.seed
    C = getattr(sm, cname)
    kind = cname
    n = int(kind[2])
    shape = (n, n) if kind[:2] == 'SO' else (n + 1, n + 1)
    G = members(kind, tier, seed)
    good = G[1][1]
    for gi, (gn, M) in enumerate(G):
        if gi % K != k:
            continue
        for dn, kk, B in defects(M, kind, tier):
            dist = distance(B, kind)
            for cn, mk in containers(good, B, C):
                cid = 'C07/%s/%s/%s/k=%s/%s' % (cname, gn, dn, kk, cn)
                if not ctx.want(cid):
                    continue
                ctx.case(cid, key=(cname, gn, dn, kk, cn))
                P = dict(cls=cname, g=gn.split('|')[0], defect=dn, container=cn)
                if kk is not None:
                    P['k'] = kk
                ok, r = call(C, mk())
                ctx.cell(cname, dn, 'raised' if not ok else 'returned')
                if not ok:
                    continue
                bad = inspect_object(r, shape, kind, C)
                if dist > BAND:
                    ctx.fail(cid, cname, 'no-raise', P, '%s(%s) with a value %.3g away from the group returned an object (%s)' %
                             (cname, cn, dist, bad or 'holding the value'))
                elif bad:
                    ctx.fail(cid, cname, 'invalid-member', P, '%s(%s) returned an object: %s' % (cname, cn, bad))
            # the raw array as an OPERAND of a pose object (NumPy defers array <op> pose to the reflected methods): whatever comes back, it is
            # not a pose object holding the non-member (an exception, or a plain array, are both fine)
            if dist > BAND:
                import operator
                for on, of in (('*', operator.mul), ('/', operator.truediv), ('@', operator.matmul), ('+', operator.add), ('-', operator.sub)):
                    for side in ('array op pose', 'pose op array'):
                        for nv in (1, 2):
                            cid = 'C07/%s/%s/%s/k=%s/operand/%s/%s/n=%d' % (cname, gn, dn, kk, on, side.replace(' ', '-'), nv)
                            if not ctx.want(cid):
                                continue
                            ctx.case(cid, key=cid)
                            X = C([good.copy() for _ in range(nv)])
                            ok, r = call(of, B.copy(), X) if side.startswith('array') else call(of, X, B.copy())
                            if ok and hasattr(r, 'data') and isinstance(getattr(r, 'data'), list) and type(r).__module__.startswith('spatialmath'):
                                bad = inspect_object(r, shape, kind, type(r)) if type(r) is C else None
                                if bad:
                                    P = dict(cls=cname, g=gn.split('|')[0], defect=dn, container='operand', op=on)
                                    ctx.fail(cid, cname, 'invalid-member', P, '%s with a value %.3g away from the group returned a %s: %s' % (side.replace('op', on), dist, cname, bad))
        # valid member in every container is accepted and stored intact
        for cn, mk in containers(good, M):
            if 'nested' in cn:
                continue        # nested sequences are not a documented container form: only "no object holding a non-member" is demanded of them
            cid = 'C07/%s/%s/valid/%s' % (cname, gn, cn)
            if not ctx.want(cid):
                continue
            ctx.case(cid, key=(cname, gn, 'valid', cn), trivial=(gi == 0))
            P = dict(cls=cname, g=gn.split('|')[0], defect='none', container=cn)
            ok, r = call(C, mk())
            if not ok:
                ctx.fail(cid, cname, 'raises:' + type(r).__name__, P, 'valid member rejected: %r' % (r,))
            else:
                bad = inspect_object(r, shape, kind, C)
                if bad:
                    ctx.fail(cid, cname, 'invalid-member', P, bad)


def variant_constructors(ctx):
    """the named constructors with arguments outside their documented domain (a differential motion that is not small, exponential
    coordinates that are not in the algebra, degenerate direction pairs): refused, or the object holds members"""
    import spatialmath as sm
    M44 = np.arange(16.0).reshape(4, 4) / 10
    M33 = np.arange(9.0).reshape(3, 3) / 10
    cases = []
    for mag in (1e-9, 1e-6, 1e-3, 0.1, 1.0):
        cases.append(('SE3.Delta/|d|=%g' % mag, sm.SE3, 'SE3', (4, 4), lambda mag=mag: sm.SE3.Delta(mag * np.array([1.0, 2, 3, 1, -2, 3]))))
        cases.append(('SE3.Delta/rot-only/|d|=%g' % mag, sm.SE3, 'SE3', (4, 4), lambda mag=mag: sm.SE3.Delta(mag * np.array([0.0, 0, 0, 1, 1, 1]))))
    cases += [('SE3.Exp/4x4-not-se3', sm.SE3, 'SE3', (4, 4), lambda: sm.SE3.Exp(M44.copy())), ('SO3.Exp/3x3-not-so3', sm.SO3, 'SO3', (3, 3), lambda: sm.SO3.Exp(M33.copy())),
              ('SE2.Exp/3x3-not-se2', sm.SE2, 'SE2', (3, 3), lambda: sm.SE2.Exp(M33.copy())), ('SO2.Exp/2x2-not-so2', sm.SO2, 'SO2', (2, 2), lambda: sm.SO2.Exp(np.array([[0.1, 0.2], [0.3, 0.4]]))),
              ('SE3.Exp/4x4-not-se3/check=False', sm.SE3, 'SE3', (4, 4), lambda: sm.SE3.Exp(M44.copy(), check=False)), ('SO3.Exp/3x3-not-so3/check=False', sm.SO3, 'SO3', (3, 3), lambda: sm.SO3.Exp(M33.copy(), check=False)),
              ('SO3.OA/parallel', sm.SO3, 'SO3', (3, 3), lambda: sm.SO3.OA([0, 1, 0], [0, 2, 0])), ('SE3.OA/parallel', sm.SE3, 'SE3', (4, 4), lambda: sm.SE3.OA([0, 1, 0], [0, 2, 0])),
              ('SO3.OA/zero', sm.SO3, 'SO3', (3, 3), lambda: sm.SO3.OA([0, 0, 0], [0, 0, 1])), ('SO3.AngVec/zero-axis', sm.SO3, 'SO3', (3, 3), lambda: sm.SO3.AngVec(0.3, [0, 0, 0])),
              ('SE3.AngVec/zero-axis', sm.SE3, 'SE3', (4, 4), lambda: sm.SE3.AngVec(0.3, [0, 0, 0])), ('SO3.EulerVec/zero', sm.SO3, 'SO3', (3, 3), lambda: sm.SO3.EulerVec([0, 0, 0])),
              ('SE3.SO3/array-not-member', sm.SE3, 'SE3', (4, 4), lambda: sm.SE3.SO3(M33.copy())), ('SE2.SE3 of checked', sm.SE3, 'SE3', (4, 4), lambda: sm.SE2(1, 2, 0.3).SE3())]
    for name, C, kind, shape, f in cases:
        cid = 'C07/variant/' + name
        if not ctx.want(cid):
            continue
        ctx.case(cid, key=cid)
        ok, r = call(f)
        ctx.cell(name.split('/')[0], 'raised' if not ok else 'returned')
        if ok and type(r) is C:
            bad = inspect_object(r, shape, kind, C)
            if bad:
                ctx.fail(cid, name.split('/')[0], 'invalid-member', dict(cls=kind, defect='domain', container=name.split('/', 1)[1]), '%s returned a %s object: %s' % (name, kind, bad))


def subsuper_cases(ctx):
    """an object of the sub/super class (or a foreign class) handed to a constructor"""
    import spatialmath as sm
    tier, seed = ctx.tier, ctx.seed
    pairs = [('SO3', 'SE3'), ('SE3', 'SO3'), ('SO2', 'SE2'), ('SE2', 'SO2'), ('SO3', 'SO2'), ('SE3', 'SE2'), ('SO2', 'SO3'), ('SE2', 'SE3')]
    for cn, on in pairs:
        C, O = getattr(sm, cn), getattr(sm, on)
        n = int(cn[2])
        shape = (n, n) if cn[:2] == 'SO' else (n + 1, n + 1)
        G = members(on, tier, seed)[:6]
        for gn, M in G:
            for form, mk in (('obj', lambda: O(M.copy())), ('[obj]', lambda: [O(M.copy())]), ('[obj,obj]', lambda: [O(M.copy()), O(M.copy())])):
                cid = 'C07/%s/from-%s/%s/%s' % (cn, on, gn, form)
                if not ctx.want(cid):
                    continue
                ctx.case(cid, key=(cn, on, gn, form))
                P = dict(cls=cn, other=on, container=form, defect='foreign-class')
                ok, r = call(C, mk())
                ctx.cell(cn, 'from-' + on, 'raised' if not ok else 'returned')
                if ok:
                    bad = inspect_object(r, shape, cn, C)
                    if bad:
                        ctx.fail(cid, cn, 'invalid-member', P, '%s(<%s %s>) returned an object: %s' % (cn, on, form, bad))


def uq_cases(ctx):
    import spatialmath as sm
    tier, seed = ctx.tier, ctx.seed
    UQ = sm.UnitQuaternion
    for kind in ('SO3', 'SE3'):
        G = members(kind, tier, seed)[:6]
        good = G[1][1]
        for gn, M in G:
            for dn, kk, B in defects(M, kind, tier):
                dist = distance(B, kind)
                for cn, mk in containers(good, B)[:5]:
                    cid = 'C07/UnitQuaternion/%s/%s/%s/k=%s/%s' % (kind, gn, dn, kk, cn)
                    if not ctx.want(cid):
                        continue
                    ctx.case(cid, key=('UQ', kind, gn, dn, kk, cn))
                    P = dict(cls='UnitQuaternion', input=kind, g=gn.split('|')[0], defect=dn, container=cn)
                    if kk is not None:
                        P['k'] = kk
                    ok, r = call(UQ, mk())
                    ctx.cell('UnitQuaternion', kind, dn, 'raised' if not ok else 'returned')
                    if not ok:
                        continue
                    bad = inspect_object(r, (4,), 'UQ', UQ)
                    if bad:
                        ctx.fail(cid, 'UnitQuaternion', 'invalid-member', P, 'UnitQuaternion(%s %s) returned an object: %s' % (kind, cn, bad))
                    elif dist > BAND and cn == 'bare' and len(r.data) == 1:
                        # a single unit quaternion came back for a matrix that is not a rotation
                        ctx.fail(cid, 'UnitQuaternion', 'no-raise', P, 'UnitQuaternion(<%s matrix %.3g away from the group>) returned a quaternion' % (kind, dist))


def twist_cases(ctx):
    import spatialmath as sm
    tier, seed = ctx.tier, ctx.seed
    for cname, dim in (('Twist3', 3), ('Twist2', 2)):
        C = getattr(sm, cname)
        vshape = (6,) if dim == 3 else (3,)
        vecs = [('0', np.zeros(vshape)), ('g', np.array([0.5, -1.5, 2.0, 0.3, -0.4, 0.5]) if dim == 3 else np.array([0.5, -1.5, 0.7])),
                ('big', np.array([1e3, 2e3, -5e2, 3.0, 0, 0]) if dim == 3 else np.array([1e3, -2e3, 3.0]))]
        goodS = ref.skewa(vecs[1][1])
        for vn, v in vecs:
            S = ref.skewa(v)
            n = dim
            bads = []
            for kk in ks(tier):
                e = 10.0 ** kk
                for (i, j) in itertools.permutations(range(n), 2):
                    B = S.copy()
                    B[i, j] += e
                    bads.append(('sym%d%d' % (i, j), kk, B, e / 2))
                for i in range(n):
                    B = S.copy()
                    B[i, i] += e
                    bads.append(('diag%d' % i, kk, B, e))
                for j in range(n):
                    B = S.copy()
                    B[n, j] = e
                    bads.append(('lastrow0%d' % j, kk, B, e))
                B = S.copy()
                B[n, n] = e
                bads.append(('lastrow1', kk, B, e))
            for dn, kk, B, dist in bads:
                for cn, mk in containers(goodS, B):
                    cid = 'C07/%s/%s/%s/k=%s/%s' % (cname, vn, dn, kk, cn)
                    if not ctx.want(cid):
                        continue
                    ctx.case(cid, key=(cname, vn, dn, kk, cn))
                    P = dict(cls=cname, g=vn, defect=dn, container=cn, k=kk)
                    ok, r = call(C, mk())
                    ctx.cell(cname, dn, 'raised' if not ok else 'returned')
                    if not ok:
                        continue
                    bad = inspect_object(r, vshape, None, C)
                    if dist > BAND:
                        ctx.fail(cid, cname, 'no-raise', P, '%s(%s) with a matrix %.3g away from algebra form returned an object (%s)' % (cname, cn, dist, bad or 'holding a twist'))
                    elif bad:
                        ctx.fail(cid, cname, 'invalid-member', P, bad)
            for cn, mk in containers(goodS, S):
                if 'nested' in cn:
                    continue
                cid = 'C07/%s/%s/valid/%s' % (cname, vn, cn)
                if not ctx.want(cid):
                    continue
                ctx.case(cid, key=(cname, vn, 'valid', cn), trivial=(vn == '0'))
                P = dict(cls=cname, g=vn, defect='none', container=cn)
                ok, r = call(C, mk())
                if not ok:
                    ctx.fail(cid, cname, 'raises:' + type(r).__name__, P, 'valid algebra matrix rejected: %r' % (r,))
                else:
                    bad = inspect_object(r, vshape, None, C)
                    if bad:
                        ctx.fail(cid, cname, 'invalid-member', P, bad)
                    elif cn == 'bare' and ref.maxdiff(r.data[0], v) > 1e-12 * max(1, np.abs(v).max()):
                        ctx.fail(cid, cname, 'mismatch', P, 'stored twist differs from vexa of the matrix')


# --------------------------------------------------------------------------- predicates

def pred(ctx, cid, site, P, f, arg, expect, triv=False, **kw):
    if not ctx.want(cid):
        return
    ctx.case(cid, key=cid, trivial=triv)
    ok, r = call(f, arg, **kw)
    if not ok:
        ctx.fail(cid, site, 'raises:' + type(r).__name__, P, '%s raised %r' % (site, r))
        return
    if not isinstance(r, (bool, np.bool_)):
        ctx.fail(cid, site, 'returns:' + type(r).__name__, P, 'predicate returned %r' % (r,))
        return
    ctx.cell(site, bool(r))
    if bool(r) != expect:
        ctx.fail(cid, site, 'mismatch', dict(P, expect=str(expect)), '%s gives %s, expected %s' % (site, bool(r), expect))


def membership_predicates(ctx, k, K):
    import spatialmath.base as b
    tier, seed = ctx.tier, ctx.seed
    table = {'SO3': [('base.isR', b.isR, {}), ('base.isrot', b.isrot, {'check': True})],
             'SE3': [('base.ishom', b.ishom, {'check': True})],
             'SO2': [('base.isR', b.isR, {}), ('base.isrot2', b.isrot2, {'check': True})],
             'SE2': [('base.ishom2', b.ishom2, {'check': True})]}
    import spatialmath as sm
    for kind in table:
        C_ = getattr(sm, kind)
        # the class predicates (value checking is their documented default), with the flag omitted, by keyword and positionally
        table[kind] += [(kind + '.isvalid', C_.isvalid, {}), (kind + '.isvalid', C_.isvalid, {'check': True}), (kind + '.isvalid', (lambda C_: (lambda x: C_.isvalid(x, True)))(C_), {})]
    i = 0
    for kind, preds in table.items():
        for gn, M in members(kind, tier, seed):
            i += 1
            if i % K != k:
                continue
            for pi_, (site, f, kw) in enumerate(preds):
                site = site if pi_ < 10 else site
                pred(ctx, 'C07/pred/%s#%d/%s/%s/valid' % (site, pi_, kind, gn), site, dict(kind=kind, g=gn.split('|')[0], defect='none'), f, M.copy(), True, **kw)
                for dn, kk, B in defects(M, kind, tier):
                    if distance(B, kind) > BAND:
                        P = dict(kind=kind, g=gn.split('|')[0], defect=dn)
                        if kk is not None:
                            P['k'] = kk
                        pred(ctx, 'C07/pred/%s#%d/%s/%s/%s/k=%s' % (site, pi_, kind, gn, dn, kk), site, P, f, B, False, **kw)


def constructor_outputs(ctx):
    """membership predicates accept every value produced by the primitive constructors"""
    import spatialmath.base as b
    from mc.props import c01
    tier, seed = ctx.tier, ctx.seed
    AU = c01.angle_units(tier, seed)
    t = [0.5, -1.5, 2.0]
    for an, av, u in AU:
        for fn in ('rotx', 'roty', 'rotz'):
            P = dict(fn=fn, angle=an, unit=u)
            ok, R = call(getattr(b, fn), av, u)
            if ok:
                for site, f, kw in (('base.isR', b.isR, {}), ('base.isrot', b.isrot, {'check': True})):
                    pred(ctx, 'C07/out/%s/%s/a=%s' % (site, fn, an), site, P, f, R, True, **kw)
            ok, T = call(getattr(b, 't' + fn), av, u, t)
            if ok:
                pred(ctx, 'C07/out/base.ishom/t%s/a=%s' % (fn, an), 'base.ishom', dict(P, fn='t' + fn), b.ishom, T, True, check=True)
        ok, R = call(b.rot2, av, u)
        if ok:
            pred(ctx, 'C07/out/base.isrot2/rot2/a=%s' % an, 'base.isrot2', dict(fn='rot2', angle=an, unit=u), b.isrot2, R, True, check=True)
        ok, T = call(b.trot2, av, u, t[:2])
        if ok:
            pred(ctx, 'C07/out/base.ishom2/trot2/a=%s' % an, 'base.ishom2', dict(fn='trot2', angle=an, unit=u), b.ishom2, T, True, check=True)
    SA, PA = c01.small_angles(tier, seed), c01.pitch_angles(tier, seed)
    for (rn, r), (pn, p), (yn, y) in itertools.product(SA, PA, SA):
        for order in ('zyx', 'xyz', 'yxz'):
            ok, R = call(b.rpy2r, r, p, y, order=order)
            if ok:
                pred(ctx, 'C07/out/base.isrot/rpy2r/%s/%s/%s/%s' % (order, rn, pn, yn), 'base.isrot', dict(fn='rpy2r', order=order, roll=rn, pitch=pn, yaw=yn), b.isrot, R, True, check=True)
        ok, R = call(b.eul2r, r, p, y)
        if ok:
            pred(ctx, 'C07/out/base.isrot/eul2r/%s/%s/%s' % (rn, pn, yn), 'base.isrot', dict(fn='eul2r', phi=rn, theta=pn, psi=yn), b.isrot, R, True, check=True)
    for tn, th in alph.theta_alphabet(tier, seed):
        for xn, ax in alph.axes(tier, seed):
            for ln, L in c01.LENGTHS:
                ok, R = call(b.angvec2r, th, ax * L)
                if ok:
                    pred(ctx, 'C07/out/base.isrot/angvec2r/%s/%s/%s' % (tn, xn, ln), 'base.isrot', dict(fn='angvec2r', theta=tn, axis=xn, axislen=ln), b.isrot, R, True, check=True)
            ok, R = call(b.trexp, ax * th)
            if ok:
                pred(ctx, 'C07/out/base.isrot/trexp/%s/%s' % (tn, xn), 'base.isrot', dict(fn='trexp', theta=tn, axis=xn), b.isrot, R, True, check=True)
            ok, T = call(b.trexp, np.r_[0.5, -1.5, 2.0, ax * th])
            if ok:
                pred(ctx, 'C07/out/base.ishom/trexp/%s/%s' % (tn, xn), 'base.ishom', dict(fn='trexp6', theta=tn, axis=xn), b.ishom, T, True, check=True)
    # Rodrigues' formula loses a few eps of orthogonality towards a half turn (residual up to ~14 eps for oblique axes): a complete grid of
    # angles 2.50 .. 3.50 (step 0.01) x all integer axis directions with components in -2..2
    import spatialmath as sm_
    for ti in range(250, 351):
        th = ti / 100.0
        for ax in itertools.product((-2, -1, 0, 1, 2), repeat=3):
            if not any(ax) or (tier == 'quick' and (ti + 7 * ax[0] + 3 * ax[1] + ax[2]) % 3):
                continue
            an = '%d,%d,%d' % ax
            ok, R = call(b.angvec2r, th, list(ax))
            if ok:
                P = dict(fn='angvec2r', theta='%.2f' % th, axis=an, grid=1)
                pred(ctx, 'C07/out/grid/base.isrot/angvec2r/%.2f/%s' % (th, an), 'base.isrot', P, b.isrot, R, True, check=True)
                pred(ctx, 'C07/out/grid/SO3.isvalid/angvec2r/%.2f/%s' % (th, an), 'SO3.isvalid', P, sm_.SO3.isvalid, R, True)
                pred(ctx, 'C07/out/grid/base.ishom/angvec2tr/%.2f/%s' % (th, an), 'base.ishom', P, b.ishom, ref.rt(R, (0.5, -1.5, 2.0)), True, check=True)
    for name, o, a, extra in c01.oa_pairs(tier, seed):
        ok, R = call(b.oa2r, o, a)
        if ok:
            pred(ctx, 'C07/out/base.isrot/oa2r/%s' % name, 'base.isrot', dict(extra, fn='oa2r'), b.isrot, R, True, check=True)
    for gn, R0 in alph.gen_SO3(tier, seed):
        ok, R = call(b.q2r, ref.r2q_ref(R0))
        if ok:
            pred(ctx, 'C07/out/base.isrot/q2r/%s' % gn, 'base.isrot', dict(fn='q2r', g=gn), b.isrot, R, True, check=True)


def algebra_predicates(ctx):
    import spatialmath.base as b
    tier = ctx.tier
    mags = alph.magnitudes(tier)
    v3s = [('e1', np.array([1.0, 0, 0])), ('g', np.array([0.5, -1.5, 2.0])), ('0', np.zeros(3))]
    for mn, m in mags + [('0', 0.0)]:
        for vn, v in v3s:
            w = v * m
            for dim in (3, 2):
                S = ref.skew(w if dim == 3 else w[:1])
                nm = '%s*%s/%dD' % (mn, vn, dim)
                pred(ctx, 'C07/pred/base.isskew/%s/valid' % nm, 'base.isskew', dict(v=vn, mag=mn, dim=dim, defect='none'), b.isskew, S, True, triv=(m == 0))
                A = ref.skewa(np.r_[v[::-1] * m, w] if dim == 3 else np.r_[v[:2], w[0]])
                pred(ctx, 'C07/pred/base.isskewa/%s/valid' % nm, 'base.isskewa', dict(v=vn, mag=mn, dim=dim, defect='none'), b.isskewa, A, True, triv=(m == 0))
                for kk in ks(tier):
                    e = 10.0 ** kk
                    if e <= 2 * BAND:
                        continue
                    B = S.copy()
                    B[0, 1] += e
                    pred(ctx, 'C07/pred/base.isskew/%s/sym/k=%d' % (nm, kk), 'base.isskew', dict(v=vn, mag=mn, dim=dim, defect='sym', k=kk), b.isskew, B, False)
                    B = S.copy()
                    B[0, 0] += e
                    pred(ctx, 'C07/pred/base.isskew/%s/diag/k=%d' % (nm, kk), 'base.isskew', dict(v=vn, mag=mn, dim=dim, defect='diag', k=kk), b.isskew, B, False)
                    B = A.copy()
                    B[0, 1] += e
                    pred(ctx, 'C07/pred/base.isskewa/%s/sym/k=%d' % (nm, kk), 'base.isskewa', dict(v=vn, mag=mn, dim=dim, defect='sym', k=kk), b.isskewa, B, False)
                    B = A.copy()
                    B[dim, 0] = e
                    pred(ctx, 'C07/pred/base.isskewa/%s/lastrow/k=%d' % (nm, kk), 'base.isskewa', dict(v=vn, mag=mn, dim=dim, defect='lastrow', k=kk), b.isskewa, B, False)
                    # every entry of the bottom row (the corner included) and a diagonal entry of the augmented matrix
                    for col in range(1, dim + 1):
                        B = A.copy()
                        B[dim, col] = e
                        pred(ctx, 'C07/pred/base.isskewa/%s/lastrow%d/k=%d' % (nm, col, kk), 'base.isskewa', dict(v=vn, mag=mn, dim=dim, defect='lastrow', k=kk, col=col), b.isskewa, B, False)
                    B = A.copy()
                    B[1, 1] += e
                    pred(ctx, 'C07/pred/base.isskewa/%s/diag/k=%d' % (nm, kk), 'base.isskewa', dict(v=vn, mag=mn, dim=dim, defect='diag', k=kk), b.isskewa, B, False)
    for n in (2, 3, 4):
        pred(ctx, 'C07/pred/base.iseye/%d/valid' % n, 'base.iseye', dict(n=n, defect='none'), b.iseye, np.eye(n), True)
        for kk in ks(tier):
            e = 10.0 ** kk
            if e <= 2 * BAND:
                continue
            for (i, j) in ((0, 0), (0, 1), (n - 1, 0)):
                B = np.eye(n)
                B[i, j] += e
                pred(ctx, 'C07/pred/base.iseye/%d/entry%d%d/k=%d' % (n, i, j, kk), 'base.iseye', dict(n=n, defect='entry', k=kk), b.iseye, B, False)
        pred(ctx, 'C07/pred/base.iseye/%d/rect' % n, 'base.iseye', dict(n=n, defect='rect'), b.iseye, np.eye(n)[:, :n - 1], False)
    # unit / zero predicates
    exact_units = [('e1', [1.0, 0, 0]), ('-e2', [0, -1.0, 0]), ('3-4-5', [0.6, 0.8, 0.0]), ('e3', [0, 0, 1.0])]
    for un, u in exact_units:
        u = np.array(u)
        if float(np.linalg.norm(u)) != 1.0:
            raise HarnessError('exact unit vector is not exact')
        pred(ctx, 'C07/pred/base.isunitvec/%s' % un, 'base.isunitvec', dict(v=un, defect='none'), b.isunitvec, u.copy(), True)
        pred(ctx, 'C07/pred/base.iszerovec/%s' % un, 'base.iszerovec', dict(v=un, defect='unit'), b.iszerovec, u.copy(), False)
        pred(ctx, 'C07/pred/base.isunit/%s' % un, 'base.isunit', dict(v=un, defect='none', form='pure'), b.isunit, np.r_[0.0, u], True)
        pred(ctx, 'C07/pred/base.isunittwist/rot/%s' % un, 'base.isunittwist', dict(v=un, defect='none', form='rot'), b.isunittwist, np.r_[5.0, -2.0, 1.0, u], True)
        pred(ctx, 'C07/pred/base.isunittwist/pris/%s' % un, 'base.isunittwist', dict(v=un, defect='none', form='pris'), b.isunittwist, np.r_[u, 0, 0, 0], True)
        for kk in ks(tier):
            e = 10.0 ** kk
            if e <= 2 * BAND:
                continue
            for sg in (1, -1):
                s = 1 + sg * e
                if s <= 0:
                    continue
                nm = '%s/k=%d/%s' % (un, kk, '+' if sg > 0 else '-')
                P = dict(v=un, defect='scale', k=kk, sign=sg)
                pred(ctx, 'C07/pred/base.isunitvec/' + nm, 'base.isunitvec', P, b.isunitvec, u * s, False)
                pred(ctx, 'C07/pred/base.isunit/' + nm, 'base.isunit', dict(P, form='pure'), b.isunit, np.r_[0.0, u] * s, False)
                pred(ctx, 'C07/pred/base.isunittwist/rot/' + nm, 'base.isunittwist', dict(P, form='rot'), b.isunittwist, np.r_[5.0, -2.0, 1.0, u * s], False)
                pred(ctx, 'C07/pred/base.isunittwist/pris/' + nm, 'base.isunittwist', dict(P, form='pris'), b.isunittwist, np.r_[u * s, 0, 0, 0], False)
    pred(ctx, 'C07/pred/base.isunit/identity', 'base.isunit', dict(v='1000', defect='none', form='identity'), b.isunit, np.array([1.0, 0, 0, 0]), True)
    pred(ctx, 'C07/pred/base.isunit/zero', 'base.isunit', dict(v='0000', defect='zero', form='zero'), b.isunit, np.zeros(4), False)
    pred(ctx, 'C07/pred/base.isunit/half', 'base.isunit', dict(v='half', defect='none', form='half'), b.isunit, np.array([0.5, 0.5, 0.5, 0.5]), True)
    pred(ctx, 'C07/pred/base.isunitvec/zero', 'base.isunitvec', dict(v='0', defect='zero'), b.isunitvec, np.zeros(3), False)
    pred(ctx, 'C07/pred/base.iszerovec/zero', 'base.iszerovec', dict(v='0', defect='none'), b.iszerovec, np.zeros(3), True, triv=True)
    pred(ctx, 'C07/pred/base.iszero/zero', 'base.iszero', dict(v='0', defect='none'), b.iszero, 0.0, True, triv=True)
    pred(ctx, 'C07/pred/base.isunittwist/zero', 'base.isunittwist', dict(v='0', defect='zero'), b.isunittwist, np.zeros(6), False)
    pred(ctx, 'C07/pred/base.isunittwist2/zero', 'base.isunittwist2', dict(v='0', defect='zero'), b.isunittwist2, np.zeros(3), False)
    for kk in ks(tier):
        e = 10.0 ** kk
        if e <= 2 * BAND:
            continue
        for sg in (1, -1):
            pred(ctx, 'C07/pred/base.iszero/k=%d/%d' % (kk, sg), 'base.iszero', dict(defect='nonzero', k=kk, sign=sg), b.iszero, sg * e, False)
            pred(ctx, 'C07/pred/base.iszerovec/k=%d/%d' % (kk, sg), 'base.iszerovec', dict(defect='nonzero', k=kk, sign=sg), b.iszerovec, np.array([0, sg * e, 0]), False)
    # planar unit twists
    for wn, w in (('+1', 1.0), ('-1', -1.0)):
        pred(ctx, 'C07/pred/base.isunittwist2/rot/%s' % wn, 'base.isunittwist2', dict(form='rot', w=wn, defect='none'), b.isunittwist2, np.array([3.0, -2.0, w]), True)
        for kk in ks(tier):
            e = 10.0 ** kk
            if e <= 2 * BAND:
                continue
            pred(ctx, 'C07/pred/base.isunittwist2/rot/%s/k=%d' % (wn, kk), 'base.isunittwist2', dict(form='rot', w=wn, defect='scale', k=kk), b.isunittwist2, np.array([3.0, -2.0, w * (1 + e)]), False)
    for un, u in (('e1', [1.0, 0]), ('3-4-5', [0.6, 0.8])):
        pred(ctx, 'C07/pred/base.isunittwist2/pris/%s' % un, 'base.isunittwist2', dict(form='pris', v=un, defect='none'), b.isunittwist2, np.array(u + [0.0]), True)
        for kk in ks(tier):
            e = 10.0 ** kk
            if e <= 2 * BAND:
                continue
            pred(ctx, 'C07/pred/base.isunittwist2/pris/%s/k=%d' % (un, kk), 'base.isunittwist2', dict(form='pris', v=un, defect='scale', k=kk), b.isunittwist2, np.array(u + [0.0]) * (1 + e), False)


def shards(tier, seed):
    out = []
    for c in ('SO2', 'SE2', 'SO3', 'SE3'):
        K = 2 if tier == 'quick' else 8
        out += [('ctor', c, k, K) for k in range(K)]
    out += [('subsuper',), ('uq',), ('twist',), ('outputs',), ('algebra',), ('variant',)]
    K = 2 if tier == 'quick' else 8
    out += [('member', k, K) for k in range(K)]
    return out


def run_shard(ctx, shard):
    k = shard[0]
    if k == 'ctor':
        ctor_cases(ctx, shard[1], shard[2], shard[3])
    elif k == 'subsuper':
        subsuper_cases(ctx)
    elif k == 'variant':
        variant_constructors(ctx)
    elif k == 'uq':
        uq_cases(ctx)
    elif k == 'twist':
        twist_cases(ctx)
    elif k == 'outputs':
        constructor_outputs(ctx)
    elif k == 'algebra':
        algebra_predicates(ctx)
    else:
        membership_predicates(ctx, shard[1], shard[2])
