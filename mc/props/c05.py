"""
C05  Angle-set and axis-angle extraction is a right inverse of construction.

E1 product explorer over angle triples (roll/yaw letters x pitch ladders at +-pi/2, Euler middle
angle ladders at 0, +-pi), all RPY orders and aliases, flip, units, 3x3 and 4x4 inputs, base
functions and the SO3/SE3/UnitQuaternion/SE2/SO2 accessors.  Rotations are built by the harness
from the documented orders; the extracted angles are rebuilt by the harness and compared with the
original rotation (1e-6); ranges and deg = rad*180/pi are checked.
"""
import itertools, math
import numpy as np
from mc import ref, alph, hist
from mc.core import call, HarnessError
from mc.props import c01

PROP = 'C05'
LEVEL = 'exploration'
RULE = ('full product (roll letters x pitch ladder x yaw letters) x 6 order names x 2 units x {3x3,4x4} x entry points; '
        'Euler (phi x theta ladder x psi) x flip x units x entry points; axis-angle theta-ladder x axes x entry points; '
        'planar (x,y) x theta ladder; non-trivial = rotation is not the identity; distinct = distinct (entry, option, angle letters)')
ASSUME = ['reconstruction uses the harness constructor written from the documented axis orders', 'tolerance 1e-6 for matrices, '
          '1e-9 relative for deg-vs-rad, range checks allow 1e-12 slack']
ANCHORS = [('spatialmath.base.transforms3d', n) for n in ('tr2rpy', 'tr2eul', 'tr2angvec', 'rpy2r', 'eul2r', 'angvec2r')] + \
          [('spatialmath.base.transforms2d', 'tr2xyt'), ('spatialmath.base.transforms2d', 'xyt2tr'),
           ('spatialmath.pose3d', 'SO3.rpy'), ('spatialmath.pose3d', 'SO3.eul'), ('spatialmath.pose3d', 'SO3.angvec'),
           ('spatialmath.quaternion', 'UnitQuaternion.rpy'), ('spatialmath.quaternion', 'UnitQuaternion.eul'),
           ('spatialmath.quaternion', 'UnitQuaternion.angvec'), ('spatialmath.pose2d', 'SE2.xyt'), ('spatialmath.pose2d', 'SO2.theta')]

PI = math.pi
TOL = 1e-6
SLACK = 1e-12
TG = np.array([0.5, -1.5, 2.0])


def entries3(R):
    """[(site, thunk(method name, **kw))] for one rotation"""
    import spatialmath as sm
    import spatialmath.base as b
    T = ref.rt(R, TG)
    q = ref.r2q_ref(R)
    return [
        ('base/3x3', lambda fn, **kw: getattr(b, 'tr2' + fn)(R.copy(), **kw)),
        ('base/4x4', lambda fn, **kw: getattr(b, 'tr2' + fn)(T.copy(), **kw)),
        ('SO3', lambda fn, **kw: getattr(sm.SO3(R.copy()), fn)(**kw)),
        ('SE3', lambda fn, **kw: getattr(sm.SE3(T.copy()), fn)(**kw)),
        ('UnitQuaternion', lambda fn, **kw: getattr(sm.UnitQuaternion(q), fn)(**kw)),
        # the same rotation held as -q (negative scalar part), as products and angles beyond pi produce it
        ('UnitQuaternion(-q)', lambda fn, **kw: getattr(sm.UnitQuaternion(-q, norm=False, check=False), fn)(**kw)),
        # objects that received their value by item assignment after the same extraction had been used on their previous value
        ('SO3/hist', lambda fn, **kw: getattr(_aged(sm.SO3(R.copy()), fn, kw), fn)(**kw)),
        ('SE3/hist', lambda fn, **kw: getattr(_aged(sm.SE3(T.copy()), fn, kw), fn)(**kw)),
        ('UnitQuaternion/hist', lambda fn, **kw: getattr(_aged(sm.UnitQuaternion(q), fn, kw), fn)(**kw)),
    ]


def _aged(obj, fn, kw):
    for tag, o in hist.variants(obj, lambda x: getattr(x, fn)(**kw), fresh=False):
        if tag == 'setitem':
            return o
    raise HarnessError('no item-assignment history for %s' % type(obj).__name__)


def site_of(en, fn):
    return ('base.tr2' + fn) if en.startswith('base') else '%s.%s' % (en.split('(')[0].split('/')[0], fn)


def vec3(ctx, cid, site, P, v):
    if v is None:
        ctx.fail(cid, site, 'returns:NoneType', P, 'returned None')
        return None
    v = np.asarray(v)
    if v.dtype == object or v.shape != (3,):
        ctx.fail(cid, site, 'mismatch', dict(P, what='shape'), 'expected 3 angles, got shape %s' % (v.shape,))
        return None
    if not np.all(np.isfinite(v)):
        ctx.fail(cid, site, 'nan', P, 'non-finite angles %r' % (v.tolist(),))
        return None
    return v.astype(float)


def rpy_cases(ctx, part, nparts):
    tier, seed = ctx.tier, ctx.seed
    SA, PA = c01.small_angles(tier, seed), c01.pitch_angles(tier, seed)
    i = 0
    for (rn, r), (pn, p), (yn, y) in itertools.product(SA, PA, SA):
        i += 1
        if i % nparts != part:
            continue
        for order in c01.ORDERS:
            R = ref.rpy(r, p, y, order)
            triv = (r == 0 and p == 0 and y == 0)
            for en, f in entries3(R):
                site = site_of(en, 'rpy')
                base = 'C05/rpy/%s/r=%s/p=%s/y=%s/%s' % (order, rn, pn, yn, en)
                P = dict(order=order, roll=rn, pitch=pn, yaw=yn, entry=en)
                out = {}
                for u in ('rad', 'deg'):
                    cid = base + '/' + u
                    if not ctx.want(cid):
                        continue
                    ctx.case(cid, key=(order, r, p, y, en, u), trivial=triv)
                    ok, a = call(f, 'rpy', unit=u, order=order)
                    if not ok:
                        ctx.fail(cid, site, 'raises:' + type(a).__name__, dict(P, unit=u), '%r' % (a,))
                        continue
                    a = vec3(ctx, cid, site, dict(P, unit=u), a)
                    if a is None:
                        continue
                    out[u] = a
                    ar = a if u == 'rad' else a * PI / 180
                    if np.abs(ar).max() > PI + SLACK or abs(ar[1]) > PI / 2 + SLACK:
                        ctx.fail(cid, site, 'mismatch', dict(P, unit=u, what='range'), 'angles out of range: %r' % (ar.tolist(),))
                    d = ref.maxdiff(ref.rpy(ar[0], ar[1], ar[2], order), R)
                    if d > TOL:
                        ctx.fail(cid, site, 'mismatch', dict(P, unit=u, what='rebuild'),
                                 'rebuilding from %r differs from R by %.3g' % (ar.tolist(), d))
                    ctx.cell(site, order, 'sing' if abs(abs(p) - PI / 2) < 1e-7 else 'reg')
                if len(out) == 2:
                    cid = base + '/deg-vs-rad'
                    d = np.abs(out['deg'] - out['rad'] * 180 / PI).max()
                    if d > 1e-9 * max(1.0, np.abs(out['deg']).max()):
                        ctx.fail(cid, site, 'mismatch', dict(P, what='deg-vs-rad'), 'deg %r vs rad*180/pi %r' % (out['deg'].tolist(), (out['rad'] * 180 / PI).tolist()))


def eul_angles(tier, seed):
    out = []
    for b, nm in ((0.0, '0'), (PI, 'pi'), (-PI, '-pi')):
        if tier == 'quick':
            out += [(nm, b), (nm + '+1e-12', b + 1e-12), (nm + '-1e-9', b - 1e-9), (nm + '+1e-6', b + 1e-6), (nm + '-1e-3', b - 1e-3)]
        else:
            out += alph.ladder(b, nm, tier, extra=False)
    out += alph.pick(alph.G_ANGLES, tier, seed, 3)
    return out


def eul_cases(ctx, part, nparts):
    tier, seed = ctx.tier, ctx.seed
    SA, TA = c01.small_angles(tier, seed), eul_angles(tier, seed)
    i = 0
    for (fn_, phi), (tn, th), (sn, psi) in itertools.product(SA, TA, SA):
        i += 1
        if i % nparts != part:
            continue
        R = ref.eul(phi, th, psi)
        triv = (phi == 0 and th == 0 and psi == 0)
        for en, f in entries3(R):
            site = site_of(en, 'eul')
            flips = (False, True) if not en.startswith('UnitQuaternion') else (None,)
            for flip in flips:
                base = 'C05/eul/phi=%s/th=%s/psi=%s/%s/flip=%s' % (fn_, tn, sn, en, flip)
                P = dict(phi=fn_, theta=tn, psi=sn, entry=en, flip=str(flip))
                out = {}
                for u in ('rad', 'deg'):
                    cid = base + '/' + u
                    if not ctx.want(cid):
                        continue
                    ctx.case(cid, key=(phi, th, psi, en, flip, u), trivial=triv)
                    kw = dict(unit=u)
                    if flip is not None:
                        kw['flip'] = flip
                    ok, a = call(f, 'eul', **kw)
                    if not ok:
                        ctx.fail(cid, site, 'raises:' + type(a).__name__, dict(P, unit=u), '%r' % (a,))
                        continue
                    a = vec3(ctx, cid, site, dict(P, unit=u), a)
                    if a is None:
                        continue
                    out[u] = a
                    ar = a if u == 'rad' else a * PI / 180
                    if np.abs(ar).max() > PI + SLACK:
                        ctx.fail(cid, site, 'mismatch', dict(P, unit=u, what='range'), 'angles out of range: %r' % (ar.tolist(),))
                    d = ref.maxdiff(ref.eul(ar[0], ar[1], ar[2]), R)
                    if d > TOL:
                        ctx.fail(cid, site, 'mismatch', dict(P, unit=u, what='rebuild'), 'rebuilding from %r differs from R by %.3g' % (ar.tolist(), d))
                    ctx.cell(site, 'flip=%s' % flip, 'sing' if abs(math.sin(th)) < 1e-7 else 'reg')
                if len(out) == 2:
                    d = np.abs(out['deg'] - out['rad'] * 180 / PI).max()
                    if d > 1e-9 * max(1.0, np.abs(out['deg']).max()):
                        ctx.fail(base + '/deg-vs-rad', site, 'mismatch', dict(P, what='deg-vs-rad'), 'deg %r vs rad %r' % (out['deg'].tolist(), out['rad'].tolist()))


def angvec_cases(ctx):
    import spatialmath.base as b
    tier, seed = ctx.tier, ctx.seed
    for tn, th in alph.theta_alphabet(tier, seed):
        for xn, ax in alph.axes(tier, seed):
            if th == 0 and xn != '+x':
                continue
            R = ref.mp_rot(ax, th) if th else np.eye(3)
            # constructor follows the documented convention (rotation by theta about the normalised axis)
            for ln, L in c01.LENGTHS:
                cid = 'C05/angvec2r/theta=%s/axis=%s/len=%s' % (tn, xn, ln)
                if ctx.want(cid):
                    ctx.case(cid, key=('av2r', th, xn, ln), trivial=(th == 0))
                    ok, Rl = call(b.angvec2r, th, ax * L)
                    P = dict(theta=tn, axis=xn, axislen=ln)
                    if not ok:
                        ctx.fail(cid, 'base.angvec2r', 'raises:' + type(Rl).__name__, P, '%r' % (Rl,))
                    elif ref.maxdiff(Rl, R) > TOL:
                        ctx.fail(cid, 'base.angvec2r', 'mismatch', P, 'differs from Rodrigues on the normalised axis by %.3g' % ref.maxdiff(Rl, R))
                # the class constructors follow the same convention (rotation by theta about the NORMALISED axis) in both units
                import spatialmath as sm
                for cn, C_, rot in (('SO3', sm.SO3, lambda o: o.A), ('SE3', sm.SE3, lambda o: o.A[:3, :3]), ('UnitQuaternion', sm.UnitQuaternion, lambda o: ref.q2r(np.asarray(o.vec, dtype=float)))):
                    for u in ('rad', 'deg'):
                        cidc = 'C05/%s.AngVec/theta=%s/axis=%s/len=%s/%s' % (cn, tn, xn, ln, u)
                        if not ctx.want(cidc):
                            continue
                        ctx.case(cidc, key=cidc, trivial=(th == 0))
                        Pc = dict(theta=tn, axis=xn, axislen=ln, unit=u, entry=cn)
                        okc, o = call(C_.AngVec, th if u == 'rad' else th * 180 / PI, ax * L, unit=u)
                        if not okc:
                            ctx.fail(cidc, cn + '.AngVec', 'raises:' + type(o).__name__, Pc, '%r' % (o,))
                        elif ref.maxdiff(rot(o), R) > TOL:
                            ctx.fail(cidc, cn + '.AngVec', 'mismatch', Pc, 'differs from the rotation by theta about the normalised axis by %.3g' % ref.maxdiff(rot(o), R))
            for en, f in entries3(R):
                site = site_of(en, 'angvec')
                base = 'C05/angvec/theta=%s/axis=%s/%s' % (tn, xn, en)
                P = dict(theta=tn, axis=xn, entry=en, theta_val=th)
                out = {}
                for u in ('rad', 'deg'):
                    cid = base + '/' + u
                    if not ctx.want(cid):
                        continue
                    ctx.case(cid, key=(th, xn, en, u), trivial=(th == 0))
                    ok, r = call(f, 'angvec', unit=u)
                    if not ok:
                        ctx.fail(cid, site, 'raises:' + type(r).__name__, dict(P, unit=u), '%r' % (r,))
                        continue
                    try:
                        ang, v = r
                        ang = float(ang)
                        v = np.asarray(v, dtype=float)
                        assert v.shape == (3,)
                    except Exception:
                        ctx.fail(cid, site, 'returns:' + type(r).__name__, dict(P, unit=u), 'expected (theta, v): %r' % (r,))
                        continue
                    if not (math.isfinite(ang) and np.all(np.isfinite(v))):
                        ctx.fail(cid, site, 'nan', dict(P, unit=u), 'non-finite result (%r, %r)' % (ang, v.tolist()))
                        continue
                    out[u] = ang
                    ar = ang if u == 'rad' else ang * PI / 180
                    if ar < -SLACK or ar > PI + SLACK:
                        ctx.fail(cid, site, 'mismatch', dict(P, unit=u, what='range'), 'rotation angle %.17g outside [0, pi]' % ar)
                    n = float(np.linalg.norm(v))
                    if ar == 0:
                        if n != 0 and abs(n - 1) > 1e-9:
                            ctx.fail(cid, site, 'mismatch', dict(P, unit=u, what='axis'), 'axis norm %.17g for zero angle' % n)
                    elif abs(n - 1) > 1e-9:
                        ctx.fail(cid, site, 'mismatch', dict(P, unit=u, what='axis'), 'axis norm %.17g' % n)
                    Rb = ref.mp_rot(v, ar) if (n > 0 and ar != 0) else np.eye(3)
                    d = ref.maxdiff(Rb, R)
                    if d > TOL:
                        ctx.fail(cid, site, 'mismatch', dict(P, unit=u, what='rebuild'), 'rebuilding from (%.17g, %r) differs from R by %.3g' % (ar, v.tolist(), d))
                    ctx.cell(site, 'small' if th < 1e-6 else ('nearpi' if th > PI - 1e-6 else 'mid'))
                if len(out) == 2 and abs(out['deg'] - out['rad'] * 180 / PI) > 1e-9 * max(1.0, abs(out['deg'])):
                    ctx.fail(base + '/deg-vs-rad', site, 'mismatch', dict(P, what='deg-vs-rad'), 'deg %r vs rad %r' % (out['deg'], out['rad']))


def planar_cases(ctx):
    import spatialmath as sm
    import spatialmath.base as b
    tier, seed = ctx.tier, ctx.seed
    ths = []
    for bb, nm in ((0.0, '0'), (PI / 2, 'pi/2'), (-PI / 2, '-pi/2'), (PI, 'pi'), (-PI, '-pi')):
        ths += alph.ladder(bb, nm, tier, extra=False)
    ths = [(n, t) for n, t in ths if -PI <= t <= PI] + alph.pick(alph.G_ANGLES_SMALL, tier, seed, 4)
    xy = [('0', (0.0, 0.0)), ('g', (0.5, -1.5)), ('1e-6', (1e-6, 0.0)), ('1e6', (6e5, -8e5))]
    for tn, th in ths:
        for pn, p in xy:
            T = ref.rt(ref.rot2(th), p)
            sc = max(1.0, float(np.linalg.norm(p)))
            P = dict(theta=tn, t=pn)
            triv = (th == 0 and pn == '0')
            # constructor convention
            cid = 'C05/xyt2tr/theta=%s/t=%s' % (tn, pn)
            if ctx.want(cid):
                ctx.case(cid, key=('xyt2tr', th, pn), trivial=triv)
                ok, Tl = call(b.xyt2tr, [p[0], p[1], th])
                if not ok:
                    ctx.fail(cid, 'base.xyt2tr', 'raises:' + type(Tl).__name__, P, '%r' % (Tl,))
                elif ref.maxdiff(Tl, T) > TOL * sc:
                    ctx.fail(cid, 'base.xyt2tr', 'mismatch', P, 'differs from [R(theta) t] by %.3g' % ref.maxdiff(Tl, T))
            outs = {}
            for en, f in (('base.tr2xyt', lambda u: b.tr2xyt(T.copy(), unit=u)), ('SE2.xyt', lambda u: sm.SE2(T.copy()).xyt() if u == 'rad' else None)):
                for u in ('rad', 'deg'):
                    if en == 'SE2.xyt' and u == 'deg':
                        continue
                    cid = 'C05/%s/theta=%s/t=%s/%s' % (en, tn, pn, u)
                    if not ctx.want(cid):
                        continue
                    ctx.case(cid, key=(en, th, pn, u), trivial=triv)
                    ok, a = call(f, u)
                    if not ok:
                        ctx.fail(cid, en, 'raises:' + type(a).__name__, dict(P, unit=u), '%r' % (a,))
                        continue
                    a = vec3(ctx, cid, en, dict(P, unit=u), a)
                    if a is None:
                        continue
                    outs[(en, u)] = a
                    ang = a[2] if u == 'rad' else a[2] * PI / 180
                    if abs(ang) > PI + SLACK:
                        ctx.fail(cid, en, 'mismatch', dict(P, unit=u, what='range'), 'angle %.17g outside [-pi, pi]' % ang)
                    d = ref.maxdiff(ref.rt(ref.rot2(ang), a[:2]), T)
                    if d > TOL * sc:
                        ctx.fail(cid, en, 'mismatch', dict(P, unit=u, what='rebuild'), 'rebuilding from %r differs from T by %.3g' % (a.tolist(), d))
            if ('base.tr2xyt', 'rad') in outs and ('base.tr2xyt', 'deg') in outs:
                r, dg = outs[('base.tr2xyt', 'rad')], outs[('base.tr2xyt', 'deg')]
                if abs(dg[2] - r[2] * 180 / PI) > 1e-9 * max(1.0, abs(dg[2])):
                    ctx.fail('C05/base.tr2xyt/theta=%s/t=%s/deg-vs-rad' % (tn, pn), 'base.tr2xyt', 'mismatch', dict(P, what='deg-vs-rad'),
                             'unit=deg gives %r, unit=rad gives %r' % (dg[2], r[2]))
        # SO2.theta
        R = ref.rot2(th)
        outs = {}
        for u in ('rad', 'deg'):
            cid = 'C05/SO2.theta/theta=%s/%s' % (tn, u)
            if not ctx.want(cid):
                continue
            ctx.case(cid, key=('SO2.theta', th, u), trivial=(th == 0))
            ok, a = call(lambda: sm.SO2(R.copy()).theta(unit=u))
            P = dict(theta=tn, unit=u)
            if not ok:
                ctx.fail(cid, 'SO2.theta', 'raises:' + type(a).__name__, P, '%r' % (a,))
                continue
            try:
                a = float(a)
            except Exception:
                ctx.fail(cid, 'SO2.theta', 'returns:' + type(a).__name__, P, '%r' % (a,))
                continue
            outs[u] = a
            ang = a if u == 'rad' else a * PI / 180
            if not math.isfinite(ang) or abs(ang) > PI + SLACK or ref.maxdiff(ref.rot2(ang), R) > TOL:
                ctx.fail(cid, 'SO2.theta', 'mismatch', P, 'theta() = %r does not rebuild R' % a)
        if len(outs) == 2 and abs(outs['deg'] - outs['rad'] * 180 / PI) > 1e-9 * max(1.0, abs(outs['deg'])):
            ctx.fail('C05/SO2.theta/theta=%s/deg-vs-rad' % tn, 'SO2.theta', 'mismatch', dict(theta=tn, what='deg-vs-rad'), '%r' % (outs,))
        # the planar accessors on multi-valued objects, both units: angle j rebuilds value j
        ths = [th, 0.3, -2.0]
        for cn_, mk_ in (('SO2', lambda: sm.SO2([ref.rot2(t_) for t_ in ths])), ('SE2', lambda: sm.SE2([ref.rt(ref.rot2(t_), (1.0 + j_, -2.0)) for j_, t_ in enumerate(ths)]))):
            for u in ('rad', 'deg'):
                cid = 'C05/%s.theta/multi/theta=%s/%s' % (cn_, tn, u)
                if not ctx.want(cid):
                    continue
                ctx.case(cid, key=cid)
                P = dict(theta=tn, unit=u, N=3, entry=cn_)
                ok, a = call(lambda: mk_().theta(unit=u))
                if not ok:
                    ctx.fail(cid, cn_ + '.theta', 'raises:' + type(a).__name__, P, '%r' % (a,))
                    continue
                try:
                    av = [float(x) for x in a]
                except Exception:
                    ctx.fail(cid, cn_ + '.theta', 'returns:' + type(a).__name__, P, '%r' % (a,))
                    continue
                if len(av) != 3 or any(ref.maxdiff(ref.rot2(x if u == 'rad' else x * PI / 180), ref.rot2(t_)) > TOL for x, t_ in zip(av, ths)):
                    ctx.fail(cid, cn_ + '.theta', 'mismatch', dict(P, what='multi-rebuild'), 'theta(unit=%s) of 3 values = %r does not rebuild them' % (u, av))


def ctor_convention(ctx):
    """rpy2r / eul2r follow the documented axis orders (harness constructor from elementary rotations)"""
    import spatialmath.base as b
    tier, seed = ctx.tier, ctx.seed
    SA = c01.small_angles(tier, seed)
    PA = [x for x in c01.pitch_angles(tier, seed) if '1e-' not in x[0] or tier != 'quick']
    for (rn, r), (pn, p), (yn, y) in itertools.product(SA, PA, SA):
        for order in c01.ORDERS:
            cid = 'C05/rpy2r/%s/r=%s/p=%s/y=%s' % (order, rn, pn, yn)
            if ctx.want(cid):
                ctx.case(cid, key=('rpy2r', order, r, p, y), trivial=(r == p == y == 0))
                ok, R = call(b.rpy2r, r, p, y, order=order)
                P = dict(order=order, roll=rn, pitch=pn, yaw=yn)
                if not ok:
                    ctx.fail(cid, 'base.rpy2r', 'raises:' + type(R).__name__, P, '%r' % (R,))
                elif ref.maxdiff(R, ref.rpy(r, p, y, order)) > TOL:
                    ctx.fail(cid, 'base.rpy2r', 'mismatch', P, 'differs from the documented product by %.3g' % ref.maxdiff(R, ref.rpy(r, p, y, order)))
        cid = 'C05/eul2r/phi=%s/th=%s/psi=%s' % (rn, pn, yn)
        if ctx.want(cid):
            ctx.case(cid, key=('eul2r', r, p, y), trivial=(r == p == y == 0))
            ok, R = call(b.eul2r, r, p, y)
            P = dict(phi=rn, theta=pn, psi=yn)
            if not ok:
                ctx.fail(cid, 'base.eul2r', 'raises:' + type(R).__name__, P, '%r' % (R,))
            elif ref.maxdiff(R, ref.eul(r, p, y)) > TOL:
                ctx.fail(cid, 'base.eul2r', 'mismatch', P, 'differs from Rz Ry Rz by %.3g' % ref.maxdiff(R, ref.eul(r, p, y)))


def ctor_class_convention(ctx):
    """the class constructors follow the documented orders too, for a single triple and for an N x 3 array of triples"""
    import spatialmath as sm
    tier, seed = ctx.tier, ctx.seed
    SA = c01.small_angles(tier, seed)
    PA = [x for x in c01.pitch_angles(tier, seed) if '1e-' not in x[0]]
    triples = [((rn, r), (pn, p), (yn, y)) for (rn, r), (pn, p), (yn, y) in itertools.product(SA, PA, SA)]
    for cn, C in (('SO3', sm.SO3), ('SE3', sm.SE3), ('UnitQuaternion', sm.UnitQuaternion)):
        for order in c01.ORDERS + [None]:
            for unit in ('rad', 'deg'):
                k = 1.0 if unit == 'rad' else 180 / PI
                fn = 'RPY' if order else 'Eul'
                rf = (lambda r, p, y: ref.rpy(r, p, y, order)) if order else ref.eul
                kw = dict(unit=unit, order=order) if order else dict(unit=unit)
                for N in (1, 2, 3, 5):
                    if N > 1 and cn == 'UnitQuaternion':
                        continue
                    for start in range(0, len(triples) - N, max(1, len(triples) // 12)):
                        sel = triples[start:start + N]
                        cid = 'C05/%s.%s/%s/%s/N=%d/start=%d' % (cn, fn, order, unit, N, start)
                        if not ctx.want(cid):
                            continue
                        ctx.case(cid, key=cid)
                        P = dict(entry=cn, fn=fn, order=str(order), unit=unit, N=N)
                        A = np.array([[r * k, p * k, y * k] for (_, r), (_, p), (_, y) in sel])
                        ok, X = call(getattr(C, fn), A[0].copy() if N == 1 else A.copy(), **kw)
                        site = '%s.%s' % (cn, fn)
                        if not ok:
                            ctx.fail(cid, site, 'raises:' + type(X).__name__, P, '%r' % (X,))
                            continue
                        if len(X.data) != N:
                            ctx.fail(cid, site, 'mismatch', dict(P, what='count'), 'expected %d values, got %d' % (N, len(X.data)))
                            continue
                        for j, ((_, r), (_, p), (_, y)) in enumerate(sel):
                            got = ref.q2r(X.data[j]) if cn == 'UnitQuaternion' else np.asarray(X.data[j])[:3, :3]
                            if ref.maxdiff(got, rf(r, p, y)) > TOL:
                                ctx.fail(cid, site, 'mismatch', dict(P, what='convention', j=j), 'value %d differs from the documented product by %.3g' % (j, ref.maxdiff(got, rf(r, p, y))))
                                break
                        if N > 1:
                            # extraction from the multi-valued object: one triple per value (rows or columns), triple j rebuilds value j
                            exn = 'rpy' if order else 'eul'
                            xs = site_of(cn, exn)
                            ok, a = call(getattr(X, exn), **kw)
                            if not ok:
                                ctx.fail(cid, xs, 'raises:' + type(a).__name__, dict(P, what='multi'), '%s() of %d values raised %r' % (exn, N, a))
                                continue
                            a = np.asarray(a, dtype=float)
                            lay = ([a] if a.shape == (N, 3) else []) + ([a.T] if a.shape == (3, N) else [])
                            if not lay:
                                ctx.fail(cid, xs, 'mismatch', dict(P, what='multi-shape'), '%s() of %d values has shape %s' % (exn, N, a.shape))
                                continue
                            worst = min(max(ref.maxdiff(rf(*(L[j] / k)), np.asarray(X.data[j])[:3, :3]) for j in range(N)) for L in lay)
                            if not worst <= TOL:
                                ctx.fail(cid, xs, 'mismatch', dict(P, what='multi-rebuild'), '%s() of %d values: triple j does not rebuild value j (worst %.3g)' % (exn, N, worst))


def cube_rotations():
    """the 24 rotations whose matrices have integer entries (signed permutations of determinant +1)"""
    out = []
    for perm in itertools.permutations(range(3)):
        for sg in itertools.product((1, -1), repeat=3):
            R = np.zeros((3, 3), dtype=int)
            for i in range(3):
                R[i, perm[i]] = sg[i]
            if round(np.linalg.det(R)) == 1:
                out.append(R)
    return out


def integer_cases(ctx):
    """rotations held in integer (or single precision) arrays, as a hand-typed quarter or half turn is: every extraction, every
    order/unit/flip, every entry point; complete over the 24 integer rotation matrices (3-D) and the 4 of the plane"""
    import spatialmath as sm
    import spatialmath.base as b
    for ri, Ri in enumerate(cube_rotations()):
        Rf = Ri.astype(float)
        for dt in ('int64', 'int32', 'float32'):
            R = Ri.astype(dt)
            T = np.eye(4).astype(dt)
            T[:3, :3] = R
            T[:3, 3] = np.array([1, -2, 3]).astype(dt)
            ents = [('base/3x3', lambda fn, **kw: getattr(b, 'tr2' + fn)(R.copy(), **kw)), ('base/4x4', lambda fn, **kw: getattr(b, 'tr2' + fn)(T.copy(), **kw)),
                    ('SO3', lambda fn, **kw: getattr(sm.SO3(R.copy()), fn)(**kw)), ('SE3', lambda fn, **kw: getattr(sm.SE3(T.copy()), fn)(**kw))]
            calls = [('rpy', dict(order=o), (lambda a, o=o: ref.rpy(a[0], a[1], a[2], o))) for o in c01.ORDERS]
            calls += [('eul', dict(flip=fl), (lambda a: ref.eul(a[0], a[1], a[2]))) for fl in (False, True)]
            for en, f in ents:
                for fn, kw, rebuild in calls:
                    site = site_of(en, fn)
                    out = {}
                    for u in ('rad', 'deg'):
                        cid = 'C05/int/R%d/%s/%s/%s/%s/%s' % (ri, dt, en, fn, ','.join('%s=%s' % kv for kv in kw.items()), u)
                        if not ctx.want(cid):
                            continue
                        ctx.case(cid, key=cid, trivial=(ri == 0))
                        P = dict(entry=en, dtype=dt, unit=u, mode='integer', rot=ri, **{k: str(v) for k, v in kw.items()})
                        ok, a = call(f, fn, unit=u, **kw)
                        if not ok:
                            ctx.fail(cid, site, 'raises:' + type(a).__name__, P, '%s of an %s matrix raised %r' % (fn, dt, a))
                            continue
                        a = vec3(ctx, cid, site, P, a)
                        if a is None:
                            continue
                        out[u] = a
                        ar = a if u == 'rad' else a * PI / 180
                        d = ref.maxdiff(rebuild(ar), Rf)
                        if d > TOL:
                            ctx.fail(cid, site, 'mismatch', dict(P, what='rebuild'), 'rebuilding from %r differs from the %s matrix by %.3g' % (ar.tolist(), dt, d))
                    if len(out) == 2 and np.abs(out['deg'] - out['rad'] * 180 / PI).max() > 1e-5 * max(1.0, np.abs(out['deg']).max()):
                        ctx.fail(cid, site, 'mismatch', dict(P, what='deg-vs-rad'), 'deg %r vs rad %r' % (out['deg'].tolist(), out['rad'].tolist()))
                site = site_of(en, 'angvec')
                for u in ('rad', 'deg'):
                    cid = 'C05/int/R%d/%s/%s/angvec/%s' % (ri, dt, en, u)
                    if not ctx.want(cid):
                        continue
                    ctx.case(cid, key=cid, trivial=(ri == 0))
                    P = dict(entry=en, dtype=dt, unit=u, mode='integer', rot=ri)
                    ok, r = call(f, 'angvec', unit=u)
                    if not ok:
                        ctx.fail(cid, site, 'raises:' + type(r).__name__, P, 'angvec of an %s matrix raised %r' % (dt, r))
                        continue
                    try:
                        ang, v = float(r[0]), np.asarray(r[1], dtype=float)
                        assert v.shape == (3,) and math.isfinite(ang) and np.all(np.isfinite(v))
                    except Exception:
                        ctx.fail(cid, site, 'returns:' + type(r).__name__, P, 'expected (theta, v): %r' % (r,))
                        continue
                    ar = ang if u == 'rad' else ang * PI / 180
                    n = float(np.linalg.norm(v))
                    Rb = ref.mp_rot(v, ar) if (n > 0 and ar != 0) else np.eye(3)
                    if ref.maxdiff(Rb, Rf) > TOL:
                        ctx.fail(cid, site, 'mismatch', dict(P, what='rebuild'), 'rebuilding from (%r, %r) differs from the %s matrix by %.3g' % (ar, v.tolist(), dt, ref.maxdiff(Rb, Rf)))
    for k, (c, s_) in enumerate(((1, 0), (0, 1), (-1, 0), (0, -1))):
        for dt, tr in itertools.product(('int64', 'int32', 'float32'), ((0, 0), (5, -3))):
            R = np.array([[c, -s_], [s_, c]]).astype(dt)
            T = np.eye(3).astype(dt)
            T[:2, :2] = R
            T[:2, 2] = np.array(tr).astype(dt)
            Tf = T.astype(float)
            for en, f in (('base.tr2xyt', lambda u: b.tr2xyt(T.copy(), unit=u)), ('SE2.xyt', lambda u: sm.SE2(T.copy()).xyt() if u == 'rad' else None),
                          ('SO2.theta', lambda u: np.r_[0.0, 0.0, sm.SO2(R.copy()).theta(unit=u)]), ('SE2.theta', lambda u: np.r_[tr, sm.SE2(T.copy()).theta(unit=u)])):
                for u in ('rad', 'deg'):
                    if en == 'SE2.xyt' and u == 'deg':
                        continue
                    cid = 'C05/int/2D/k=%d/%s/t=%s/%s/%s' % (k, dt, tr[0], en, u)
                    if not ctx.want(cid):
                        continue
                    ctx.case(cid, key=cid, trivial=(k == 0 and tr[0] == 0))
                    P = dict(entry=en, dtype=dt, unit=u, mode='integer', rot=k)
                    ok, a = call(f, u)
                    if not ok:
                        ctx.fail(cid, en, 'raises:' + type(a).__name__, P, '%s of an %s matrix raised %r' % (en, dt, a))
                        continue
                    a = vec3(ctx, cid, en, P, a)
                    if a is None:
                        continue
                    ang = a[2] if u == 'rad' else a[2] * PI / 180
                    want = Tf if en != 'SO2.theta' else ref.rt(Tf[:2, :2], (0, 0))
                    d = ref.maxdiff(ref.rt(ref.rot2(ang), a[:2]), want)
                    if d > TOL * 5:
                        ctx.fail(cid, en, 'mismatch', dict(P, what='rebuild'), 'rebuilding from %r differs from the %s matrix by %.3g' % (a.tolist(), dt, d))


def shards(tier, seed):
    n = 6 if tier == 'quick' else 24
    out = [('rpy', k, n) for k in range(n)] + [('eul', k, n) for k in range(n)]
    out += [('angvec',), ('planar',), ('ctor',), ('ctorclass',), ('int',)]
    return out


def run_shard(ctx, shard):
    k = shard[0]
    if k == 'rpy':
        rpy_cases(ctx, shard[1], shard[2])
    elif k == 'eul':
        eul_cases(ctx, shard[1], shard[2])
    elif k == 'angvec':
        angvec_cases(ctx)
    elif k == 'planar':
        planar_cases(ctx)
    elif k == 'int':
        integer_cases(ctx)
    elif k == 'ctorclass':
        ctor_class_convention(ctx)
    else:
        ctor_convention(ctx)
