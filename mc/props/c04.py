"""
C04  All representations of the same motion agree and conversions are homomorphisms.

E2 in lock-step: a product state (M, SO3, SE3, UnitQuaternion, Twist3, UnitDualQuaternion)
[2-D: (M, SO2, SE2, Twist2)], M being the reference matrix.  Initial states: generators embedded
in every representation by the library conversion under test.  Transitions: compose with a
generator (each representation with its own operator) and inv.  In every state every
representation converted back to a matrix must equal M, all pairwise conversions and round trips
must agree, q == -q, embeddings preserve the action on points.  Plus E1: every shared named
constructor x its argument product compared across all classes that offer it.
"""
import itertools, math
import numpy as np
from mc import ref, alph, hist
from mc.core import call, HarnessError

PROP = 'C04'
LEVEL = 'model_checking'
RULE = ('BFS over product states (reference matrix + one library object per representation), transitions = '
        'right/left composition with each generator and inversion, each representation stepping with its own operator; '
        'state hash = reference matrix rounded to 1e-9*max(1,|t|); in every state all conversions are compared with the '
        'reference matrix (1e-6*max(1,|t|)); plus the full product of shared named constructors x options; '
        'non-trivial = state/argument is not the identity')
ASSUME = ['tolerance 1e-6 relative to max(1,|t|)', 'the reference matrix M is advanced with numpy matrix products / structured inverse',
          'UnitDualQuaternion defines no inverse; it takes part in composition transitions only']
ANCHORS = [('spatialmath.base.quaternions', 'r2q'), ('spatialmath.base.quaternions', 'q2r'), ('spatialmath.base.quaternions', 'isequal'),
           ('spatialmath.quaternion', 'UnitQuaternion.__init__'), ('spatialmath.quaternion', 'UnitQuaternion.SO3'),
           ('spatialmath.quaternion', 'UnitQuaternion.SE3'), ('spatialmath.quaternion', 'UnitQuaternion.__eq__'),
           ('spatialmath.pose3d', 'SE3.Twist3'), ('spatialmath.pose2d', 'SE2.Twist2'), ('spatialmath.twist', 'Twist3.SE3'),
           ('spatialmath.twist', 'Twist2.SE2'), ('spatialmath.DualQuaternion', 'UnitDualQuaternion.__init__'),
           ('spatialmath.DualQuaternion', 'UnitDualQuaternion.SE3'), ('spatialmath.pose2d', 'SO2.SE2'),
           ('spatialmath.pose2d', 'SE2.SE3'), ('spatialmath.pose3d', 'SE3.SO3')]

PI = math.pi
TOL = 1e-6


def sm():
    import spatialmath
    return spatialmath


def tsc(M):
    return max(1.0, float(np.linalg.norm(M[:-1, -1])))


def cmp(ctx, cid, site, P, got, want, scale, what):
    """got: library array; want: reference array"""
    if got is None:
        ctx.fail(cid, site, 'returns:NoneType', P, what + ': None')
        return False
    got = np.asarray(got)
    if got.dtype == object or got.shape != np.shape(want) or not np.all(np.isfinite(got)):
        ctx.fail(cid, site, 'nan' if got.shape == np.shape(want) else 'mismatch', P, '%s: shape %s dtype %s / non-finite' % (what, got.shape, got.dtype))
        return False
    d = ref.maxdiff(got, want)
    if d > TOL * scale:
        ctx.fail(cid, site, 'mismatch', P, '%s: differs from the reference by %.3g (tol %.1g)' % (what, d, TOL * scale))
        return False
    return True


def _polar(M, d):
    """the reference matrix is kept an exact group member (nearest rotation by polar decomposition) so that it does not drift itself"""
    M = M.copy()
    U, _, Vt = np.linalg.svd(M[:d, :d])
    M[:d, :d] = U @ Vt
    return M


def safe(ctx, cid, site, P, f, *a, **k):
    ok, v = call(f, *a, **k)
    if not ok:
        ctx.fail(cid, site, 'raises:' + type(v).__name__, P, '%s raised %r' % (site, v))
        return None
    return v


# --------------------------------------------------------------------------- 3-D product state

class State3:
    names = ('SO3', 'SE3', 'UQ', 'Twist3', 'UDQ')

    def __init__(self, M, objs, sc=1.0):
        self.M = M
        self.o = objs           # dict name -> library object or None (representation lost after a reported failure)
        self.sc = max(sc, tsc(M))   # largest translation magnitude among this state and the operands that produced it


def embed3(ctx, cid, P, M):
    """initial product state from the reference matrix by the library conversions under test"""
    S = sm()
    o = {}
    X = safe(ctx, cid, 'SE3', P, S.SE3, M.copy())
    o['SE3'] = X
    o['SO3'] = safe(ctx, cid, 'SO3', P, S.SO3, M[:3, :3].copy())
    o['UQ'] = safe(ctx, cid, 'UnitQuaternion(SE3)', P, S.UnitQuaternion, X) if X is not None else None
    o['Twist3'] = safe(ctx, cid, 'SE3.Twist3', P, lambda: X.Twist3()) if X is not None else None
    o['UDQ'] = safe(ctx, cid, 'UnitDualQuaternion(SE3)', P, S.UnitDualQuaternion, X) if X is not None else None
    return State3(M, o)


def step3(ctx, cid, P, st, g, how):
    """how in mulr (S*g), mull (g*S), inv"""
    o = {}
    if how.startswith('pow'):
        # integer power: each representation by its own operator (the twist by scaling its coordinates when the rotation stays inside
        # the principal range, else re-derived from the SE3), the dual quaternion re-embedded
        n_ = int(how[3:])
        M = _polar(np.linalg.matrix_power(st.M if n_ >= 0 else ref.inv_h(st.M), abs(n_)), 3)
        for n in ('SO3', 'SE3', 'UQ'):
            x = st.o.get(n)
            o[n] = safe(ctx, cid, n + '.pow', P, lambda x=x: x ** n_) if x is not None else None
        tw = st.o.get('Twist3')
        o['Twist3'] = None
        if tw is not None and np.linalg.norm(np.asarray(tw.S, dtype=float)[3:]) * abs(n_) < PI - 1e-3:
            o['Twist3'] = safe(ctx, cid, 'Twist3.mul', P, lambda: tw * float(n_))
        elif o.get('SE3') is not None:
            o['Twist3'] = safe(ctx, cid, 'SE3.Twist3', P, lambda: o['SE3'].Twist3())
        o['UDQ'] = safe(ctx, cid, 'UnitDualQuaternion(SE3)', P, sm().UnitDualQuaternion, o['SE3']) if o.get('SE3') is not None else None
        return State3(M, o, st.sc * max(1, abs(n_)))
    if how == 'inv':
        M = ref.inv_h(st.M)
        for n in st.names:
            x = st.o.get(n)
            if x is None or n == 'UDQ':
                o[n] = None if n != 'UDQ' else None
                continue
            o[n] = safe(ctx, cid, n + '.inv', P, lambda x=x: x.inv())
        # the dual quaternion has no inverse: re-embed from the inverted SE3 (conversion under test)
        if o.get('SE3') is not None:
            o['UDQ'] = safe(ctx, cid, 'UnitDualQuaternion(SE3)', P, sm().UnitDualQuaternion, o['SE3'])
    else:
        M = st.M @ g.M if how == 'mulr' else g.M @ st.M
        for n in st.names:
            a, b = st.o.get(n), g.o.get(n)
            if a is None or b is None:
                o[n] = None
                continue
            if how == 'mull':
                a, b = b, a
            o[n] = safe(ctx, cid, n + '.mul', P, lambda a=a, b=b: a * b)
    return State3(M, o, max(st.sc, g.sc if g is not None else 1.0))


def check3(ctx, cid, P, st, deep=True):
    """invariant of a 3-D product state"""
    S = sm()
    M, R, sc = st.M, st.M[:3, :3], st.sc      # 1e-6 relative to the data magnitude of the whole history (cancelling translations)
    o = st.o
    X, Rr, q, tw, dq = o.get('SE3'), o.get('SO3'), o.get('UQ'), o.get('Twist3'), o.get('UDQ')
    if X is not None:
        cmp(ctx, cid, 'SE3', P, X.A, M, sc, 'SE3 value')
    if Rr is not None:
        cmp(ctx, cid, 'SO3', P, Rr.A, R, 1, 'SO3 value')
    if q is not None:
        v = safe(ctx, cid, 'UnitQuaternion.R', P, lambda: q.R)
        if v is not None:
            cmp(ctx, cid, 'UnitQuaternion.R', P, v, R, 1, 'UnitQuaternion -> matrix')
        cmp(ctx, cid, 'UnitQuaternion', P, ref.q2r(q.vec), R, 1, 'UnitQuaternion value (reference q2r)')
    if tw is not None:
        Y = safe(ctx, cid, 'Twist3.SE3', P, lambda: tw.SE3())
        if Y is not None:
            cmp(ctx, cid, 'Twist3.SE3', P, Y.A, M, sc, 'Twist3 -> SE3')
        v = np.asarray(tw.S, dtype=float)
        if np.all(np.isfinite(v)):
            cmp(ctx, cid, 'Twist3', P, ref.mp_exp_se3(v), M, sc, 'Twist3 value (reference exponential)')
        else:
            ctx.fail(cid, 'Twist3', 'nan', P, 'twist value not finite')
    if dq is not None:
        Y = safe(ctx, cid, 'UnitDualQuaternion.SE3', P, lambda: dq.SE3())
        if Y is not None:
            cmp(ctx, cid, 'UnitDualQuaternion.SE3', P, Y.A, M, sc, 'UnitDualQuaternion -> SE3')
        # the conjugate is the inverse of a unit dual quaternion: it converts to the inverse motion and composes to the identity
        if deep:
            def _u(c):      # the conjugate may come back as a general dual quaternion: same numbers, re-wrapped as a unit one
                return c if hasattr(c, 'SE3') else S.UnitDualQuaternion(S.UnitQuaternion(np.asarray(c.real.vec, dtype=float), norm=False, check=False), c.dual)
            Yc = safe(ctx, cid, 'UnitDualQuaternion.conj', P, lambda: _u(dq.conj()).SE3())
            if Yc is not None:
                cmp(ctx, cid, 'UnitDualQuaternion.conj', P, Yc.A, ref.inv_h(M), sc, 'UnitDualQuaternion.conj() -> SE3 (inverse motion)')
            Yi = safe(ctx, cid, 'UnitDualQuaternion.conj', P, lambda: _u(dq * dq.conj()).SE3())
            if Yi is not None:
                cmp(ctx, cid, 'UnitDualQuaternion.conj', P, Yi.A, np.eye(4), sc, 'dq * dq.conj() -> identity')
    if not deep:
        return
    # the logarithm of the objects AS THE OPERATIONS LEFT THEM (an inverse may hold a transposed view, a product a fresh array): its reference
    # exponential is the state (near half turns the logarithm itself is only good to ~1e-8: inside the 1e-6 of this property)
    if Rr is not None:
        L = safe(ctx, cid, 'SO3.log', P, lambda: Rr.log())
        if L is not None and np.shape(L) == (3, 3):
            L = np.asarray(L, dtype=float)
            cmp(ctx, cid, 'SO3.log', P, ref.mp_to_np(ref.mp_exp_so3([L[2, 1], L[0, 2], L[1, 0]])[0]), R, 1, 'exp(SO3.log()) (reference exponential)')
        Lv = safe(ctx, cid, 'SO3.log', P, lambda: Rr.log(twist=True))
        if Lv is not None and np.shape(Lv) == (3,):
            cmp(ctx, cid, 'SO3.log', P, ref.mp_to_np(ref.mp_exp_so3(np.asarray(Lv, dtype=float))[0]), R, 1, 'exp(SO3.log(twist=True)) (reference exponential)')
    if X is not None:
        Lv = safe(ctx, cid, 'SE3.log', P, lambda: X.log(twist=True))
        if Lv is not None and np.shape(Lv) == (6,) and np.all(np.isfinite(np.asarray(Lv, dtype=float))):
            cmp(ctx, cid, 'SE3.log', P, ref.mp_exp_se3(np.asarray(Lv, dtype=float)), M, sc, 'exp(SE3.log(twist=True)) (reference exponential)')
    # pairwise conversions and round trips
    if Rr is not None:
        q2 = safe(ctx, cid, 'UnitQuaternion(SO3)', P, S.UnitQuaternion, Rr)
        if q2 is not None:
            cmp(ctx, cid, 'UnitQuaternion(SO3)', P, ref.q2r(q2.vec), R, 1, 'SO3 -> UnitQuaternion')
            R3 = safe(ctx, cid, 'UnitQuaternion.SO3', P, lambda: q2.SO3())
            if R3 is not None:
                if type(R3) is not S.SO3:
                    ctx.fail(cid, 'UnitQuaternion.SO3', 'returns:' + type(R3).__name__, P, 'not an SO3')
                else:
                    cmp(ctx, cid, 'UnitQuaternion.SO3', P, R3.A, R, 1, 'SO3 -> UQ -> SO3')
        q3 = safe(ctx, cid, 'UnitQuaternion(R)', P, S.UnitQuaternion, R.copy())
        if q3 is not None:
            cmp(ctx, cid, 'UnitQuaternion(R)', P, ref.q2r(q3.vec), R, 1, 'matrix -> UnitQuaternion')
        E = safe(ctx, cid, 'SE3.SO3', P, S.SE3.SO3, Rr)
        if E is not None:
            cmp(ctx, cid, 'SE3.SO3', P, E.A, ref.rt(R, np.zeros(3)), 1, 'embedding SO3 -> SE3')
            for pn, p in POINTS3:
                a = safe(ctx, cid, 'SE3.SO3', P, lambda: E * p)
                b = safe(ctx, cid, 'SO3.mul', P, lambda: Rr * p)
                if a is not None and b is not None:
                    cmp(ctx, cid, 'SE3.SO3', dict(P, point=pn), np.ravel(a), np.ravel(b), max(1, np.abs(p).max()), 'embedding preserves the action on a point')
    if q is not None:
        Y = safe(ctx, cid, 'UnitQuaternion.SE3', P, lambda: q.SE3())
        if Y is not None:
            cmp(ctx, cid, 'UnitQuaternion.SE3', P, Y.A, ref.rt(R, np.zeros(3)), 1, 'UnitQuaternion -> SE3')
        # double cover: q and -q are the same rotation and compare equal
        qm = safe(ctx, cid, 'UnitQuaternion', P, lambda: S.UnitQuaternion(-q.vec, norm=False, check=False))
        if qm is not None:
            e = safe(ctx, cid, 'UnitQuaternion.eq', P, lambda: q == qm)
            if e is not None and e is not True and not (isinstance(e, (bool, np.bool_)) and bool(e)):
                ctx.fail(cid, 'UnitQuaternion.eq', 'mismatch', P, 'q == -q gives %r' % (e,))
            n = safe(ctx, cid, 'UnitQuaternion.ne', P, lambda: q != qm)
            if n is not None and bool(n) is not False:
                ctx.fail(cid, 'UnitQuaternion.ne', 'mismatch', P, 'q != -q gives %r' % (n,))
            v = safe(ctx, cid, 'UnitQuaternion.R', P, lambda: qm.R)
            if v is not None:
                cmp(ctx, cid, 'UnitQuaternion.R', dict(P, sign='-q'), v, R, 1, '-q -> matrix')
            # -q up to one rounding error in one component (what Rx(pi) and Rx(-pi), or two routes to the same half turn, give):
            # still the same rotation, still far inside the comparison tolerance, must still compare equal
            for k, dl in itertools.product(range(4), (1.5e-16, -1.5e-16)):
                pv = -np.asarray(q.vec, dtype=float)
                pv[k] += dl
                qp = safe(ctx, cid, 'UnitQuaternion', P, lambda: S.UnitQuaternion(pv, norm=False, check=False))
                if qp is None:
                    continue
                e = safe(ctx, cid, 'UnitQuaternion.eq', P, lambda: q == qp)
                if e is not None and not (isinstance(e, (bool, np.bool_)) and bool(e)):
                    ctx.fail(cid, 'UnitQuaternion.eq', 'mismatch', dict(P, perturbed=k), 'q == (-q + %.1e in component %d) gives %r' % (dl, k, e))
                n = safe(ctx, cid, 'UnitQuaternion.ne', P, lambda: q != qp)
                if n is not None and bool(n) is not False:
                    ctx.fail(cid, 'UnitQuaternion.ne', 'mismatch', dict(P, perturbed=k), 'q != (-q + %.1e in component %d) gives %r' % (dl, k, n))
            # exponential coordinates of either sign of the quaternion: log -> exp and log -> rotation vector give the same rotation
            for sgn, qq in (('q', q), ('-q', qm)):
                L = safe(ctx, cid, 'UnitQuaternion.log', P, lambda: qq.log())
                if L is None:
                    continue
                lv = np.asarray(L.vec, dtype=float)
                if lv.shape != (4,) or not np.all(np.isfinite(lv)):
                    ctx.fail(cid, 'UnitQuaternion.log', 'nan', dict(P, sign=sgn), 'log is %r' % (lv,))
                    continue
                cmp(ctx, cid, 'UnitQuaternion.log', dict(P, sign=sgn), ref.mp_to_np(ref.mp_exp_so3(2 * lv[1:])[0]), R, 1, 'rotation vector 2*log(%s).v -> matrix' % sgn)
                E = safe(ctx, cid, 'Quaternion.exp', P, lambda: L.exp())
                if E is not None:
                    cmp(ctx, cid, 'Quaternion.exp', dict(P, sign=sgn), ref.q2r(np.asarray(E.vec, dtype=float)), R, 1, 'exp(log(%s)) -> matrix' % sgn)
    if X is not None:
        t2 = safe(ctx, cid, 'Twist3(SE3)', P, S.Twist3, X)
        if t2 is not None and np.all(np.isfinite(t2.S)):
            cmp(ctx, cid, 'Twist3(SE3)', P, ref.mp_exp_se3(t2.S), M, sc, 'SE3 -> Twist3 (reference exponential)')
        qx = safe(ctx, cid, 'UnitQuaternion(SE3)', P, S.UnitQuaternion, X)
        if qx is not None:
            cmp(ctx, cid, 'UnitQuaternion(SE3)', P, ref.q2r(qx.vec), R, 1, 'SE3 -> UnitQuaternion')
        qT = safe(ctx, cid, 'UnitQuaternion(T)', P, S.UnitQuaternion, M.copy())
        if qT is not None:
            cmp(ctx, cid, 'UnitQuaternion(T)', P, ref.q2r(qT.vec), R, 1, '4x4 matrix -> UnitQuaternion')


POINTS3 = [('e', np.array([1.0, 0, 0])), ('g', np.array([0.5, -1.5, 2.0])), ('1e3', np.array([1e3, -2e3, 5e2]))]
POINTS2 = [('e', np.array([1.0, 0])), ('g', np.array([0.5, -1.5])), ('1e3', np.array([1e3, -2e3]))]


# --------------------------------------------------------------------------- 2-D product state

class State2:
    names = ('SO2', 'SE2', 'Twist2')

    def __init__(self, M, objs, sc=1.0):
        self.M, self.o = M, objs
        self.sc = max(sc, tsc(M))


def embed2(ctx, cid, P, M):
    S = sm()
    o = {}
    X = safe(ctx, cid, 'SE2', P, S.SE2, M.copy())
    o['SE2'] = X
    o['SO2'] = safe(ctx, cid, 'SO2', P, S.SO2, M[:2, :2].copy())
    o['Twist2'] = safe(ctx, cid, 'SE2.Twist2', P, lambda: X.Twist2()) if X is not None else None
    return State2(M, o)


def step2(ctx, cid, P, st, g, how):
    o = {}
    if how.startswith('pow'):
        n_ = int(how[3:])
        M = _polar(np.linalg.matrix_power(st.M if n_ >= 0 else ref.inv_h(st.M), abs(n_)), 2)
        for n in ('SO2', 'SE2'):
            x = st.o.get(n)
            o[n] = safe(ctx, cid, n + '.pow', P, lambda x=x: x ** n_) if x is not None else None
        tw = st.o.get('Twist2')
        o['Twist2'] = None
        if tw is not None and abs(float(np.asarray(tw.S, dtype=float)[2])) * abs(n_) < PI - 1e-3:
            o['Twist2'] = safe(ctx, cid, 'Twist2.mul', P, lambda: tw * float(n_))
        elif o.get('SE2') is not None:
            o['Twist2'] = safe(ctx, cid, 'SE2.Twist2', P, lambda: o['SE2'].Twist2())
        return State2(M, o, st.sc * max(1, abs(n_)))
    if how == 'inv':
        M = ref.inv_h(st.M)
        for n in st.names:
            x = st.o.get(n)
            o[n] = safe(ctx, cid, n + '.inv', P, lambda x=x: x.inv()) if x is not None else None
    else:
        M = st.M @ g.M if how == 'mulr' else g.M @ st.M
        for n in st.names:
            a, b = st.o.get(n), g.o.get(n)
            if a is None or b is None:
                o[n] = None
                continue
            if how == 'mull':
                a, b = b, a
            o[n] = safe(ctx, cid, n + '.mul', P, lambda a=a, b=b: a * b)
    return State2(M, o, max(st.sc, g.sc if g is not None else 1.0))


def check2(ctx, cid, P, st, deep=True):
    S = sm()
    M, R, sc = st.M, st.M[:2, :2], st.sc
    X, Rr, tw = st.o.get('SE2'), st.o.get('SO2'), st.o.get('Twist2')
    if X is not None:
        cmp(ctx, cid, 'SE2', P, X.A, M, sc, 'SE2 value')
    if Rr is not None:
        cmp(ctx, cid, 'SO2', P, Rr.A, R, 1, 'SO2 value')
    if tw is not None:
        Y = safe(ctx, cid, 'Twist2.SE2', P, lambda: tw.SE2())
        if Y is not None:
            cmp(ctx, cid, 'Twist2.SE2', P, Y.A, M, sc, 'Twist2 -> SE2')
        v = np.asarray(tw.S, dtype=float)
        if np.all(np.isfinite(v)):
            cmp(ctx, cid, 'Twist2', P, ref.mp_exp_se2(v), M, sc, 'Twist2 value (reference exponential)')
        else:
            ctx.fail(cid, 'Twist2', 'nan', P, 'twist value not finite')
    if not deep:
        return
    if Rr is not None:
        E = safe(ctx, cid, 'SO2.SE2', P, lambda: Rr.SE2())
        if E is not None:
            if type(E) is not S.SE2:
                ctx.fail(cid, 'SO2.SE2', 'returns:' + type(E).__name__, P, 'not an SE2')
            else:
                cmp(ctx, cid, 'SO2.SE2', P, E.A, ref.rt(R, np.zeros(2)), 1, 'embedding SO2 -> SE2')
                for pn, p in POINTS2:
                    a = safe(ctx, cid, 'SO2.SE2', P, lambda: E * p)
                    b = safe(ctx, cid, 'SO2.mul', P, lambda: Rr * p)
                    if a is not None and b is not None:
                        cmp(ctx, cid, 'SO2.SE2', dict(P, point=pn), np.ravel(a), np.ravel(b), max(1, np.abs(p).max()), 'embedding preserves the action on a point')
    if X is not None:
        for zn, z in (('0', 0.0), ('g', 2.5)):
            E = safe(ctx, cid, 'SE2.SE3', dict(P, z=zn), lambda: X.SE3(z) if z else X.SE3())
            if E is None:
                continue
            if type(E) is not S.SE3:
                ctx.fail(cid, 'SE2.SE3', 'returns:' + type(E).__name__, P, 'not an SE3')
                continue
            want = np.eye(4)
            want[:2, :2] = R
            want[:2, 3] = M[:2, 2]
            want[2, 3] = z
            cmp(ctx, cid, 'SE2.SE3', dict(P, z=zn), E.A, want, sc, 'embedding SE2 -> SE3')
            if z == 0:
                for pn, p in POINTS2:
                    a = safe(ctx, cid, 'SE2.SE3', P, lambda: E * np.r_[p, 0.7])
                    b = safe(ctx, cid, 'SE2.mul', P, lambda: X * p)
                    if a is not None and b is not None:
                        cmp(ctx, cid, 'SE2.SE3', dict(P, point=pn), np.ravel(a), np.r_[np.ravel(b), 0.7], max(sc, np.abs(p).max()), 'embedding preserves the action on a point')
        t2 = safe(ctx, cid, 'Twist2(SE2)', P, S.Twist2, X)
        if t2 is not None and np.all(np.isfinite(t2.S)):
            cmp(ctx, cid, 'Twist2(SE2)', P, ref.mp_exp_se2(t2.S), M, sc, 'SE2 -> Twist2 (reference exponential)')


def canon(M):
    s = 1e-9 * tsc(M)
    return tuple(np.round(M / s).astype(np.int64).ravel().tolist())


def bfs(ctx, dim, k, K):
    tier, seed = ctx.tier, ctx.seed
    G = alph.gen_SE(dim, tier, seed)
    if tier == 'quick':
        G = alph.subset(G, 10)
    embed, step, check = (embed3, step3, check3) if dim == 3 else (embed2, step2, check2)
    depth = 2 if tier == 'quick' else 3
    gens = []
    for gn, M in G:
        cid = 'C04/%dD/embed/%s' % (dim, gn)
        gens.append((gn, embed(ctx, cid, dict(dim=dim, g=gn.split('|')[0], t=gn.split('t=')[1], step='embed'), M)))
    seen = {}
    frontier = []
    for i, (gn, st) in enumerate(gens):
        if i % K == k:
            seen[canon(st.M)] = gn
            frontier.append((gn, st))
            cid = 'C04/%dD/state/%s' % (dim, gn)
            if ctx.want(cid):
                ctx.case(cid, trivial=(gn == 'I|t=0'))
                check(ctx, cid, dict(dim=dim, g=gn.split('|')[0], t=gn.split('t=')[1], depth=0), st)
            # the same product state held by objects with a history (every conversion already used on them before they
            # received their present value): all conversions must describe the value they hold now
            for tag in ('setitem', 'append-pop'):
                cidh = 'C04/%dD/state/%s/hist=%s' % (dim, gn, tag)
                if not ctx.want(cidh):
                    continue
                aged = {}
                for nme, ob in st.o.items():
                    if ob is None or not hasattr(ob, 'data') or not isinstance(ob.data, list):
                        aged[nme] = ob
                        continue
                    aged[nme] = dict(hist.variants(ob, _warm, fresh=False)).get(tag)
                ctx.case(cidh, trivial=(gn == 'I|t=0'))
                sth = (State3 if dim == 3 else State2)(st.M, aged, st.sc)
                check(ctx, cidh, dict(dim=dim, g=gn.split('|')[0], t=gn.split('t=')[1], depth=0, hist=tag), sth)
    # drifted members: a state reached by 27 (81) compositions (nested cubes) is a member to ~1e-14 - outside the 100 eps band that the
    # constructors apply to raw arrays, which the operations never apply to their own results: every conversion must still work on it
    if k == 0:
        for gn, M in [g for g in G if tsc(g[1]) <= 1.5 and not g[0].startswith('I')][:4 if tier == 'quick' else 12]:
            for depth_ in (3, 4):
                cid = 'C04/%dD/drift/%s/cubes=%d' % (dim, gn, depth_)
                if not ctx.want(cid):
                    continue
                ctx.case(cid)
                P = dict(dim=dim, g=gn.split('|')[0], t=gn.split('t=')[1], step='drift', depth=depth_)
                st = embed(ctx, cid, P, M)
                for _ in range(depth_):
                    st = step(ctx, cid, P, st, None, 'pow3')
                check(ctx, cid, P, st)
    ntr = 0
    # composition letters: a landmark-preserving subset (all generators are still roots); bounds the branching factor
    gsub = [g for g in gens if g[0] in {x[0] for x in alph.subset(G, 6 if tier == 'quick' else 10, 3 if tier == 'quick' else 5)}]
    for d in range(depth):
        nxt = []
        for sn, st in frontier:
            moves = [('inv', None, 'inv')] + [('**%d' % n_, None, 'pow%d' % n_) for n_ in (-1, 2, -2, 0, 3)]
            for gn, g in gsub:
                moves.append(('*' + gn, g, 'mulr'))
                moves.append((gn + '*', g, 'mull'))
            for mn, g, how in moves:
                name = '%s.%s' % (sn, mn)
                cid = 'C04/%dD/bfs/%s' % (dim, name)
                if not ctx.want(cid, walk=True):
                    continue
                ctx.case(cid)
                ntr += 1
                P = dict(dim=dim, depth=d + 1, step=how)
                st2 = step(ctx, cid, P, st, g, how)
                if how in ('mulr', 'mull') and g is not None:
                    # the documented mixed-class products: Twist * SE -> SE is the same composition with the left factor held as a twist
                    a_, b_ = (st, g) if how == 'mulr' else (g, st)
                    tn_, sn_ = ('Twist3', 'SE3') if dim == 3 else ('Twist2', 'SE2')
                    ta, sb = a_.o.get(tn_), b_.o.get(sn_)
                    if ta is not None and sb is not None:
                        Y = safe(ctx, cid, tn_ + '.mul', dict(P, mixed=tn_ + '*' + sn_), lambda: ta * sb)
                        if Y is not None:
                            if type(Y).__name__ != sn_ or len(Y.data) != 1:
                                ctx.fail(cid, tn_ + '.mul', 'returns:' + type(Y).__name__, dict(P, mixed=tn_ + '*' + sn_), '%s * %s gave %s' % (tn_, sn_, type(Y).__name__))
                            else:
                                cmp(ctx, cid, tn_ + '.mul', dict(P, mixed=tn_ + '*' + sn_), Y.A, st2.M, st2.sc, '%s * %s (documented: exp(twist) then the pose)' % (tn_, sn_))
                h = canon(st2.M)
                new = h not in seen
                check(ctx, cid, P, st2, deep=new)
                if new:
                    seen[h] = name
                    if d + 1 < depth and tsc(st2.M) < 1e8:
                        nxt.append((name, st2))
        frontier = nxt
    ctx.count('states', len(seen))
    ctx.count('transitions', ntr)
    ctx.count('lockstep', ntr * (5 if dim == 3 else 3))


def _warm(o):
    """use every conversion / accessor of a representation object once (results discarded)"""
    S = sm()
    for f in (lambda: o.A, lambda: o.R, lambda: o.SO3(), lambda: o.SE3(), lambda: o.SE2(), lambda: o.Twist3(), lambda: o.Twist2(), lambda: o.log(), lambda: o.log(twist=True),
              lambda: o.exp(), lambda: o.vec, lambda: o.S, lambda: o.inv(), lambda: S.UnitQuaternion(o), lambda: S.Twist3(o), lambda: S.Twist2(o), lambda: S.UnitDualQuaternion(o),
              lambda: S.SE3.SO3(o), lambda: o * o, lambda: o == o, lambda: o.angvec(), lambda: o.rpy(), lambda: o.t, lambda: o.theta(), lambda: o.xyt()):
        try:
            f()
        except Exception:
            pass


# --------------------------------------------------------------------------- shared named constructors

def rotpart(obj, cname):
    """rotation matrix described by a library object, through the REFERENCE conversion of its stored value"""
    v = obj.data[0]
    if cname == 'UnitQuaternion':
        return ref.q2r(v)
    if cname == 'Twist3':
        return ref.mp_exp_se3(v)[:3, :3]
    return np.asarray(v)[:3, :3]


def shared(ctx, part, nparts):
    S = sm()
    tier, seed = ctx.tier, ctx.seed
    from mc.props import c01
    classes = [('SO3', S.SO3), ('SE3', S.SE3), ('UnitQuaternion', S.UnitQuaternion)]
    i = 0

    def compare(base, fn, P, want, calls):
        """calls: [(class name, thunk)]; every class must give rotation `want` (1e-6)"""
        for cn, th in calls:
            cid = 'C04/ctor/%s/%s/%s' % (fn, cn, base)
            if not ctx.want(cid):
                continue
            ctx.case(cid, key=(fn, cn, base))
            site = '%s.%s' % (cn, fn)
            PP = dict(P, cls=cn, fn=fn)
            ok, o = call(th)
            if not ok:
                ctx.fail(cid, site, 'raises:' + type(o).__name__, PP, '%s raised %r' % (site, o))
                continue
            if o is None or not hasattr(o, 'data') or len(o.data) != 1:
                ctx.fail(cid, site, 'returns:' + type(o).__name__, PP, 'expected one value')
                continue
            v = np.asarray(o.data[0])
            if not np.all(np.isfinite(v)):
                ctx.fail(cid, site, 'nan', PP, 'non-finite value')
                continue
            cmp(ctx, cid, site, PP, rotpart(o, cn), want, 1, '%s(%s)' % (site, base))

    # Rx Ry Rz: SO3 SE3 UQ Twist3
    for fn, rf in (('Rx', ref.rotx), ('Ry', ref.roty), ('Rz', ref.rotz)):
        for an, av, u in c01.angle_units(tier, seed):
            i += 1
            if i % nparts != part:
                continue
            rad = av if u == 'rad' else av * PI / 180
            if abs(rad) > PI and 'Twist3':
                pass
            calls = [(cn, lambda C=C: getattr(C, fn)(av, u)) for cn, C in classes]
            calls.append(('Twist3', lambda: getattr(S.Twist3, fn)(av, u)))
            compare('a=%s' % an, fn, dict(angle=an, unit=u), rf(rad), calls)
    # the translation option of the SE3 axis constructors and the pure translations: the same motion as [R(theta) t]
    TL = [('g', np.array([0.5, -1.5, 2.0])), ('1e6', 1e6 * alph.unit((3, 1, 2))), ('1e-6', np.array([1e-6, 0, -2e-6]))]
    for fn, rf in (('Rx', ref.rotx), ('Ry', ref.roty), ('Rz', ref.rotz)):
        for (an, av, u), (tn, t), form in itertools.product(c01.angle_units(tier, seed)[::3], TL, ('1d', 'list', 'tuple')):
            i += 1
            if i % nparts != part:
                continue
            cid = 'C04/ctor/%s/SE3/a=%s/t=%s/%s' % (fn, an, tn, form)
            if not ctx.want(cid):
                continue
            ctx.case(cid, key=cid)
            rad = av if u == 'rad' else av * PI / 180
            PP = dict(cls='SE3', fn=fn, angle=an, unit=u, t=tn, form=form)
            targ = t.copy() if form == '1d' else (t.tolist() if form == 'list' else tuple(t.tolist()))
            ok, o = call(lambda: getattr(S.SE3, fn)(av, u, t=targ))
            if not ok:
                ctx.fail(cid, 'SE3.' + fn, 'raises:' + type(o).__name__, PP, 'SE3.%s(theta, t=) raised %r' % (fn, o))
            elif not hasattr(o, 'data') or len(o.data) != 1:
                ctx.fail(cid, 'SE3.' + fn, 'returns:' + type(o).__name__, PP, 'expected one value')
            else:
                cmp(ctx, cid, 'SE3.' + fn, PP, o.data[0], ref.rt(rf(rad), t), max(1.0, float(np.linalg.norm(t))), 'SE3.%s(theta, t=t)' % fn)
    for k, fn in enumerate(('Tx', 'Ty', 'Tz')):
        for mn, m in (('0', 0.0), ('1e-6', 1e-6), ('g', -1.5), ('1e6', 1e6)):
            cid = 'C04/ctor/%s/%s' % (fn, mn)
            if part != 0 or not ctx.want(cid):
                continue
            ctx.case(cid, key=cid, trivial=(m == 0))
            ok, o = call(lambda: getattr(S.SE3, fn)(m))
            PP = dict(cls='SE3', fn=fn, t=mn)
            if not ok:
                ctx.fail(cid, 'SE3.' + fn, 'raises:' + type(o).__name__, PP, '%r' % (o,))
            elif not hasattr(o, 'data') or len(o.data) != 1:
                ctx.fail(cid, 'SE3.' + fn, 'returns:' + type(o).__name__, PP, 'expected one value')
            else:
                t = np.zeros(3)
                t[k] = m
                cmp(ctx, cid, 'SE3.' + fn, PP, o.data[0], ref.rt(np.eye(3), t), max(1.0, abs(m)), 'SE3.%s(%s)' % (fn, mn))
    # RPY / Eul
    SA, PA = c01.small_angles(tier, seed), c01.pitch_angles(tier, seed)
    for (rn, r), (pn, p), (yn, y) in itertools.product(SA, PA, SA):
        i += 1
        if i % nparts != part:
            continue
        for u in ('rad', 'deg'):
            k = 1.0 if u == 'rad' else 180 / PI
            A = [r * k, p * k, y * k]
            for order in c01.ORDERS:
                compare('r=%s/p=%s/y=%s/%s/%s' % (rn, pn, yn, u, order), 'RPY', dict(order=order, unit=u, roll=rn, pitch=pn, yaw=yn),
                        ref.rpy(r, p, y, order), [(cn, lambda C=C: C.RPY(list(A), unit=u, order=order)) for cn, C in classes])
            compare('phi=%s/th=%s/psi=%s/%s' % (rn, pn, yn, u), 'Eul', dict(unit=u, phi=rn, theta=pn, psi=yn),
                    ref.eul(r, p, y), [(cn, lambda C=C: C.Eul(list(A), unit=u)) for cn, C in classes])
    # the same constructors with an N x 3 array of angle triples (one value per row), every order and unit
    rows = [(r, p, y) for (_, r), (_, p), (_, y) in itertools.product(SA[:3], PA[:4], SA[1:3])]
    for N in (2, 3):
        for start in range(0, len(rows) - N, 5):
            i += 1
            if i % nparts != part:
                continue
            sel = rows[start:start + N]
            for u in ('rad', 'deg'):
                k = 1.0 if u == 'rad' else 180 / PI
                A = np.array(sel) * k
                for cn, C in classes[:2]:
                    for fn, orders in (('RPY', c01.ORDERS), ('Eul', (None,))):
                        for order in orders:
                            cid = 'C04/ctor/%s/%s/Nx3/N=%d/start=%d/%s/%s' % (fn, cn, N, start, u, order)
                            if not ctx.want(cid):
                                continue
                            ctx.case(cid, key=cid)
                            site = '%s.%s' % (cn, fn)
                            PP = dict(cls=cn, fn=fn, unit=u, order=str(order), form='Nx3', N=N)
                            kw = dict(unit=u) if order is None else dict(unit=u, order=order)
                            ok, o = call(getattr(C, fn), A.copy(), **kw)
                            if not ok:
                                ctx.fail(cid, site, 'raises:' + type(o).__name__, PP, '%s(N x 3) raised %r' % (site, o))
                                continue
                            if type(o) is not C or len(o.data) != N:
                                ctx.fail(cid, site, 'mismatch', dict(PP, what='count'), 'expected %d values, got %s' % (N, len(getattr(o, 'data', []))))
                                continue
                            for j, (r, p, y) in enumerate(sel):
                                want = ref.eul(r, p, y) if order is None else ref.rpy(r, p, y, order)
                                cmp(ctx, cid, site, dict(PP, j=j), np.asarray(o.data[j])[:3, :3], want, 1, '%s(N x 3)[%d]' % (site, j))
    # AngVec / EulerVec / Exp
    AX = alph.axes(tier, seed)
    # (angles between the landmark neighbours: a "null rotation" guard that is a few decades too wide shows here, above the 1e-6 of this property)
    for tn, th in list(alph.theta_alphabet(tier, seed)) + [('3e-6', 3e-6), ('1e-5', 1e-5), ('2e-5', 2e-5), ('1e-4', 1e-4), ('pi-1e-5', PI - 1e-5), ('pi-3e-6', PI - 3e-6)]:
        for sg in (1, -1):
            for xn, ax in AX:
                i += 1
                if i % nparts != part:
                    continue
                want = ref.mp_rot(ax, sg * th) if th != 0 else np.eye(3)
                for ln, L in c01.LENGTHS:
                    v = ax * L
                    for u in ('rad', 'deg'):
                        a = sg * th * (1.0 if u == 'rad' else 180 / PI)
                        if u == 'deg' and not (1e-9 < th < PI - 1e-9 or th == 0):
                            continue            # the degree round trip moves theta by ~1e-16 rad: irrelevant at 1e-6, skipped to keep letters exact
                        compare('theta=%s%s/axis=%s/len=%s/%s' % ('-' if sg < 0 else '', tn, xn, ln, u), 'AngVec',
                                dict(theta=tn, axis=xn, axislen=ln, unit=u, sign=sg), want,
                                [(cn, lambda C=C: C.AngVec(a, v.copy(), unit=u)) for cn, C in classes])
                if sg == 1:
                    w = ax * th
                    compare('theta=%s/axis=%s' % (tn, xn), 'EulerVec', dict(theta=tn, axis=xn), want,
                            [(cn, lambda C=C: C.EulerVec(w.copy())) for cn, C in classes])
                    compare('theta=%s/axis=%s' % (tn, xn), 'Exp', dict(theta=tn, axis=xn), want,
                            [('SO3', lambda: S.SO3.Exp(w.copy())), ('SE3', lambda: S.SE3.Exp(np.r_[0, 0, 0, w])),
                             ('Twist3', lambda: S.Twist3(np.r_[0, 0, 0, w]))])
    # OA
    for name, o, a, extra in c01.oa_pairs(tier, seed):
        i += 1
        if i % nparts != part:
            continue
        zz = a / np.linalg.norm(a)
        xx = np.cross(o, a)
        xx = xx / np.linalg.norm(xx)
        yy = np.cross(zz, xx)
        want = np.stack((xx, yy, zz), axis=1)
        compare(name, 'OA', dict(extra), want, [(cn, lambda C=C: C.OA(o.copy(), a.copy())) for cn, C in classes])


def seqprod(ctx, dim):
    """the sequence product in each representation that has one: prod() of N values (N = 1..9, every N, not only powers of two)
    equals the reference product of the N matrices, for poses, rotations and twists alike"""
    S = sm()
    tier, seed = ctx.tier, ctx.seed
    G = alph.gen_SE(dim, tier, seed)
    G = [g for g in alph.subset(G, 9, 4) if tsc(g[1]) <= 1e3 + 1]
    for N, off in itertools.product(range(1, 10), range(3)):
        seq = [G[(off + 2 * j) % len(G)] for j in range(N)]
        Mref = np.eye(dim + 1)
        for _, M in seq:
            Mref = Mref @ M
        sc = max([tsc(M) for _, M in seq] + [tsc(Mref)])
        cid = 'C04/%dD/prod/N=%d/off=%d' % (dim, N, off)
        if not ctx.want(cid):
            continue
        ctx.case(cid, trivial=False)
        P = dict(dim=dim, N=N, step='prod')
        SEc, SOc, TWc = (S.SE3, S.SO3, S.Twist3) if dim == 3 else (S.SE2, S.SO2, S.Twist2)
        X = safe(ctx, cid, SEc.__name__ + '.prod', P, lambda: SEc([M.copy() for _, M in seq]).prod())
        if X is not None:
            cmp(ctx, cid, SEc.__name__ + '.prod', P, X.A, Mref, sc, '%s.prod() of %d values' % (SEc.__name__, N))
        R = safe(ctx, cid, SOc.__name__ + '.prod', P, lambda: SOc([M[:dim, :dim].copy() for _, M in seq]).prod())
        if R is not None:
            cmp(ctx, cid, SOc.__name__ + '.prod', P, R.A, Mref[:dim, :dim], 1, '%s.prod() of %d values' % (SOc.__name__, N))
        tws = []
        for _, M in seq:
            t_ = safe(ctx, cid, SEc.__name__ + '.' + TWc.__name__, P, lambda M=M: getattr(SEc(M.copy()), TWc.__name__)())
            if t_ is None:
                break
            tws.append(np.asarray(t_.S, dtype=float))
        if len(tws) == N:
            W = safe(ctx, cid, TWc.__name__ + '.prod', P, lambda: TWc([t.copy() for t in tws]).prod())
            if W is not None and np.all(np.isfinite(np.asarray(W.S, dtype=float))):
                ex = ref.mp_exp_se3 if dim == 3 else ref.mp_exp_se2
                cmp(ctx, cid, TWc.__name__ + '.prod', P, ex(np.asarray(W.S, dtype=float)), Mref, sc, '%s.prod() of %d values (reference exponential)' % (TWc.__name__, N))
        if N >= 2:
            multiconv(ctx, cid, dict(dim=dim, N=N, step='convert'), dim, seq, sc)


def _conv(ctx, cid, site, P, f, refs, sc, what, get=None):
    """a conversion applied to a multi-valued object: it either refuses loudly or returns one result per value, each equal to the reference"""
    try:
        v = f()
    except Exception:
        ctx.note('refused', site)
        return
    try:
        vals = [get(x) for x in v] if get is not None else [np.asarray(x, dtype=float) for x in v]
    except Exception as e:
        ctx.fail(cid, site, 'mismatch', P, '%s: result of a multi-valued conversion cannot be read per value (%r)' % (what, e))
        return
    if len(vals) != len(refs):
        ctx.fail(cid, site, 'mismatch', P, '%s: %d results for %d values' % (what, len(vals), len(refs)))
        return
    for i, (a, b) in enumerate(zip(vals, refs)):
        if np.shape(a) != np.shape(b):
            ctx.fail(cid, site, 'mismatch', dict(P, element=i), '%s: element %d has shape %s' % (what, i, np.shape(a)))
            return
        cmp(ctx, cid, site, dict(P, element=i), a, b, sc, '%s, element %d' % (what, i))


def multiconv(ctx, cid, P, dim, seq, sc):
    """conversions between representations applied to whole multi-valued objects"""
    S = sm()
    Ms = [M for _, M in seq]
    Rs = [M[:dim, :dim] for M in Ms]
    ts = [M[:dim, dim] for M in Ms]
    A = lambda x: np.asarray(x.A, dtype=float)
    if dim == 3:
        X = S.SE3([M.copy() for M in Ms])
        R = S.SO3([r.copy() for r in Rs])
        Rh = [ref.rt(r, np.zeros(3)) for r in Rs]
        qv = lambda x: ref.q2r(np.asarray(x.vec, dtype=float))
        for src, o in (('SO3', R), ('SE3', X)):
            _conv(ctx, cid, 'UnitQuaternion(%s)' % src, P, lambda o=o: S.UnitQuaternion(o), Rs, 1, 'UnitQuaternion(%s[N])' % src, get=qv)
        try:
            q = S.UnitQuaternion(R)
            if len(q) != len(Rs):
                q = None
        except Exception:
            q = None
        if q is None:
            q = S.UnitQuaternion([S.UnitQuaternion(r.copy()).vec for r in Rs])
        _conv(ctx, cid, 'UnitQuaternion.R', P, lambda: q.R, Rs, 1, 'UnitQuaternion[N].R')
        _conv(ctx, cid, 'UnitQuaternion.SO3', P, lambda: q.SO3(), Rs, 1, 'UnitQuaternion[N].SO3()', get=A)
        _conv(ctx, cid, 'UnitQuaternion.SE3', P, lambda: q.SE3(), Rh, 1, 'UnitQuaternion[N].SE3()', get=A)
        _conv(ctx, cid, 'SO3(SE3)', P, lambda: S.SO3(X), Rs, 1, 'SO3(SE3[N])', get=A)
        _conv(ctx, cid, 'SE3(SO3)', P, lambda: S.SE3(R), Rh, 1, 'SE3(SO3[N])', get=A)
        _conv(ctx, cid, 'SE3.SO3', P, lambda: S.SE3.SO3(R), Rh, 1, 'SE3.SO3(SO3[N])', get=A)
        _conv(ctx, cid, 'SE3.R', P, lambda: X.R, Rs, 1, 'SE3[N].R')
        _conv(ctx, cid, 'SE3.t', P, lambda: X.t, ts, sc, 'SE3[N].t')
        _conv(ctx, cid, 'SO3.R', P, lambda: R.R, Rs, 1, 'SO3[N].R')
        ex = lambda x: ref.mp_exp_se3(np.asarray(x.S, dtype=float))
        _conv(ctx, cid, 'Twist3(SE3)', P, lambda: S.Twist3(X), Ms, sc, 'Twist3(SE3[N])', get=ex)
        _conv(ctx, cid, 'SE3.Twist3', P, lambda: X.Twist3(), Ms, sc, 'SE3[N].Twist3()', get=ex)
        try:
            tw = S.Twist3([np.asarray(S.SE3(M.copy()).Twist3().S, dtype=float) for M in Ms])
        except Exception:
            tw = None
        if tw is not None:
            _conv(ctx, cid, 'Twist3.SE3', P, lambda: tw.SE3(), Ms, sc, 'Twist3[N].SE3()', get=A)
            _conv(ctx, cid, 'Twist3.exp', P, lambda: tw.exp(), Ms, sc, 'Twist3[N].exp()', get=A)
    else:
        X = S.SE2([M.copy() for M in Ms])
        R = S.SO2([r.copy() for r in Rs])
        Rh = [ref.rt(r, np.zeros(2)) for r in Rs]
        _conv(ctx, cid, 'SO2(SE2)', P, lambda: S.SO2(X), Rs, 1, 'SO2(SE2[N])', get=A)
        _conv(ctx, cid, 'SE2(SO2)', P, lambda: S.SE2(R), Rh, 1, 'SE2(SO2[N])', get=A)
        _conv(ctx, cid, 'SO2.SE2', P, lambda: R.SE2(), Rh, 1, 'SO2[N].SE2()', get=A)
        _conv(ctx, cid, 'SE2.R', P, lambda: X.R, Rs, 1, 'SE2[N].R')
        _conv(ctx, cid, 'SE2.t', P, lambda: X.t, ts, sc, 'SE2[N].t')
        _conv(ctx, cid, 'SO2.R', P, lambda: R.R, Rs, 1, 'SO2[N].R')
        M3 = []
        for M in Ms:
            E = np.eye(4)
            E[:2, :2] = M[:2, :2]
            E[:2, 3] = M[:2, 2]
            M3.append(E)
        _conv(ctx, cid, 'SE2.SE3', P, lambda: X.SE3(), M3, sc, 'SE2[N].SE3()', get=A)
        ths = [np.array(math.atan2(r[1, 0], r[0, 0])) for r in Rs]
        wrap = lambda x: np.array(math.atan2(math.sin(float(x)), math.cos(float(x))))
        if all(abs(abs(float(t)) - math.pi) > 1e-6 for t in ths):
            _conv(ctx, cid, 'SE2.theta', P, lambda: X.theta(), ths, 1, 'SE2[N].theta()', get=wrap)
            _conv(ctx, cid, 'SO2.theta', P, lambda: R.theta(), ths, 1, 'SO2[N].theta()', get=wrap)
        ex = lambda x: ref.mp_exp_se2(np.asarray(x.S, dtype=float))
        _conv(ctx, cid, 'Twist2(SE2)', P, lambda: S.Twist2(X), Ms, sc, 'Twist2(SE2[N])', get=ex)
        _conv(ctx, cid, 'SE2.Twist2', P, lambda: X.Twist2(), Ms, sc, 'SE2[N].Twist2()', get=ex)
        try:
            tw = S.Twist2([np.asarray(S.SE2(M.copy()).Twist2().S, dtype=float) for M in Ms])
        except Exception:
            tw = None
        if tw is not None:
            _conv(ctx, cid, 'Twist2.SE2', P, lambda: tw.SE2(), Ms, sc, 'Twist2[N].SE2()', get=A)
            _conv(ctx, cid, 'Twist2.exp', P, lambda: tw.exp(), Ms, sc, 'Twist2[N].exp()', get=A)


def midrange(ctx):
    """regions between the landmark letters: (a) the documented minimal 3-vector form and back (UnitQuaternion.vec3 -> UnitQuaternion.Vec3) for angles
    0.05 .. 2 rad; (b) composition of two small non-commuting motions (norms 1.5e-3 .. 3e-2) as twists against the same composition as poses"""
    S = sm()
    axes = [alph.unit((1, 2, 3)), alph.unit((0.1, 1, 0.3)), np.array([0.0, 0.0, 1.0])]
    for th, (ai, ax) in itertools.product((0.05, 0.15, 0.21, 0.25, 0.3, 0.39, 0.45, 1.0, 2.0, -0.3, -1.2), enumerate(axes)):
        cid = 'C04/midrange/vec3/theta=%g/axis=%d' % (th, ai)
        if not ctx.want(cid):
            continue
        ctx.case(cid, key=cid)
        P = dict(step='vec3', theta=th)
        R = ref.mp_rot(ax, th)
        q = S.UnitQuaternion(ref.r2q_ref(R))
        q2 = safe(ctx, cid, 'UnitQuaternion.Vec3', P, lambda: S.UnitQuaternion.Vec3(q.vec3))
        if q2 is not None:
            cmp(ctx, cid, 'UnitQuaternion.Vec3', P, ref.q2r(np.asarray(q2.vec, dtype=float)), R, 1, 'UnitQuaternion.Vec3(q.vec3) (reference q2r)')
            e = safe(ctx, cid, 'UnitQuaternion.eq', P, lambda: q == q2)
            if e is not None and not (isinstance(e, (bool, np.bool_)) and bool(e)):
                ctx.fail(cid, 'UnitQuaternion.Vec3', 'mismatch', P, 'q == Vec3(q.vec3) gives %r' % (e,))
    gx, gy = np.array([1.0, -2.0, 0.5, 0.3, 0.2, -0.7]), np.array([-0.5, 1.0, 2.0, -0.4, 0.6, 0.1])
    for mx, my in itertools.product((1.5e-3, 3e-3, 8e-3, 3e-2), repeat=2):
        cid = 'C04/midrange/smalltwists/%g/%g' % (mx, my)
        if not ctx.want(cid):
            continue
        ctx.case(cid, key=cid)
        P = dict(step='small-twists', mx=mx, my=my)
        sx, sy = gx / np.linalg.norm(gx) * mx, gy / np.linalg.norm(gy) * my
        Mx, My = ref.mp_exp_se3(sx), ref.mp_exp_se3(sy)
        W = safe(ctx, cid, 'Twist3.mul', P, lambda: (S.Twist3(S.SE3(Mx.copy())) * S.Twist3(S.SE3(My.copy()))).SE3())
        if W is not None:
            cmp(ctx, cid, 'Twist3.mul', P, W.A, Mx @ My, 1, 'Twist3(X) * Twist3(Y) -> SE3 against X Y')
        X50 = S.Twist3(sx.copy())
        ok50 = safe(ctx, cid, 'Twist3.mul', P, lambda: [X50 * S.Twist3(sy.copy()) for _ in range(1)][0].SE3())
        if ok50 is not None:
            cmp(ctx, cid, 'Twist3.mul', P, ok50.A, Mx @ My, 1, 'Twist3(sx) * Twist3(sy) -> SE3 against exp(sx) exp(sy)')


def shards(tier, seed):
    out = []
    K3, K2 = (3, 2) if tier == 'quick' else (12, 6)
    out += [('bfs', 3, k, K3) for k in range(K3)]
    out += [('bfs', 2, k, K2) for k in range(K2)]
    n = 8 if tier == 'quick' else 32
    out += [('shared', k, n) for k in range(n)]
    out += [('prod', 3), ('prod', 2), ('midrange',)]
    return out


def run_shard(ctx, shard):
    if shard[0] == 'bfs':
        bfs(ctx, shard[1], shard[2], shard[3])
    elif shard[0] == 'prod':
        seqprod(ctx, shard[1])
    elif shard[0] == 'midrange':
        midrange(ctx)
    else:
        shared(ctx, shard[1], shard[2])
