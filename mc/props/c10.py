"""
C10  List behaviour matches a Python list of the element values.

E3 history explorer: breadth-first search over the graph whose states are list objects
(canonical form: class + tuple of element tags) and whose transitions are the list
operations of the property, executed on the REAL object in lock-step with a Python list
of tags.  Because an object's whole mutable state is .data, two histories ending in equal
.data have identical futures, so checking every operation from every reachable state covers
every operation sequence of any length within the state bound (DESIGN 2.3).
Non-mutating observations (len, every index, every slice, iteration) are checked in every
state.  The thorough tier adds every literal sequence of <= 4 operations from every start
length 0..4 without de-duplication.
"""
import itertools
import numpy as np
from mc.core import call, HarnessError

PROP = 'C10'
LEVEL = 'model_checking'
RULE = ('BFS over (class, tuple of element tags) with every operation of the alphabet applied to the real '
        'object from every reachable state, in lock-step with a Python list; every index -7..7 and every '
        'slice start,stop in {None,-7..7} x step in {None,+-1,+-2,+-3} observed in every state; a case is '
        'non-trivial when the state or the operand is not the bare default object; distinct = distinct '
        '(class, state, operation, argument) tuples; plus cross-class histories from a pristine interpreter (mc/crossproc.py: 1088 histories of two or three '
        'Alloc / Empty / default-constructor calls over the 8 classes) and alias histories on one persistent object (every sequence of 3 of 21 operations from '
        '3 start states, the object and everything handed out compared with a list of immutable tags)')
ASSUME = ['the whole mutable state of a list-capable object is its .data attribute (read off smuserlist.py); '
          'states with equal .data therefore have equal futures',
          'element values are compared bit-for-bit with the arrays that were put in']
ANCHORS = [('spatialmath.smuserlist', 'SMUserList.' + n) for n in
           ('__getitem__', '__setitem__', 'append', 'extend', 'insert', 'pop', 'arghandler', 'Empty', 'Alloc')]

CLASSES = ['SO2', 'SE2', 'SO3', 'SE3', 'Quaternion', 'UnitQuaternion', 'Twist2', 'Twist3']
IDX = list(range(-7, 8))
BOUNDS = [None] + IDX
STEPS = [None, 1, -1, 2, -2, 3, -3]


def bound(tier):
    return (4, 3) if tier == 'quick' else (6, 4)      # (max length, number of tags)


def _lib():
    import spatialmath as sm
    return sm


def values(cname):
    """tag -> element array; tag 0 is the class default (identity) value"""
    sm = _lib()
    C = getattr(sm, cname)
    mk = {
        'SO2': lambda k: sm.SO2(0.3 * k),
        'SE2': lambda k: sm.SE2(k, -2.0 * k, 0.3 * k),
        'SO3': lambda k: sm.SO3.Rx(0.3 * k) * sm.SO3.Ry(0.1 * k),
        'SE3': lambda k: sm.SE3(k, 2.0 * k, -k) * sm.SE3.Rx(0.3 * k),
        'Quaternion': lambda k: sm.Quaternion([1.0 * k, 2, -3, 0.5 * k]),
        'UnitQuaternion': lambda k: sm.UnitQuaternion.Rx(0.3 * k) * sm.UnitQuaternion.Ry(0.2 * k),
        'Twist2': lambda k: sm.Twist2([1.0 * k, 2, -0.5 * k]),
        'Twist3': lambda k: sm.Twist3([1.0 * k, 2, 3, 0.1 * k, -0.2, 0.3]),
    }[cname]
    vals = [np.array(C().data[0], dtype=float)]
    for k in (1, 2, 3):
        o = mk(k)
        if len(o.data) != 1:
            raise HarnessError('factory for %s gave %d values' % (cname, len(o.data)))
        vals.append(np.array(o.data[0], dtype=float))
    if cname in ('SO2', 'SE2', 'SO3', 'SE3'):
        # tag 2 is a value as the group operations themselves produce it after a few dozen compositions: a member to ~1e-14, i.e. just
        # outside the 100 eps band of the constructor's validation (which the operations never apply to their own results)
        o = mk(2)
        p = ((((o ** 3) ** 3) ** 3) ** 3) * ((((o.inv() ** 3) ** 3) ** 3) ** 2) ** 3 * (((o.inv() ** 3) ** 3) ** 3) * o
        v = np.array(p.data[0], dtype=float)
        n = v.shape[0] - (1 if cname[:2] == 'SE' else 0)
        d = float(np.abs(v[:n, :n] @ v[:n, :n].T - np.eye(n)).max())
        if not (1e-15 < d < 1e-10):
            raise HarnessError('drifted value of %s is %.3g off orthonormal' % (cname, d))
        vals[2] = v
    for i in range(4):
        for j in range(i):
            if vals[i].shape != vals[j].shape or np.array_equal(vals[i], vals[j]):
                raise HarnessError('tags of %s not distinct' % cname)
    return C, vals


def foreign(cname):
    """objects of a different class (sub/super class of the same dimension first)"""
    sm = _lib()
    rel = {'SO2': 'SE2', 'SE2': 'SO2', 'SO3': 'SE3', 'SE3': 'SO3', 'Quaternion': 'UnitQuaternion',
           'UnitQuaternion': 'Quaternion', 'Twist2': 'Twist3', 'Twist3': 'Twist2'}[cname]
    # UnitQuaternion documents conversion from lists of SO3/SE3 objects, so its far class is a 2-D one
    far = 'Quaternion' if cname in ('SO2', 'SE2', 'SO3', 'SE3') else ('SE2' if cname == 'UnitQuaternion' else 'SE3')
    return [(rel, getattr(sm, rel)()), (far, getattr(sm, far)())]


class Model:
    """builds real objects from tag tuples without going through any list operation under test"""

    def __init__(self, cname):
        self.cname = cname
        self.C, self.vals = values(cname)

    def build(self, tags):
        o = self.C()
        o.data = [self.vals[t].copy() for t in tags]
        return o

    def tagof(self, a):
        a = np.asarray(a)
        for t, v in enumerate(self.vals):
            if a.shape == v.shape and np.array_equal(a, v):
                return t
        return None

    def read(self, o):
        """tags of the object's elements, or a description of the first foreign element"""
        out = []
        d = getattr(o, 'data', None)
        if not isinstance(d, list):
            return 'data is %s' % type(d).__name__
        for e in d:
            if not isinstance(e, np.ndarray):
                return 'element of type %s' % type(e).__name__
            t = self.tagof(e)
            if t is None:
                return 'element of shape %s not among the values put in' % (e.shape,)
            out.append(t)
        return tuple(out)


# --------------------------------------------------------------------------- the operation alphabet

def transitions(ntags):
    ops = []
    for t in range(ntags):
        ops.append(('append', t))
    for k in (0, 1, 2):
        ops.append(('extend', k))
    for i in IDX:
        ops.append(('insert', i, 1))
        ops.append(('pop', i))
        ops.append(('del', i))
        ops.append(('set', i, 2))
        ops.append(('set2', i))           # assign a 2-valued object: must be rejected
        ops.append(('setF', i, 0))        # assign a foreign-class object: must be rejected
    # the same index operations with the index as a NumPy integer (what argmin / arange / a loop over an index array hand over)
    for i in (-2, -1, 0, 1, 2, 7):
        ops.append(('insertN', i, 1))
        ops.append(('popN', i))
        ops.append(('delN', i))
        ops.append(('setN', i, 2))
    # deletion of slices (forward, backward, stepped, empty and inverted ranges)
    for a_, b_, st_ in itertools.product((None, -2, 0, 1, 3), (None, -2, 0, 1, 3), (None, 1, -1, 2, -2)):
        ops.append(('delS', a_, b_, st_))
    # extend by a plain Python iterable of objects whose LAST item is unacceptable: refused, and refused before anything was stored
    for v in range(4):
        ops.append(('extendL', v))
    ops.append(('insert', 0, 2))
    ops.append(('insert2', 1))            # insert a 2-valued object: rejected
    ops.append(('pop',))
    ops.append(('reverse',))
    ops.append(('clear',))
    ops.append(('append2',))              # append a 2-valued object: rejected
    for f in (0, 1):
        ops.append(('appendF', f))        # append foreign class: rejected
        ops.append(('extendF', f))
        ops.append(('extendF0', f))       # extend by a foreign-class object holding NO values: still a different class, rejected
        ops.append(('insertF', 0, f))
    return ops


EXT = {0: (), 1: (2,), 2: (1, 2)}          # tags of the object handed to extend


def ref_apply(tags, op):
    """reference model: returns (new tags, returned tag or None) or raises"""
    l = list(tags)
    k = op[0]
    ret = None
    if k == 'append':
        l.append(op[1])
    elif k == 'extend':
        l.extend(EXT[op[1]])
    elif k == 'insert':
        l.insert(op[1], op[2])
    elif k == 'pop':
        ret = l.pop(*op[1:])
    elif k == 'del':
        del l[op[1]]
    elif k == 'set':
        l[op[1]] = op[2]
    elif k == 'reverse':
        l.reverse()
    elif k == 'clear':
        l.clear()
    elif k == 'delS':
        del l[slice(op[1], op[2], op[3])]
    elif k == 'insertN':
        l.insert(op[1], op[2])
    elif k == 'popN':
        ret = l.pop(op[1])
    elif k == 'delN':
        del l[op[1]]
    elif k == 'setN':
        l[op[1]] = op[2]
    elif k == 'set2' or k == 'setF':
        raise TypeError('rejected')   # wrong operand: any exception will do, also when the index is out of range
    else:
        raise TypeError('rejected')
    return tuple(l), ret


def lib_apply(m, o, op):
    k = op[0]
    if k == 'append':
        return o.append(m.build((op[1],)))
    if k == 'extend':
        return o.extend(m.build(EXT[op[1]]))
    if k == 'insert':
        return o.insert(op[1], m.build((op[2],)))
    if k == 'pop':
        return o.pop(*op[1:])
    if k == 'del':
        del o[op[1]]
        return None
    if k == 'set':
        o[op[1]] = m.build((op[2],))
        return None
    if k == 'reverse':
        return o.reverse()
    if k == 'clear':
        return o.clear()
    if k == 'set2':
        o[op[1]] = m.build((1, 2))
        return None
    if k == 'setF':
        o[op[1]] = foreign(m.cname)[op[2]][1]
        return None
    if k == 'delS':
        del o[slice(op[1], op[2], op[3])]
        return None
    if k == 'insertN':
        return o.insert(np.int64(op[1]), m.build((op[2],)))
    if k == 'popN':
        return o.pop(np.int64(op[1]))
    if k == 'delN':
        del o[np.int32(op[1])]
        return None
    if k == 'setN':
        o[np.int64(op[1])] = m.build((op[2],))
        return None
    if k == 'extendL':
        bad = [foreign(m.cname)[0][1], m.build((1, 2)), foreign(m.cname)[1][1], m.build(())][op[1]]
        items = [m.build((1,)), m.build((2,)), bad]
        return o.extend(items if op[1] % 2 == 0 else (x for x in items))
    if k == 'append2':
        return o.append(m.build((1, 2)))
    if k == 'insert2':
        return o.insert(op[1], m.build((1, 2)))
    if k == 'appendF':
        return o.append(foreign(m.cname)[op[1]][1])
    if k == 'extendF':
        return o.extend(foreign(m.cname)[op[1]][1])
    if k == 'extendF0':
        return o.extend(type(foreign(m.cname)[op[1]][1]).Empty())
    if k == 'insertF':
        return o.insert(op[1], foreign(m.cname)[op[2]][1])
    raise HarnessError(op)


def opname(op):
    return op[0] + ''.join('_%s' % x for x in op[1:])


def check_step(ctx, m, tags, op, cid):
    """execute one transition on a fresh real object and compare with the model; returns model successor"""
    cname = m.cname
    site = 'list.' + op[0]
    params = {'cls': cname, 'op': op[0], 'len': len(tags)}
    if len(op) > 1:
        params['arg'] = op[1]
    o = m.build(tags)
    try:
        exp, expret = ref_apply(tags, op)
        experr = None
    except IndexError:
        exp, expret, experr = tags, None, IndexError
    except TypeError:
        exp, expret, experr = tags, None, Exception
    ok, got = call(lib_apply, m, o, op)
    after = m.read(o)
    ctx.count('transitions')
    ctx.count('lockstep')
    if experr is not None:
        if ok:
            ctx.fail(cid, site, 'no-raise', params,
                     '%s on %s%r returned instead of raising %s; data afterwards %r' %
                     (opname(op), cname, list(tags), experr.__name__, after))
        elif experr is IndexError and not isinstance(got, IndexError):
            ctx.fail(cid, site, 'raises:' + type(got).__name__, params,
                     '%s on %s%r raised %s where a list raises IndexError' %
                     (opname(op), cname, list(tags), type(got).__name__))
        if after != tuple(tags):
            ctx.fail(cid, site, 'mutated', params,
                     'rejected %s on %s%r changed the object: %r' % (opname(op), cname, list(tags), after))
        return tuple(tags)
    if not ok:
        ctx.fail(cid, site, 'raises:' + type(got).__name__, params,
                 '%s on %s%r raised %s: %s (list gives %r)' %
                 (opname(op), cname, list(tags), type(got).__name__, got, list(exp)))
        return exp
    if after != exp:
        ctx.fail(cid, site, 'mismatch', params,
                 '%s on %s%r left %r, a list holds %r' % (opname(op), cname, list(tags), after, list(exp)))
    if op[0] in ('pop', 'popN'):
        if type(got) is not m.C:
            ctx.fail(cid, site, 'returns:' + type(got).__name__, params, 'pop returned %s' % type(got).__name__)
        elif m.read(got) != (expret,):
            ctx.fail(cid, site, 'mismatch', params,
                     'pop returned %r, list pops %r' % (m.read(got), expret))
    return exp


ALIAS_OPS = [('append', 1), ('append', 2), ('appendElem', 0), ('appendElem', -1), ('extendSelf',), ('extend', 2), ('set', 0, 2), ('set', -1, 1), ('setElem', 0, -1), ('swap01',),
             ('insert', 0, 2), ('insertElem', 1, 0), ('pop',), ('pop', 0), ('del', 0), ('reverse',), ('take', 0), ('take', -1), ('takeslice',), ('iterall',), ('clear',)]


def alias_histories(ctx, m, which=None):
    """histories on ONE persistent object (never rebuilt) in which the same value objects are stored twice, elements and slices are handed out
    and kept, and the object is extended by itself: a Python list of immutable values is the model for the object AND for everything that was
    handed out (an element or slice taken earlier keeps the values it had; a value object that was stored keeps its value)"""
    cname = m.cname
    for si, start in enumerate(((), (0,), (0, 1))):
        if which is not None and si != which:
            continue
        for seq in itertools.product(range(len(ALIAS_OPS)), repeat=3):
            cid = 'C10/%s/alias/start=%s/%s' % (cname, ''.join(map(str, start)) or 'empty', '.'.join(opname(ALIAS_OPS[i]) for i in seq))
            if not ctx.want(cid):
                continue
            ctx.case(cid, key=cid)
            pool = [m.build((t,)) for t in range(len(m.vals))]          # one value object per tag, stored wherever that tag goes
            o = m.C.Empty()
            model = []
            for t in start:
                o.append(pool[t])
                model.append(t)
            held = []                                                   # (description, object, expected tags)
            bad = None
            for step, i in enumerate(seq):
                op = ALIAS_OPS[i]
                k = op[0]
                try:
                    before = list(model)
                    if k == 'append':
                        model.append(op[1]); f = lambda: o.append(pool[op[1]])
                    elif k == 'appendElem':
                        t = model[op[1]]; model.append(t); f = lambda: o.append(o[op[1]])
                    elif k == 'extendSelf':
                        model.extend(list(model)); f = lambda: o.extend(o)
                    elif k == 'extend':
                        model.extend(EXT[op[1]]); f = lambda: o.extend(m.build(EXT[op[1]]))
                    elif k == 'set':
                        model[op[1]] = op[2]; f = lambda: o.__setitem__(op[1], pool[op[2]])
                    elif k == 'setElem':
                        model[op[1]] = model[op[2]]; f = lambda: o.__setitem__(op[1], o[op[2]])
                    elif k == 'swap01':
                        model[0], model[1] = model[1], model[0]

                        def f():
                            o[0], o[1] = o[1], o[0]
                    elif k == 'insert':
                        model.insert(op[1], op[2]); f = lambda: o.insert(op[1], pool[op[2]])
                    elif k == 'insertElem':
                        model.insert(op[1], model[op[2]]); f = lambda: o.insert(op[1], o[op[2]])
                    elif k == 'pop':
                        t = model.pop(*op[1:])

                        def f(t=t):
                            held.append(('the value popped at step %d' % step, o.pop(*op[1:]), (t,)))
                    elif k == 'del':
                        del model[op[1]]; f = lambda: o.__delitem__(op[1])
                    elif k == 'reverse':
                        model.reverse(); f = lambda: o.reverse()
                    elif k == 'clear':
                        model.clear(); f = lambda: o.clear()
                    elif k == 'take':
                        t = model[op[1]]

                        def f(t=t):
                            held.append(('the element [%d] taken at step %d' % (op[1], step), o[op[1]], (t,)))
                    elif k == 'takeslice':
                        ts = tuple(model[0:2])

                        def f(ts=ts):
                            held.append(('the slice [0:2] taken at step %d' % step, o[0:2], ts))
                    elif k == 'iterall':
                        ts = list(model)

                        def f(ts=ts):
                            for j, e in enumerate(o):
                                held.append(('item %d of the iteration at step %d' % (j, step), e, (ts[j],)))
                    else:
                        raise HarnessError(op)
                except IndexError:
                    model[:] = before
                    ok, r = call({'appendElem': lambda: o.append(o[op[1]]), 'set': lambda: o.__setitem__(op[1], pool[op[2]]), 'setElem': lambda: o.__setitem__(op[1], o[op[2]]),
                                  'swap01': lambda: o.__setitem__(0, o[1]) if len(before) < 2 else None, 'insertElem': lambda: o.insert(op[1], o[op[2]]), 'pop': lambda: o.pop(*op[1:]),
                                  'del': lambda: o.__delitem__(op[1]), 'take': lambda: o[op[1]]}.get(k, lambda: None))
                    if ok and k != 'swap01':
                        bad = 'step %d (%s) returned where a list raises IndexError' % (step, opname(op))
                        break
                    if m.read(o) != tuple(model):
                        bad = 'step %d (%s) was refused but changed the object to %r' % (step, opname(op), m.read(o))
                        break
                    continue
                ok, r = call(f)
                ctx.count('transitions')
                ctx.count('lockstep')
                if not ok:
                    bad = 'step %d (%s) raised %s: %s' % (step, opname(op), type(r).__name__, r)
                    break
                if m.read(o) != tuple(model):
                    bad = 'after step %d (%s) the object holds %r, a list holds %r' % (step, opname(op), m.read(o), model)
                    break
                for what, h, ts in held:
                    if m.read(h) != tuple(ts):
                        bad = 'after step %d (%s) %s holds %r instead of %r' % (step, opname(op), what, m.read(h), list(ts))
                        break
                if bad:
                    break
                for t, pv in enumerate(pool):
                    if m.read(pv) != (t,):
                        bad = 'after step %d (%s) the value object of tag %d, which was only stored, holds %r' % (step, opname(op), t, m.read(pv))
                        break
                if bad:
                    break
            if bad:
                ctx.fail(cid, 'list.' + ALIAS_OPS[seq[min(step, 2)]][0], 'mismatch', {'cls': cname, 'law': 'alias', 'len': len(start)},
                         '%s from %s%r: %s' % ('.'.join(opname(ALIAS_OPS[i]) for i in seq), cname, list(start), bad))


def check_observations(ctx, m, tags, full=True):
    cname = m.cname
    o = m.build(tags)
    base = 'C10/%s/state=%s' % (cname, ''.join(map(str, tags)) or 'empty')
    n = len(tags)
    # len
    cid = base + '/len'
    if ctx.want(cid):
        ctx.case(cid, trivial=(n == 0))
        ok, got = call(len, o)
        if not ok or got != n:
            ctx.fail(cid, 'list.len', 'mismatch', {'cls': cname, 'len': n}, 'len gives %r, list %d' % (got, n))
    # iteration
    cid = base + '/iter'
    if ctx.want(cid):
        ctx.case(cid, trivial=(n == 0))
        ok, got = call(lambda: [x for x in o])
        p = {'cls': cname, 'len': n}
        if not ok:
            ctx.fail(cid, 'list.iter', 'raises:' + type(got).__name__, p, 'iteration raised %r' % (got,))
        else:
            if any(type(x) is not m.C for x in got):
                ctx.fail(cid, 'list.iter', 'returns:' + type(got[0]).__name__, p, 'iteration yields foreign class')
            elif tuple(m.read(x)[0] if isinstance(m.read(x), tuple) and len(m.read(x)) == 1 else -1 for x in got) != tuple(tags):
                ctx.fail(cid, 'list.iter', 'mismatch', p, 'iteration yields %r' % ([m.read(x) for x in got],))
    # integer indexing
    for i in IDX:
        cid = base + '/index=%d' % i
        if not ctx.want(cid):
            continue
        ctx.case(cid, trivial=(n == 0))
        p = {'cls': cname, 'len': n, 'i': i}
        try:
            exp = tags[i]
        except IndexError:
            exp = IndexError
        ok, got = call(lambda: o[i])
        if exp is IndexError:
            if ok:
                ctx.fail(cid, 'list.getitem', 'no-raise', p, 'x[%d] of %d elements returned' % (i, n))
            elif not isinstance(got, IndexError):
                ctx.fail(cid, 'list.getitem', 'raises:' + type(got).__name__, p, 'x[%d]: %r' % (i, got))
        elif not ok:
            ctx.fail(cid, 'list.getitem', 'raises:' + type(got).__name__, p, 'x[%d] of %d: %r' % (i, n, got))
        elif type(got) is not m.C:
            ctx.fail(cid, 'list.getitem', 'returns:' + type(got).__name__, p, 'x[%d] has class %s' % (i, type(got).__name__))
        elif m.read(got) != (exp,):
            ctx.fail(cid, 'list.getitem', 'mismatch', p, 'x[%d] is %r, list gives %r' % (i, m.read(got), exp))
    if not full:
        return
    # slices
    for a in BOUNDS:
        for b in BOUNDS:
            for c in STEPS:
                cid = base + '/slice=%s:%s:%s' % (a, b, c)
                if not ctx.want(cid):
                    continue
                ctx.case(cid, trivial=(n == 0))
                exp = tuple(tags[a:b:c])
                ok, got = call(lambda: o[a:b:c])
                p = {'cls': cname, 'len': n, 'start': a, 'stop': b, 'step': c, 'explen': len(exp)}
                if not ok:
                    ctx.fail(cid, 'list.slice', 'raises:' + type(got).__name__, p,
                             'x[%s:%s:%s] of %d elements raised %r, list gives %d elements' % (a, b, c, n, got, len(exp)))
                elif type(got) is not m.C:
                    ctx.fail(cid, 'list.slice', 'returns:' + type(got).__name__, p, 'slice has class %s' % type(got).__name__)
                elif m.read(got) != exp:
                    ctx.fail(cid, 'list.slice', 'mismatch', p,
                             'x[%s:%s:%s] of %r is %r, list gives %r' % (a, b, c, list(tags), m.read(got), list(exp)))
    if m.read(o) != tuple(tags):
        ctx.fail(base, 'list.observe', 'mutated', {'cls': cname, 'len': n}, 'observations changed the object')


def all_states(maxlen, ntags):
    for n in range(maxlen + 1):
        for t in itertools.product(range(ntags), repeat=n):
            yield t


# --------------------------------------------------------------------------- shards

def shards(tier, seed):
    maxlen, ntags = bound(tier)
    out = []
    for c in CLASSES:
        out.append(('bfs', c, maxlen, ntags))
        out.append(('ctor', c, maxlen, ntags))
        out.append(('iter', c, maxlen, ntags))
    states = list(all_states(maxlen, ntags))
    nchunk = 4 if tier == 'quick' else 24
    for c in CLASSES:
        for k in range(nchunk):
            out.append(('obs', c, maxlen, ntags, k, nchunk))
    for c in CLASSES:
        out.append(('cross', c))
        out += [('alias', c, si) for si in range(3)]
    if tier == 'thorough':
        for c in CLASSES:
            for start in range(5):
                for first in range(len(transitions(ntags))):
                    if first % 8 == 0:
                        out.append(('seq', c, start, ntags, first, min(first + 8, len(transitions(ntags)))))
    return out


def cross_class(ctx, first):
    """histories that span classes (state kept on a class outlives the objects): every history of mc/crossproc.py starting with `first`,
    each run in a forked child of a pristine interpreter; the last step must give what it gives when run alone"""
    import subprocess, sys, os, json
    from mc import core
    if ctx.only is not None and not ctx.only.startswith('C10/cross/%s.' % first):
        return
    env = dict(os.environ, VERIF_REPO=core.REPO, PYTHONPATH=core.VERIF)
    r = subprocess.run([sys.executable, '-m', 'mc.crossproc', first], cwd=core.VERIF, env=env, capture_output=True, text=True, timeout=600)
    if r.returncode != 0 or not r.stdout.strip():
        raise HarnessError('crossproc %s failed: %s' % (first, r.stderr[-400:]))
    doc = json.loads(r.stdout.strip().splitlines()[-1])
    ctx.count('cross_class_histories', doc['histories'])
    bad = {}
    for d in doc['diffs']:
        bad['>'.join('%s.%s' % (c, o) for c, o in d['history'])] = d
    # one case per explored history (the helper reports the differing ones; all others agreed)
    import mc.crossproc as cp
    hs = [[(first, a), (B, b)] for B in cp.CLASSES for a in cp.OPS for b in cp.OPS] + \
         [[(first, 'Alloc2'), (B, 'Alloc2'), (C, 'Alloc2')] for B in cp.CLASSES for C in cp.CLASSES]
    for h in hs:
        name = '>'.join('%s.%s' % (c, o) for c, o in h)
        cid = 'C10/cross/' + name
        if not ctx.want(cid):
            continue
        ctx.case(cid, key=cid, trivial=False)
        if name in bad:
            d = bad[name]
            last = h[-1]
            ctx.fail(cid, 'list.' + {'Alloc2': 'Alloc', 'Empty': 'Empty', 'default': 'default'}[last[1]], 'mismatch', {'cls': last[0], 'history': name},
                     '%s.%s after %s gives %s, alone it gives %s' % (last[0], last[1], ' ; '.join('%s.%s' % x for x in h[:-1]), _short(d['got']), _short(d['alone'])))


def _short(o):
    try:
        return '%s%s' % (o[0], [tuple(e[0]) for e in o[1]] if isinstance(o[1], list) else '')
    except Exception:
        return repr(o)[:80]


def run_shard(ctx, shard):
    kind, cname = shard[0], shard[1]
    if kind == 'cross':
        cross_class(ctx, cname)
        return
    m = Model(cname)
    if kind == 'alias':
        alias_histories(ctx, m, shard[2])
        return
    if kind == 'bfs':
        _, _, maxlen, ntags = shard
        ops = transitions(ntags)
        seen = {()}
        frontier = [()]
        depth = 0
        while frontier:
            nxt = []
            for tags in frontier:
                for op in ops:
                    cid = 'C10/%s/state=%s/op=%s' % (cname, ''.join(map(str, tags)) or 'empty', opname(op))
                    if not ctx.want(cid, walk=True):
                        continue
                    ctx.case(cid, trivial=(len(tags) == 0 and op[0] in ('clear', 'reverse')))
                    succ = check_step(ctx, m, tags, op, cid)
                    if len(succ) <= maxlen and succ not in seen:
                        seen.add(succ)
                        nxt.append(succ)
            frontier = nxt
            depth += 1
        ctx.count('states', len(seen))
        ctx.count('bfs_depth_max', depth)
        if ctx.only is None and seen != set(all_states(maxlen, ntags)):
            raise HarnessError('BFS reachable set differs from the closed-form state set for ' + cname)
    elif kind == 'obs':
        _, _, maxlen, ntags, k, nchunk = shard
        for j, tags in enumerate(all_states(maxlen, ntags)):
            if j % nchunk == k:
                check_observations(ctx, m, tags, full=True)
    elif kind == 'ctor':
        _, _, maxlen, ntags = shard
        check_constructors(ctx, m, maxlen, ntags)
    elif kind == 'iter':
        check_iteration(ctx, m)
    elif kind == 'seq':
        _, _, start, ntags, f0, f1 = shard
        ops = transitions(ntags)
        # literal quantifier: every sequence of <= 4 operations from start length 0..4, no de-duplication;
        # to stay finite the later positions use the sub-alphabet with indices in {-7,-1,0,1,7}
        sub = [o for o in ops if len(o) < 2 or o[0] in ('append', 'extend', 'appendF', 'extendF', 'insert2')
               or o[1] in (-7, -1, 0, 1, 7)]
        sub = [o for o in sub if o[0] in ('append', 'extend', 'insert', 'pop', 'del', 'set', 'reverse', 'clear', 'append2')]
        init = tuple((i % (ntags - 1)) + 1 for i in range(start))
        for first in ops[f0:f1]:
            for rest in itertools.product(sub, repeat=2):
                seq = (first,) + rest
                cid = 'C10/%s/seq/start=%d/%s' % (cname, start, '+'.join(opname(o) for o in seq))
                if not ctx.want(cid):
                    continue
                ctx.case(cid)
                check_sequence(ctx, m, init, seq, cid)


def check_sequence(ctx, m, init, seq, cid):
    """one real object driven through the whole sequence (no rebuild between steps)"""
    o = m.build(init)
    tags = tuple(init)
    for op in seq:
        try:
            tags2, _ = ref_apply(tags, op)
            rej = False
        except (IndexError, TypeError):
            tags2, rej = tags, True
        ok, got = call(lib_apply, m, o, op)
        ctx.count('transitions')
        ctx.count('lockstep')
        after = m.read(o)
        if after != tags2 or (ok == rej):
            ctx.fail(cid, 'list.' + op[0], 'mismatch' if after != tags2 else ('no-raise' if ok else 'raises:' + type(got).__name__),
                     {'cls': m.cname, 'op': op[0], 'len': len(tags), 'mode': 'sequence'},
                     'after %s: object %r, list %r (step %s %s)' % (cid, after, list(tags2), opname(op), 'returned' if ok else 'raised %r' % (got,)))
            return
        tags = tags2


def check_iteration(ctx, m):
    """iteration is an operation with state: an iterator taken from the object is advanced in lock-step with an iterator over the
    model list while the object is changed between the steps.  All sequences of <= 5 steps over {next, append, pop, insert at 0,
    delete first, reverse} from every start length 0..3; every yielded value, every StopIteration and the final contents must agree"""
    cname = m.cname
    alphabet = ('N', 'A', 'P', 'I', 'D', 'R')

    def lib_step(o, it, a):
        if a == 'N':
            try:
                return ('y', m.read(next(it)))
            except StopIteration:
                return ('stop',)
        if a == 'A':
            o.append(m.build((1,)))
        elif a == 'P':
            o.pop()
        elif a == 'I':
            o.insert(0, m.build((3,)))
        elif a == 'D':
            del o[0]
        elif a == 'R':
            o.reverse()
        return ('ok',)

    def ref_step(l, it, a):
        if a == 'N':
            try:
                return ('y', (next(it),))
            except StopIteration:
                return ('stop',)
        if a == 'A':
            l.append(1)
        elif a == 'P':
            l.pop()
        elif a == 'I':
            l.insert(0, 3)
        elif a == 'D':
            del l[0]
        elif a == 'R':
            l.reverse()
        return ('ok',)
    for start in range(4):
        init = tuple((i % 2) + 1 for i in range(start))
        for L in range(1, 6):
            for seq in itertools.product(alphabet, repeat=L):
                if 'N' not in seq or seq[-1] != 'N':
                    continue
                cid = 'C10/%s/iter/start=%d/%s' % (cname, start, ''.join(seq))
                if not ctx.want(cid):
                    continue
                ctx.case(cid, key=cid)
                o, l = m.build(init), list(init)
                ito, itl = iter(o), iter(l)
                for k, a in enumerate(seq):
                    try:
                        want = ref_step(l, itl, a)
                    except IndexError:
                        want = ('IndexError',)
                    ok, got = call(lib_step, o, ito, a)
                    ctx.count('transitions')
                    ctx.count('lockstep')
                    if not ok:
                        got = ('IndexError',) if isinstance(got, IndexError) else ('raised', type(got).__name__)
                    if got != want or m.read(o) != tuple(l):
                        ctx.fail(cid, 'list.iter', 'mismatch', {'cls': cname, 'op': 'iter', 'len': start, 'mode': 'interleaved', 'step': k},
                                 'step %d (%s) of %s from length %d: object gives %r / holds %r, list gives %r / holds %r' % (k, a, ''.join(seq), start, got, m.read(o), want, l))
                        break
                    if want == ('IndexError',):
                        break


def check_constructors(ctx, m, maxlen, ntags):
    C, cname = m.C, m.cname
    # Empty / Alloc
    cid = 'C10/%s/ctor/Empty' % cname
    if ctx.want(cid):
        ctx.case(cid)
        ok, got = call(C.Empty)
        if not ok or type(got) is not C or m.read(got) != ():
            ctx.fail(cid, 'list.Empty', 'mismatch', {'cls': cname}, 'Empty() gives %r' % (got if not ok else m.read(got),))
    for n in range(0, 6):
        cid = 'C10/%s/ctor/Alloc=%d' % (cname, n)
        if ctx.want(cid):
            ctx.case(cid)
            ok, got = call(C.Alloc, n)
            if not ok or type(got) is not C or m.read(got) != (0,) * n:
                ctx.fail(cid, 'list.Alloc', 'mismatch', {'cls': cname, 'n': n},
                         'Alloc(%d) gives %r' % (n, got if not ok else m.read(got)))
            elif n >= 2:
                # elements must be independent storage: assigning one leaves the others alone
                got[0] = m.build((1,))
                if m.read(got) != (1,) + (0,) * (n - 1):
                    ctx.fail(cid, 'list.Alloc', 'mismatch', {'cls': cname, 'n': n}, 'Alloc elements alias: %r' % (m.read(got),))
    cid = 'C10/%s/ctor/default' % cname
    if ctx.want(cid):
        ctx.case(cid, trivial=True)
        ok, got = call(C)
        if not ok or m.read(got) != (0,):
            ctx.fail(cid, 'list.ctor', 'mismatch', {'cls': cname, 'form': 'default'}, 'C() gives %r' % (got,))
    # C([x1..xn]) from singleton objects, tuple form, C(obj) copy, C([arrays])
    for tags in all_states(min(maxlen, 4), ntags):
        n = len(tags)
        for form in ('objlist', 'objtuple', 'copy', 'arrlist'):
            cid = 'C10/%s/ctor/%s/%s' % (cname, form, ''.join(map(str, tags)) or 'empty')
            if not ctx.want(cid):
                continue
            if form == 'arrlist' and n == 0:
                continue
            if form == 'arrlist' and 2 in tags and cname in ('SO2', 'SE2', 'SO3', 'SE3'):
                continue        # raw arrays are validated by the constructor (C07); the drifted value is legitimately outside its band
            ctx.case(cid, trivial=(n == 0))
            if form == 'objlist':
                arg = [m.build((t,)) for t in tags]
            elif form == 'objtuple':
                arg = tuple(m.build((t,)) for t in tags)
            elif form == 'copy':
                arg = m.build(tags)
            else:
                arg = [m.vals[t].copy() for t in tags]
            ok, got = call(C, arg)
            p = {'cls': cname, 'form': form, 'len': n}
            if not ok:
                ctx.fail(cid, 'list.ctor', 'raises:' + type(got).__name__, p,
                         '%s(%s of %d) raised %r' % (cname, form, n, got))
                continue
            if type(got) is not C or m.read(got) != tuple(tags):
                ctx.fail(cid, 'list.ctor', 'mismatch', p, '%s(%s %r) holds %r' % (cname, form, list(tags), m.read(got)))
                continue
            if form == 'copy' and n >= 1:
                # the copy is a separate list: mutating it must not show in the original
                got.append(m.build((1,)))
                if m.read(arg) != tuple(tags):
                    ctx.fail(cid, 'list.ctor', 'mutated', p, 'append to a copy changed the original')
        # a list mixing a foreign-class object in must be rejected
        if 1 <= n <= 3:
            for fi, (fname, fobj) in enumerate(foreign(cname)):
                for pos in range(n + 1):
                    cid = 'C10/%s/ctor/mixed/%s/f%d@%d' % (cname, ''.join(map(str, tags)), fi, pos)
                    if not ctx.want(cid):
                        continue
                    ctx.case(cid)
                    arg = [m.build((t,)) for t in tags]
                    arg.insert(pos, fobj)
                    ok, got = call(C, arg)
                    if ok:
                        ctx.fail(cid, 'list.ctor', 'no-raise', {'cls': cname, 'form': 'mixed', 'foreign': fname, 'pos': pos},
                                 '%s(list with a %s at %d) returned an object holding %r' % (cname, fname, pos, m.read(got)))
