"""
C15  Argument forms and units are interchangeable.

E1 by table: a signature table (mc/props/c15.py:TABLE, transcribed from the docstrings' `:type x:
array_like(n)` annotations and checked against reflection over base.__all__) marks, for every public base
function and class constructor / method, which parameters are vectors (with their accepted lengths),
angles, units and orders.  For every vector parameter: 5 container forms (classes: 3) x lengths 0..8 x
int / float elements; scalar-triple vs packed forms; every angle parameter and angle result in both units
over the angle ladder; all order names, aliases and misspellings; unknown units.
Oracle: accepted forms give results equal entry by entry (==) to the 1-D array form; wrong length raises;
deg(a) = rad(a pi/180) to 1e-12 relative; unknown order / unit raises.
"""
import itertools, math
import numpy as np
from mc import ref, alph
from mc.core import call, HarnessError

PROP = 'C15'
LEVEL = 'exploration'
RULE = ('for every table entry x every vector parameter: container forms x lengths 0..8 x element types; packed vs separate-scalar forms; '
        'angle parameters x units x angle ladder; order names x aliases x misspellings; non-trivial = always (each call is a distinct form); '
        'distinct = distinct (entry, parameter, form, length)')
ASSUME = ['the signature table is a transcription of the docstring type annotations; public callables not in the table are listed in the evidence (notes.unclassified)',
          'functions whose 2-D argument has its own documented meaning (h2e, e2h, homtrans, pose x array, removesmall, Plucker.contains, SpatialVector(6xN)) are exempt from row/column forms',
          'element-wise helpers (angdiff, getunit) are compared on flattened values', 'results are compared with == entry by entry (dtype differences between int and float inputs are ignored)']
ANCHORS = [('spatialmath.base.argcheck', n) for n in ('getvector', 'isvector', 'getunit', 'ismatrix', 'getmatrix')] + \
          [('spatialmath.base.transforms3d', n) for n in ('transl', 'rpy2r', 'eul2r', 'rpy2tr', 'eul2tr')] + \
          [('spatialmath.base.transforms2d', 'transl2'), ('spatialmath.pose2d', 'SE2.__init__'), ('spatialmath.pose3d', 'SE3.__init__')]

PI = math.pi


def V(n, sample, lens=None, ints=None):
    """vector parameter of length n; lens = all accepted lengths"""
    return ('v', n, np.array(sample, dtype=float), set(lens or [n]), ints)


def C(x):
    return ('c', x)


R0 = ref.rotx(0.3) @ ref.roty(-0.4)
T0 = ref.rt(R0, (1.0, 2.0, 3.0))
QU = ref.r2q_ref(R0)


def table():
    """[(site, callable, [params], kwargs, kind)]  kind: 'base' (5 container forms) or 'class' (3 forms)"""
    import spatialmath as sm
    import spatialmath.base as b
    T = []

    def B(name, params, **kw):
        T.append(('base.' + name, getattr(b, name), params, kw, 'base'))

    def K(site, f, params, **kw):
        T.append((site, f, params, kw, 'class'))
    v3, v3b, v6, v2, v4 = [1.0, -2.0, 0.5], [0.3, 0.2, -0.7], [1.0, 2, 3, 0.3, -0.2, 0.1], [1.0, -2.0], [1.0, 2.0, -3.0, 0.5]
    # argcheck
    B('getvector', [V(3, v3, lens=range(0, 9))])
    B('getvector', [V(3, v3), C(3)])
    B('isvector', [V(3, v3, lens=range(0, 9))])
    B('getunit', [V(3, v3, lens=range(0, 9)), C('deg')])
    # quaternions
    B('pure', [V(3, v3)])
    B('qnorm', [V(4, v4)])
    B('unit', [V(4, v4)])
    B('isunit', [V(4, QU, lens=range(0, 9))])        # predicates answer with a bool for any length
    B('isequal', [V(4, v4), V(4, v4)])
    B('q2v', [V(4, QU)])
    B('v2q', [V(3, [0.1, 0.2, -0.3])])
    B('qqmul', [V(4, v4), V(4, [0.5, -1, 2, 1])])
    B('inner', [V(4, v4), V(4, [0.5, -1, 2, 1])])
    B('qvmul', [V(4, QU), V(3, v3)])
    B('vvmul', [V(3, [0.1, 0.2, -0.3]), V(3, [0.3, -0.1, 0.2])])
    B('qpow', [V(4, v4), C(3)])
    B('conj', [V(4, v4)])
    B('q2r', [V(4, QU)])
    B('slerp', [V(4, QU), V(4, [1.0, 0, 0, 0]), C(0.3)])
    # the scalar values implementations answer by a shortcut (end points, exponent 0 / 1, angle 0): the vector arguments are still vectors
    for s_ in (0, 1, 0.0, 1.0):
        B('slerp', [V(4, QU), V(4, [1.0, 0, 0, 0]), C(s_)])
    for n_ in (0, 1, -1):
        B('qpow', [V(4, v4), C(n_)])
    B('angvec2r', [C(0.0), V(3, v3)])
    B('angvec2r', [C(0), V(3, v3)])
    B('rodrigues', [V(3, [0.6, 0.0, 0.8], lens=(1, 3)), C(0.0)])
    B('trexp', [V(6, [0.5, -1.0, 0.25, 0.0, 0.6, 0.8], lens=(3, 6)), C(0.0)])
    B('trexp2', [V(3, [1.0, 2.0, 1.0], lens=(1, 3)), C(0.0)])
    B('matrix', [V(4, v4)])
    B('dot', [V(4, QU), V(3, v3)])
    B('dotb', [V(4, QU), V(3, v3)])
    B('angle', [V(4, QU), V(4, [1.0, 0, 0, 0])])
    # transforms2d
    B('transl2', [V(2, v2)])
    B('trot2', [C(0.3), C('rad'), V(2, v2)])
    B('xyt2tr', [V(3, v3)])
    B('trexp2', [V(3, [1.0, 2.0, 0.3], lens=(1, 3))])
    B('trexp2', [V(3, [1.0, 2.0, 1.0], lens=(1, 3)), C(0.7)])
    B('trexp2', [V(3, [0.6, 0.8, 0.0], lens=(1, 3)), C(0.7)])
    # transforms3d
    B('transl', [V(3, v3)])
    B('trotx', [C(0.3), C('rad'), V(3, v3)])
    B('troty', [C(0.3), C('rad'), V(3, v3)])
    B('trotz', [C(0.3), C('rad'), V(3, v3)])
    B('rpy2r', [V(3, v3b)])
    B('rpy2tr', [V(3, v3b)])
    B('eul2r', [V(3, v3b)])
    B('eul2tr', [V(3, v3b)])
    B('angvec2r', [C(0.3), V(3, v3)])
    B('angvec2tr', [C(0.3), V(3, v3)])
    B('oa2r', [V(3, v3), V(3, v3b)])
    B('oa2tr', [V(3, v3), V(3, v3b)])
    B('trexp', [V(6, v6, lens=(3, 6))])
    B('trexp', [V(3, v3b, lens=(3, 6))])
    # the two-argument form (unit twist, joint value): the same vector forms
    B('trexp', [V(6, [0.5, -1.0, 0.25, 0.0, 0.6, 0.8], lens=(3, 6)), C(0.7)])
    B('trexp', [V(6, [0.6, 0.0, 0.8, 0.0, 0.0, 0.0], lens=(3, 6)), C(0.7)])
    B('trexp', [V(3, [0.0, 0.6, 0.8], lens=(3, 6)), C(0.7)])
    B('delta2tr', [V(6, v6)])
    # transformsNd
    B('skew', [V(3, v3, lens=(1, 3))])
    B('skewa', [V(6, v6, lens=(3, 6))])
    B('skewa', [V(3, v3, lens=(3, 6))])
    B('rt2tr', [C(R0), V(3, v3)])
    B('Ab2M', [C(R0), V(3, v3)])
    B('rodrigues', [V(3, v3b, lens=(1, 3))])
    B('rodrigues', [V(3, [0.6, 0.0, 0.8], lens=(1, 3)), C(0.3)])
    # vectors
    B('colvec', [V(3, v3, lens=range(0, 9))])
    B('unitvec', [V(3, v3, lens=range(0, 9))])
    B('unitvec_norm', [V(3, v3, lens=range(0, 9))])
    B('norm', [V(3, v3, lens=range(0, 9))])
    B('normsq', [V(3, v3, lens=range(0, 9))])
    B('isunitvec', [V(3, [0.6, 0.0, 0.8], lens=range(0, 9))])
    B('iszerovec', [V(3, v3, lens=range(0, 9))])
    B('isunittwist', [V(6, [1.0, 2, 3, 0.6, 0, 0.8])])
    B('isunittwist2', [V(3, [1.0, 2, 1.0])])
    B('unittwist', [V(6, v6)])
    B('unittwist_norm', [V(6, v6)])
    B('unittwist2', [V(3, [1.0, 2.0, 0.3])])
    B('unittwist2_norm', [V(3, [1.0, 2.0, 0.3])])
    B('cross', [V(3, v3), V(3, v3b)])
    B('angdiff', [V(3, v3, lens=range(0, 9))])
    B('angdiff', [V(3, v3, lens=range(0, 9)), C(0.4)])
    # classes
    for cn in ('SO3', 'SE3', 'UnitQuaternion'):
        Cc = getattr(sm, cn)
        K(cn + '.RPY', Cc.RPY, [V(3, v3b)])
        K(cn + '.Eul', Cc.Eul, [V(3, v3b)])
        K(cn + '.AngVec', Cc.AngVec, [C(0.3), V(3, v3)])
        K(cn + '.EulerVec', Cc.EulerVec, [V(3, v3b)])
        K(cn + '.OA', Cc.OA, [V(3, v3), V(3, v3b)])
    K('SO3.Exp', sm.SO3.Exp, [V(3, v3b)])
    K('SE3.Exp', sm.SE3.Exp, [V(6, v6)])
    K('SE3', sm.SE3, [V(3, v3)])
    K('SE3.Delta', lambda d: sm.SE3(b.delta2tr(d), check=False) if False else sm.SE3.Delta(d), [V(6, [1e-9, 2e-9, 0, 1e-9, 0, 0])])
    K('SE2', sm.SE2, [V(3, [1.0, -2.0, 0.3], lens=(2, 3))])
    K('SE2', sm.SE2, [V(2, v2, lens=(2, 3))])
    K('SE2.Exp', sm.SE2.Exp, [V(3, [1.0, 2.0, 0.3])])
    K('SO2', sm.SO2, [V(3, v3b, lens=range(0, 9))])
    K('UnitQuaternion', sm.UnitQuaternion, [V(4, v4)])
    K('UnitQuaternion(s,v)', sm.UnitQuaternion, [C(0.5), V(3, v3)])
    K('UnitQuaternion.Vec3', sm.UnitQuaternion.Vec3, [V(3, [0.1, 0.2, -0.3])])
    K('Quaternion', sm.Quaternion, [V(4, v4)])
    K('Quaternion(s,v)', sm.Quaternion, [C(0.5), V(3, v3)])
    K('Quaternion.Pure', sm.Quaternion.Pure, [V(3, v3)])
    K('Twist3', sm.Twist3, [V(6, v6)])
    K('Twist3(v,w)', sm.Twist3, [V(3, v3), V(3, v3b)])
    K('Twist3.Revolute', sm.Twist3.Revolute, [V(3, v3), V(3, v3b)])
    K('Twist3.Prismatic', sm.Twist3.Prismatic, [V(3, v3)])
    K('Twist2', sm.Twist2, [V(3, [1.0, 2.0, 0.3])])
    K('Twist2.Revolute', sm.Twist2.Revolute, [V(2, v2)])
    K('Twist2.Prismatic', sm.Twist2.Prismatic, [V(2, v2)])
    K('UnitQuaternion.dot', lambda w: sm.UnitQuaternion(QU).dot(w), [V(3, v3)])
    K('UnitQuaternion.dotb', lambda w: sm.UnitQuaternion(QU).dotb(w), [V(3, v3)])
    K('Plucker.PQ', sm.Plucker.PQ, [V(3, v3), V(3, v3b)])
    K('Plucker.PointDir', sm.Plucker.PointDir, [V(3, v3), V(3, v3b)])
    K('Plucker.closest', lambda x: sm.Plucker.PQ([1, 2, 3], [4, 6, 9]).closest(x)[0], [V(3, v3)])
    K('SpatialVelocity', sm.SpatialVelocity, [V(6, v6, lens=(3, 6))])
    K('SE3.mul(vector)', lambda p: sm.SE3(T0) * p, [V(3, v3)])
    K('SO3.mul(vector)', lambda p: sm.SO3(R0) * p, [V(3, v3)])
    K('UnitQuaternion.mul(vector)', lambda p: sm.UnitQuaternion(QU) * p, [V(3, v3)])
    return T


def forms(kind, vec, ints=False):
    v = vec.astype(int) if ints else vec
    base = [('list', lambda: v.tolist()), ('tuple', lambda: tuple(v.tolist())), ('1d', lambda: v.copy())]
    if kind == 'base':
        base += [('row', lambda: v.reshape(1, -1).copy()), ('col', lambda: v.reshape(-1, 1).copy())]
    return base


def canon(x):
    """result -> comparable structure: nested tuples of (shape, values)"""
    if x is None:
        return None
    if hasattr(x, 'data') and isinstance(getattr(x, 'data'), list) and not isinstance(x, np.ndarray):
        return (type(x).__name__, tuple(canon(e) for e in x.data))
    if hasattr(x, 'real') and hasattr(x, 'dual') and not isinstance(x, (np.ndarray, float, int, complex, np.number)):
        return (type(x).__name__, canon(x.real), canon(x.dual))
    if isinstance(x, (list, tuple)):
        if x and all(isinstance(e, (int, float, np.number)) and not isinstance(e, bool) for e in x):
            return ('arr', (len(x),), tuple(float(e) for e in x))
        return ('seq', tuple(canon(e) for e in x))
    if isinstance(x, (bool, np.bool_)):
        return ('bool', bool(x))
    try:
        a = np.asarray(x, dtype=float)
    except Exception:
        return ('repr', repr(x))
    return ('arr', a.shape, tuple(a.ravel().tolist()))


def same(a, b, flat=False):
    if flat and a and b and a[0] == 'arr' and b[0] == 'arr':
        return a[2] == b[2]
    return a == b


def vector_forms(ctx, k, K):
    TB = table()
    for ei, (site, f, params, kw, kind) in enumerate(TB):
        if ei % K != k:
            continue
        vecs = [i for i, p in enumerate(params) if p[0] == 'v']
        flat = site in ('base.angdiff', 'base.getunit', 'base.getvector', 'base.colvec')

        def build(sel, formf):
            return [(formf() if i == sel else (p[2].copy() if p[0] == 'v' else p[1])) for i, p in enumerate(params)]
        base_args = build(-1, None)
        okb, baseline = call(f, *base_args, **kw)
        tag = '%s#%d' % (site, ei)
        if not okb:
            cid = 'C15/%s/baseline' % tag
            if ctx.want(cid):
                ctx.case(cid, key=cid)
                ctx.fail(cid, site, 'raises:' + type(baseline).__name__, dict(entry=site, form='1d', param=-1), '1-D array form raised %r' % (baseline,))
            continue
        cb = canon(baseline)
        # two vector parameters: both of the wrong length, with the TOTAL number of elements right (elements would move from one to the other)
        if len(vecs) == 2 and all(len(params[i][3]) == 1 for i in vecs):
            n1, n2 = params[vecs[0]][1], params[vecs[1]][1]
            for a_ in range(1, n1 + n2):
                if a_ == n1:
                    continue
                v1, v2 = np.arange(a_, dtype=float) * 0.1 + 0.2, np.arange(n1 + n2 - a_, dtype=float) * 0.1 + 0.3
                for fname in ('1d', 'list'):
                    cid = 'C15/%s/both-lengths=%d+%d/%s' % (tag, a_, n1 + n2 - a_, fname)
                    if not ctx.want(cid):
                        continue
                    ctx.case(cid, key=cid)
                    args = [((v1.copy() if fname == '1d' else v1.tolist()) if i == vecs[0] else ((v2.copy() if fname == '1d' else v2.tolist()) if i == vecs[1] else (p[2].copy() if p[0] == 'v' else p[1])))
                            for i, p in enumerate(params)]
                    ok, r = call(f, *args, **kw)
                    if ok:
                        ctx.fail(cid, site, 'no-raise' if r is not None else 'returns:NoneType', dict(entry=site, form=fname, length=a_, expected=n1, param=vecs[0]),
                                 'vectors of %d and %d elements where %s expects %d and %d were accepted and gave %s' % (a_, n1 + n2 - a_, site, n1, n2, type(r).__name__))
        for pi in vecs:
            _, n, vec, lens, _ = params[pi]
            for ints in (False, True):
                ivec = np.round(vec * 10).astype(float) if ints else vec
                if ints:
                    okb2, bl2 = call(f, *[(ivec.copy() if i == pi else a) for i, a in enumerate(base_args)], **kw)
                    if not okb2:
                        continue
                    cbi = canon(bl2)
                else:
                    cbi = cb
                for fname, mk in forms(kind, ivec, ints):
                    if fname == '1d' and not ints:
                        continue
                    cid = 'C15/%s/p%d/%s%s' % (tag, pi, fname, '/int' if ints else '')
                    if not ctx.want(cid):
                        continue
                    ctx.case(cid, key=cid)
                    P = dict(entry=site, param=pi, form=fname, ints=int(ints))
                    ok, r = call(f, *build(pi, mk), **kw)
                    ctx.cell(site, fname, 'ok' if ok else 'raised')
                    if not ok:
                        ctx.fail(cid, site, 'raises:' + type(r).__name__, P, '%s form of parameter %d rejected: %r (the 1-D array form works)' % (fname, pi, r))
                        continue
                    if not same(canon(r), cbi, flat):
                        ctx.fail(cid, site, 'mismatch', P, '%s form of parameter %d gives a different result from the 1-D array form' % (fname, pi))
            # every OTHER accepted length (1-vectors for the planar / so(2) forms, any length for the generic helpers): the container forms of a
            # vector of that length give what its 1-D array gives (a (1,1) array is both the row and the column form of a 1-vector)
            for L in sorted(lens):
                if L == n or L == 0:
                    continue
                alt = (np.arange(L, dtype=float) * 0.1 + 0.2)
                okL, blL = call(f, *build(pi, lambda: alt.copy()), **kw)
                if not okL:
                    continue            # these values are not acceptable at that length (e.g. a non-unit twist with theta): nothing to compare
                cbL = canon(blL)
                for fname, mk in forms(kind, alt):
                    if fname == '1d':
                        continue
                    cid = 'C15/%s/p%d/altlen=%d/%s' % (tag, pi, L, fname)
                    if not ctx.want(cid):
                        continue
                    ctx.case(cid, key=cid)
                    P = dict(entry=site, param=pi, form=fname, length=L)
                    ok, r = call(f, *build(pi, mk), **kw)
                    if not ok:
                        ctx.fail(cid, site, 'raises:' + type(r).__name__, P, '%s form of a %d-vector rejected: %r (the 1-D array form works)' % (fname, L, r))
                    elif not same(canon(r), cbL, flat):
                        ctx.fail(cid, site, 'mismatch', P, '%s form of a %d-vector gives a different result from the 1-D array form' % (fname, L))
            # wrong lengths
            for L in range(0, 9):
                if L in lens:
                    continue
                wrong = (np.arange(L, dtype=float) * 0.1 + 0.2)
                for fname, mk in forms(kind, wrong):
                    if L == 0 and fname in ('row', 'col'):
                        continue
                    if L == 0 and kind == 'class':
                        ctx.note('empty_sequence_is_zero_values', site)      # C([]) is an object with no values (C10), not a wrong-length vector
                        continue
                    cid = 'C15/%s/p%d/len=%d/%s' % (tag, pi, L, fname)
                    if not ctx.want(cid):
                        continue
                    ctx.case(cid, key=cid)
                    P = dict(entry=site, param=pi, form=fname, length=L, expected=n)
                    ok, r = call(f, *build(pi, mk), **kw)
                    if ok:
                        ctx.fail(cid, site, 'no-raise' if r is not None else 'returns:NoneType', P,
                                 'a %d-vector (%s) where %s expects length %s was accepted and gave %s' % (L, fname, site, sorted(lens), type(r).__name__))


def packed_scalar(ctx):
    import spatialmath as sm
    import spatialmath.base as b
    vals = [('g', (1.0, -2.0, 0.5)), ('int', (1, 2, 3)), ('small', (1e-6, 0.0, -1e-6)), ('angles', (0.3, -0.4, 0.5)), ('zero', (0.0, 0.0, 0.0)),
            ('x-only', (3.0, 0.0, 0.0)), ('x-only-int', (3, 0, 0)), ('y-zero', (1.0, 0.0, 0.5)), ('theta-zero', (1.0, 2.0, 0.0)), ('x-zero', (0.0, 2.0, 0.5))]
    ents = [('base.transl', lambda x, y, z: b.transl(x, y, z), lambda v: b.transl(v)), ('base.rpy2r', lambda x, y, z: b.rpy2r(x, y, z), lambda v: b.rpy2r(v)),
            ('base.rpy2tr', lambda x, y, z: b.rpy2tr(x, y, z), lambda v: b.rpy2tr(v)), ('base.eul2r', lambda x, y, z: b.eul2r(x, y, z), lambda v: b.eul2r(v)),
            ('base.eul2tr', lambda x, y, z: b.eul2tr(x, y, z), lambda v: b.eul2tr(v)), ('SE3', lambda x, y, z: sm.SE3(x, y, z), lambda v: sm.SE3(v)),
            ('SE2', lambda x, y, z: sm.SE2(x, y, z), lambda v: sm.SE2(v))]
    for (site, fs, fp), (vn, v) in itertools.product(ents, vals):
        for fname, mk in (('list', lambda: list(v)), ('tuple', lambda: tuple(v)), ('1d', lambda: np.array(v, dtype=float))):
            cid = 'C15/packed/%s/%s/%s' % (site, vn, fname)
            if not ctx.want(cid):
                continue
            ctx.case(cid, key=cid)
            P = dict(entry=site, values=vn, form=fname)
            ok, r = call(lambda: (fs(*v), fp(mk())))
            if not ok:
                ctx.fail(cid, site, 'raises:' + type(r).__name__, P, '%r' % (r,))
            elif canon(r[0]) != canon(r[1]):
                ctx.fail(cid, site, 'mismatch', P, 'separate scalars and packed %s give different results' % fname)
    for vn, v in (('g', (1.0, -2.0)), ('int', (3, 4)), ('zero', (0.0, 0.0)), ('y-zero', (3.0, 0.0)), ('y-zero-int', (3, 0)), ('x-zero', (0.0, 2.0))):
        for fname, mk in (('list', lambda: list(v)), ('tuple', lambda: tuple(v)), ('1d', lambda: np.array(v, dtype=float))):
            for site, fs, fp in (('base.transl2', lambda x, y: b.transl2(x, y), lambda w: b.transl2(w)), ('SE2', lambda x, y: sm.SE2(x, y), lambda w: sm.SE2(w))):
                cid = 'C15/packed/%s/xy/%s/%s' % (site, vn, fname)
                if not ctx.want(cid):
                    continue
                ctx.case(cid, key=cid)
                P = dict(entry=site, values=vn, form=fname)
                ok, r = call(lambda: (fs(*v), fp(mk())))
                if not ok:
                    ctx.fail(cid, site, 'raises:' + type(r).__name__, P, '%r' % (r,))
                elif canon(r[0]) != canon(r[1]):
                    ctx.fail(cid, site, 'mismatch', P, 'separate scalars and packed %s give different results' % fname)


def angle_entries():
    """[(site, f(angle, unit), kind)]: kind 'in' = angle argument; result compared numerically"""
    import spatialmath as sm
    import spatialmath.base as b
    v = [0.6, 0.0, 0.8]
    E = []
    for fn in ('rotx', 'roty', 'rotz', 'trotx', 'troty', 'trotz', 'rot2', 'trot2'):
        E.append(('base.' + fn, lambda a, u, fn=fn: getattr(b, fn)(a, u)))
    E.append(('base.xyt2tr', lambda a, u: b.xyt2tr([1.0, 2.0, a], u)))
    E.append(('base.angvec2r', lambda a, u: b.angvec2r(a, v, unit=u)))
    E.append(('base.angvec2tr', lambda a, u: b.angvec2tr(a, v, unit=u)))
    for order in ('zyx', 'xyz', 'yxz'):
        E.append(('base.rpy2r/' + order, lambda a, u, order=order: b.rpy2r(a, a / 2, -a / 3, unit=u, order=order)))
        E.append(('base.rpy2tr/' + order, lambda a, u, order=order: b.rpy2tr([a, a / 2, -a / 3], unit=u, order=order)))
    E.append(('base.eul2r', lambda a, u: b.eul2r(a, a / 2, -a / 3, unit=u)))
    E.append(('base.eul2tr', lambda a, u: b.eul2tr([a, a / 2, -a / 3], unit=u)))
    E.append(('base.getunit', lambda a, u: b.getunit(a, u)))
    for cn in ('SO3', 'SE3', 'UnitQuaternion', 'Twist3'):
        Cc = getattr(sm, cn)
        for fn in ('Rx', 'Ry', 'Rz'):
            E.append(('%s.%s' % (cn, fn), lambda a, u, Cc=Cc, fn=fn: getattr(Cc, fn)(a, u)))
            E.append(('%s.%s/vector' % (cn, fn), lambda a, u, Cc=Cc, fn=fn: getattr(Cc, fn)([a, a / 2], u)))
        if cn in ('SO3', 'SE3'):
            # one value per row of an N x 3 array of angles
            E.append((cn + '.RPY/Nx3', lambda a, u, Cc=Cc: Cc.RPY(np.array([[a, a / 2, -a / 3], [a / 3, -a, a / 2]]), unit=u)))
            E.append((cn + '.RPY/Nx3/yxz', lambda a, u, Cc=Cc: Cc.RPY(np.array([[a, a / 2, -a / 3], [a / 3, -a, a / 2], [0.1 * a, a, a]]), unit=u, order='yxz')))
            E.append((cn + '.Eul/Nx3', lambda a, u, Cc=Cc: Cc.Eul(np.array([[a, a / 2, -a / 3], [a / 3, -a, a / 2]]), unit=u)))
        if cn != 'Twist3':
            E.append((cn + '.RPY', lambda a, u, Cc=Cc: Cc.RPY([a, a / 2, -a / 3], unit=u)))
            E.append((cn + '.RPY/xyz', lambda a, u, Cc=Cc: Cc.RPY([a, a / 2, -a / 3], unit=u, order='xyz')))
            E.append((cn + '.Eul', lambda a, u, Cc=Cc: Cc.Eul([a, a / 2, -a / 3], unit=u)))
            E.append((cn + '.AngVec', lambda a, u, Cc=Cc: Cc.AngVec(a, v, unit=u)))
    E.append(('SO2', lambda a, u: sm.SO2(a, unit=u)))
    E.append(('SO2/vector', lambda a, u: sm.SO2([a, a / 2], unit=u)))
    E.append(('SE2/theta', lambda a, u: sm.SE2(a, unit=u)))
    E.append(('SE2/xyt', lambda a, u: sm.SE2(1.0, 2.0, a, unit=u)))
    E.append(('SE2/list', lambda a, u: sm.SE2([1.0, 2.0, a], unit=u)))
    E.append(('Twist3.exp', lambda a, u: sm.Twist3([0, 0, 0, 0.6, 0, 0.8]).exp(a, u)))
    E.append(('Twist2.exp', lambda a, u: sm.Twist2([1.0, 2.0, 1.0]).exp(a, u)))
    return E


def result_entries():
    """[(site, f(unit) -> angles)] angle results in either unit"""
    import spatialmath as sm
    import spatialmath.base as b
    E = []
    Rs = [('g', R0), ('sing', ref.rpy(0.3, PI / 2, 0.5)), ('half', ref.rotz(PI))]
    for rn, R in Rs:
        T = ref.rt(R, (1.0, 2.0, 3.0))
        q = ref.r2q_ref(R)
        for order in ('zyx', 'xyz', 'yxz'):
            E.append(('base.tr2rpy/%s/%s' % (order, rn), lambda u, R=R, order=order: b.tr2rpy(R.copy(), unit=u, order=order)))
            E.append(('SO3.rpy/%s/%s' % (order, rn), lambda u, R=R, order=order: sm.SO3(R.copy()).rpy(unit=u, order=order)))
            E.append(('UnitQuaternion.rpy/%s/%s' % (order, rn), lambda u, q=q, order=order: sm.UnitQuaternion(q).rpy(unit=u, order=order)))
        E.append(('base.tr2eul/%s' % rn, lambda u, R=R: b.tr2eul(R.copy(), unit=u)))
        E.append(('SE3.eul/%s' % rn, lambda u, T=T: sm.SE3(T.copy()).eul(unit=u)))
        E.append(('UnitQuaternion.eul/%s' % rn, lambda u, q=q: sm.UnitQuaternion(q).eul(unit=u)))
        E.append(('base.tr2angvec/%s' % rn, lambda u, R=R: b.tr2angvec(R.copy(), unit=u)[0]))
        E.append(('SO3.angvec/%s' % rn, lambda u, R=R: sm.SO3(R.copy()).angvec(unit=u)[0]))
        E.append(('UnitQuaternion.angvec/%s' % rn, lambda u, q=q: sm.UnitQuaternion(q).angvec(unit=u)[0]))
    for a in (0.3, -2.5, PI):
        T2 = ref.rt(ref.rot2(a), (1.0, 2.0))
        E.append(('base.tr2xyt/%g' % a, lambda u, T2=T2: b.tr2xyt(T2.copy(), unit=u)[2]))
        E.append(('SO2.theta/%g' % a, lambda u, a=a: sm.SO2(ref.rot2(a)).theta(unit=u)))
    # the unit given positionally (it is the same parameter)
    Rg, qg = Rs[0][1], ref.r2q_ref(Rs[0][1])
    E.append(('base.tr2rpy/positional', lambda u: b.tr2rpy(Rg.copy(), u)))
    E.append(('base.tr2eul/positional', lambda u: b.tr2eul(Rg.copy(), u)))
    E.append(('base.tr2angvec/positional', lambda u: b.tr2angvec(Rg.copy(), u)[0]))
    E.append(('base.tr2xyt/positional', lambda u: b.tr2xyt(ref.rt(ref.rot2(0.3), (1.0, 2.0)), u)[2]))
    E.append(('SO3.rpy/positional', lambda u: sm.SO3(Rg.copy()).rpy(u)))
    E.append(('SO3.eul/positional', lambda u: sm.SO3(Rg.copy()).eul(u)))
    E.append(('SO3.angvec/positional', lambda u: sm.SO3(Rg.copy()).angvec(u)[0]))
    E.append(('UnitQuaternion.rpy/positional', lambda u: sm.UnitQuaternion(qg).rpy(u)))
    E.append(('UnitQuaternion.eul/positional', lambda u: sm.UnitQuaternion(qg).eul(u)))
    E.append(('UnitQuaternion.angvec/positional', lambda u: sm.UnitQuaternion(qg).angvec(u)[0]))
    E.append(('SO2.theta/positional', lambda u: sm.SO2(ref.rot2(0.3)).theta(u)))
    # the same accessors on objects holding several values
    for M in (2, 3, 4):
        angs = [0.3, -2.5, 1.2, 3.0][:M]
        R3 = [ref.rpy(a, 0.2 * (j + 1), -a / 2, 'zyx') for j, a in enumerate(angs)]
        E.append(('SO2.theta/multi/M=%d' % M, lambda u, angs=angs: sm.SO2([ref.rot2(a) for a in angs]).theta(unit=u)))
        E.append(('SE2.theta/multi/M=%d' % M, lambda u, angs=angs: sm.SE2([ref.rt(ref.rot2(a), (1.0, 2.0)) for a in angs]).theta(unit=u)))
        for order in ('zyx', 'xyz', 'yxz'):
            E.append(('SO3.rpy/%s/multi/M=%d' % (order, M), lambda u, R3=R3, order=order: sm.SO3([R.copy() for R in R3]).rpy(unit=u, order=order)))
            E.append(('UnitQuaternion.rpy/%s/multi/M=%d' % (order, M), lambda u, R3=R3, order=order: sm.UnitQuaternion([ref.r2q_ref(R) for R in R3]).rpy(unit=u, order=order)))
        E.append(('SO3.eul/multi/M=%d' % M, lambda u, R3=R3: sm.SO3([R.copy() for R in R3]).eul(unit=u)))
        E.append(('SE3.eul/multi/M=%d' % M, lambda u, R3=R3: sm.SE3([ref.rt(R, (1.0, 2.0, 3.0)) for R in R3]).eul(unit=u)))
        E.append(('UnitQuaternion.eul/multi/M=%d' % M, lambda u, R3=R3: sm.UnitQuaternion([ref.r2q_ref(R) for R in R3]).eul(unit=u)))
    return E


def units(ctx):
    tier, seed = ctx.tier, ctx.seed
    A = [(n, v) for n, v in alph.angle_alphabet(tier, seed) if abs(v) < 100]
    for (site, f), (an, a) in itertools.product(angle_entries(), A):
        cid = 'C15/unit/%s/a=%s' % (site, an)
        if ctx.want(cid):
            ctx.case(cid, key=cid, trivial=(a == 0))
            P = dict(entry=site.split('/')[0], angle=an, what='deg-vs-rad')
            deg = a * 180 / PI
            ok, r = call(lambda: (f(deg, 'deg'), f(deg * PI / 180, 'rad')))
            if not ok:
                ctx.fail(cid, site.split('/')[0], 'raises:' + type(r).__name__, P, '%r' % (r,))
            else:
                ca, cb = canon(r[0]), canon(r[1])
                fa = np.array(_flat(ca), dtype=float)
                fb = np.array(_flat(cb), dtype=float)
                if fa.shape != fb.shape or (fa.size and np.abs(fa - fb).max() > 1e-12 * max(1.0, float(np.abs(fb).max()))):
                    ctx.fail(cid, site.split('/')[0], 'mismatch', P, "unit='deg' with %r differs from unit='rad' with %r*pi/180" % (deg, deg))
    # element / scalar type of the angle: a whole-number angle given as Python int, NumPy integer or single-precision scalar is the
    # same angle ("integer and float element types")
    STY = (('int', int), ('np.int64', np.int64), ('np.int32', np.int32), ('np.float32', np.float32), ('np.float64', np.float64))
    for (site, f), av, u, (tn, ty) in itertools.product(angle_entries(), (2, -3, 0, 90), ('rad', 'deg'), STY):
        cid = 'C15/scalartype/%s/a=%d/%s/%s' % (site, av, u, tn)
        if not ctx.want(cid):
            continue
        ctx.case(cid, key=cid, trivial=(av == 0))
        P = dict(entry=site.split('/')[0], what='scalar-type', stype=tn, unit=u)
        okf, rf = call(f, float(av), u)
        if not okf:
            continue
        ok, r = call(f, ty(av), u)
        if not ok:
            ctx.fail(cid, site.split('/')[0], 'raises:' + type(r).__name__, P, 'angle %d given as %s raised %r (the float works)' % (av, tn, r))
            continue
        fa, fb = np.array(_flat(canon(r)), dtype=float), np.array(_flat(canon(rf)), dtype=float)
        if fa.shape != fb.shape or (fa.size and np.abs(fa - fb).max() > 1e-6 * max(1.0, float(np.abs(fb).max()))):
            ctx.fail(cid, site.split('/')[0], 'mismatch', P, 'angle %d given as %s differs from the same angle as float' % (av, tn))
    # a vector of joint values for a multi-valued twist must have one value per twist (or the twist one value): any other length is rejected
    import spatialmath as sm
    for cn, vals in (('Twist3', [np.r_[1.0, 2, 3, 0.3, -0.2, 0.1], np.r_[0, 0, 0, 0, 0, 1.0], np.r_[1.0, 0, 0, 0, 0, 0], np.r_[0, 1.0, 0, 0.5, 0, 0]]),
                     ('Twist2', [np.r_[1.0, 2, 0.3], np.r_[0, 0, 1.0], np.r_[1.0, 0, 0], np.r_[0, 1.0, -0.5]])):
        C_ = getattr(sm, cn)
        for N, L, form in itertools.product((2, 3, 4), range(0, 9), ('list', 'tuple', '1d')):
            if L == N or L == 1:
                continue
            cid = 'C15/thetalen/%s/N=%d/len=%d/%s' % (cn, N, L, form)
            if not ctx.want(cid):
                continue
            ctx.case(cid, key=cid)
            th = [0.1 * (j + 1) for j in range(L)]
            arg = th if form == 'list' else (tuple(th) if form == 'tuple' else np.array(th))
            ok, r = call(lambda: C_([v.copy() for v in vals[:N]]).exp(arg))
            if ok:
                ctx.fail(cid, cn + '.exp', 'no-raise', dict(entry=cn + '.exp', what='length', N=N, len=L, form=form),
                         '%d twists with a %s of %d joint values returned %s' % (N, form, L, type(r).__name__ + ('[%d]' % len(r.data) if hasattr(r, 'data') else '')))
        # one joint value per twist (rotational twists only), in degrees and in radians: the same motions
        rot = [v for v in vals if abs(v[-1]) > 0 or (len(v) == 6 and np.any(v[3:]))]
        for N, form in itertools.product((2, 3), ('list', 'tuple', '1d')):
            cid = 'C15/thetavec-units/%s/N=%d/%s' % (cn, N, form)
            if not ctx.want(cid):
                continue
            ctx.case(cid, key=cid)
            thd = [20.0, 45.0, -80.0][:N]
            mkarg = lambda t_: t_ if form == 'list' else (tuple(t_) if form == 'tuple' else np.array(t_))
            import io, contextlib
            with contextlib.redirect_stdout(io.StringIO()):
                ok, r = call(lambda: (C_([v.copy() for v in rot[:N]]).exp(mkarg(thd), 'deg'), C_([v.copy() for v in rot[:N]]).exp(mkarg([math.radians(t_) for t_ in thd]), 'rad')))
            P = dict(entry=cn + '.exp', what='deg-vs-rad', N=N, form=form)
            if not ok:
                ctx.note('multi_twist_theta_vector_refused', '%s N=%d %s -> %s' % (cn, N, form, type(r).__name__))
                continue
            a_, b_ = [np.asarray(d, dtype=float) for d in r[0].data], [np.asarray(d, dtype=float) for d in r[1].data]
            if len(a_) != N or len(b_) != N or any(np.abs(x_ - y_).max() > 1e-9 * max(1.0, float(np.abs(y_).max())) for x_, y_ in zip(a_, b_)):
                ctx.fail(cid, cn + '.exp', 'mismatch', P, '%d twists with one joint value each: degrees and the same angles in radians give different motions' % N)
    for site, f in angle_entries():
        for bad in ('grad', 'degrees', 'DEG', ''):
            cid = 'C15/badunit/%s/%s' % (site, bad or 'empty')
            if ctx.want(cid):
                ctx.case(cid, key=cid)
                ok, r = call(f, 0.3, bad)
                if ok:
                    ctx.fail(cid, site.split('/')[0], 'no-raise', dict(entry=site.split('/')[0], unit=bad or 'empty', what='unknown-unit'), "unknown unit %r accepted" % bad)
    for site, f in result_entries():
        cid = 'C15/unitres/%s' % site
        if ctx.want(cid):
            ctx.case(cid, key=cid)
            P = dict(entry=site.split('/')[0], what='deg-vs-rad-result')
            ok, r = call(lambda: (f('deg'), f('rad')))
            if not ok:
                ctx.fail(cid, site.split('/')[0], 'raises:' + type(r).__name__, P, '%r' % (r,))
            else:
                d, ra = np.asarray(r[0], dtype=float), np.asarray(r[1], dtype=float)
                if d.shape != ra.shape or np.abs(d - ra * 180 / PI).max() > 1e-12 * max(1.0, float(np.abs(d).max())):
                    ctx.fail(cid, site.split('/')[0], 'mismatch', P, 'result in degrees %s is not the result in radians %s x 180/pi' % (d.tolist(), ra.tolist()))


def _flat(c):
    out = []
    if c is None:
        return out
    if c[0] == 'arr':
        out += list(c[2])
    elif c[0] in ('seq',):
        for e in c[1]:
            out += _flat(e)
    elif c[0] == 'bool':
        out.append(float(c[1]))
    elif isinstance(c[1], tuple):
        for e in c[1:]:
            if isinstance(e, tuple) and e and isinstance(e[0], tuple):
                for ee in e:
                    out += _flat(ee)
            else:
                out += _flat(e)
    return out


def orders(ctx):
    import spatialmath as sm
    import spatialmath.base as b
    good = ['zyx', 'xyz', 'yxz', 'vehicle', 'arm', 'camera']
    bad = ['zxy', 'ZYX', 'xzy', '', 'zy', 'vehicl', 'rpy', None, 3]
    a = [0.3, -0.4, 0.5]
    ents = [('base.rpy2r', lambda o: b.rpy2r(a, order=o)), ('base.rpy2tr', lambda o: b.rpy2tr(a, order=o)), ('base.tr2rpy', lambda o: b.tr2rpy(R0.copy(), order=o)),
            ('SO3.RPY', lambda o: sm.SO3.RPY(a, order=o)), ('SE3.RPY', lambda o: sm.SE3.RPY(a, order=o)), ('UnitQuaternion.RPY', lambda o: sm.UnitQuaternion.RPY(a, order=o)),
            ('SO3.rpy', lambda o: sm.SO3(R0.copy()).rpy(order=o)), ('SE3.rpy', lambda o: sm.SE3(T0.copy()).rpy(order=o)), ('UnitQuaternion.rpy', lambda o: sm.UnitQuaternion(QU).rpy(order=o))]
    alias = {'vehicle': 'zyx', 'arm': 'xyz', 'camera': 'yxz'}
    for site, f in ents:
        for o in good:
            cid = 'C15/order/%s/%s' % (site, o)
            if ctx.want(cid):
                ctx.case(cid, key=cid)
                ok, r = call(f, o)
                P = dict(entry=site, order=o, what='order')
                if not ok:
                    ctx.fail(cid, site, 'raises:' + type(r).__name__, P, 'documented order %r rejected: %r' % (o, r))
                elif o in alias:
                    ok2, r2 = call(f, alias[o])
                    if ok2 and canon(r) != canon(r2):
                        ctx.fail(cid, site, 'mismatch', P, 'alias %r differs from %r' % (o, alias[o]))
        for o in bad:
            cid = 'C15/order/%s/bad=%r' % (site, o)
            if ctx.want(cid):
                ctx.case(cid, key=cid)
                ok, r = call(f, o)
                if ok:
                    ctx.fail(cid, site, 'no-raise', dict(entry=site, order=repr(o), what='unknown-order'), 'unknown order %r accepted' % (o,))


def reflection(ctx):
    """every public name of base.__all__ is either in the table, exempt, or listed in the evidence"""
    import spatialmath.base as b
    have = {t[0].split('.', 1)[1] for t in table() if t[0].startswith('base.')}
    have |= {'rotx', 'roty', 'rotz', 'rot2', 'tr2rpy', 'tr2eul', 'tr2angvec', 'tr2xyt'}
    exempt = {'h2e', 'e2h', 'homtrans', 'removesmall', 'trprint', 'trprint2', 'trplot', 'trplot2', 'tranimate', 'tranimate2', 'qprint', 'Animate', 'Animate2',
              'plotvol2', 'plotvol3', 'rand', 'isscalar', 'isnumberlist', 'isvectorlist', 'ismatrix', 'assertmatrix', 'assertvector'}
    for n in b.__all__:
        if n not in have and n not in exempt:
            ctx.note('unclassified', n, cap=200)
    ctx.case('C15/reflection', key='reflection')


def defaults(ctx):
    """INFORMATIONAL (recorded under notes.default_differs in the evidence, never a violation: the statement fixes the equivalence of the explicit
    forms, not the defaults).  An omitted unit / order / flag means its documented default: the call without the argument equals the call with the default spelt
    out, positionally or by keyword (angles are radians, orders are 'zyx', flip / shortest are off, normalisation and validation are on)"""
    import spatialmath as sm
    import spatialmath.base as b
    R = ref.rpy(0.3, -0.5, 1.1, 'zyx')
    T = ref.rt(R, (1.0, 2.0, 3.0))
    T2 = ref.rt(ref.rot2(0.7), (1.0, 2.0))
    q0, q1 = ref.r2q_ref(ref.rotx(0.3)), ref.r2q_ref(ref.roty(2.9) @ ref.rotx(-2.0))
    v = [0.6, 0.0, 0.8]
    A3 = [0.3, -0.5, 1.1]
    P = [
        ('base.rotx', lambda: b.rotx(0.3), [lambda: b.rotx(0.3, 'rad'), lambda: b.rotx(0.3, unit='rad')]),
        ('base.trotx', lambda: b.trotx(0.3), [lambda: b.trotx(0.3, 'rad'), lambda: b.trotx(0.3, unit='rad', t=None)]),
        ('base.rot2', lambda: b.rot2(0.3), [lambda: b.rot2(0.3, 'rad'), lambda: b.rot2(0.3, unit='rad')]),
        ('base.trot2', lambda: b.trot2(0.3), [lambda: b.trot2(0.3, 'rad'), lambda: b.trot2(0.3, unit='rad', t=None)]),
        ('base.rpy2r', lambda: b.rpy2r(A3), [lambda: b.rpy2r(A3, unit='rad', order='zyx'), lambda: b.rpy2r(A3[0], A3[1], A3[2], unit='rad', order='zyx'), lambda: b.rpy2r(A3, order='vehicle')]),
        ('base.rpy2tr', lambda: b.rpy2tr(A3), [lambda: b.rpy2tr(A3, unit='rad', order='zyx')]),
        ('base.eul2r', lambda: b.eul2r(A3), [lambda: b.eul2r(A3, unit='rad'), lambda: b.eul2r(A3[0], A3[1], A3[2], unit='rad')]),
        ('base.eul2tr', lambda: b.eul2tr(A3), [lambda: b.eul2tr(A3, unit='rad')]),
        ('base.angvec2r', lambda: b.angvec2r(0.3, v), [lambda: b.angvec2r(0.3, v, unit='rad')]),
        ('base.tr2rpy', lambda: b.tr2rpy(R.copy()), [lambda: b.tr2rpy(R.copy(), unit='rad', order='zyx'), lambda: b.tr2rpy(R.copy(), 'rad', 'zyx'), lambda: b.tr2rpy(R.copy(), order='vehicle')]),
        ('base.tr2eul', lambda: b.tr2eul(R.copy()), [lambda: b.tr2eul(R.copy(), unit='rad', flip=False), lambda: b.tr2eul(R.copy(), 'rad', False)]),
        ('base.tr2angvec', lambda: b.tr2angvec(R.copy()), [lambda: b.tr2angvec(R.copy(), unit='rad'), lambda: b.tr2angvec(R.copy(), 'rad')]),
        ('base.tr2xyt', lambda: b.tr2xyt(T2.copy()), [lambda: b.tr2xyt(T2.copy(), unit='rad')]),
        ('base.xyt2tr', lambda: b.xyt2tr([1.0, 2.0, 0.7]), [lambda: b.xyt2tr([1.0, 2.0, 0.7], unit='rad')]),
        ('base.trlog', lambda: b.trlog(T.copy()), [lambda: b.trlog(T.copy(), check=True, twist=False), lambda: b.trlog(T.copy(), True, False)]),
        ('base.trlog2', lambda: b.trlog2(T2.copy()), [lambda: b.trlog2(T2.copy(), check=True, twist=False)]),
        ('base.trexp', lambda: b.trexp(np.array(A3)), [lambda: b.trexp(np.array(A3), theta=None), lambda: b.trexp(np.array(A3), None)]),
        ('base.slerp', lambda: b.slerp(q0, q1, 0.4), [lambda: b.slerp(q0, q1, 0.4, shortest=False), lambda: b.slerp(q0, q1, 0.4, False)]),
        ('base.trinterp', lambda: b.trinterp(None, T.copy(), 0.4), [lambda: b.trinterp(start=None, end=T.copy(), s=0.4), lambda: b.trinterp(np.eye(4), T.copy(), 0.4)]),
        ('base.getunit', lambda: b.getunit(0.3), [lambda: b.getunit(0.3, 'rad'), lambda: b.getunit(0.3, unit='rad')]),
        ('SO3.Rx', lambda: sm.SO3.Rx(0.3), [lambda: sm.SO3.Rx(0.3, 'rad'), lambda: sm.SO3.Rx(0.3, unit='rad'), lambda: sm.SO3.Rx(theta=0.3)]),
        ('SE3.Ry', lambda: sm.SE3.Ry(0.3), [lambda: sm.SE3.Ry(0.3, 'rad'), lambda: sm.SE3.Ry(0.3, unit='rad', t=None), lambda: sm.SE3.Ry(0.3, 'rad', None)]),
        ('UnitQuaternion.Rz', lambda: sm.UnitQuaternion.Rz(0.3), [lambda: sm.UnitQuaternion.Rz(0.3, 'rad'), lambda: sm.UnitQuaternion.Rz(0.3, unit='rad')]),
        ('Twist3.Rx', lambda: sm.Twist3.Rx(0.3), [lambda: sm.Twist3.Rx(0.3, 'rad'), lambda: sm.Twist3.Rx(0.3, unit='rad')]),
        ('SO3.RPY', lambda: sm.SO3.RPY(A3), [lambda: sm.SO3.RPY(A3, order='zyx', unit='rad'), lambda: sm.SO3.RPY(A3, order='vehicle')]),
        ('SE3.RPY', lambda: sm.SE3.RPY(A3), [lambda: sm.SE3.RPY(A3, order='zyx', unit='rad')]),
        ('UnitQuaternion.RPY', lambda: sm.UnitQuaternion.RPY(A3), [lambda: sm.UnitQuaternion.RPY(A3, order='zyx', unit='rad')]),
        ('SO3.Eul', lambda: sm.SO3.Eul(A3), [lambda: sm.SO3.Eul(A3, unit='rad')]),
        ('SO3.AngVec', lambda: sm.SO3.AngVec(0.3, v), [lambda: sm.SO3.AngVec(0.3, v, unit='rad')]),
        ('UnitQuaternion.AngVec', lambda: sm.UnitQuaternion.AngVec(0.3, v), [lambda: sm.UnitQuaternion.AngVec(0.3, v, unit='rad')]),
        ('SO3.Exp', lambda: sm.SO3.Exp(np.array(A3)), [lambda: sm.SO3.Exp(np.array(A3), check=True, so3=True), lambda: sm.SO3.Exp(np.array(A3), True, True)]),
        ('SE3.Exp', lambda: sm.SE3.Exp(np.r_[1.0, 2.0, 3.0, A3]), [lambda: sm.SE3.Exp(np.r_[1.0, 2.0, 3.0, A3], check=True)]),
        ('SO2', lambda: sm.SO2(0.3), [lambda: sm.SO2(0.3, unit='rad'), lambda: sm.SO2(0.3, check=True, unit='rad')]),
        ('SE2', lambda: sm.SE2(1.0, 2.0, 0.3), [lambda: sm.SE2(1.0, 2.0, 0.3, unit='rad'), lambda: sm.SE2(x=1.0, y=2.0, theta=0.3)]),
        ('SO3', lambda: sm.SO3(R.copy()), [lambda: sm.SO3(R.copy(), check=True), lambda: sm.SO3(arg=R.copy())]),
        ('SE3', lambda: sm.SE3(T.copy()), [lambda: sm.SE3(T.copy(), check=True)]),
        ('SE3/xyz', lambda: sm.SE3(1.0, 2.0, 3.0), [lambda: sm.SE3(x=1.0, y=2.0, z=3.0), lambda: sm.SE3(1.0, 2.0, 3.0, check=True)]),
        ('UnitQuaternion', lambda: sm.UnitQuaternion(2 * q0), [lambda: sm.UnitQuaternion(2 * q0, norm=True, check=True), lambda: sm.UnitQuaternion(s=2 * q0)]),
        ('Quaternion', lambda: sm.Quaternion(2 * q0), [lambda: sm.Quaternion(2 * q0, check=True), lambda: sm.Quaternion(s=2 * q0)]),
        ('Twist3', lambda: sm.Twist3(np.r_[1.0, 2.0, 3.0, A3]), [lambda: sm.Twist3(np.r_[1.0, 2.0, 3.0, A3], check=True), lambda: sm.Twist3(arg=np.r_[1.0, 2.0, 3.0, A3])]),
        ('SO3.rpy', lambda: sm.SO3(R.copy()).rpy(), [lambda: sm.SO3(R.copy()).rpy(unit='rad', order='zyx'), lambda: sm.SO3(R.copy()).rpy('rad', 'zyx')]),
        ('SE3.rpy', lambda: sm.SE3(T.copy()).rpy(), [lambda: sm.SE3(T.copy()).rpy(unit='rad', order='zyx')]),
        ('SO3.eul', lambda: sm.SO3(R.copy()).eul(), [lambda: sm.SO3(R.copy()).eul(unit='rad', flip=False), lambda: sm.SO3(R.copy()).eul('rad', False)]),
        ('SO3.angvec', lambda: sm.SO3(R.copy()).angvec(), [lambda: sm.SO3(R.copy()).angvec(unit='rad'), lambda: sm.SO3(R.copy()).angvec('rad')]),
        ('UnitQuaternion.rpy', lambda: sm.UnitQuaternion(q1).rpy(), [lambda: sm.UnitQuaternion(q1).rpy(unit='rad', order='zyx')]),
        ('UnitQuaternion.eul', lambda: sm.UnitQuaternion(q1).eul(), [lambda: sm.UnitQuaternion(q1).eul(unit='rad')]),
        ('UnitQuaternion.angvec', lambda: sm.UnitQuaternion(q1).angvec(), [lambda: sm.UnitQuaternion(q1).angvec(unit='rad')]),
        ('SO2.theta', lambda: sm.SO2(0.3).theta(), [lambda: sm.SO2(0.3).theta(unit='rad'), lambda: sm.SO2(0.3).theta('rad')]),
        ('SE2.xyt', lambda: sm.SE2(T2.copy()).xyt(), []),
        ('SE3.log', lambda: sm.SE3(T.copy()).log(), [lambda: sm.SE3(T.copy()).log(twist=False), lambda: sm.SE3(T.copy()).log(False)]),
        ('SE3.interp', lambda: sm.SE3(T.copy()).interp(0.4), [lambda: sm.SE3(T.copy()).interp(0.4, start=None), lambda: sm.SE3(T.copy()).interp(s=0.4), lambda: sm.SE3(T.copy()).interp(0.4, start=sm.SE3())]),
        ('SE2.interp', lambda: sm.SE2(T2.copy()).interp(0.4), [lambda: sm.SE2(T2.copy()).interp(0.4, start=None), lambda: sm.SE2(T2.copy()).interp(0.4, start=sm.SE2())]),
        ('UnitQuaternion.interp', lambda: sm.UnitQuaternion(q0).interp(0.4, sm.UnitQuaternion(q1)), [lambda: sm.UnitQuaternion(q0).interp(0.4, dest=sm.UnitQuaternion(q1), shortest=False),
                                                                                                  lambda: sm.UnitQuaternion(q0).interp(s=0.4, dest=sm.UnitQuaternion(q1))]),
        ('UnitQuaternion.interp/nodest', lambda: sm.UnitQuaternion(q1).interp(0.4), [lambda: sm.UnitQuaternion(q1).interp(0.4, dest=None, shortest=False)]),
        ('Twist3.exp', lambda: sm.Twist3([0, 0, 0, 0.6, 0, 0.8]).exp(0.3), [lambda: sm.Twist3([0, 0, 0, 0.6, 0, 0.8]).exp(0.3, 'rad'), lambda: sm.Twist3([0, 0, 0, 0.6, 0, 0.8]).exp(theta=0.3, units='rad')]),
        ('Twist3.exp/none', lambda: sm.Twist3([0.1, 0, 0, 0.6, 0, 0.8]).exp(), [lambda: sm.Twist3([0.1, 0, 0, 0.6, 0, 0.8]).exp(None), lambda: sm.Twist3([0.1, 0, 0, 0.6, 0, 0.8]).exp(theta=None, units='rad')]),
        ('Twist2.exp', lambda: sm.Twist2([1.0, 2.0, 1.0]).exp(0.3), [lambda: sm.Twist2([1.0, 2.0, 1.0]).exp(0.3, 'rad')]),
        ('SE2.SE3', lambda: sm.SE2(T2.copy()).SE3(), [lambda: sm.SE2(T2.copy()).SE3(z=0), lambda: sm.SE2(T2.copy()).SE3(0)]),
        ('SE3.Rand', lambda: (np.random.seed(3), sm.SE3.Rand())[1], [lambda: (np.random.seed(3), sm.SE3.Rand(N=1))[1]]),
        ('SE3.Alloc', lambda: sm.SE3.Alloc(), [lambda: sm.SE3.Alloc(1), lambda: sm.SE3.Alloc(n=1)]),
    ]
    for site, f0, alts in P:
        ok0, r0 = call(f0)
        for ai, fa in enumerate(alts):
            cid = 'C15/default/%s/%d' % (site, ai)
            if not ctx.want(cid):
                continue
            ctx.case(cid, key=cid)
            Pm = dict(entry=site.split('/')[0], what='default', alt=ai)
            ok, r = call(fa)
            if ok != ok0:
                ctx.note('default_differs', '%s form %d: %s vs %s' % (site, ai, 'returns' if ok0 else 'raises', 'returns' if ok else 'raises'))
                continue
            if not ok:
                continue
            fa_, f0_ = np.array(_flat(canon(r)), dtype=float), np.array(_flat(canon(r0)), dtype=float)
            if fa_.shape != f0_.shape or (fa_.size and np.abs(fa_ - f0_).max() > 1e-12 * max(1.0, float(np.abs(f0_).max()))):
                ctx.note('default_differs', '%s form %d: value differs' % (site, ai))


def shards(tier, seed):
    K = 12
    return [('vec', k, K) for k in range(K)] + [('packed',), ('units',), ('orders',), ('reflection',), ('defaults',)]


def run_shard(ctx, shard):
    k = shard[0]
    if k == 'vec':
        vector_forms(ctx, shard[1], shard[2])
    elif k == 'packed':
        packed_scalar(ctx)
    elif k == 'units':
        units(ctx)
    elif k == 'orders':
        orders(ctx)
    elif k == 'defaults':
        defaults(ctx)
    else:
        reflection(ctx)
