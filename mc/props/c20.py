"""
C20  Spatial 6-vectors and inertia follow Featherstone's spatial algebra.

E1 product explorer with complete basis grids (DESIGN 2.3, 3/C20).

  arith   every ordered pair of the four vector classes x {+,-} x lengths (m,n) in {1,2,3,6}^2:
          same class and m == n -> element-wise result of that class (m=n=1: the complete grid {0,1}^12,
          dilated by 1,2,3, compared exactly); anything else must raise.  Unary minus likewise ({0,1}^6).
  cross   SpatialVelocity.cross(x) and SpatialVelocity @ x for x of each of the four classes against
          crm(v) = [skew w, skew v; 0, skew w] (layout (v,w)) and crf(v) = -crm(v)^T, complete grid {0,1}^12
          x dilations, exact; multi-valued operands; magnitude ladder 1e-6..1e6 to 1e-9 relative.
  dual    (v x* f).m = -f.(v x m) on {0,1}^18 (thorough; quick: basis triples {0,e_i}^3), dilated, exact,
          and on the magnitude ladder.
  inertia SpatialInertia(m, r, J) = [m 1, m C^T; m C, J + m C C^T], C = skew r, exactly on the grid
          m in {1,2} x r in {0,1,2}^3 x J (diag in {3,4}, off-diag in {0,1}: all SPD) dilated by 1,2,3;
          numerically on ladders;  I1 + I2 = matrix sum;  I*a -> SpatialForce, I*v -> SpatialMomentum = I @ x.
  rmul    SE3 * x = Ad(T) x for motion classes, Ad(T)^T x for force classes, Ad from its block definition
          [R, skew(t) R; 0, R]; T in (generator rotations x translations) + exact signed-permutation poses.

The statement names only SE3 as left operand and only `I * x`; Twist3 * x, x * I, acceleration.cross(...) and
the other constructor forms of SpatialInertia are run as informational probes (notes/cells, never violations).
"""
import itertools
import math
import operator
import sys
import numpy as np
from mc import alph, ref, hist
from mc.core import call, HarnessError

PROP = 'C20'
LEVEL = 'exploration'
RULE = ('full Cartesian products: (class pair x op x length pair x value letters); value letters are the complete '
        'multi-affine decision grids {0,1}^k (k = 6, 12, 18 scalar variables) dilated by 1, 2, 3 and compared '
        'exactly, slot-distinct basis vectors for multi-valued objects, and the magnitude ladder 1e-6..1e6 x '
        'generic pool compared to 1e-9 relative to the data magnitude; a case is trivial when every vector operand '
        'is zero; distinct = distinct case ids (each id encodes the concrete input completely)')
ASSUME = ['completeness of the grids: each checked identity is a polynomial of degree <= 1 in every scalar variable '
          '(degree <= 2 in the centre-of-mass coordinates, grid {0,1,2}^3) - read off the code (sums and products '
          'only) and tested by repeating each grid dilated by 2 and 3 and by recording that the anchored code '
          'executes one and the same set of source lines on all points of a grid (counter branchfree_groups, note '
          'not_branch_free)',
          'on the integer grids (entries <= 3, results < 2^53) float64 arithmetic is exact, so comparison is ==',
          'operands are built by the class constructor from one float ndarray(6,) and, for multi-valued objects, '
          'by assigning .data (the whole state of an SMUserList object is .data)',
          'the reference adjoint is [R, skew(t) R; 0, R] for the (v, w) component order documented in '
          'spatialvector.py; "its transpose" in the statement is read literally as Ad(T)^T',
          'multi-valued operands of cross, I*x and SE3*x are in the domain (quantifier: "single- and multi-valued '
          'objects"); the pairing is element-wise for equal lengths and broadcast when one side has one value; '
          'unequal lengths > 1 are not enumerated for these operations',
          'tolerance on the ladders: 1e-9 x product of the largest absolute entries of the operands (x largest '
          'entry of the reference matrix for inertia / adjoint cases)']
ANCHORS = [('spatialmath.spatialvector', 'SpatialVector.' + n) for n in ('__neg__', '__add__', '__sub__', '__rmul__')] + \
          [('spatialmath.spatialvector', 'SpatialM6.cross'), ('spatialmath.spatialvector', 'SpatialVelocity.__matmul__'),
           ('spatialmath.spatialvector', 'SpatialF6.dot'),
           ('spatialmath.spatialvector', 'SpatialInertia.__init__'), ('spatialmath.spatialvector', 'SpatialInertia.__add__'),
           ('spatialmath.spatialvector', 'SpatialInertia.__mul__'), ('spatialmath.spatialvector', 'SpatialInertia.__rmul__'),
           ('spatialmath.pose3d', 'SE3.Ad'), ('spatialmath.twist', 'Twist3.Ad'),
           ('spatialmath.base.transforms3d', 'adjoint')]

CLS = ['SpatialVelocity', 'SpatialAcceleration', 'SpatialForce', 'SpatialMomentum']
CODE = {'SpatialVelocity': 'V', 'SpatialAcceleration': 'A', 'SpatialForce': 'F', 'SpatialMomentum': 'M'}
MOTION = ('SpatialVelocity', 'SpatialAcceleration')
FORCE = ('SpatialForce', 'SpatialMomentum')
LENS = (1, 2, 3, 6)           # 6 is a landmark: six 6-vectors look like a 6x6 matrix
DIL = (1, 2, 3)
E6 = np.eye(6)
Z6 = np.zeros(6)
TOL = 1e-9

# generic 6-vectors: pairs of the committed generic 3-vectors, no symmetry between the halves
G_VEC6 = [tuple(alph.G_VEC3[i]) + tuple(alph.G_VEC3[(i + 5) % 16]) for i in range(16)]

BITS6 = list(itertools.product((0, 1), repeat=6))


def bstr(b):
    return ''.join(map(str, b))


# --------------------------------------------------------------------------- library access

_L = {}


def lib():
    if not _L:
        import spatialmath as sm
        import spatialmath.spatialvector as sv
        _L['sm'], _L['sv'] = sm, sv
    return _L['sm'], _L['sv']


def build(ctx, cid, cname, vecs, params):
    """object of class cname holding the given 6-vectors; None (and a violation) if the constructor raises"""
    C = getattr(lib()[1], cname)
    ok, o = call(C, np.array(vecs[0], dtype=float))
    if not ok:
        ctx.fail(cid, cname + '.__init__', 'raises:' + type(o).__name__, params,
                 '%s(ndarray of 6 floats) raised %r' % (cname, o))
        return None
    o.data = [np.array(v, dtype=float) for v in vecs]
    return o


def read6(o):
    d = getattr(o, 'data', None)
    if not isinstance(d, list):
        return None, 'data is %s' % type(d).__name__
    out = []
    for e in d:
        a = np.asarray(e)
        if a.dtype == object or a.shape != (6,):
            return None, 'an element has shape %s dtype %s' % (a.shape, a.dtype)
        if np.iscomplexobj(a):
            return None, 'complex element'
        out.append(a.astype(float))
    return out, None


def verdict(ctx, cid, site, params, ok, got, classes, exp, tol, what):
    """compare a library outcome with the expected list of 6-vectors of one of the given classes"""
    cell = '%s|%s|m=%s|n=%s' % (params.get('lcls'), params.get('rcls'), params.get('m'), params.get('n'))
    if not ok:
        ctx.cell(site, cell, 'raises:' + type(got).__name__)
        ctx.fail(cid, site, 'raises:' + type(got).__name__, params,
                 '%s raised %s: %s; expected a %s with %d value(s)' %
                 (what, type(got).__name__, str(got)[:160], '/'.join(classes), len(exp)))
        return False
    tn = type(got).__name__
    if tn not in classes:
        ctx.cell(site, cell, 'returns:' + tn)
        ctx.fail(cid, site, 'returns:' + tn, params, '%s returned a %s, expected %s' % (what, tn, '/'.join(classes)))
        return False
    vals, why = read6(got)
    if vals is None:
        ctx.cell(site, cell, 'malformed')
        ctx.fail(cid, site, 'mismatch', params, '%s: result malformed: %s' % (what, why))
        return False
    if len(vals) != len(exp):
        ctx.cell(site, cell, 'wrong-length')
        ctx.fail(cid, site, 'mismatch', params, '%s: result holds %d value(s), expected %d' % (what, len(vals), len(exp)))
        return False
    for k, (g, e) in enumerate(zip(vals, exp)):
        if not np.all(np.isfinite(g)):
            ctx.cell(site, cell, 'nonfinite')
            ctx.fail(cid, site, 'nonfinite', params, '%s: value %d is %r' % (what, k, g.tolist()))
            return False
        d = float(np.abs(g - e).max())
        if d > tol:
            ctx.cell(site, cell, 'mismatch')
            ctx.fail(cid, site, 'mismatch', params, '%s: value %d is %r, expected %r (|diff| %.3g > tol %.3g)' %
                     (what, k, g.tolist(), np.asarray(e, dtype=float).tolist(), d, tol))
            return False
    ctx.cell(site, cell, 'ok:' + tn)
    return True


def must_raise(ctx, cid, site, params, ok, got, what):
    cell = '%s|%s|m=%s|n=%s' % (params.get('lcls'), params.get('rcls'), params.get('m'), params.get('n'))
    if ok:
        ctx.cell(site, cell, 'no-raise')
        vals, _ = read6(got)
        ctx.fail(cid, site, 'no-raise', params, '%s returned a %s holding %r instead of raising' %
                 (what, type(got).__name__, None if vals is None else [v.tolist() for v in vals][:3]))
        return False
    ctx.cell(site, cell, 'rejects:' + type(got).__name__)
    return True


# --------------------------------------------------------------------------- branch-free side condition

class Sigs:
    """per group: the set of distinct 'executed source lines of spatialvector.py' signatures"""

    def __init__(self):
        self.g = {}

    def run(self, group, f, *a):
        lines = set()

        def loc(frame, event, arg):
            if event == 'line':
                lines.add((frame.f_code.co_name, frame.f_lineno))
            return loc

        def glob(frame, event, arg):
            return loc if frame.f_code.co_filename.endswith('spatialvector.py') else None

        old = sys.gettrace()
        sys.settrace(glob)
        try:
            r = call(f, *a)
        finally:
            sys.settrace(old)
        self.g.setdefault(group, set()).add(frozenset(lines))
        return r

    def flush(self, ctx):
        if ctx.only is not None:
            return
        for group, s in sorted(self.g.items()):
            ctx.count('branchfree_groups')
            if len(s) > 1:
                ctx.count('not_branch_free_groups')
                ctx.note('not_branch_free', '%s: %d distinct line signatures on one grid' % (group, len(s)))


# --------------------------------------------------------------------------- reference models

def crm(x):
    """[skew w, skew v; 0, skew w] for x = (v, w)"""
    v, w = x[:3], x[3:]
    M = np.zeros((6, 6))
    M[:3, :3] = ref.skew(w)
    M[:3, 3:] = ref.skew(v)
    M[3:, 3:] = ref.skew(w)
    return M


def crf(x):
    return -crm(x).T


def inertia_ref(m, r, J):
    C = ref.skew(r)
    M = np.zeros((6, 6))
    M[:3, :3] = m * np.eye(3)
    M[:3, 3:] = m * C.T
    M[3:, :3] = m * C
    M[3:, 3:] = np.asarray(J, dtype=float) + m * (C @ C.T)
    return M


def slots(i, n, k, step=1, off=1):
    """n slot-distinct integer basis vectors: slot s holds k*(s+off)*e_{(i+step*s) mod 6}"""
    return [k * (s + off) * E6[(i + step * s) % 6] for s in range(n)]


def gslots(a, n, mag):
    return [mag * np.array(G_VEC6[(a + s) % 16], dtype=float) for s in range(n)]


def amax(vs):
    return max(float(np.abs(v).max()) for v in vs)


def mags(tier):
    return alph.magnitudes(tier)


# --------------------------------------------------------------------------- arith: + and -

def run_arith(ctx, lcls, opn, tier, seed):
    f = operator.add if opn == 'add' else operator.sub
    site = 'SpatialVector.__%s__' % opn
    sigs = Sigs()
    gen = alph.pick(G_VEC6, tier, seed)
    for rcls in CLS:
        for m in LENS:
            for n in LENS:
                valid = (lcls == rcls and m == n)
                pre = 'C20/%s/%s.%s/m=%d/n=%d' % (opn, CODE[lcls], CODE[rcls], m, n)
                P = {'lcls': lcls, 'rcls': rcls, 'op': opn, 'm': m, 'n': n, 'multi': int(m > 1 or n > 1)}
                if not valid:
                    # mixed classes or unequal lengths: must be rejected, whatever the values
                    for xn, xv in REJ:
                        for yn, yv in REJ:
                            cid = '%s/reject/x=%s/y=%s' % (pre, xn, yn)
                            if not (ctx.want(cid) or ctx.only == cid + '/inplace'):
                                continue
                            ctx.case(cid, trivial=(xn == 'z' and yn == 'z'))
                            p = dict(P, grid='reject', mag=1)
                            a = build(ctx, cid, lcls, [(s + 1) * xv for s in range(m)], p)
                            b = build(ctx, cid, rcls, [(s + 2) * yv for s in range(n)], p)
                            if a is None or b is None:
                                continue
                            ok, got = call(f, a, b)
                            must_raise(ctx, cid, site, p, ok, got, '%s(%d) %s %s(%d)' % (lcls, m, opn, rcls, n))
                            # the augmented assignment is the same operation and must refuse the same operands
                            cid2 = cid + '/inplace'
                            if ctx.want(cid2):
                                ctx.case(cid2, trivial=(xn == 'z' and yn == 'z'))
                                a2 = build(ctx, cid2, lcls, [(s + 1) * xv for s in range(m)], p)
                                b2 = build(ctx, cid2, rcls, [(s + 2) * yv for s in range(n)], p)
                                if a2 is not None and b2 is not None:
                                    ok, got = call(operator.iadd if opn == 'add' else operator.isub, a2, b2)
                                    must_raise(ctx, cid2, site, dict(p, inplace=1), ok, got, '%s(%d) %s= %s(%d)' % (lcls, m, '+' if opn == 'add' else '-', rcls, n))
                    continue
                # ---- same class, equal length: element-wise
                if m == 1:
                    for k in DIL:
                        for xb in BITS6:
                            xs = bstr(xb)
                            if ctx.only is not None and ('/x=%s/' % xs) not in ctx.only:
                                continue
                            x = k * np.array(xb, dtype=float)
                            for yb in BITS6:
                                cid = '%s/grid/k=%d/x=%s/y=%s' % (pre, k, xs, bstr(yb))
                                if not ctx.want(cid):
                                    continue
                                ctx.case(cid, trivial=(not any(xb) and not any(yb)))
                                p = dict(P, grid='basis', mag=k)
                                y = k * np.array(yb, dtype=float)
                                a = build(ctx, cid, lcls, [x], p)
                                b = build(ctx, cid, rcls, [y], p)
                                if a is None or b is None:
                                    continue
                                if k == 1:
                                    ok, got = sigs.run('%s %s' % (site, lcls), f, a, b)
                                else:
                                    ok, got = call(f, a, b)
                                verdict(ctx, cid, site, p, ok, got, (lcls,), [f(x, y)], 0.0, '%s %s %s' % (lcls, opn, rcls))
                else:
                    for k in DIL:
                        for i in range(6):
                            for j in range(6):
                                cid = '%s/slots/k=%d/i=%d/j=%d' % (pre, k, i, j)
                                if not ctx.want(cid):
                                    continue
                                ctx.case(cid)
                                p = dict(P, grid='basis', mag=k)
                                xs_, ys_ = slots(i, m, k), slots(j, n, k, step=2, off=2)
                                a = build(ctx, cid, lcls, xs_, p)
                                b = build(ctx, cid, rcls, ys_, p)
                                if a is None or b is None:
                                    continue
                                ok, got = call(f, a, b)
                                verdict(ctx, cid, site, p, ok, got, (lcls,), [f(x, y) for x, y in zip(xs_, ys_)], 0.0,
                                        '%s(%d) %s %s(%d)' % (lcls, m, opn, rcls, n))
                # ---- magnitude ladder
                for m1n, m1 in mags(tier):
                    for m2n, m2 in mags(tier):
                        for an, _ in gen:
                            ai = int(an[1:])
                            for bn, _ in gen:
                                bi = int(bn[1:])
                                cid = '%s/ladder/x=%s@%s/y=%s@%s' % (pre, an, m1n, bn, m2n)
                                if not ctx.want(cid):
                                    continue
                                ctx.case(cid)
                                p = dict(P, grid='ladder', mag=max(m1, m2), xmag=m1, ymag=m2)
                                xs_, ys_ = gslots(ai, m, m1), gslots(bi + 3, n, m2)
                                a = build(ctx, cid, lcls, xs_, p)
                                b = build(ctx, cid, rcls, ys_, p)
                                if a is None or b is None:
                                    continue
                                ok, got = call(f, a, b)
                                verdict(ctx, cid, site, p, ok, got, (lcls,), [f(x, y) for x, y in zip(xs_, ys_)],
                                        TOL * max(amax(xs_), amax(ys_)), '%s(%d) %s %s(%d)' % (lcls, m, opn, rcls, n))
    sigs.flush(ctx)


REJ = [('z', Z6), ('e0', E6[0]), ('one', np.ones(6)), ('g', np.array(G_VEC6[0], dtype=float))]


def run_neg(ctx, tier, seed):
    site = 'SpatialVector.__neg__'
    sigs = Sigs()
    gen = alph.pick(G_VEC6, tier, seed)
    for cls in CLS:
        for n in LENS:
            pre = 'C20/neg/%s/n=%d' % (CODE[cls], n)
            P = {'lcls': cls, 'rcls': '-', 'op': 'neg', 'm': n, 'n': n, 'multi': int(n > 1)}
            for k in DIL:
                if n == 1:
                    letters = [('x=' + bstr(b), [k * np.array(b, dtype=float)]) for b in BITS6]
                else:
                    letters = [('i=%d' % i, slots(i, n, k)) for i in range(6)]
                for ln, xs_ in letters:
                    cid = '%s/grid/k=%d/%s' % (pre, k, ln)
                    if not ctx.want(cid):
                        continue
                    ctx.case(cid, trivial=(amax(xs_) == 0))
                    p = dict(P, grid='basis', mag=k)
                    a = build(ctx, cid, cls, xs_, p)
                    if a is None:
                        continue
                    if k == 1 and n == 1:
                        ok, got = sigs.run('%s %s' % (site, cls), operator.neg, a)
                    else:
                        ok, got = call(operator.neg, a)
                    verdict(ctx, cid, site, p, ok, got, (cls,), [-x for x in xs_], 0.0, '-%s(%d)' % (cls, n))
            for mn, mg in mags(tier):
                for an, _ in gen:
                    cid = '%s/ladder/x=%s@%s' % (pre, an, mn)
                    if not ctx.want(cid):
                        continue
                    ctx.case(cid)
                    p = dict(P, grid='ladder', mag=mg)
                    xs_ = gslots(int(an[1:]), n, mg)
                    a = build(ctx, cid, cls, xs_, p)
                    if a is None:
                        continue
                    ok, got = call(operator.neg, a)
                    verdict(ctx, cid, site, p, ok, got, (cls,), [-x for x in xs_], TOL * amax(xs_), '-%s(%d)' % (cls, n))
    sigs.flush(ctx)


# --------------------------------------------------------------------------- cross products

def _cross(a, b):
    return a.cross(b)


def cross_expect(xs_, ys_, rcls):
    """broadcast / element-wise pairing of the operator matrix of x applied to y"""
    mat = crm if rcls in MOTION else crf
    N = max(len(xs_), len(ys_))
    out = []
    for s in range(N):
        x = xs_[s if len(xs_) > 1 else 0]
        y = ys_[s if len(ys_) > 1 else 0]
        out.append(mat(x) @ y)
    return out


def run_cross(ctx, via, rcls, tier, seed):
    lcls = 'SpatialVelocity'
    f = _cross if via == 'cross' else operator.matmul
    site = 'SpatialM6.cross' if via == 'cross' else 'SpatialVelocity.__matmul__'
    classes = MOTION if rcls in MOTION else FORCE
    sigs = Sigs()
    gen = alph.pick(G_VEC6, tier, seed)
    for m in LENS:
        for n in LENS:
            if not (m == n or m == 1 or n == 1):
                continue        # no pairing defined by the statement
            pre = 'C20/%s/V.%s/m=%d/n=%d' % (via, CODE[rcls], m, n)
            P = {'lcls': lcls, 'rcls': rcls, 'op': via, 'm': m, 'n': n, 'multi': int(m > 1 or n > 1)}
            what = '%s(%d) %s %s(%d)' % (lcls, m, 'x' if via == 'cross' else '@', rcls, n)
            if m == 1 and n == 1:
                for k in DIL:
                    for xb in BITS6:
                        xs = bstr(xb)
                        if ctx.only is not None and ('/x=%s/' % xs) not in ctx.only:
                            continue
                        x = k * np.array(xb, dtype=float)
                        Mx = (crm if rcls in MOTION else crf)(x)
                        for yb in BITS6:
                            cid = '%s/grid/k=%d/x=%s/y=%s' % (pre, k, xs, bstr(yb))
                            if not ctx.want(cid):
                                continue
                            ctx.case(cid, trivial=(not any(xb) and not any(yb)))
                            p = dict(P, grid='basis', mag=k)
                            y = k * np.array(yb, dtype=float)
                            a = build(ctx, cid, lcls, [x], p)
                            b = build(ctx, cid, rcls, [y], p)
                            if a is None or b is None:
                                continue
                            if k == 1:
                                ok, got = sigs.run('%s %s' % (site, rcls), f, a, b)
                            else:
                                ok, got = call(f, a, b)
                            verdict(ctx, cid, site, p, ok, got, classes, [Mx @ y], 0.0, what)
            else:
                for k in DIL:
                    for i in range(6):
                        for j in range(6):
                            cid = '%s/slots/k=%d/i=%d/j=%d' % (pre, k, i, j)
                            if not ctx.want(cid):
                                continue
                            ctx.case(cid)
                            p = dict(P, grid='basis', mag=k)
                            xs_, ys_ = slots(i, m, k), slots(j, n, k, step=2, off=2)
                            a = build(ctx, cid, lcls, xs_, p)
                            b = build(ctx, cid, rcls, ys_, p)
                            if a is None or b is None:
                                continue
                            ok, got = call(f, a, b)
                            verdict(ctx, cid, site, p, ok, got, classes, cross_expect(xs_, ys_, rcls), 0.0, what)
            if m == 1 and n == 1:
                for m1n, m1 in mags(tier):
                    for m2n, m2 in mags(tier):
                        for an, _ in gen:
                            for bn, _ in gen:
                                cid = '%s/ladder/x=%s@%s/y=%s@%s' % (pre, an, m1n, bn, m2n)
                                if not ctx.want(cid):
                                    continue
                                ctx.case(cid)
                                p = dict(P, grid='ladder', mag=max(m1, m2), xmag=m1, ymag=m2)
                                xs_, ys_ = gslots(int(an[1:]), 1, m1), gslots(int(bn[1:]) + 3, 1, m2)
                                a = build(ctx, cid, lcls, xs_, p)
                                b = build(ctx, cid, rcls, ys_, p)
                                if a is None or b is None:
                                    continue
                                ok, got = call(f, a, b)
                                verdict(ctx, cid, site, p, ok, got, classes, cross_expect(xs_, ys_, rcls),
                                        TOL * amax(xs_) * amax(ys_), what)
    sigs.flush(ctx)


# --------------------------------------------------------------------------- duality (v x* f).m = -f.(v x m)

BASIS7 = [b for b in BITS6 if sum(b) <= 1]


def run_dual(ctx, fcls, mcls, k, vsel, tier):
    """grid part; vsel = None (quick: basis triples) or the 2-bit prefix of v handled by this shard"""
    pool = BASIS7 if tier == 'quick' else BITS6
    vcls = 'SpatialVelocity'
    pre = 'C20/dual/f=%s/m=%s/k=%d' % (CODE[fcls], CODE[mcls], k)
    P = {'lcls': vcls, 'rcls': mcls, 'fcls': fcls, 'op': 'duality', 'm': 1, 'n': 1, 'grid': 'basis', 'mag': k}
    site = 'SpatialM6.cross'
    for vb in pool:
        if vsel is not None and vb[:2] != vsel:
            continue
        vs = bstr(vb)
        if ctx.only is not None and ('/v=%s/' % vs) not in ctx.only:
            continue
        v = k * np.array(vb, dtype=float)
        pv = dict(P)
        cidv = '%s/v=%s/prep' % (pre, vs)
        V = build(ctx, cidv, vcls, [v], pv)
        if V is None:
            continue
        # library results, one per (v, m) and per (v, f)
        vxm, vxf = {}, {}
        for b in pool:
            x = k * np.array(b, dtype=float)
            M = build(ctx, cidv, mcls, [x], pv)
            F = build(ctx, cidv, fcls, [x], pv)
            for store, obj, want_cls in ((vxm, M, MOTION), (vxf, F, FORCE)):
                if obj is None:
                    continue
                ok, got = call(_cross, V, obj)
                if not ok or type(got).__name__ not in want_cls:
                    continue          # reported by the 'cross' enumeration on the same grid
                vals, _ = read6(got)
                if vals is None or len(vals) != 1 or not np.all(np.isfinite(vals[0])):
                    continue
                store[b] = (vals[0], got)
        for fb in pool:
            fs = bstr(fb)
            fv = k * np.array(fb, dtype=float)
            for mb in pool:
                cid = '%s/v=%s/f=%s/m=%s' % (pre, vs, fs, bstr(mb))
                if not ctx.want(cid):
                    continue
                if fb not in vxf or mb not in vxm:
                    ctx.case(cid, trivial=True)
                    ctx.count('duality_prerequisite_failed')
                    ctx.cell('duality', '%s|%s' % (fcls, mcls), 'prerequisite cross product failed')
                    continue
                triv = not (any(vb) and any(fb) and any(mb))
                ctx.case(cid, trivial=triv)
                mv = k * np.array(mb, dtype=float)
                lhs = float(vxf[fb][0] @ mv)
                rhs = -float(fv @ vxm[mb][0])
                if lhs != rhs:
                    ctx.cell('duality', '%s|%s' % (fcls, mcls), 'mismatch')
                    ctx.fail(cid, site, 'mismatch', P, '(v x* f).m = %r but -f.(v x m) = %r for v=%r f=%r m=%r' %
                             (lhs, rhs, v.tolist(), fv.tolist(), mv.tolist()))
                else:
                    ctx.cell('duality', '%s|%s' % (fcls, mcls), 'ok')
                # the library's own scalar product on the basis triples
                if sum(vb) <= 1 and sum(fb) <= 1 and sum(mb) <= 1:
                    ok, d = call(vxf[fb][1].dot, mv)
                    pd = dict(P, op='dot')
                    if not ok:
                        ctx.fail(cid, 'SpatialF6.dot', 'raises:' + type(d).__name__, pd, 'dot(ndarray(6,)) raised %r' % (d,))
                    elif not (np.ndim(d) == 0 and float(d) == lhs):
                        ctx.fail(cid, 'SpatialF6.dot', 'mismatch', pd, 'dot gives %r, sum of products %r' % (d, lhs))


def run_dualnum(ctx, fcls, mcls, tier, seed):
    vcls = 'SpatialVelocity'
    site = 'SpatialM6.cross'
    gen = alph.pick(G_VEC6, tier, seed)
    pre = 'C20/dual/f=%s/m=%s/ladder' % (CODE[fcls], CODE[mcls])
    for gn, _ in gen:
        gi = int(gn[1:])
        g = [np.array(G_VEC6[(gi + d) % 16], dtype=float) for d in (0, 3, 7)]
        for vn, vm in mags(tier):
            for fn, fm in mags(tier):
                for mn, mm in mags(tier):
                    cid = '%s/t=%s/v@%s/f@%s/m@%s' % (pre, gn, vn, fn, mn)
                    if not ctx.want(cid):
                        continue
                    P = {'lcls': vcls, 'rcls': mcls, 'fcls': fcls, 'op': 'duality', 'm': 1, 'n': 1, 'grid': 'ladder',
                         'mag': max(vm, fm, mm), 'vmag': vm, 'fmag': fm, 'mmag': mm}
                    v, fv, mv = vm * g[0], fm * g[1], mm * g[2]
                    V, F, M = build(ctx, cid, vcls, [v], P), build(ctx, cid, fcls, [fv], P), build(ctx, cid, mcls, [mv], P)
                    if V is None or F is None or M is None:
                        continue
                    ok1, a = call(_cross, V, F)
                    ok2, b = call(_cross, V, M)
                    va = read6(a)[0] if ok1 and type(a).__name__ in FORCE else None
                    vb = read6(b)[0] if ok2 and type(b).__name__ in MOTION else None
                    if not va or not vb or len(va) != 1 or len(vb) != 1 or \
                            not (np.all(np.isfinite(va[0])) and np.all(np.isfinite(vb[0]))):
                        ctx.case(cid, trivial=True)
                        ctx.count('duality_prerequisite_failed')
                        continue
                    ctx.case(cid)
                    lhs, rhs = float(va[0] @ mv), -float(fv @ vb[0])
                    scale = math.sqrt(float(v @ v) * float(fv @ fv) * float(mv @ mv))
                    if not (abs(lhs - rhs) <= TOL * scale):
                        ctx.fail(cid, site, 'mismatch', P, '(v x* f).m = %r, -f.(v x m) = %r, |v||f||m| = %.3g' % (lhs, rhs, scale))


# --------------------------------------------------------------------------- spatial inertia

SPD3 = [np.diag([1.0, 2.0, 3.0]),
        np.array([[2.0, -1, 0], [-1, 2, -1], [0, -1, 2]]),
        np.array([[3.0, 1, 1], [1, 3, 1], [1, 1, 3]])]

# integer inertias (mass, centre of mass, SPD rotational inertia)
INT_INERTIA = [('i0', 1, (0, 0, 0), np.diag([3.0, 3, 3])),
               ('i1', 2, (1, 0, 0), np.array([[3.0, 1, 0], [1, 4, 0], [0, 0, 3]])),
               ('i2', 1, (0, 1, 2), np.array([[4.0, 0, 1], [0, 3, 1], [1, 1, 4]])),
               ('i3', 3, (1, 2, 3), np.array([[3.0, 1, 1], [1, 3, 1], [1, 1, 3]])),
               ('i4', 2, (-1, 0, 2), np.diag([3.0, 4, 4])),
               ('i5', 1, (2, -1, 1), np.array([[4.0, 1, 0], [1, 4, 1], [0, 1, 3]]))]

# generic inertias
GEN_INERTIA = [(0.5 + 0.37 * i, alph.G_VEC3[i], SPD3[i % 3] * (1 + 0.25 * i)) for i in range(16)]


def mk_inertia(ctx, cid, m, r, J, params, tol):
    """SpatialInertia(m, r, J) checked against the parallel-axis matrix; returns (object or None, reference)"""
    _, sv = lib()
    site = 'SpatialInertia.__init__'
    R = inertia_ref(m, r, J)
    ok, o = call(sv.SpatialInertia, m, np.array(r, dtype=float), np.array(J, dtype=float))
    cell = 'SpatialInertia(m,r,J)'
    if not ok:
        ctx.cell(site, cell, 'raises:' + type(o).__name__)
        ctx.fail(cid, site, 'raises:' + type(o).__name__, params, 'SpatialInertia(%r, %r, J) raised %r' % (m, list(r), o))
        return None, R
    if type(o).__name__ != 'SpatialInertia':
        ctx.fail(cid, site, 'returns:' + type(o).__name__, params, 'constructor gave a %s' % type(o).__name__)
        return None, R
    d = getattr(o, 'data', None)
    if not (isinstance(d, list) and len(d) == 1 and isinstance(d[0], np.ndarray) and d[0].shape == (6, 6)
            and d[0].dtype != object and not np.iscomplexobj(d[0])):
        ctx.cell(site, cell, 'malformed')
        ctx.fail(cid, site, 'mismatch', params, 'value is not one real 6x6 array: %r' % (d,))
        return None, R
    A = d[0].astype(float)
    if not np.all(np.isfinite(A)):
        ctx.cell(site, cell, 'nonfinite')
        ctx.fail(cid, site, 'nonfinite', params, 'inertia matrix has non-finite entries')
        return None, R
    asym = float(np.abs(A - A.T).max())
    if asym > tol:
        ctx.cell(site, cell, 'asymmetric')
        ctx.fail(cid, site, 'mismatch', params, 'inertia matrix not symmetric: max |A - A^T| = %.3g' % asym)
        return None, R
    dd = float(np.abs(A - R).max())
    if dd > tol:
        ctx.cell(site, cell, 'mismatch')
        i, j = np.unravel_index(int(np.abs(A - R).argmax()), (6, 6))
        ctx.fail(cid, site, 'mismatch', params, 'entry (%d,%d) is %r, parallel-axis matrix has %r (m=%r r=%r)' %
                 (i, j, A[i, j], R[i, j], m, list(r)))
        return None, R
    ctx.cell(site, cell, 'ok')
    return o, R


def run_ictor_grid(ctx, k):
    pre = 'C20/ictor/grid/k=%d' % k
    _, sv = lib()
    sigs = Sigs()
    for m in (1, 2):
        for r in itertools.product((0, 1, 2), repeat=3):
            for jb in BITS6:
                cid = '%s/m=%d/r=%s/J=%s' % (pre, m, bstr(r), bstr(jb))
                if not ctx.want(cid):
                    continue
                ctx.case(cid)
                J = np.array([[3 + jb[0], jb[3], jb[4]], [jb[3], 3 + jb[1], jb[5]], [jb[4], jb[5], 3 + jb[2]]], dtype=float)
                P = {'lcls': 'SpatialInertia', 'rcls': '-', 'op': 'ctor', 'm': 1, 'n': 1, 'grid': 'basis', 'mag': k}
                mk_inertia(ctx, cid, float(k * m), k * np.array(r, dtype=float), k * J, P, 0.0)
                if k == 1:
                    sigs.run('SpatialInertia.__init__', sv.SpatialInertia, float(m), np.array(r, dtype=float), J)
    sigs.flush(ctx)


def mass_letters(tier):
    return alph.magnitudes(tier, -3, 3)


def run_ictor_num(ctx, mname, tier, seed):
    mval = dict(mass_letters(tier))[mname]
    rs = alph.pick(alph.G_VEC3, tier, seed)
    for rmn, rm in mags(tier):
        for rn, rv in rs:
            for ji, J0 in enumerate(SPD3):
                for jmn, jm in mags(tier):
                    cid = 'C20/ictor/ladder/m=%s/r=%s@%s/J=spd%d@%s' % (mname, rn, rmn, ji, jmn)
                    if not ctx.want(cid):
                        continue
                    ctx.case(cid)
                    r = rm * np.array(rv, dtype=float)
                    J = jm * J0
                    R = inertia_ref(mval, r, J)
                    P = {'lcls': 'SpatialInertia', 'rcls': '-', 'op': 'ctor', 'm': 1, 'n': 1, 'grid': 'ladder',
                         'mag': float(np.abs(R).max()), 'mass': mval, 'rmag': rm, 'Jmag': jm}
                    mk_inertia(ctx, cid, mval, r, J, P, TOL * float(np.abs(R).max()))


def inertia_letters(tier, seed):
    """[(name, m, r, J, exact)] : integer inertias dilated + generic inertias on the scale ladder"""
    out = []
    for nm, m, r, J in INT_INERTIA:
        for k in DIL:
            out.append(('%s*%d' % (nm, k), float(k * m), np.array(r, dtype=float), k * J, True, float(k)))
    for gn, _ in alph.pick(GEN_INERTIA, tier, seed):
        m, r, J = GEN_INERTIA[int(gn[1:])]
        for sn, s in mags(tier):
            out.append(('%s@%s' % (gn, sn), s * m, np.array(r, dtype=float), s * J, False, s))
    return out


def run_iadd(ctx, part, nparts, tier, seed):
    site = 'SpatialInertia.__add__'
    L = inertia_letters(tier, seed)
    for ia, (an, am, ar, aJ, aex, amag) in enumerate(L):
        if ia % nparts != part:
            continue
        for bn, bm, br, bJ, bex, bmag in L:
            if aex != bex:
                continue        # exact letters pair with exact letters, ladder letters with ladder letters
            cid = 'C20/iadd/a=%s/b=%s' % (an, bn)
            if not ctx.want(cid):
                continue
            ctx.case(cid)
            P = {'lcls': 'SpatialInertia', 'rcls': 'SpatialInertia', 'op': 'add', 'm': 1, 'n': 1,
                 'grid': 'basis' if aex else 'ladder', 'mag': max(amag, bmag), 'same': int(an == bn)}
            Ra, Rb = inertia_ref(am, ar, aJ), inertia_ref(bm, br, bJ)
            tol = 0.0 if aex else TOL * max(float(np.abs(Ra).max()), float(np.abs(Rb).max()))
            A, _ = mk_inertia(ctx, cid, am, ar, aJ, dict(P, op='ctor'), tol)
            B, _ = mk_inertia(ctx, cid, bm, br, bJ, dict(P, op='ctor'), tol)
            if A is None or B is None:
                continue
            ok, got = call(operator.add, A, B)
            if not ok:
                ctx.cell(site, 'raises:' + type(got).__name__)
                ctx.fail(cid, site, 'raises:' + type(got).__name__, P, 'SpatialInertia + SpatialInertia raised %s: %s' %
                         (type(got).__name__, got))
                continue
            if type(got).__name__ != 'SpatialInertia':
                ctx.cell(site, 'returns:' + type(got).__name__)
                ctx.fail(cid, site, 'returns:' + type(got).__name__, P, 'sum of inertias is a %s' % type(got).__name__)
                continue
            d = getattr(got, 'data', None)
            if not (isinstance(d, list) and len(d) == 1 and np.asarray(d[0]).shape == (6, 6) and np.asarray(d[0]).dtype != object):
                ctx.fail(cid, site, 'mismatch', P, 'sum is not one 6x6 array: %r' % (d,))
                continue
            S = np.asarray(d[0], dtype=float)
            if not np.all(np.isfinite(S)):
                ctx.fail(cid, site, 'nonfinite', P, 'sum has non-finite entries')
                continue
            dd = float(np.abs(S - (Ra + Rb)).max())
            if dd > tol:
                ctx.cell(site, 'mismatch')
                ctx.fail(cid, site, 'mismatch', P, 'I1 + I2 differs from the matrix sum by %.3g (2*I1 differs from it by %.3g)' %
                         (dd, float(np.abs(S - 2 * Ra).max())))
            else:
                ctx.cell(site, 'ok')


def run_imul(ctx, xcls, tier, seed):
    site = 'SpatialInertia.__mul__'
    rescls = 'SpatialForce' if xcls == 'SpatialAcceleration' else 'SpatialMomentum'
    L = inertia_letters(tier, seed)
    gen = alph.pick(G_VEC6, tier, seed)
    for an, am, ar, aJ, aex, amag in L:
        R = inertia_ref(am, ar, aJ)
        Rmax = float(np.abs(R).max())
        base_tol = 0.0 if aex else TOL * Rmax
        P0 = {'lcls': 'SpatialInertia', 'rcls': xcls, 'op': 'mul', 'm': 1}
        cases = []
        if aex:
            for k in DIL:
                for xb in BITS6:
                    cases.append(('n=1/k=%d/x=%s' % (k, bstr(xb)), [k * np.array(xb, dtype=float)], 'basis', k, not any(xb)))
                for n in LENS[1:]:
                    for i in range(6):
                        cases.append(('n=%d/k=%d/i=%d' % (n, k, i), slots(i, n, k), 'basis', k, False))
        else:
            for gn, _ in gen:
                for sn, s in mags(tier):
                    cases.append(('n=1/x=%s@%s' % (gn, sn), gslots(int(gn[1:]), 1, s), 'ladder', s, False))
        for ln, xs_, grid, xmag, triv in cases:
            cid = 'C20/imul/I=%s/%s/%s' % (an, CODE[xcls], ln)
            if not (ctx.want(cid) or ctx.want(cid + '/reflected')):
                continue
            ctx.case(cid, trivial=triv)
            P = dict(P0, n=len(xs_), multi=int(len(xs_) > 1), grid=grid, mag=max(amag, xmag), Imag=amag, xmag=xmag)
            A, _ = mk_inertia(ctx, cid, am, ar, aJ, dict(P, op='ctor'), base_tol)
            x = build(ctx, cid, xcls, xs_, P)
            if A is None or x is None:
                continue
            ok, got = call(operator.mul, A, x)
            tol = 0.0 if aex else TOL * Rmax * amax(xs_)
            verdict(ctx, cid, site, P, ok, got, (rescls,), [R @ v for v in xs_], tol,
                    'SpatialInertia * %s(%d)' % (xcls, len(xs_)))
            # the reflected form documented by SpatialInertia.__rmul__ (x * I): the same product, the same class of result
            cidr = cid + '/reflected'
            if ctx.want(cidr):
                ctx.case(cidr, trivial=triv)
                A2, _ = mk_inertia(ctx, cidr, am, ar, aJ, dict(P, op='ctor'), base_tol)
                x2 = build(ctx, cidr, xcls, xs_, P)
                if A2 is not None and x2 is not None:
                    ok, got = call(operator.mul, x2, A2)
                    verdict(ctx, cidr, 'SpatialInertia.__rmul__', dict(P, op='rmul'), ok, got, (rescls,), [R @ v for v in xs_], tol,
                            '%s(%d) * SpatialInertia' % (xcls, len(xs_)))


# --------------------------------------------------------------------------- SE3 * spatial vector

PROT = [('I', np.eye(3)),
        ('Rx90', np.array([[1.0, 0, 0], [0, 0, -1], [0, 1, 0]])),
        ('Ry90', np.array([[0.0, 0, 1], [0, 1, 0], [-1, 0, 0]])),
        ('Rz90', np.array([[0.0, -1, 0], [1, 0, 0], [0, 0, 1]])),
        ('Rz180', np.diag([-1.0, -1, 1])),
        ('Rx90Ry90', np.array([[1.0, 0, 0], [0, 0, -1], [0, 1, 0]]) @ np.array([[0.0, 0, 1], [0, 1, 0], [-1, 0, 0]]))]
PTR = [('0', (0, 0, 0)), ('ex', (1, 0, 0)), ('123', (1, 2, 3)), ('-201', (-2, 0, 1))]


def pose_letters(tier, seed):
    """[(name, 4x4, exact)]: exact integer poses + the full product generator rotations x translations"""
    out = []
    for rn, R in PROT:
        for tn, t in PTR:
            out.append(('P:%s|t=%s' % (rn, tn), ref.rt(R, np.array(t, dtype=float)), True))
    for rn, R in alph.gen_SO3(tier, seed):
        for tn, t in alph.translations(3, tier, seed):
            out.append(('%s|t=%s' % (rn, tn), ref.rt(R, t), False))
    return out


def run_rmul(ctx, cls, part, nparts, tier, seed):
    sm, sv = lib()
    site = 'SpatialVector.__rmul__'
    gen = alph.pick(G_VEC6, tier, seed)
    for it, (tname, T, exact) in enumerate(pose_letters(tier, seed)):
        if it % nparts != part:
            continue
        if ctx.only is not None and ('/T=%s/' % tname) not in ctx.only:
            continue
        Ad = ref.adjoint(T)
        Mx = Ad if cls in MOTION else Ad.T
        amx = float(np.abs(Ad).max())
        tmag = max(1.0, float(np.abs(T[:3, 3]).max()))
        P0 = {'lcls': 'SE3', 'rcls': cls, 'op': 'rmul', 'm': 1, 'T': tname, 'tmag': tmag, 'exactT': int(exact)}
        ok, X = call(sm.SE3, T.copy(), check=False)
        if not ok:
            raise HarnessError('SE3(matrix, check=False) raised %r for %s' % (X, tname))
        # the library adjoint itself (once per pose and class so that the case id stays class-local)
        cid = 'C20/rmul/%s/T=%s/Ad' % (CODE[cls], tname)
        if ctx.want(cid):
            ctx.case(cid, trivial=(tname in ('P:I|t=0', 'I|t=0')))
            okA, LA = call(X.Ad)
            pa = dict(P0, op='Ad', n=1, grid='basis' if exact else 'ladder', mag=amx)
            if not okA:
                ctx.fail(cid, 'SE3.Ad', 'raises:' + type(LA).__name__, pa, 'SE3.Ad() raised %r' % (LA,))
            elif not (isinstance(LA, np.ndarray) and LA.shape == (6, 6) and LA.dtype != object):
                ctx.fail(cid, 'SE3.Ad', 'mismatch', pa, 'SE3.Ad() is not a 6x6 array')
            elif not np.all(np.isfinite(LA)):
                ctx.fail(cid, 'SE3.Ad', 'nonfinite', pa, 'SE3.Ad() has non-finite entries')
            elif float(np.abs(LA - Ad).max()) > (0.0 if exact else TOL * amx):
                ctx.fail(cid, 'SE3.Ad', 'mismatch', pa, 'SE3.Ad() differs from [R, skew(t)R; 0, R] by %.3g' %
                         float(np.abs(LA - Ad).max()))
        cases = []
        for k in DIL:
            for i in range(6):
                cases.append(('n=1/e%d*%d' % (i, k), [k * E6[i]], 'basis', k))
            for n in LENS[1:]:
                for i in range(6):
                    cases.append(('n=%d/k=%d/i=%d' % (n, k, i), slots(i, n, k), 'basis', k))
        for gn, _ in gen:
            for sn, s in mags(tier):
                cases.append(('n=1/x=%s@%s' % (gn, sn), gslots(int(gn[1:]), 1, s), 'ladder', s))
        for ln, xs_, grid, xmag in cases:
            cid = 'C20/rmul/%s/T=%s/%s' % (CODE[cls], tname, ln)
            if not ctx.want(cid):
                continue
            ctx.case(cid)
            P = dict(P0, n=len(xs_), multi=int(len(xs_) > 1), grid=grid, mag=xmag)
            x = build(ctx, cid, cls, xs_, P)
            if x is None:
                continue
            ok, got = call(operator.mul, X, x)
            tol = 0.0 if (exact and grid == 'basis') else TOL * amx * amax(xs_)
            verdict(ctx, cid, site, P, ok, got, (cls,), [Mx @ v for v in xs_], tol,
                    'SE3 * %s(%d) [%s]' % (cls, len(xs_), 'Ad(T) x' if cls in MOTION else 'Ad(T)^T x'))
        # the same pose value in an object with a history (it transformed spatial vectors while it held another value)
        def warm(o):
            for c_ in CLS:
                try:
                    o * getattr(sv, c_)(np.arange(1.0, 7.0))
                except Exception:
                    pass
        for tag, Xh in hist.variants(X, warm, fresh=False):
            for i in range(6):
                cid = 'C20/rmul/%s/T=%s/hist=%s/e%d' % (CODE[cls], tname, tag, i)
                if not ctx.want(cid):
                    continue
                ctx.case(cid)
                P = dict(P0, n=1, multi=0, grid='basis', mag=1, hist=tag)
                x = build(ctx, cid, cls, [E6[i]], P)
                if x is None:
                    continue
                ok, got = call(operator.mul, Xh, x)
                verdict(ctx, cid, site, P, ok, got, (cls,), [Mx @ E6[i]], 0.0 if exact else TOL * amx, 'SE3 (after %s) * %s' % (tag, cls))


# --------------------------------------------------------------------------- informational probes

def run_info(ctx, tier, seed):
    """entry points that the anchors name but the statement does not constrain: outcomes are notes and cells"""
    sm, sv = lib()

    def probe(name, f, describe=None):
        cid = 'C20/info/' + name
        if not ctx.want(cid):
            return
        ctx.case(cid, trivial=True)
        ok, got = call(f)
        if ok:
            out = 'returns %s' % type(got).__name__
            if describe is not None:
                out += ' ' + describe(got)
        else:
            out = 'raises %s: %s' % (type(got).__name__, str(got)[:80])
        ctx.cell('info', name, out.split(':')[0][:60])
        ctx.note('info', '%s -> %s' % (name, out))

    T = ref.rt(ref.rodrigues((1, 2, 3), 0.7), np.array([0.5, -1.5, 2.0]))
    Ad = ref.adjoint(T)
    X = sm.SE3(T.copy(), check=False)
    x6 = np.array(G_VEC6[0], dtype=float)
    ok, tw = call(sm.Twist3, X)
    for cls in CLS:
        C = getattr(sv, cls)
        want = (Ad if cls in MOTION else Ad.T) @ x6
        if ok:
            probe('Twist3*%s' % cls, lambda: tw * C(x6.copy()))
            probe('%s.__rmul__(Twist3)' % cls, lambda: C(x6.copy()).__rmul__(tw),
                  lambda r: 'value within 1e-9 of %s: %s' % ('Ad x' if cls in MOTION else 'Ad^T x',
                                                            bool(np.abs(np.asarray(r.A, dtype=float) - want).max() <= 1e-9 * np.abs(want).max())))
        probe('%s.__rmul__(2.0)' % cls, lambda: C(x6.copy()).__rmul__(2.0))
        probe('%s*SpatialInertia' % cls, lambda: C(x6.copy()) * sv.SpatialInertia(2.0, [1, 2, 3], np.diag([1.0, 2, 3])))
        probe('SpatialInertia*%s' % cls, lambda: sv.SpatialInertia(2.0, [1, 2, 3], np.diag([1.0, 2, 3])) * C(x6.copy()))
        probe('SpatialAcceleration.cross(%s)' % cls, lambda: sv.SpatialAcceleration(x6.copy()).cross(C(E6[1].copy())),
              lambda r: 'value %s' % np.asarray(r.A).tolist())
        probe('SpatialAcceleration@%s' % cls, lambda: sv.SpatialAcceleration(x6.copy()) @ C(E6[1].copy()))
    probe('SpatialInertia()', lambda: sv.SpatialInertia(), lambda r: 'zero matrix: %s' % bool(np.all(r.A == 0)))
    probe('SpatialInertia(6x6)', lambda: sv.SpatialInertia(np.arange(36.0).reshape(6, 6)),
          lambda r: 'holds the matrix: %s' % bool(np.all(r.A == np.arange(36.0).reshape(6, 6))))
    probe('SpatialInertia(m,r)', lambda: sv.SpatialInertia(2.0, [1, 2, 3]),
          lambda r: 'equals J=0 parallel-axis matrix: %s' % bool(np.all(r.A == inertia_ref(2.0, (1, 2, 3), np.zeros((3, 3))))))
    probe('SpatialInertia(m)', lambda: sv.SpatialInertia(2.0))
    probe('SpatialInertia+ndarray', lambda: sv.SpatialInertia(2.0, [1, 2, 3], np.eye(3)) + np.eye(6))

    # power pairing under the documented transformation rule (Featherstone: f' = X^-T f keeps f.v invariant)
    def power():
        f = sv.SpatialForce(np.array(G_VEC6[1], dtype=float))
        v = sv.SpatialVelocity(x6.copy())
        return float(np.dot((X * f).A, (X * v).A)), float(np.dot(f.A, v.A))
    probe('power (T*f).(T*v) vs f.v', power, lambda r: '%r vs %r' % r)


# --------------------------------------------------------------------------- shards

def run_sequences(ctx, tier, seed):
    """operation sequences on the SAME objects (added after a seeded change that accumulated A + B into A): every later
    result must be what the reference computes from the values the objects were built with"""
    import spatialmath as sm
    def inertia(m, c, d):
        return sm.SpatialInertia(m, c, np.diag(d))
    specs = [(2.0, [0.1, 0.2, 0.3], [1.0, 2.0, 3.0]), (0.5, [-0.3, 0.0, 0.2], [0.4, 0.5, 0.6]), (3.0, [0.0, 0.0, 0.0], [2.0, 2.0, 1.0]), (1e-3, [1.0, -1.0, 0.5], [1e-3, 2e-3, 1e-3])]
    a = np.array([1.0, -2.0, 0.5, 0.3, 0.2, -0.1])
    for i, j, k in itertools.permutations(range(len(specs)), 3):
        cid = 'C20/seq/%d.%d.%d' % (i, j, k)
        if not ctx.want(cid):
            continue
        ctx.case(cid, key=cid)
        P = dict(op='sequence', lcls='SpatialInertia', rcls='SpatialInertia', i=i, j=j, k=k)
        A, B, C = inertia(*specs[i]), inertia(*specs[j]), inertia(*specs[k])
        MA, MB, MC = A.A.copy(), B.A.copy(), C.A.copy()
        ok, r = call(lambda: ((A + B).A.copy(), (A + C).A.copy(), (A + B).A.copy(), (A * sm.SpatialAcceleration(a.copy())).A.copy(), (B + A).A.copy(), A.A.copy()))
        if not ok:
            ctx.fail(cid, 'SpatialInertia.__add__', 'raises:' + type(r).__name__, P, '%r' % (r,))
            continue
        want = (MA + MB, MA + MC, MA + MB, MA @ a, MB + MA, MA)
        names = ('A+B', 'A+C after A+B', 'A+B again', 'A*a after the sums', 'B+A', 'A itself')
        for got, w, nm in zip(r, want, names):
            sc = max(1.0, float(np.abs(w).max()))
            if np.abs(np.asarray(got) - w).max() > 1e-9 * sc:
                ctx.fail(cid, 'SpatialInertia.__add__', 'mismatch', dict(P, what=nm), '%s differs from the reference by %.3g' % (nm, np.abs(np.asarray(got) - w).max()))
                break
    # vectors: sums and differences re-using the operands
    for cn in ('SpatialVelocity', 'SpatialForce'):
        Cc = getattr(sm, cn)
        x, y = np.array([1.0, 2, 3, 4, 5, 6]), np.array([0.5, -1, 2, 0.1, 0.2, -0.3])
        cid = 'C20/seq/%s' % cn
        if not ctx.want(cid):
            continue
        ctx.case(cid, key=cid)
        X, Y = Cc(x.copy()), Cc(y.copy())
        ok, r = call(lambda: ((X + Y).A.copy(), (X - Y).A.copy(), (-X).A.copy(), (X + Y).A.copy(), X.A.copy(), Y.A.copy()))
        P = dict(op='sequence', lcls=cn, rcls=cn)
        if not ok:
            ctx.fail(cid, 'SpatialVector.__add__', 'raises:' + type(r).__name__, P, '%r' % (r,))
        else:
            for got, w, nm in zip(r, (x + y, x - y, -x, x + y, x, y), ('X+Y', 'X-Y', '-X', 'X+Y again', 'X itself', 'Y itself')):
                if not np.array_equal(np.asarray(got), w):
                    ctx.fail(cid, 'SpatialVector.__add__', 'mismatch', dict(P, what=nm), '%s is %s, expected %s' % (nm, np.asarray(got).tolist(), w.tolist()))
                    break


def run_copies(ctx):
    """the operands are copies (copy constructor, .copy(), copy.copy, copy.deepcopy, pickle) and the copy is changed by a list operation
    before the ORIGINAL is used: add / subtract / negate / pose * v / inertia * v on the original are unaffected, for 1..3 values"""
    import copy as _copy
    import pickle as _pickle
    import spatialmath as sm
    T = ref.rt(ref.rotx(0.3) @ ref.roty(-0.2), (1.0, 2.0, 3.0))
    Ad = ref.adjoint(T)
    I_ = sm.SpatialInertia(2.0, [0.1, 0.2, 0.3], np.diag([1.0, 2.0, 3.0]))
    IA = np.asarray(I_.A, dtype=float).copy()
    copiers = (('ctor', lambda x: type(x)(x)), ('copy()', lambda x: x.copy()), ('copy.copy', _copy.copy), ('deepcopy', _copy.deepcopy), ('pickle', lambda x: _pickle.loads(_pickle.dumps(x))))
    muts = (('setitem', lambda c: c.__setitem__(0, type(c)(np.arange(10.0, 16.0)))), ('append', lambda c: c.append(type(c)(np.arange(10.0, 16.0)))), ('pop', lambda c: c.pop()),
            ('reverse', lambda c: c.reverse()), ('clear', lambda c: c.clear()))      # (writing into c.data[i] in place is not a list operation: shallow copies share the value arrays)
    for cn in CLS:
        Cc = getattr(sm, cn)
        for n, (kn, kf), (mn, mf) in itertools.product((1, 2, 3), copiers, muts):
            cid = 'C20/copy/%s/n=%d/%s/%s' % (CODE[cn], n, kn, mn)
            if not ctx.want(cid):
                continue
            ctx.case(cid, key=cid)
            xs = [np.array([1.0, 2, 3, 4, 5, 6]) * (j + 1) for j in range(n)]
            ys = [np.array([0.5, -1, 2, 0.1, 0.2, -0.3]) + j for j in range(n)]
            X = Cc(xs[0].copy())
            X.data = [v.copy() for v in xs]
            Y = Cc(ys[0].copy())
            Y.data = [v.copy() for v in ys]
            P = dict(op='copy', lcls=cn, rcls=cn, n=n, copier=kn, mutation=mn)
            okc, c = call(kf, X)
            if not okc:
                ctx.note('copy_refused', '%s %s -> %s' % (cn, kn, type(c).__name__))
                continue
            if type(c) is not Cc or len(c.data) != n or any(not np.array_equal(a_, b_) for a_, b_ in zip(c.data, xs)):
                ctx.fail(cid, 'SpatialVector.__init__', 'mismatch', dict(P, what='copy'), 'the %s of %d values holds %r' % (kn, n, [np.asarray(d).tolist() for d in getattr(c, 'data', [])]))
                continue
            call(mf, c)
            ok, r = call(lambda: ([np.asarray(d, dtype=float).copy() for d in X.data], [np.asarray(d, dtype=float) for d in (X + Y).data], [np.asarray(d, dtype=float) for d in (X - Y).data],
                                  [np.asarray(d, dtype=float) for d in (-X).data], [np.asarray(d, dtype=float) for d in (sm.SE3(T.copy()) * X).data]))
            if not ok:
                ctx.fail(cid, 'SpatialVector.__add__', 'raises:' + type(r).__name__, P, 'after the %s was changed by %s, using the original raised %r' % (kn, mn, r))
                continue
            Mx = Ad if cn in MOTION else Ad.T
            wants = (xs, [a_ + b_ for a_, b_ in zip(xs, ys)], [a_ - b_ for a_, b_ in zip(xs, ys)], [-a_ for a_ in xs], [Mx @ a_ for a_ in xs])
            for nm_, got, want in zip(('X itself', 'X+Y', 'X-Y', '-X', 'T*X'), r, wants):
                if len(got) != len(want) or any(np.abs(g_ - w_).max() > 1e-9 * max(1.0, float(np.abs(w_).max())) for g_, w_ in zip(got, want)):
                    ctx.fail(cid, 'SpatialVector.__init__', 'mismatch', dict(P, what=nm_), 'after the %s was changed by %s: %s of the original is wrong' % (kn, mn, nm_))
                    break


def run_buffers_and_long(ctx):
    """(a) an object built from a caller-owned work buffer (float64 array, integer array, list) that is refilled afterwards still holds the value it was
    built from: X + Y, X - Y, -X, T * X, I * X are those of the original numbers; (b) sums and differences of two equally long objects with 255 .. 300
    values (lengths around and above CPython's small-integer cache)"""
    import spatialmath as sm
    T = ref.rt(ref.rotx(0.3) @ ref.roty(-0.2), (1.0, 2.0, 3.0))
    Ad = ref.adjoint(T)
    x0 = np.array([1.0, 2, 3, 4, 5, 6])
    y0 = np.array([0.5, -1, 2, 0.1, 0.2, -0.3])
    for cn in CLS:
        Cc = getattr(sm, cn)
        for bn, mk, refill in (('float64', lambda: x0.copy(), lambda b: b.__setitem__(slice(None), [9.0, 8, 7, 6, 5, 4])), ('int64', lambda: x0.astype('int64'), lambda b: b.__setitem__(slice(None), [9, 8, 7, 6, 5, 4])),
                               ('list', lambda: x0.tolist(), lambda b: b.__setitem__(slice(None), [9.0, 8, 7, 6, 5, 4])), ('float32', lambda: x0.astype('float32'), lambda b: b.__setitem__(slice(None), [9.0, 8, 7, 6, 5, 4]))):
            for how in ('ctor', 'append'):
                cid = 'C20/buffer/%s/%s/%s' % (CODE[cn], bn, how)
                if not ctx.want(cid):
                    continue
                ctx.case(cid, key=cid)
                P = dict(op='buffer', lcls=cn, rcls=cn, buffer=bn, how=how)
                buf = mk()
                ok, X = call(lambda: Cc(buf))
                if not ok:
                    continue
                if how == 'append':
                    okx, _ = call(lambda: X.append(Cc(buf)))
                    if not okx:
                        continue
                nval = len(X.data)
                refill(buf)
                Y = Cc(y0.copy())
                ok, r = call(lambda: ([np.asarray(d, dtype=float).copy() for d in X.data], [np.asarray(d, dtype=float) for d in (-X).data], [np.asarray(d, dtype=float) for d in (sm.SE3(T.copy()) * X).data]))
                if not ok:
                    ctx.fail(cid, 'SpatialVector.__init__', 'raises:' + type(r).__name__, P, 'using an object whose construction buffer was refilled raised %r' % (r,))
                    continue
                Mx = Ad if cn in MOTION else Ad.T
                for nm_, got, want in zip(('X itself', '-X', 'T*X'), r, ([x0] * nval, [-x0] * nval, [Mx @ x0] * nval)):
                    if len(got) != len(want) or any(np.abs(g_ - w_).max() > 1e-6 * max(1.0, float(np.abs(w_).max())) for g_, w_ in zip(got, want)):
                        ctx.fail(cid, 'SpatialVector.__init__', 'mismatch', dict(P, what=nm_), 'after the %s buffer the object was built from was refilled: %s is computed from the new numbers' % (bn, nm_))
                        break
        for N in (255, 256, 257, 258, 300):
            for opn, of in (('add', lambda a, b: a + b), ('sub', lambda a, b: a - b)):
                cid = 'C20/long/%s/%s/N=%d' % (CODE[cn], opn, N)
                if not ctx.want(cid):
                    continue
                ctx.case(cid, key=cid)
                X = Cc(x0.copy())
                X.data = [x0 * (1 + 0.01 * j) for j in range(N)]
                Y = Cc(y0.copy())
                Y.data = [y0 - 0.5 * j for j in range(N)]
                P = dict(op=opn, lcls=cn, rcls=cn, n=N)
                ok, r = call(of, X, Y)
                if not ok:
                    ctx.fail(cid, 'SpatialVector.__%s__' % opn, 'raises:' + type(r).__name__, P, '%s of two objects of %d values raised %r' % (opn, N, r))
                    continue
                sg = 1 if opn == 'add' else -1
                if type(r) is not Cc or len(r.data) != N or any(np.abs(np.asarray(g_, dtype=float) - (a_ + sg * b_)).max() > 1e-9 * 1e3 for g_, a_, b_ in zip(r.data, X.data, Y.data)):
                    ctx.fail(cid, 'SpatialVector.__%s__' % opn, 'mismatch', P, '%s of two objects of %d values is not element-wise' % (opn, N))


def shards(tier, seed):
    out = [('sequences',), ('copies',), ('buffers',)]
    for lcls in CLS:
        for opn in ('add', 'sub'):
            out.append(('arith', lcls, opn))
    out.append(('neg',))
    for via in ('cross', 'matmul'):
        for rcls in CLS:
            out.append(('cross', via, rcls))
    for fcls in FORCE:
        for mcls in MOTION:
            if tier == 'quick':
                out.append(('dual', fcls, mcls, None, None))
            else:
                for k in DIL:
                    for vsel in itertools.product((0, 1), repeat=2):
                        out.append(('dual', fcls, mcls, k, vsel))
            out.append(('dualnum', fcls, mcls))
    for k in DIL:
        out.append(('ictor', k))
    for mn, _ in mass_letters(tier):
        out.append(('ictornum', mn))
    na = 2 if tier == 'quick' else 8
    for part in range(na):
        out.append(('iadd', part, na))
    for xcls in MOTION:
        out.append(('imul', xcls))
    nr = 2 if tier == 'quick' else 8
    for cls in CLS:
        for part in range(nr):
            out.append(('rmul', cls, part, nr))
    out.append(('info',))
    return out


def run_shard(ctx, shard):
    tier, seed = ctx.tier, ctx.seed
    kind = shard[0]
    if kind == 'arith':
        run_arith(ctx, shard[1], shard[2], tier, seed)
    elif kind == 'neg':
        run_neg(ctx, tier, seed)
    elif kind == 'cross':
        run_cross(ctx, shard[1], shard[2], tier, seed)
    elif kind == 'dual':
        _, fcls, mcls, k, vsel = shard
        for kk in (DIL if k is None else (k,)):
            run_dual(ctx, fcls, mcls, kk, vsel, tier)
    elif kind == 'dualnum':
        run_dualnum(ctx, shard[1], shard[2], tier, seed)
    elif kind == 'ictor':
        run_ictor_grid(ctx, shard[1])
    elif kind == 'ictornum':
        run_ictor_num(ctx, shard[1], tier, seed)
    elif kind == 'iadd':
        run_iadd(ctx, shard[1], shard[2], tier, seed)
    elif kind == 'imul':
        run_imul(ctx, shard[1], tier, seed)
    elif kind == 'rmul':
        run_rmul(ctx, shard[1], shard[2], shard[3], tier, seed)
    elif kind == 'info':
        run_info(ctx, tier, seed)
    elif kind == 'sequences':
        run_sequences(ctx, tier, seed)
    elif kind == 'buffers':
        run_buffers_and_long(ctx)
    elif kind == 'copies':
        run_copies(ctx)
    else:
        raise HarnessError('unknown shard %r' % (shard,))
