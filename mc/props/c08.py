"""
C08  Operators are type-safe: only documented operand pairs produce a result.

E1 over the full pair table: every ordered pair of operand letters (the 16 public classes, single-
and 3-valued where the class supports it, int / float / np.float64 scalars, conforming and
non-conforming arrays, lists) x every operator of {*, /, +, -, **, @, ==, !=, ^, |}, applied through
the `operator` module so reflected methods take part.  The oracle is the data table of DESIGN.md
appendix A (transcribed from README / intro.rst / operator docstrings):
  must(cls)  the property lists the pair: a value of that class must come back (value compared with
             the reference where cheap, so a default-constructed identity is noticed),
  may(cls)   documented elsewhere: if a value comes back it must have that class; raising is fine,
  raise      every remaining pairing under * / + - ** @ must raise (never None / NotImplemented /
             an identity / an object holding foreign elements),
  free       == != between different classes, ^ | outside Plucker: only recorded.
"""
import operator, itertools, math
import numpy as np
from mc import ref
from mc.core import call, HarnessError

PROP = 'C08'
LEVEL = 'exploration'
RULE = ('all ordered pairs of ~45 operand letters x 10 operators; verdict from the appendix-A table; non-trivial = at least one '
        'operand is a library object; distinct = distinct (left letter, right letter, operator)')
ASSUME = ['the oracle table is a transcription of README / intro.rst / operator docstrings (DESIGN.md appendix A)',
          'may-pairs accept either an exception or a value of the documented class', 'comparison operators < <= > >= are outside the property']
ANCHORS = [('spatialmath.super_pose', 'SMPose.' + n) for n in ('__mul__', '__rmul__', '__truediv__', '__add__', '__sub__', '__eq__', '__ne__', '_op2', '__pow__')] + \
          [('spatialmath.quaternion', 'Quaternion.' + n) for n in ('__mul__', '__rmul__', '__add__', '__sub__', '__eq__', '__ne__', '__pow__', '__truediv__')] + \
          [('spatialmath.quaternion', 'UnitQuaternion.' + n) for n in ('__mul__', '__truediv__', '__eq__', '__ne__')] + \
          [('spatialmath.twist', 'Twist3.__mul__'), ('spatialmath.twist', 'Twist3.__rmul__'), ('spatialmath.twist', 'Twist2.__mul__'),
           ('spatialmath.twist', 'SMTwist.__eq__'), ('spatialmath.twist', 'SMTwist.__ne__'),
           ('spatialmath.geom3d', 'Plucker.__mul__'), ('spatialmath.geom3d', 'Plucker.__rmul__'), ('spatialmath.geom3d', 'Plucker.__eq__'),
           ('spatialmath.geom3d', 'Plucker.__xor__'), ('spatialmath.geom3d', 'Plucker.__or__'),
           ('spatialmath.spatialvector', 'SpatialVector.__add__'), ('spatialmath.spatialvector', 'SpatialVector.__sub__'),
           ('spatialmath.spatialvector', 'SpatialVector.__rmul__'), ('spatialmath.spatialvector', 'SpatialInertia.__mul__'),
           ('spatialmath.spatialvector', 'SpatialInertia.__add__'), ('spatialmath.DualQuaternion', 'DualQuaternion.__mul__'),
           ('spatialmath.DualQuaternion', 'DualQuaternion.__add__')]

OPS = [('*', operator.mul), ('/', operator.truediv), ('+', operator.add), ('-', operator.sub), ('**', operator.pow),
       ('@', operator.matmul), ('==', operator.eq), ('!=', operator.ne), ('^', operator.xor), ('|', operator.or_)]
OPS += [('*=', operator.imul), ('/=', operator.itruediv), ('+=', operator.iadd), ('-=', operator.isub)]     # same verdicts as the binary forms
ARITH = ('*', '/', '+', '-', '**', '@')
POSE = ('SO2', 'SE2', 'SO3', 'SE3')
XV = ('SpatialVelocity', 'SpatialAcceleration', 'SpatialForce', 'SpatialMomentum')
SCAL = ('int', 'float', 'np.float64')
DIM = {'SO2': 2, 'SE2': 2, 'SO3': 3, 'SE3': 3, 'Twist2': 2, 'Twist3': 3}


class Opd:
    def __init__(self, name, cls, make, n=1, tag=None):
        self.name, self.cls, self.make, self.n, self.tag = name, cls, make, n, tag


def operands():
    import spatialmath as sm
    out = []

    def pose_vals(c, k):
        C = getattr(sm, c)
        if c == 'SO2':
            return [ref.rot2(0.3 + 0.4 * i) for i in range(k)]
        if c == 'SE2':
            return [ref.rt(ref.rot2(0.3 + 0.4 * i), (1.0 + i, -2.0)) for i in range(k)]
        if c == 'SO3':
            return [ref.rotx(0.3 + 0.4 * i) @ ref.roty(0.2) for i in range(k)]
        return [ref.rt(ref.rotx(0.3 + 0.4 * i) @ ref.roty(0.2), (1.0 + i, -2.0, 0.5)) for i in range(k)]
    for c in POSE:
        for k in (1, 3):
            out.append(Opd('%s[%d]' % (c, k), c, (lambda c=c, k=k: getattr(sm, c)([v.copy() for v in pose_vals(c, k)])), k))
    qv = [np.array([1.0, 2, -3, 0.5]), np.array([-0.5, 1, 2, 2]), np.array([2.0, 0, 1, -1])]
    for k in (1, 3):
        out.append(Opd('Quaternion[%d]' % k, 'Quaternion', (lambda k=k: sm.Quaternion([v.copy() for v in qv[:k]])), k))
        out.append(Opd('UnitQuaternion[%d]' % k, 'UnitQuaternion', (lambda k=k: sm.UnitQuaternion([v / np.linalg.norm(v) for v in qv[:k]])), k))
    t3 = [np.array([1.0, 2, 3, 0.1, -0.2, 0.3]), np.array([0.5, -1, 2, 0.3, 0.2, -0.1]), np.array([0.0, 1, 0, 0, 0, 0.5])]
    t2 = [np.array([1.0, 2, 0.3]), np.array([0.5, -1, -0.2]), np.array([0.0, 1, 0.5])]
    for k in (1, 3):
        out.append(Opd('Twist3[%d]' % k, 'Twist3', (lambda k=k: sm.Twist3([v.copy() for v in t3[:k]])), k))
        out.append(Opd('Twist2[%d]' % k, 'Twist2', (lambda k=k: sm.Twist2([v.copy() for v in t2[:k]])), k))
    out.append(Opd('Plucker', 'Plucker', lambda: sm.Plucker.PQ([1, 2, 3], [4, 6, 9])))
    out.append(Opd('Plucker#2', 'Plucker', lambda: sm.Plucker.PQ([0, 1, 0], [1, 1, 5])))
    for c in XV:
        for k in (1, 3):
            out.append(Opd('%s[%d]' % (c, k), c, (lambda c=c, k=k: _xv(sm, c, t3[:k])), k))
    out.append(Opd('SpatialInertia', 'SpatialInertia', lambda: sm.SpatialInertia(2.0, [0.1, 0.2, 0.3], np.diag([1.0, 2, 3]))))
    out.append(Opd('DualQuaternion', 'DualQuaternion', lambda: sm.DualQuaternion(sm.Quaternion([1, 2, 3, 4]), sm.Quaternion([0.5, -1, 2, 1]))))
    out.append(Opd('UnitDualQuaternion', 'UnitDualQuaternion', lambda: sm.UnitDualQuaternion(sm.SE3(1, 2, 3) * sm.SE3.Rx(0.3))))
    # operands whose VALUE is special while their class is the general one (dispatch must go by class): a plain dual quaternion / quaternion
    # of unit norm (what conj(), Pure() or a product of unit ones return), the identity pose, the zero twist
    out.append(Opd('DualQuaternion(unit)', 'DualQuaternion', lambda: (lambda u: sm.DualQuaternion(u.real, u.dual))(sm.UnitDualQuaternion(sm.SE3(1, 2, 3) * sm.SE3.Rx(0.3)))))
    out.append(Opd('DualQuaternion(1)', 'DualQuaternion', lambda: sm.DualQuaternion(sm.Quaternion([1, 0, 0, 0]), sm.Quaternion([0, 0, 0, 0]))))
    out.append(Opd('Quaternion(unit)[1]', 'Quaternion', lambda: sm.Quaternion([0.5, 0.5, -0.5, 0.5])))
    out.append(Opd('SE3(I)[1]', 'SE3', lambda: sm.SE3(), 1))
    out.append(Opd('SO3(I)[1]', 'SO3', lambda: sm.SO3(), 1))
    out.append(Opd('Twist3(0)[1]', 'Twist3', lambda: sm.Twist3(), 1))
    # plain arrays whose VALUES happen to be members of a group (a valid homogeneous matrix, a rotation matrix, a unit 4-vector): still arrays
    out.append(Opd('mat4x4(SE3 value)', 'ndarray', lambda: ref.rt(ref.rotx(0.3), (1.0, 2.0, 3.0)), tag='mat4x4'))
    out.append(Opd('mat4x4(identity)', 'ndarray', lambda: np.eye(4), tag='mat4x4'))
    out.append(Opd('mat3x3(SO3 value)', 'ndarray', lambda: ref.rotx(0.3) @ ref.roty(0.2), tag='mat3x3'))
    out.append(Opd('mat3x3(SE2 value)', 'ndarray', lambda: ref.rt(ref.rot2(0.3), (1.0, 2.0)), tag='mat3x3'))
    out.append(Opd('mat2x2(SO2 value)', 'ndarray', lambda: ref.rot2(0.3), tag='mat2x2'))
    out.append(Opd('int', 'int', lambda: 2))
    out.append(Opd('float', 'float', lambda: 0.5))
    out.append(Opd('np.float64', 'np.float64', lambda: np.float64(1.5)))
    # the scalar values code singles out (additive / multiplicative identity, as `sum()` and `prod` start from): same verdicts as any scalar
    out.append(Opd('int=0', 'int', lambda: 0, tag='zero'))
    out.append(Opd('int=1', 'int', lambda: 1))
    out.append(Opd('float=0.0', 'float', lambda: 0.0, tag='zero'))
    out.append(Opd('bool=False', 'int', lambda: False, tag='zero'))
    out.append(Opd('np.int64=0', 'int', lambda: np.int64(0), tag='zero'))
    out.append(Opd('np.float64=0.0', 'np.float64', lambda: np.float64(0.0), tag='zero'))
    out.append(Opd('vec2', 'ndarray', lambda: np.array([1.0, -2.0]), tag='vec2'))
    out.append(Opd('vec3', 'ndarray', lambda: np.array([1.0, -2.0, 0.5]), tag='vec3'))
    out.append(Opd('mat2x4', 'ndarray', lambda: np.arange(8.0).reshape(2, 4), tag='mat2x4'))
    out.append(Opd('mat3x4', 'ndarray', lambda: np.arange(12.0).reshape(3, 4), tag='mat3x4'))
    out.append(Opd('mat2x2', 'ndarray', lambda: np.array([[1.0, 2], [3, 4]]), tag='mat2x2'))
    out.append(Opd('mat3x3', 'ndarray', lambda: np.arange(9.0).reshape(3, 3) + np.eye(3), tag='mat3x3'))
    out.append(Opd('mat4x4', 'ndarray', lambda: np.arange(16.0).reshape(4, 4), tag='mat4x4'))
    out.append(Opd('vec5', 'ndarray', lambda: np.arange(5.0), tag='vec5'))
    out.append(Opd('mat5x2', 'ndarray', lambda: np.arange(10.0).reshape(5, 2), tag='mat5x2'))
    # arrays of exactly one element (shapes (1,), (1,1), ()) and a one-element list: not scalars, not conformant
    out.append(Opd('vec1', 'ndarray', lambda: np.array([2.0]), tag='vec1'))
    out.append(Opd('mat1x1', 'ndarray', lambda: np.array([[2.0]]), tag='mat1x1'))
    out.append(Opd('list1', 'list', lambda: [2.0], tag='vec1'))
    out.append(Opd('list3', 'list', lambda: [1.0, -2.0, 0.5], tag='vec3'))
    out.append(Opd('list2', 'list', lambda: [1.0, -2.0], tag='vec2'))
    out.append(Opd('list5', 'list', lambda: [1.0, 2, 3, 4, 5], tag='vec5'))
    return out


def _xv(sm, c, vals):
    o = getattr(sm, c)(vals[0].copy())
    o.data = [v.copy() for v in vals]
    return o


def islib(o):
    return o.cls not in SCAL and o.cls not in ('ndarray', 'list')


def pose_shape(c):
    n = DIM[c]
    return (n, n) if c[:2] == 'SO' else (n + 1, n + 1)


def verdict(L, R, op):
    """-> ('must', cls) | ('may', cls or tuple) | ('raise',) | ('free',)"""
    lc, rc = L.cls, R.cls
    if op in ('==', '!='):
        same_ok = POSE + ('Quaternion', 'UnitQuaternion', 'Twist2', 'Twist3', 'Plucker') + XV
        if lc == rc and lc in same_ok:
            return ('must', 'bool')
        return ('free',)
    if op in ('^', '|'):
        if lc == rc == 'Plucker':
            return ('must', 'bool')
        return ('free',)
    if not (islib(L) or islib(R)):
        return ('free',)
    # ---------------- arithmetic
    if lc in POSE:
        if rc == lc:
            if op in ('*', '/'):
                return ('must', lc)
            if op in ('+', '-'):
                return ('must', 'ndarray')
            return ('raise',)
        if rc in SCAL:
            if op in ('*', '/'):
                return ('must', 'ndarray')
            if op in ('+', '-'):
                return ('may', 'ndarray')
            if op == '**' and rc == 'int':
                return ('may', lc)
            return ('raise',)
        if rc in ('ndarray', 'list'):
            n = DIM[lc]
            if op == '*' and R.tag in ('vec%d' % n, 'mat%dx4' % n, 'mat%dx%d' % (n, n)) and (rc == 'ndarray' or R.tag.startswith('vec')):
                return ('may', 'ndarray')
            if op in ('+', '-') and rc == 'ndarray' and R.tag == 'mat%dx%d' % pose_shape(lc):
                return ('may', 'ndarray')
            return ('raise',)
        # the documentation defines these for one SE3 value; a multi-valued left operand is only 'may'
        if lc == 'SE3' and op == '*' and rc == 'Plucker':
            return ('must' if L.n == 1 else 'may', 'Plucker')
        if lc == 'SE3' and op == '*' and rc in XV:
            return ('must' if L.n == 1 else 'may', rc)
        return ('raise',)
    if lc in SCAL:
        if rc in POSE:
            if op == '*':
                return ('must', 'ndarray')
            if op in ('+', '-'):
                return ('may', 'ndarray')
            return ('raise',)
        if rc in ('Quaternion', 'UnitQuaternion') and op == '*':
            return ('may', 'Quaternion')
        if rc in ('Twist2', 'Twist3') and op == '*':
            return ('may', rc)
        return ('raise',)
    if lc in ('ndarray', 'list'):
        # a matrix of the pose's own shape added to / subtracted from a pose: neither documented nor in the property's
        # must-raise list (the reflected operators mirror P + A); an array of the right class is accepted
        if rc in POSE and op in ('+', '-') and lc == 'ndarray' and L.tag == 'mat%dx%d' % pose_shape(rc):
            return ('may', 'ndarray')
        return ('raise',)
    if lc == 'Quaternion':
        if rc in ('Quaternion', 'UnitQuaternion'):
            if op in ('*', '+', '-'):
                return ('must', 'Quaternion')
            return ('raise',)
        if rc in SCAL:
            if op in ('*', '+', '-'):
                return ('may', 'Quaternion')
            if op == '**' and rc == 'int':
                return ('may', 'Quaternion')
        return ('raise',)
    if lc == 'UnitQuaternion':
        if rc == 'UnitQuaternion':
            if op == '*':
                return ('must', 'UnitQuaternion')
            if op == '/':
                return ('may', 'UnitQuaternion')
            if op in ('+', '-'):
                return ('may', 'Quaternion')
            return ('raise',)
        if rc == 'Quaternion':
            if op in ('*', '+', '-'):
                return ('must', 'Quaternion')
            return ('raise',)
        if rc in SCAL:
            if op in ('*', '/', '+', '-'):
                return ('may', 'Quaternion')
            if op == '**' and rc == 'int':
                return ('may', 'UnitQuaternion')
            return ('raise',)
        if rc in ('ndarray', 'list') and op == '*' and R.tag in ('vec3', 'mat3x4', 'mat3x3') and (rc == 'ndarray' or R.tag == 'vec3'):
            return ('may', 'ndarray')
        return ('raise',)
    if lc in ('Twist2', 'Twist3'):
        if op == '*':
            if rc == lc:
                return ('must', lc)
            if rc == 'SE%d' % DIM[lc]:
                return ('must', rc)
            if rc in SCAL:
                return ('may', lc)
            if lc == 'Twist3' and rc in XV:
                return ('may', rc)
        return ('raise',)
    if lc == 'Plucker':
        if rc == 'Plucker' and op == '*':
            return ('may', 'real')
        return ('raise',)
    if lc in XV:
        if rc == lc and op in ('+', '-'):
            return ('may', lc)
        if lc == 'SpatialVelocity' and op == '@' and rc in XV:
            return ('may', ('SpatialAcceleration', 'SpatialForce'))
        # SpatialInertia.__rmul__ documents a * I -> SpatialForce and v * I -> SpatialMomentum
        if op == '*' and rc == 'SpatialInertia' and lc == 'SpatialAcceleration':
            return ('may', 'SpatialForce')
        if op == '*' and rc == 'SpatialInertia' and lc == 'SpatialVelocity':
            return ('may', 'SpatialMomentum')
        return ('raise',)
    if lc == 'SpatialInertia':
        if rc == 'SpatialInertia' and op == '+':
            return ('may', 'SpatialInertia')
        if op == '*' and rc == 'SpatialAcceleration':
            return ('may', 'SpatialForce')
        if op == '*' and rc == 'SpatialVelocity':
            return ('may', 'SpatialMomentum')
        return ('raise',)
    if lc in ('DualQuaternion', 'UnitDualQuaternion'):
        if rc in ('DualQuaternion', 'UnitDualQuaternion'):
            if op in ('*', '+', '-'):
                if lc == rc == 'UnitDualQuaternion' and op == '*':
                    return ('may', 'UnitDualQuaternion')
                return ('may', ('DualQuaternion', 'UnitDualQuaternion'))
            return ('raise',)
        if lc == 'UnitDualQuaternion' and op == '*' and rc in ('ndarray', 'list') and R.tag == 'vec3':
            return ('may', 'ndarray')
        return ('raise',)
    raise HarnessError('no verdict for %s %s %s' % (lc, op, rc))


def classname(v):
    if isinstance(v, (bool, np.bool_)):
        return 'bool'
    if isinstance(v, np.ndarray):
        return 'ndarray'
    if isinstance(v, (int, float, np.floating, np.integer)):
        return 'real'
    return type(v).__name__


def describe(v):
    n = classname(v)
    if hasattr(v, 'data') and isinstance(getattr(v, 'data'), list):
        try:
            n += '[%d]' % len(v.data)
        except Exception:
            pass
    return n


def result_ok(v, want, nexp):
    """does the returned value have the documented class (and element count)?"""
    wants = want if isinstance(want, tuple) else (want,)
    for w in wants:
        if w == 'bool':
            if nexp == 1 and isinstance(v, (bool, np.bool_)):
                return True
            if nexp > 1 and isinstance(v, list) and len(v) == nexp and all(isinstance(x, (bool, np.bool_)) for x in v):
                return True
        elif w == 'ndarray':
            if nexp == 1 and isinstance(v, np.ndarray) and v.dtype != object:
                return True
            if nexp > 1 and isinstance(v, list) and len(v) == nexp and all(isinstance(x, np.ndarray) for x in v):
                return True
            if nexp > 1 and isinstance(v, np.ndarray) and v.dtype != object:
                return True            # pose x vector for sequences is an N x M array
        elif w == 'real':
            if isinstance(v, (int, float, np.floating, np.integer)) and not isinstance(v, bool):
                return True
        elif type(v).__name__ == w:
            d = getattr(v, 'data', None)
            if d is None:
                return True            # dual quaternions
            if isinstance(d, list) and len(d) == nexp and all(isinstance(x, np.ndarray) for x in d):
                return True
    return False


def ref_value(L, R, op, lo, ro):
    """reference value of the first element for the cheap must-pairs, else None"""
    lc, rc = L.cls, R.cls
    a = lo.data[0] if islib(L) and isinstance(getattr(lo, 'data', None), list) else None
    b = ro.data[0] if islib(R) and isinstance(getattr(ro, 'data', None), list) else None
    if lc in POSE and rc == lc:
        if op == '*':
            return a @ b
        if op == '/':
            return a @ np.linalg.inv(b)
        if op == '+':
            return a + b
        if op == '-':
            return a - b
    if lc in POSE and rc in SCAL:
        return {'*': a * ro, '/': a / ro}.get(op)
    if lc in SCAL and rc in POSE and op == '*':
        return lo * b
    if lc in ('Quaternion', 'UnitQuaternion') and rc in ('Quaternion', 'UnitQuaternion'):
        if op == '*':
            return ref.qmul(a, b)
        if op == '+':
            return a + b
        if op == '-':
            return a - b
    if lc in ('Twist2', 'Twist3') and op == '*':
        ex = ref.mp_exp_se3 if lc == 'Twist3' else ref.mp_exp_se2
        if rc == lc:
            return ('motion', ex(a) @ ex(b))
        if rc.startswith('SE'):
            return ex(a) @ b
    return None


def first_value(v, L):
    if isinstance(v, list):
        v = v[0]
    if hasattr(v, 'data') and isinstance(v.data, list):
        v = v.data[0]
    return np.asarray(v, dtype=float)


def run_pair(ctx, L, R):
    for alias in ((False, True) if (L.name == R.name and islib(L)) else (False,)):
        _run_pair(ctx, L, R, alias)


def _run_pair(ctx, L, R, alias):
    for opn, opf in OPS:
        cid = 'C08/%s/%s/%s%s' % (L.name, opn, R.name, '/alias' if alias else '')
        if not ctx.want(cid):
            continue
        lo, ro = L.make(), R.make()
        if alias:
            ro = lo             # the same object on both sides (two names for one value)
        aug = opn.endswith('=') and opn not in ('==', '!=')
        if aug and (L.cls == 'list' or alias):
            continue        # list += <iterable> / list *= n is Python's own list semantics: the library is never consulted
        if opn in ('/', '/=') and R.tag == 'zero':
            continue        # division by zero is outside the property
        vd = verdict(L, R, opn[:-1] if aug else opn)
        triv = not (islib(L) or islib(R))
        ctx.case(cid, key=cid, trivial=triv)
        ok, v = call(opf, lo, ro)
        ctx.cell(L.cls, opn, R.cls, 'raised' if not ok else classname(v))
        P = dict(left=L.cls, right=R.cls, op=opn, m=L.n, n=R.n, ltag=L.tag or '', rtag=R.tag or '', alias=int(alias))
        site = '%s.%s' % (L.cls if islib(L) else R.cls, {'*': 'mul', '/': 'div', '+': 'add', '-': 'sub', '**': 'pow', '@': 'matmul',
                                                       '==': 'eq', '!=': 'ne', '^': 'xor', '|': 'or', '*=': 'imul', '/=': 'idiv', '+=': 'iadd', '-=': 'isub'}[opn])
        nexp = max(L.n, R.n)
        if vd[0] == 'free':
            ctx.note('unconstrained', '%s %s %s -> %s' % (L.cls, opn, R.cls, ('raises ' + type(v).__name__) if not ok else describe(v)))
            continue
        if vd[0] == 'raise':
            if ok:
                ctx.fail(cid, site, 'returns:' + classname(v), P, '%s %s %s is not a documented pairing but returned %s' % (L.name, opn, R.name, describe(v)))
            continue
        want = vd[1]
        if not ok:
            if vd[0] == 'must':
                ctx.fail(cid, site, 'raises:' + type(v).__name__, P, '%s %s %s must return %s but raised %r' % (L.name, opn, R.name, want, v))
            continue
        if v is NotImplemented or v is None or not result_ok(v, want, nexp):
            ctx.fail(cid, site, 'returns:' + classname(v), P, '%s %s %s returned %s, documented result is %s%s' %
                     (L.name, opn, R.name, describe(v), want, '' if nexp == 1 else ' x %d' % nexp))
            continue
        if vd[0] == 'must':
            if want == 'bool':
                exp = (opn == '!=') if L.name != R.name else (opn == '==')
                if L.cls == 'Plucker' and opn in ('^', '|'):
                    continue
                got = v if nexp == 1 else v[0]
                special = lambda o: '(' in o.name       # the special-valued operands hold other values than the class's [1] / [3] letters
                if L.name != R.name and (special(L) or special(R)):
                    continue
                same = (L.name == R.name) or (L.cls == R.cls and L.cls != 'Plucker')      # [1] and [3] share their first value
                if same and bool(got) != (opn == '=='):
                    ctx.fail(cid, site, 'mismatch', P, '%s %s %s gives %r for equal first values' % (L.name, opn, R.name, got))
                continue
            rv = ref_value(L, R, opn[:-1] if aug else opn, L.make(), R.make())
            if rv is None:
                continue
            got = first_value(v, L)
            if isinstance(rv, tuple):
                ex = ref.mp_exp_se3 if L.cls == 'Twist3' else ref.mp_exp_se2
                got, rv = ex(got), rv[1]
            if got.shape != np.shape(rv) or ref.maxdiff(got, rv) > 1e-9 * max(1.0, float(np.abs(rv).max())):
                ctx.fail(cid, site, 'mismatch', P, '%s %s %s: value differs from the reference (%s)' % (L.name, opn, R.name, 'shape' if got.shape != np.shape(rv) else '%.3g' % ref.maxdiff(got, rv)))


def shards(tier, seed):
    n = len(operands())
    return [('left', i) for i in range(n)]


def run_shard(ctx, shard):
    O = operands()
    L = O[shard[1]]
    for R in O:
        run_pair(ctx, L, R)
