"""
C01  Closure: every constructed or composed value is a valid group member (1e-9).

(a) E1: every constructor entry point (base functions and SO2/SE2/SO3/SE3/UnitQuaternion
    constructors) x the full product of its argument alphabets (angle ladders at 0, +-pi/2, +-pi,
    2pi, many turns; both units; all orders and aliases; axes x lengths 1e-3,1,1e6; OA pairs;
    vector-valued angles).
(b) E2: breadth-first exploration of the value graph from the generator set under *g, g*, /g,
    inv, **n (|n| <= 8), prod of every sub-sequence of length <= 4, interp(s); the invariant is
    evaluated on every reached state and every element of multi-valued results.
Oracle: orthogonality residual, |det-1|, exact last row, |norm-1| all <= 1e-9, finite entries;
an in-domain call that raises is a violation.
"""
import itertools, math
import operator
import numpy as np
from mc import ref, alph
from mc.core import call, HarnessError
from mc.props import c02

PROP = 'C01'
LEVEL = 'model_checking'
RULE = ('(a) full product of argument alphabets for every constructor entry point; (b) BFS over group elements '
        '(de-duplicated on the value rounded to 1e-9*max(1,|t|)) under the library operators, invariant checked in '
        'every state; non-trivial = arguments not all zero/identity; distinct = distinct (entry point, argument letters)')
ASSUME = ['validity tolerance 1e-9 as stated; last row compared exactly',
          'OA pairs closer than 1e-3 rad (1e-6 rad for lengths >= 1) are left out as numerically parallel '
          '(the library zero threshold is absolute, ~2e-14, as the property notes)',
          'Rand constructors: numpy global RNG seeded by the harness with seeds 0..15 (quick) / 0..255 (thorough)']
ANCHORS = [('spatialmath.base.transforms3d', n) for n in
           ('rotx', 'roty', 'rotz', 'trotx', 'rpy2r', 'eul2r', 'angvec2r', 'oa2r', 'trnorm', 'trinterp', 'transl')] + \
          [('spatialmath.base.transforms2d', n) for n in ('rot2', 'trot2', 'xyt2tr', 'trinterp2')] + \
          [('spatialmath.base.quaternions', n) for n in ('q2r', 'unit', 'slerp', 'rand', 'qpow')] + \
          [('spatialmath.quaternion', 'UnitQuaternion.__init__'), ('spatialmath.quaternion', 'UnitQuaternion.AngVec'),
           ('spatialmath.quaternion', 'UnitQuaternion.EulerVec'), ('spatialmath.quaternion', 'UnitQuaternion.Vec3'),
           ('spatialmath.super_pose', 'SMPose.prod'), ('spatialmath.super_pose', 'SMPose.interp'),
           ('spatialmath.super_pose', 'SMPose.__pow__')]

PI = math.pi
TOL = 1e-9
KIND = {'SO2': 'SO2', 'SE2': 'SE2', 'SO3': 'SO3', 'SE3': 'SE3', 'UnitQuaternion': 'UQ'}


def validate(ctx, cid, site, P, val, kind, expect_n=None):
    """val: ndarray | list of ndarrays | library object; every element must be a valid member of kind"""
    if val is None:
        ctx.fail(cid, site, 'returns:NoneType', P, 'returned None')
        return
    if hasattr(val, 'data') and not isinstance(val, np.ndarray):
        want = {'SO2': 'SO2', 'SE2': 'SE2', 'SO3': 'SO3', 'SE3': 'SE3', 'UQ': 'UnitQuaternion'}[kind]
        if type(val).__name__ != want:
            ctx.fail(cid, site, 'returns:' + type(val).__name__, P, 'expected a %s' % want)
            return
        items = list(val.data)
    elif isinstance(val, (list, tuple)):
        items = list(val)
    else:
        items = [val]
    if expect_n is not None and len(items) != expect_n:
        ctx.fail(cid, site, 'mismatch', dict(P, what='count'), 'expected %d values, got %d' % (expect_n, len(items)))
        return
    for i, M in enumerate(items):
        d = ref.member_defect(M, kind, TOL)
        if d:
            ctx.fail(cid, site, 'invalid-member', P, 'element %d: %s' % (i, d))
            return


def run(ctx, cid, site, P, kind, f, *a, key=None, trivial=False, expect_n=None, **k):
    if not ctx.want(cid):
        return
    ctx.case(cid, key=key, trivial=trivial)
    ok, v = call(f, *a, **k)
    if not ok:
        ctx.fail(cid, site, 'raises:' + type(v).__name__, P, '%s raised %r' % (site, v))
        return
    validate(ctx, cid, site, P, v, kind, expect_n)
    ctx.cell(site, kind)


def angle_units(tier, seed):
    """[(name, value, unit)] radians ladder + the same in degrees + exact degree landmarks"""
    out = []
    for n, v in alph.angle_alphabet(tier, seed):
        out.append((n, v, 'rad'))
    for n, v in alph.angle_alphabet(tier, seed):
        out.append((n + 'deg', v * 180 / PI, 'deg'))
    for d in (0, 90, -90, 180, -180, 270, 360, 45, 90 + 1e-10, 180 - 1e-10, 3600 + 30):
        out.append(('%gd' % d, float(d), 'deg'))
    # a thousand turns, in either unit
    out.append(('1000turns+30d', 360030.0, 'deg'))
    out.append(('-1000turns-0.5', -(2000 * PI + 0.5), 'rad'))
    return out


def small_angles(tier, seed):
    """angle letters for multi-angle constructors (roll/yaw/phi/psi)"""
    out = [('0', 0.0), ('pi', PI), ('-pi/2', -PI / 2), ('pi-1e-9', PI - 1e-9)]
    out += alph.pick(alph.G_ANGLES, tier, seed, 2)
    if tier != 'quick':
        out += [('-pi', -PI), ('pi/2', PI / 2), ('1e-12', 1e-12), ('2pi', 2 * PI)]
    return out


def pitch_angles(tier, seed):
    out = []
    for b, nm in ((PI / 2, 'pi/2'), (-PI / 2, '-pi/2'), (0.0, '0'), (PI, 'pi')):
        if tier == 'quick':
            out += [(nm, b), (nm + '+1e-12', b + 1e-12), (nm + '-1e-9', b - 1e-9), (nm + '+1e-6', b + 1e-6)]
        else:
            out += alph.ladder(b, nm, tier, extra=False)
    out += alph.pick(alph.G_ANGLES, tier, seed, 3)
    return out


ORDERS = ['zyx', 'xyz', 'yxz', 'vehicle', 'arm', 'camera']
LENGTHS = [('1e-3', 1e-3), ('1', 1.0), ('1e6', 1e6)]


def oa_pairs(tier, seed):
    """[(name, o, a)] non-parallel pairs at several angles and all length combinations"""
    out = []
    bases = [('xy', np.array([0, 1.0, 0]), np.array([0, 0, 1.0])), ('g', alph.unit((1, 2, 3)), alph.unit(np.cross((1, 2, 3), (0.3, -1, 2))))]
    if tier != 'quick':
        bases.append(('g2', alph.unit((-2, 1, 0.5)), alph.unit(np.cross((-2, 1, 0.5), (1, 1, 1)))))
    angs = [('90d', PI / 2), ('45d', PI / 4), ('1d', PI / 180), ('179d', PI * 179 / 180), ('1e-3', 1e-3), ('1e-6', 1e-6), ('1e-7', 1e-7), ('1e-8', 1e-8), ('1e-9', 1e-9),
            ('pi-1e-8', PI - 1e-8)]
    for bn, u, w in bases:
        for an, ang in angs:
            o = math.cos(ang) * w + math.sin(ang) * u      # o at angle ang from a = w
            for (ln, lo), (mn, la) in itertools.product(LENGTHS, LENGTHS):
                if an in ('1e-6', '1e-7', '1e-8', '1e-9', 'pi-1e-8') and (lo < 1 or la < 1):
                    continue
                out.append(('%s/%s/|o|=%s/|a|=%s' % (bn, an, ln, mn), o * lo, w * la, {'oa_angle': an, 'olen': ln, 'alen': mn}))
    return out


# --------------------------------------------------------------------------- (a) constructors

def ctor_base3d(ctx):
    import spatialmath.base as b
    tier, seed = ctx.tier, ctx.seed
    AU = angle_units(tier, seed)
    tr = [('none', None), ('g', [0.5, -1.5, 2.0]), ('1e6', (1e6 * alph.unit((1, 2, 3))).tolist())]
    for fn in ('rotx', 'roty', 'rotz'):
        f = getattr(b, fn)
        for an, av, u in AU:
            run(ctx, 'C01/base.%s/a=%s' % (fn, an), 'base.' + fn, dict(fn=fn, angle=an, unit=u), 'SO3', f, av, u, key=(fn, av, u), trivial=(av == 0))
        g = getattr(b, 't' + fn)
        for an, av, u in AU:
            for tn, t in tr:
                run(ctx, 'C01/base.t%s/a=%s/t=%s' % (fn, an, tn), 'base.t' + fn, dict(fn='t' + fn, angle=an, unit=u, t=tn), 'SE3',
                    g, av, u, t, key=('t' + fn, av, u, tn), trivial=(av == 0 and t is None))
    for name, (x, y, z) in (('0', (0, 0, 0)), ('g', (0.5, -1.5, 2.0)), ('1e6', (1e6, -1e6, 1e6)), ('1e-6', (1e-6, 0, 0))):
        run(ctx, 'C01/base.transl/scalars/%s' % name, 'base.transl', dict(form='scalars', t=name), 'SE3', b.transl, x, y, z, key=('transl', name), trivial=(name == '0'))
        run(ctx, 'C01/base.transl/list/%s' % name, 'base.transl', dict(form='list', t=name), 'SE3', b.transl, [x, y, z], key=('transl', name, 'l'), trivial=(name == '0'))


def _tables(A, k):
    import numpy as np
    B = [0.3 * k, -0.4 * k, 0.5 * k]
    yield 'array', np.array([A, B, A])
    yield 'rows', [list(B), list(A)]


def ctor_rpy_eul(ctx, part, nparts):
    import spatialmath as sm
    import spatialmath.base as b
    tier, seed = ctx.tier, ctx.seed
    SA, PA = small_angles(tier, seed), pitch_angles(tier, seed)
    i = 0
    for (rn, r), (pn, p), (yn, y) in itertools.product(SA, PA, SA):
        i += 1
        if i % nparts != part:
            continue
        triv = (r == 0 and p == 0 and y == 0)
        for u in ('rad', 'deg'):
            k = 1.0 if u == 'rad' else 180 / PI
            A = [r * k, p * k, y * k]
            for order in ORDERS:
                P = dict(order=order, unit=u, roll=rn, pitch=pn, yaw=yn)
                base = 'r=%s/p=%s/y=%s/%s/%s' % (rn, pn, yn, u, order)
                run(ctx, 'C01/base.rpy2r/' + base, 'base.rpy2r', P, 'SO3', b.rpy2r, A[0], A[1], A[2], unit=u, order=order, key=('rpy2r', base), trivial=triv)
                run(ctx, 'C01/base.rpy2tr/' + base, 'base.rpy2tr', P, 'SE3', b.rpy2tr, list(A), unit=u, order=order, key=('rpy2tr', base), trivial=triv)
                if order in ('zyx', 'arm'):
                    for cn, C, kind in (('SO3', sm.SO3, 'SO3'), ('SE3', sm.SE3, 'SE3'), ('UnitQuaternion', sm.UnitQuaternion, 'UQ')):
                        run(ctx, 'C01/%s.RPY/%s' % (cn, base), cn + '.RPY', dict(P, cls=cn), kind, C.RPY, list(A), unit=u, order=order, key=(cn, 'RPY', base), trivial=triv)
                        if cn != 'UnitQuaternion':      # N x 3 tables of angles (array and list of rows): every element is a member
                            for fn_, tab in _tables(A, k):
                                run(ctx, 'C01/%s.RPY/%s/table=%s' % (cn, base, fn_), cn + '.RPY', dict(P, cls=cn, form=fn_), kind, C.RPY, tab, unit=u, order=order,
                                    key=(cn, 'RPY', base, fn_), trivial=False, expect_n=len(tab))
            P = dict(unit=u, phi=rn, theta=pn, psi=yn)
            base = 'phi=%s/th=%s/psi=%s/%s' % (rn, pn, yn, u)
            run(ctx, 'C01/base.eul2r/' + base, 'base.eul2r', P, 'SO3', b.eul2r, A[0], A[1], A[2], unit=u, key=('eul2r', base), trivial=triv)
            run(ctx, 'C01/base.eul2tr/' + base, 'base.eul2tr', P, 'SE3', b.eul2tr, list(A), unit=u, key=('eul2tr', base), trivial=triv)
            for cn, C, kind in (('SO3', sm.SO3, 'SO3'), ('SE3', sm.SE3, 'SE3'), ('UnitQuaternion', sm.UnitQuaternion, 'UQ')):
                run(ctx, 'C01/%s.Eul/%s' % (cn, base), cn + '.Eul', dict(P, cls=cn), kind, C.Eul, list(A), unit=u, key=(cn, 'Eul', base), trivial=triv)
                if cn != 'UnitQuaternion':
                    for fn_, tab in _tables(A, k):
                        run(ctx, 'C01/%s.Eul/%s/table=%s' % (cn, base, fn_), cn + '.Eul', dict(P, cls=cn, form=fn_), kind, C.Eul, tab, unit=u, key=(cn, 'Eul', base, fn_), trivial=False, expect_n=len(tab))


def ctor_axis(ctx):
    import spatialmath as sm
    import spatialmath.base as b
    tier, seed = ctx.tier, ctx.seed
    AU = [x for x in angle_units(tier, seed) if not x[0].endswith('deg') or x[0] in ('pideg', 'g2deg')] if tier == 'quick' else angle_units(tier, seed)
    AX = alph.axes(tier, seed)
    for an, av, u in AU:
        for xn, ax in AX:
            for ln, L in LENGTHS:
                v = ax * L
                base = 'a=%s/axis=%s/len=%s' % (an, xn, ln)
                P = dict(angle=an, unit=u, axis=xn, axislen=ln)
                triv = av == 0
                run(ctx, 'C01/base.angvec2r/' + base, 'base.angvec2r', P, 'SO3', b.angvec2r, av, v.copy(), unit=u, key=('av2r', base), trivial=triv)
                run(ctx, 'C01/base.angvec2tr/' + base, 'base.angvec2tr', P, 'SE3', b.angvec2tr, av, v.copy(), unit=u, key=('av2tr', base), trivial=triv)
                for cn, C, kind in (('SO3', sm.SO3, 'SO3'), ('SE3', sm.SE3, 'SE3'), ('UnitQuaternion', sm.UnitQuaternion, 'UQ')):
                    run(ctx, 'C01/%s.AngVec/%s' % (cn, base), cn + '.AngVec', dict(P, cls=cn), kind, C.AngVec, av, v.copy(), unit=u, key=(cn, 'AngVec', base), trivial=triv)
    # Euler vector: magnitude = angle (radians), direction = axis
    for tn, th in alph.theta_alphabet(tier, seed) + [('2pi+0.4', 2 * PI + 0.4), ('14pi+0.4', 14 * PI + 0.4)]:
        for xn, ax in AX:
            w = ax * th
            base = 'theta=%s/axis=%s' % (tn, xn)
            P = dict(theta=tn, axis=xn)
            for cn, C, kind in (('SO3', sm.SO3, 'SO3'), ('SE3', sm.SE3, 'SE3'), ('UnitQuaternion', sm.UnitQuaternion, 'UQ')):
                run(ctx, 'C01/%s.EulerVec/%s' % (cn, base), cn + '.EulerVec', dict(P, cls=cn), kind, C.EulerVec, w.copy(), key=(cn, 'EulerVec', base), trivial=(th == 0))
            run(ctx, 'C01/base.trexp/so3/' + base, 'base.trexp', dict(P, algebra='so3'), 'SO3', b.trexp, w.copy(), key=('trexp', base), trivial=(th == 0))
            for vn, v in (('0', np.zeros(3)), ('g', np.array([0.5, -1.5, 2.0])), ('1e6', 1e6 * alph.unit((3, 1, 2)))):
                run(ctx, 'C01/base.trexp/se3/%s/v=%s' % (base, vn), 'base.trexp', dict(P, algebra='se3', v=vn), 'SE3', b.trexp, np.r_[v, w], key=('trexp6', base, vn), trivial=(th == 0 and vn == '0'))
                run(ctx, 'C01/SE3.Exp/%s/v=%s' % (base, vn), 'SE3.Exp', dict(P, v=vn), 'SE3', sm.SE3.Exp, np.r_[v, w], key=('SE3Exp', base, vn), trivial=(th == 0 and vn == '0'))
            run(ctx, 'C01/SO3.Exp/' + base, 'SO3.Exp', P, 'SO3', sm.SO3.Exp, w.copy(), key=('SO3Exp', base), trivial=(th == 0))
    # two-vector frames
    for name, o, a, extra in oa_pairs(tier, seed):
        P = dict(extra)
        run(ctx, 'C01/base.oa2r/' + name, 'base.oa2r', P, 'SO3', b.oa2r, o.copy(), a.copy(), key=('oa2r', name))
        run(ctx, 'C01/base.oa2tr/' + name, 'base.oa2tr', P, 'SE3', b.oa2tr, o.copy(), a.copy(), key=('oa2tr', name))
        for cn, C, kind in (('SO3', sm.SO3, 'SO3'), ('SE3', sm.SE3, 'SE3'), ('UnitQuaternion', sm.UnitQuaternion, 'UQ')):
            run(ctx, 'C01/%s.OA/%s' % (cn, name), cn + '.OA', dict(P, cls=cn), kind, C.OA, o.copy(), a.copy(), key=(cn, 'OA', name))


def ctor_class_axis(ctx):
    """Rx Ry Rz (scalar and vector angles), Tx Ty Tz, SO2/SE2 constructors, 2-D base functions, quaternion ones"""
    import spatialmath as sm
    import spatialmath.base as b
    tier, seed = ctx.tier, ctx.seed
    AU = angle_units(tier, seed)
    for cn, C, kind in (('SO3', sm.SO3, 'SO3'), ('SE3', sm.SE3, 'SE3'), ('UnitQuaternion', sm.UnitQuaternion, 'UQ')):
        for fn in ('Rx', 'Ry', 'Rz'):
            f = getattr(C, fn)
            for an, av, u in AU:
                run(ctx, 'C01/%s.%s/a=%s' % (cn, fn, an), '%s.%s' % (cn, fn), dict(cls=cn, fn=fn, angle=an, unit=u), kind, f, av, u, key=(cn, fn, av, u), trivial=(av == 0))
            if cn != 'UnitQuaternion':
                for n in range(1, 6):
                    vals = [AU[(3 * j + n) % len(AU)] for j in range(n)]
                    for u in ('rad', 'deg'):
                        vv = [v[1] if v[2] == u else (v[1] * PI / 180 if u == 'rad' else v[1] * 180 / PI) for v in vals]
                        run(ctx, 'C01/%s.%s/vector%d/%s' % (cn, fn, n, u), '%s.%s' % (cn, fn), dict(cls=cn, fn=fn, angle='vector', n=n, unit=u), kind,
                            f, vv, u, key=(cn, fn, 'vec', n, u), expect_n=n)
    # the angle given as a NumPy scalar of another width, a 0-d array or a Python int: still a finite angle, still a valid member
    STY = (('np.float32', np.float32), ('np.float16', np.float16), ('np.int32', np.int32), ('int', int), ('np.float64', np.float64))
    for (tn, ty), av in itertools.product(STY, (0.3, -2.5, 3.0, 1.0, 90.0)):
        if tn in ('np.int32', 'int') and av != int(av):
            continue
        a = ty(av)
        u = 'deg' if av == 90.0 else 'rad'
        for fn in ('rotx', 'roty', 'rotz', 'trotx', 'troty', 'trotz', 'rot2', 'trot2'):
            kind = {'r': 'SO3', 't': 'SE3'}[fn[0]] if not fn.endswith('2') else {'r': 'SO2', 't': 'SE2'}[fn[0]]
            run(ctx, 'C01/base.%s/stype=%s/a=%g' % (fn, tn, av), 'base.' + fn, dict(fn=fn, stype=tn, unit=u), kind, getattr(b, fn), a, u, key=(fn, tn, av))
        for cn, f, kind in (('SO2', lambda a=a, u=u: sm.SO2(a, unit=u), 'SO2'), ('SE2', lambda a=a, u=u: sm.SE2(a, unit=u), 'SE2'), ('SE2/xyt', lambda a=a, u=u: sm.SE2(1.0, 2.0, a, unit=u), 'SE2'),
                            ('SO3.Rx', lambda a=a, u=u: sm.SO3.Rx(a, u), 'SO3'), ('SE3.Ry', lambda a=a, u=u: sm.SE3.Ry(a, u), 'SE3'), ('UnitQuaternion.Rz', lambda a=a, u=u: sm.UnitQuaternion.Rz(a, u), 'UQ'),
                            ('base.rpy2r', lambda a=a, u=u: b.rpy2r(a, a, a, unit=u), 'SO3'), ('base.eul2r', lambda a=a, u=u: b.eul2r(a, a, a, unit=u), 'SO3'),
                            ('SO3.AngVec', lambda a=a, u=u: sm.SO3.AngVec(a, [1, 2, 3], unit=u), 'SO3'), ('base.angvec2r', lambda a=a, u=u: b.angvec2r(a, [1, 2, 3], unit=u), 'SO3')):
            run(ctx, 'C01/%s/stype=%s/a=%g' % (cn, tn, av), cn.split('/')[0], dict(fn=cn, stype=tn, unit=u), kind, f, key=(cn, tn, av))
    # inputs outside the documented domain of a constructor may be refused, but whatever a constructor RETURNS is a valid member:
    # the two-argument exponential with a twist that is not a unit twist, and the rotation classes handed a rigid-motion object
    def run_or_refuse(cid, site, P, kind, f):
        if not ctx.want(cid):
            return
        ctx.case(cid, key=cid)
        ok, v = call(f)
        if ok:
            validate(ctx, cid, site, P, v, kind, None)
            ctx.cell(site, kind, 'returned')
        else:
            ctx.cell(site, kind, 'refused')
    for wn, w in (('0.5', 0.5), ('2', 2.0), ('13', 13.0)):
        S6 = np.r_[0.5, -1.0, 0.25, w * alph.unit((1, 2, 3))]
        for th_ in (0.1, 0.7):
            for fn_, arg in (('vec', lambda: S6.copy()), ('mat', lambda: ref.skewa(S6))):
                run_or_refuse('C01/base.trexp/nonunit/|w|=%s/th=%g/%s' % (wn, th_, fn_), 'base.trexp', dict(form=fn_, wmag=wn, domain='outside'), 'SE3', lambda arg=arg, th_=th_: b.trexp(arg(), th_))
                run_or_refuse('C01/base.trexp/nonunit/so3/|w|=%s/th=%g/%s' % (wn, th_, fn_), 'base.trexp', dict(form=fn_, wmag=wn, domain='outside'), 'SO3',
                              lambda fn_=fn_, th_=th_: b.trexp(S6[3:].copy() if fn_ == 'vec' else ref.skew(S6[3:]), th_))
            S3 = np.r_[0.5, -1.0, w]
            for fn_, arg in (('vec', lambda: S3.copy()), ('mat', lambda: ref.skewa(S3))):
                run_or_refuse('C01/base.trexp2/nonunit/|w|=%s/th=%g/%s' % (wn, th_, fn_), 'base.trexp2', dict(form=fn_, wmag=wn, domain='outside'), 'SE2', lambda arg=arg, th_=th_: b.trexp2(arg(), th_))
    T3o = sm.SE3(ref.rt(ref.rotx(0.3), (1.0, 2.0, 3.0)))
    T2o = sm.SE2(1.0, 2.0, 0.3)
    for cn, C_, kind, objs in (('SO3', sm.SO3, 'SO3', [('SE3', T3o), ('SE3*', sm.SE3([T3o.A.copy(), T3o.inv().A])), ('[SE3]', [T3o]), ('UQ', sm.UnitQuaternion.Rx(0.3))]),
                               ('SO2', sm.SO2, 'SO2', [('SE2', T2o), ('[SE2]', [T2o])]), ('SE3', sm.SE3, 'SE3', [('SE2', T2o), ('Twist3', sm.Twist3.Rx(0.3)), ('SO3', sm.SO3.Rx(0.3))]),
                               ('UnitQuaternion', sm.UnitQuaternion, 'UQ', [('Quaternion', sm.Quaternion([1.0, 2, 3, 4])), ('SE2', T2o)])):
        for on, o in objs:
            run_or_refuse('C01/%s/from-object/%s' % (cn, on), cn, dict(cls=cn, arg=on, domain='other-class'), kind, lambda C_=C_, o=o: C_(o))
    # nearly valid arrays handed to the checking constructors (and composed afterwards): refused, or held as a member to 1e-9 - a defect between
    # 1e-9 and the library's own tolerance must not end up inside a pose object, where X * X, X ** 8 and X / Y carry it on
    R3n, R2n = ref.rotx(0.3) @ ref.roty(-0.4), ref.rot2(0.3)
    for cn, C_, kind, good in (('SE3', sm.SE3, 'SE3', ref.rt(R3n, (1.0, 2.0, 3.0))), ('SE2', sm.SE2, 'SE2', ref.rt(R2n, (1.0, 2.0))), ('SO3', sm.SO3, 'SO3', R3n), ('SO2', sm.SO2, 'SO2', R2n)):
        n_ = good.shape[0]
        spots = [('corner', (n_ - 1, n_ - 1)), ('bottom0', (n_ - 1, 0)), ('diag0', (0, 0)), ('off01', (0, 1))] if kind[:2] == 'SE' else [('diag0', (0, 0)), ('off01', (0, 1)), ('corner', (n_ - 1, n_ - 1))]
        for (sn, ij), dl in itertools.product(spots, (4e-6, 1e-7, 5e-9, -3e-8)):
            B = good.copy()
            B[ij] += dl
            for fn_, mk_ in (('bare', lambda B=B: B.copy()), ('[a]', lambda B=B: [B.copy()]), ('[good,a]', lambda B=B, good=good: [good.copy(), B.copy()])):
                for on, op in (('itself', lambda X: X), ('X*X', lambda X: X * X), ('X**8', lambda X: X ** 8), ('X*X.inv()', lambda X: X * X.inv()), ('interp', lambda X: X.interp(0.5))):
                    run_or_refuse('C01/%s/nearly-valid/%s/%g/%s/%s' % (cn, sn, dl, fn_, on), cn, dict(cls=cn, spot=sn, defect=dl, form=fn_, op=on, domain='nearly-valid'), kind,
                                  lambda C_=C_, mk_=mk_, op=op: op(C_(mk_())))
    for fn in ('Tx', 'Ty', 'Tz'):
        for mn, m in (('0', 0.0), ('1e-6', 1e-6), ('g', -1.5), ('1e6', 1e6)):
            run(ctx, 'C01/SE3.%s/%s' % (fn, mn), 'SE3.' + fn, dict(fn=fn, t=mn), 'SE3', getattr(sm.SE3, fn), m, key=(fn, mn), trivial=(m == 0))
        run(ctx, 'C01/SE3.%s/vector' % fn, 'SE3.' + fn, dict(fn=fn, t='vector'), 'SE3', getattr(sm.SE3, fn), [0.0, 1e-6, -1.5, 1e6], key=(fn, 'vec'), expect_n=4)
    tr2 = [('none', None), ('g', [0.5, -1.5]), ('1e6', [6e5, -8e5])]
    for an, av, u in AU:
        P = dict(angle=an, unit=u)
        run(ctx, 'C01/base.rot2/a=%s' % an, 'base.rot2', P, 'SO2', b.rot2, av, u, key=('rot2', av, u), trivial=(av == 0))
        run(ctx, 'C01/SO2/a=%s' % an, 'SO2', P, 'SO2', sm.SO2, av, unit=u, key=('SO2', av, u), trivial=(av == 0))
        for tn, t in tr2:
            run(ctx, 'C01/base.trot2/a=%s/t=%s' % (an, tn), 'base.trot2', dict(P, t=tn), 'SE2', b.trot2, av, u, t, key=('trot2', av, u, tn), trivial=(av == 0 and t is None))
            if t is not None:
                run(ctx, 'C01/base.xyt2tr/a=%s/t=%s' % (an, tn), 'base.xyt2tr', dict(P, t=tn), 'SE2', b.xyt2tr, [t[0], t[1], av], u, key=('xyt2tr', av, u, tn))
                run(ctx, 'C01/SE2/xyt/a=%s/t=%s' % (an, tn), 'SE2', dict(P, t=tn, form='x,y,theta'), 'SE2', sm.SE2, t[0], t[1], av, unit=u, key=('SE2', av, u, tn))
                run(ctx, 'C01/SE2/list/a=%s/t=%s' % (an, tn), 'SE2', dict(P, t=tn, form='[x,y,theta]'), 'SE2', sm.SE2, [t[0], t[1], av], unit=u, key=('SE2l', av, u, tn))
        run(ctx, 'C01/SE2/theta/a=%s' % an, 'SE2', dict(P, form='theta'), 'SE2', sm.SE2, av, unit=u, key=('SE2t', av, u), trivial=(av == 0))
    for n in range(1, 6):
        vals = [AU[(5 * j + n) % len(AU)][1] for j in range(n)]
        run(ctx, 'C01/SO2/vector%d' % n, 'SO2', dict(angle='vector', n=n), 'SO2', sm.SO2, vals, key=('SO2v', n), expect_n=n)
    for tn, t in tr2[1:]:
        run(ctx, 'C01/base.transl2/%s' % tn, 'base.transl2', dict(t=tn), 'SE2', b.transl2, t, key=('transl2', tn))
        run(ctx, 'C01/SE2/xy/%s' % tn, 'SE2', dict(t=tn, form='x,y'), 'SE2', sm.SE2, t[0], t[1], key=('SE2xy', tn))
    # 2-D exponentials
    for tn, th in alph.theta_alphabet(tier, seed):
        for sg in (1, -1):
            for vn, v in (('0', (0, 0)), ('g', (0.5, -1.5)), ('1e6', (6e5, 8e5))):
                S = np.r_[v, sg * th]
                nm = 'theta=%s%s/v=%s' % ('-' if sg < 0 else '', tn, vn)
                run(ctx, 'C01/base.trexp2/' + nm, 'base.trexp2', dict(theta=tn, v=vn), 'SE2', b.trexp2, S, key=('trexp2', nm), trivial=(th == 0 and vn == '0'))
                run(ctx, 'C01/SE2.Exp/' + nm, 'SE2.Exp', dict(theta=tn, v=vn), 'SE2', sm.SE2.Exp, S, key=('SE2Exp', nm), trivial=(th == 0 and vn == '0'))
    # quaternion constructors
    UQ = sm.UnitQuaternion
    comps = [0.0, 1.0, -2.0, 0.3, 1e-6, 1e6]
    for s, x, y, z in itertools.product(comps, repeat=4):
        n = math.sqrt(s * s + x * x + y * y + z * z)
        if n < 1e-6 or n > 2e6:
            continue
        nm = 's=%g/v=%g,%g,%g' % (s, x, y, z)
        if not alph.thin(nm, tier, 8, 1) and not (n == 1):
            continue
        P = dict(norm='%.0e' % n)
        run(ctx, 'C01/UnitQuaternion/s,v/' + nm, 'UnitQuaternion', dict(P, form='s,v'), 'UQ', UQ, s, [x, y, z], key=('UQsv', nm))
        run(ctx, 'C01/UnitQuaternion/list/' + nm, 'UnitQuaternion', dict(P, form='list'), 'UQ', UQ, [s, x, y, z], key=('UQl', nm))
        run(ctx, 'C01/base.unit/' + nm, 'base.unit', P, 'UQ', b.unit, [s, x, y, z], key=('unit', nm))
    for x, y, z in itertools.product([0.0, 0.3, -0.5, 1e-9, 0.7], repeat=3):
        if x * x + y * y + z * z > 1:
            continue
        nm = '%g,%g,%g' % (x, y, z)
        run(ctx, 'C01/UnitQuaternion.Vec3/' + nm, 'UnitQuaternion.Vec3', dict(form='vec3'), 'UQ', UQ.Vec3, [x, y, z], key=('Vec3', nm), trivial=(x == y == z == 0))
    # quaternion -> matrix, matrix / pose -> quaternion
    for gn, R in alph.gen_SO3(tier, seed):
        q = ref.r2q_ref(R)
        for sg in (1, -1):
            run(ctx, 'C01/base.q2r/%s/sign=%d' % (gn, sg), 'base.q2r', dict(g=gn), 'SO3', b.q2r, sg * q, key=('q2r', gn, sg), trivial=(gn == 'I'))
        run(ctx, 'C01/base.r2q/%s' % gn, 'base.r2q', dict(g=gn), 'UQ', b.r2q, R.copy(), key=('r2q', gn), trivial=(gn == 'I'))
        run(ctx, 'C01/UnitQuaternion/R/%s' % gn, 'UnitQuaternion', dict(g=gn, form='R'), 'UQ', UQ, R.copy(), key=('UQR', gn), trivial=(gn == 'I'))
        run(ctx, 'C01/UnitQuaternion/SO3/%s' % gn, 'UnitQuaternion', dict(g=gn, form='SO3'), 'UQ', UQ, sm.SO3(R.copy()), key=('UQSO3', gn), trivial=(gn == 'I'))
        run(ctx, 'C01/UnitQuaternion.SO3/%s' % gn, 'UnitQuaternion.SO3', dict(g=gn), 'SO3', lambda q=q: UQ(q).SO3(), key=('UQ.SO3', gn), trivial=(gn == 'I'))
        run(ctx, 'C01/UnitQuaternion.SE3/%s' % gn, 'UnitQuaternion.SE3', dict(g=gn), 'SE3', lambda q=q: UQ(q).SE3(), key=('UQ.SE3', gn), trivial=(gn == 'I'))
        run(ctx, 'C01/UnitQuaternion.R/%s' % gn, 'UnitQuaternion.R', dict(g=gn), 'SO3', lambda q=q: UQ(q).R, key=('UQ.R', gn), trivial=(gn == 'I'))
    # random constructors: the RNG state is an input letter
    nseeds = 16 if tier == 'quick' else 256
    for k in range(nseeds):
        def seeded(f, *a, **kw):
            np.random.seed(k)
            return f(*a, **kw)
        for cn, C, kind in (('SO2', sm.SO2, 'SO2'), ('SE2', sm.SE2, 'SE2'), ('SO3', sm.SO3, 'SO3'), ('SE3', sm.SE3, 'SE3'), ('UnitQuaternion', UQ, 'UQ')):
            run(ctx, 'C01/%s.Rand/seed=%d' % (cn, k), cn + '.Rand', dict(cls=cn, seed=k), kind, seeded, C.Rand, key=(cn, 'Rand', k))
            if k < 4:
                run(ctx, 'C01/%s.Rand/N=3/seed=%d' % (cn, k), cn + '.Rand', dict(cls=cn, seed=k, N=3), kind, seeded, C.Rand, N=3, key=(cn, 'RandN', k), expect_n=3)
        run(ctx, 'C01/base.rand/seed=%d' % k, 'base.rand', dict(seed=k), 'UQ', seeded, b.rand, key=('rand', k))


def ctor_norm_interp(ctx):
    """normalisation and interpolation as constructors (details are C14 / C11)"""
    import spatialmath as sm
    import spatialmath.base as b
    tier, seed = ctx.tier, ctx.seed
    G3, GE3 = alph.gen_SO3(tier, seed), alph.gen_SE(3, tier, seed)
    G2, GE2 = alph.gen_SO2(tier, seed), alph.gen_SE(2, tier, seed)
    noise = np.array([[0.3, -0.7, 0.2], [0.5, 0.1, -0.9], [-0.4, 0.8, 0.6]])
    for gn, R in G3:
        for mn, m in (('0', 0.0), ('1e-12', 1e-12), ('1e-6', 1e-6), ('1e-3', 1e-3)):
            run(ctx, 'C01/base.trnorm/SO3/%s/noise=%s' % (gn, mn), 'base.trnorm', dict(g=gn, noise=mn, form='SO3'), 'SO3', b.trnorm, R + m * noise, key=('trnorm', gn, mn))
    for gn, T in GE3:
        T2 = T.copy()
        T2[:3, :3] += 1e-6 * noise
        run(ctx, 'C01/base.trnorm/SE3/%s' % gn, 'base.trnorm', dict(g=gn.split('|')[0], noise='1e-6', form='SE3'), 'SE3', b.trnorm, T2, key=('trnormT', gn))
        run(ctx, 'C01/SE3.norm/%s' % gn, 'SE3.norm', dict(g=gn.split('|')[0]), 'SE3', lambda T2=T2: sm.SE3(T2, check=False).norm(), key=('SE3norm', gn))
    # 2-D: every noise pattern (shear, scale, single element) x magnitude, on the function and through the classes
    pat2 = (('full', noise[:2, :2]), ('shear', np.array([[0.0, 1.0], [0.0, 0.0]])), ('scale', np.eye(2)), ('e00', np.array([[1.0, 0.0], [0.0, 0.0]])),
            ('col1', np.array([[0.0, 0.6], [0.0, -0.8]])))
    for gn, R in G2:
        for (pn, N2), (mn, m) in itertools.product(pat2, (('0', 0.0), ('1e-12', 1e-12), ('1e-6', 1e-6), ('1e-3', 1e-3))):
            P = dict(g=gn, noise=mn, pattern=pn)
            R2 = R + m * N2
            run(ctx, 'C01/base.trnorm2/SO2/%s/%s/noise=%s' % (gn, pn, mn), 'base.trnorm2', dict(P, form='SO2'), 'SO2', b.trnorm2, R2.copy(), key=('trnorm2', gn, pn, mn))
            run(ctx, 'C01/SO2.norm/%s/%s/noise=%s' % (gn, pn, mn), 'SO2.norm', P, 'SO2', lambda R2=R2: sm.SO2(R2.copy(), check=False).norm(), key=('SO2norm', gn, pn, mn))
            T2 = ref.rt(R2, (1.5, -2.5))
            run(ctx, 'C01/base.trnorm2/SE2/%s/%s/noise=%s' % (gn, pn, mn), 'base.trnorm2', dict(P, form='SE2'), 'SE2', b.trnorm2, T2.copy(), key=('trnorm2T', gn, pn, mn))
            run(ctx, 'C01/SE2.norm/%s/%s/noise=%s' % (gn, pn, mn), 'SE2.norm', P, 'SE2', lambda T2=T2: sm.SE2(T2.copy(), check=False).norm(), key=('SE2norm', gn, pn, mn))
    for gn, R in G3:
        for (pn, N3), (mn, m) in itertools.product((('shear', np.array([[0.0, 1.0, 0.0], [0.0, 0.0, 0.0], [0.0, 0.0, 0.0]])), ('e00', np.diag([1.0, 0, 0])), ('scale', np.eye(3))),
                                                   (('1e-6', 1e-6), ('1e-3', 1e-3))):
            R3 = R + m * N3
            run(ctx, 'C01/SO3.norm/%s/%s/noise=%s' % (gn, pn, mn), 'SO3.norm', dict(g=gn, noise=mn, pattern=pn), 'SO3', lambda R3=R3: sm.SO3(R3.copy(), check=False).norm(),
                key=('SO3norm', gn, pn, mn))
    S = [('0', 0.0), ('1e-12', 1e-12), ('0.3', 0.3), ('0.5', 0.5), ('1-1e-12', 1 - 1e-12), ('1', 1.0)]
    for (an, A), (bn, B) in itertools.product(G3[:6], G3):
        for sn, s in S:
            nm = '%s/%s/s=%s' % (an, bn, sn)
            P = dict(start=an, end=bn, s=sn)
            run(ctx, 'C01/base.trinterp/SO3/' + nm, 'base.trinterp', dict(P, form='SO3'), 'SO3', b.trinterp, A.copy(), B.copy(), s, key=('ti3', nm))
            run(ctx, 'C01/base.slerp/' + nm, 'base.slerp', P, 'UQ', b.slerp, ref.r2q_ref(A), ref.r2q_ref(B), s, key=('slerp', nm))
            run(ctx, 'C01/UnitQuaternion.interp/' + nm, 'UnitQuaternion.interp', P, 'UQ',
                lambda A=A, B=B, s=s: sm.UnitQuaternion(ref.r2q_ref(A)).interp(s, dest=sm.UnitQuaternion(ref.r2q_ref(B))), key=('UQi', nm))
    # close pairs: the end pose is the start pose turned by a small angle (slerp changes arm for nearly equal quaternions)
    S2 = S + [('0.7', 0.7)]
    # (the starts just short of a half turn put the two extracted quaternions in opposite hemispheres once the end pose has crossed it)
    for an, A in G3[:5] + [('Rz(pi-0.05)', ref.rotz(PI - 0.05)), ('Rz(pi-1e-4)', ref.rotz(PI - 1e-4)), ('Rz(pi-3e-7)', ref.rotz(PI - 3e-7))]:
        for dn, dl in [('1e%d' % k, 10.0 ** k) for k in (alph.ks(tier) if tier != 'quick' else (-12, -9, -7, -6, -5, -4, -3, -2, -1))] + [('3e-4', 3e-4), ('2e-3', 2e-3)]:
            for xn, ax in alph.axes(tier, seed)[2:5]:
                B = A @ ref.mp_rot(ax, dl)
                for sn, s in S2:
                    nm = '%s/delta=%s/axis=%s/s=%s' % (an, dn, xn, sn)
                    P = dict(start=an, delta=dn, axis=xn, s=sn)
                    run(ctx, 'C01/base.trinterp/close/' + nm, 'base.trinterp', dict(P, form='SO3'), 'SO3', b.trinterp, A.copy(), B.copy(), s, key=('tic', nm))
                    run(ctx, 'C01/base.slerp/close/' + nm, 'base.slerp', P, 'UQ', b.slerp, ref.r2q_ref(A), ref.r2q_ref(B) * (1 if ref.r2q_ref(A) @ ref.r2q_ref(B) >= 0 else -1), s, key=('slc', nm))
                    run(ctx, 'C01/SE3.interp/close/' + nm, 'SE3.interp', P, 'SE3',
                        lambda A=A, B=B, s=s: sm.SE3(ref.rt(B, (1.0, 2.0, 3.0))).interp(s, start=sm.SE3(ref.rt(A, (0.5, -1.5, 2.0)))), key=('sec', nm))
                    run(ctx, 'C01/UnitQuaternion.interp/close/' + nm, 'UnitQuaternion.interp', P, 'UQ',
                        lambda A=A, B=B, s=s: sm.UnitQuaternion(ref.r2q_ref(A)).interp(s, dest=sm.UnitQuaternion(ref.r2q_ref(B))), key=('uqc', nm))
    # poses whose matrices have an integer dtype (SE3(1, 2, 3) with integer literals, as the README writes it, their products and inverses,
    # hand-typed quarter turns) as the start or the end of an interpolation
    Bf = sm.SE3(ref.rt(ref.rotx(0.7) @ ref.roty(-0.4), (0.5, -1.5, 2.0)))
    qz = np.array([[0, -1, 0, 4], [1, 0, 0, 5], [0, 0, 1, 6], [0, 0, 0, 1]])
    ints3 = [('SE3(1,2,3)', lambda: sm.SE3(1, 2, 3)), ('SE3(1,2,3)*SE3(4,5,6)', lambda: sm.SE3(1, 2, 3) * sm.SE3(4, 5, 6)), ('SE3(1,2,3).inv()', lambda: sm.SE3(1, 2, 3).inv()),
             ('SE3(int quarter turn)', lambda: sm.SE3(qz.copy())), ('SE3(1,2,3)**2', lambda: sm.SE3(1, 2, 3) ** 2)]
    for (inn, mk_), (sn, s) in itertools.product(ints3, [('0.3', 0.3), ('0.5', 0.5), ('1', 1.0), ('0', 0.0), ('vec', [0.0, 0.25, 0.5, 1.0])]):
        nexp = 4 if sn == 'vec' else 1
        run(ctx, 'C01/SE3.interp/intstart/%s/s=%s' % (inn, sn), 'SE3.interp', dict(start=inn, s=sn, dtype='int'), 'SE3', lambda mk_=mk_, s=s: Bf.interp(s, start=mk_()), key=('iis', inn, sn), expect_n=nexp)
        run(ctx, 'C01/SE3.interp/intend/%s/s=%s' % (inn, sn), 'SE3.interp', dict(end=inn, s=sn, dtype='int'), 'SE3', lambda mk_=mk_, s=s: mk_().interp(s, start=Bf), key=('iie', inn, sn), expect_n=nexp)
        run(ctx, 'C01/SE3.interp/intonly/%s/s=%s' % (inn, sn), 'SE3.interp', dict(end=inn, s=sn, dtype='int'), 'SE3', lambda mk_=mk_, s=s: mk_().interp(s), key=('iio', inn, sn), expect_n=nexp)
        if sn != 'vec':
            run(ctx, 'C01/base.trinterp/intstart/%s/s=%s' % (inn, sn), 'base.trinterp', dict(start=inn, s=sn, dtype='int'), 'SE3', lambda mk_=mk_, s=s: b.trinterp(mk_().A, Bf.A.copy(), s), key=('tis', inn, sn))
            run(ctx, 'C01/base.trinterp/intstart3x3/%s/s=%s' % (inn, sn), 'base.trinterp', dict(start=inn, s=sn, dtype='int'), 'SO3', lambda mk_=mk_, s=s: b.trinterp(mk_().A[:3, :3], Bf.A[:3, :3].copy(), s), key=('tis3', inn, sn))
    ints2 = [('SE2(1,2)', lambda: sm.SE2(1, 2)), ('SE2(int quarter turn)', lambda: sm.SE2(np.array([[0, -1, 4], [1, 0, 5], [0, 0, 1]])))]
    Bf2 = sm.SE2(0.5, -1.5, 0.7)
    for (inn, mk_), (sn, s) in itertools.product(ints2, [('0.3', 0.3), ('0.5', 0.5), ('1', 1.0)]):
        run(ctx, 'C01/SE2.interp/intstart/%s/s=%s' % (inn, sn), 'SE2.interp', dict(start=inn, s=sn, dtype='int'), 'SE2', lambda mk_=mk_, s=s: Bf2.interp(s, start=mk_()), key=('iis2', inn, sn))
        run(ctx, 'C01/SE2.interp/intend/%s/s=%s' % (inn, sn), 'SE2.interp', dict(end=inn, s=sn, dtype='int'), 'SE2', lambda mk_=mk_, s=s: mk_().interp(s, start=Bf2), key=('iie2', inn, sn))
    for (an, A), (bn, B) in itertools.product(GE3[:5], GE3):
        for sn, s in S:
            nm = '%s/%s/s=%s' % (an, bn, sn)
            P = dict(start=an.split('|')[0], end=bn.split('|')[0], s=sn)
            run(ctx, 'C01/base.trinterp/SE3/' + nm, 'base.trinterp', dict(P, form='SE3'), 'SE3', b.trinterp, A.copy(), B.copy(), s, key=('ti4', nm))
    for (an, A), (bn, B) in itertools.product(G2[:4], G2):
        for sn, s in S:
            nm = '%s/%s/s=%s' % (an, bn, sn)
            run(ctx, 'C01/base.trinterp2/SO2/' + nm, 'base.trinterp2', dict(start=an, end=bn, s=sn, form='SO2'), 'SO2', b.trinterp2, A.copy(), B.copy(), s, key=('ti2', nm))
    for (an, A), (bn, B) in itertools.product(GE2[:4], GE2):
        for sn, s in S:
            nm = '%s/%s/s=%s' % (an, bn, sn)
            run(ctx, 'C01/base.trinterp2/SE2/' + nm, 'base.trinterp2', dict(start=an.split('|')[0], end=bn.split('|')[0], s=sn, form='SE2'), 'SE2', b.trinterp2, A.copy(), B.copy(), s, key=('ti2e', nm))


# --------------------------------------------------------------------------- (b) operations: value-graph BFS

def bfs(ctx, cname, k, K):
    rep = c02.Rep(cname, ctx.tier, ctx.seed)
    kind = KIND[cname]
    G = rep.gens
    depth = 2
    gsub = G[:6] if ctx.tier == 'quick' else alph.subset(G, 16, 6)      # composition letters; every generator is a root (thorough: ~100 roots)
    seen = {}
    frontier = []
    for i, (n, v) in enumerate(G):
        if i % K == k:
            h = c02.canon(rep, v)
            if h not in seen:
                seen[h] = n
                frontier.append((n, np.asarray(v, dtype=float)))
    ntrans = 0
    S_LADDER = [0.0, 1e-12, 0.3, 1 - 1e-12, 1.0]
    for d in range(depth):
        nxt = []
        for sn, sv in frontier:
            S = rep.make(sv)
            moves = []
            for gn, gv in gsub:
                g = rep.make(gv)
                moves.append(('*%s' % gn, lambda S=S, g=g: S * g, 1))
                moves.append(('%s*' % gn, lambda S=S, g=g: g * S, 1))
                moves.append(('/%s' % gn, lambda S=S, g=g: S / g, 1))
            moves.append(('inv', lambda S=S: S.inv(), 1))
            for n in range(-8, 9):
                moves.append(('**%d' % n, lambda S=S, n=n: S ** n, 1))
            if cname != 'UnitQuaternion':
                for sub in itertools.chain.from_iterable(itertools.permutations(gsub[:4], r) for r in (1, 2, 3)):
                    names = '.'.join(x[0] for x in sub)
                    seq = [np.asarray(sv)] + [np.asarray(x[1], dtype=float) for x in sub]
                    moves.append(('prod[%s]' % names, lambda seq=seq: rep.C([a.copy() for a in seq]).prod(), 1))
                for s in S_LADDER:
                    moves.append(('interp(%g)' % s, lambda S=S, s=s: S.interp(s), 1))
                moves.append(('interp(vec)', lambda S=S: S.interp(S_LADDER), len(S_LADDER)))
            else:
                for s in S_LADDER:
                    for gn, gv in gsub[:3]:
                        g = rep.make(gv)
                        moves.append(('interp(%s,%g)' % (gn, s), lambda S=S, g=g, s=s: S.interp(s, dest=g), 1))
            for mn, mv, nexp in moves:
                name = '%s.%s' % (sn, mn)
                cid = 'C01/%s/bfs/%s' % (cname, name)
                if not ctx.want(cid, walk=True):
                    continue
                ctx.case(cid)
                ntrans += 1
                op = mn.split('[')[0].split('(')[0].lstrip('*/') if mn[0] not in '*/' else mn[0] if not mn.startswith('**') else 'pow'
                if mn.startswith('prod'):
                    op = 'prod'
                elif mn.startswith('interp'):
                    op = 'interp'
                elif mn.endswith('*') and not mn.startswith('*'):
                    op = 'rmul'
                P = dict(cls=cname, op=op, depth=d + 1)
                site = '%s.%s' % (cname, op)
                ok, r = call(mv)
                if not ok:
                    ctx.fail(cid, site, 'raises:' + type(r).__name__, P, '%s raised %r' % (name, r))
                    continue
                validate(ctx, cid, site, P, r, kind, expect_n=nexp)
                if type(r) is rep.C and len(r.data) == 1 and ref.member_defect(r.data[0], kind, 1e-6) is None:
                    v = np.asarray(r.data[0], dtype=float)
                    h = c02.canon(rep, v)
                    if h not in seen:
                        seen[h] = name
                        if d + 1 < depth and rep.scale(v) < 1e8:
                            nxt.append((name, v))
        frontier = nxt
    ctx.count('states', len(seen))
    ctx.count('transitions', ntrans)
    ctx.count('lockstep', ntrans)


# --------------------------------------------------------------------------- shards

def chains(ctx, cname):
    """accumulation: long operation chains (1000 factors) built with the binary, the in-place and the sequence forms; every
    checkpoint value must still be a valid member (rounding drift of 1000 products is ~1e-13, far inside 1e-9)"""
    rep = c02.Rep(cname, ctx.tier, ctx.seed)
    kind = KIND[cname]
    G = [g for g in rep.gens if np.all(np.abs(np.asarray(g[1])) < 1e4)][:6]
    CP = (10, 100, 1000)
    for (gn, gv), (hn, hv) in itertools.product(G[:4], G[:3]):
        progs = [('x*g', lambda x, g, h: x * g), ('g*x', lambda x, g, h: g * x), ('x*g/h', lambda x, g, h: (x * g) / h), ('inv(x)*g', lambda x, g, h: x.inv() * g),
                 ('x*=g', lambda x, g, h: operator.imul(x, g)), ('x/=g', lambda x, g, h: operator.itruediv(x, g))]        # (no repeated squaring: it doubles the drift at every step by construction)
        if cname != 'UnitQuaternion':
            progs.append(('interp', lambda x, g, h: (x * g).interp(0.5, start=x) if hasattr(x, 'interp') else x * g))
        for pn, step in progs:
            base = 'C01/%s/chain/%s/g=%s/h=%s' % (cname, pn, gn, hn)
            if not any(ctx.want('%s/n=%d' % (base, n), walk=True) for n in CP):
                continue
            x, g, h = rep.make(np.asarray(gv, dtype=float)), rep.make(np.asarray(gv, dtype=float)), rep.make(np.asarray(hv, dtype=float))
            P = dict(cls=cname, op='chain', prog=pn, g=gn.split('|')[0], h=hn.split('|')[0])
            dead = False
            for n in range(1, CP[-1] + 1):
                ok, x2 = call(step, x, g, h)
                ctx.count('transitions')
                if not ok:
                    cid = '%s/n=%d' % (base, min(c for c in CP if c >= n))
                    ctx.case(cid, key=cid)
                    ctx.fail(cid, '%s.chain' % cname, 'raises:' + type(x2).__name__, dict(P, n=n), 'step %d of %s raised %r' % (n, pn, x2))
                    dead = True
                    break
                x = x2
                if n in CP:
                    cid = '%s/n=%d' % (base, n)
                    ctx.case(cid, key=cid)
                    validate(ctx, cid, '%s.chain' % cname, dict(P, n=n), x, kind, 1)
                    ctx.count('states')
    # the sequence product of long sequences
    if cname != 'UnitQuaternion':
        for (gn, gv), n in itertools.product(G[:4], (10, 100, 1000)):
            cid = 'C01/%s/chain/prod/g=%s/n=%d' % (cname, gn, n)
            if ctx.want(cid):
                ctx.case(cid, key=cid)
                ok, v = call(lambda: rep.C([np.asarray(gv, dtype=float).copy() for _ in range(n)]).prod())
                if not ok:
                    ctx.fail(cid, cname + '.prod', 'raises:' + type(v).__name__, dict(cls=cname, op='prod', n=n), '%r' % (v,))
                else:
                    validate(ctx, cid, cname + '.prod', dict(cls=cname, op='prod', n=n, g=gn.split('|')[0]), v, kind, 1)


def elements(ctx):
    """operands taken out of a multi-valued object by every kind of index (Python int, negative, NumPy integers as argmin / arange give them,
    slices, iteration): the element and everything composed from it is a valid member"""
    import spatialmath as sm
    import operator
    vals = {'SO2': [ref.rot2(0.3 + 0.4 * i) for i in range(3)], 'SE2': [ref.rt(ref.rot2(0.3 + 0.4 * i), (1.0 + i, -2.0)) for i in range(3)],
            'SO3': [ref.rotx(0.3 + 0.4 * i) @ ref.roty(0.2) for i in range(3)], 'SE3': [ref.rt(ref.rotx(0.3 + 0.4 * i) @ ref.roty(0.2), (1.0 + i, -2.0, 0.5)) for i in range(3)]}
    vals['UQ'] = [ref.r2q_ref(R) for R in vals['SO3']]
    IDX = [('1', lambda: 1), ('-1', lambda: -1), ('np.int64(1)', lambda: np.int64(1)), ('np.int32(2)', lambda: np.int32(2)), ('np.intp(0)', lambda: np.intp(0)),
           ('argmax', lambda: np.argmax([0.1, 0.7, 0.3])), ('arange[-1]', lambda: np.arange(3)[-1]), ('slice(1,2)', lambda: slice(1, 2)), ('slice(0,3,2)', lambda: slice(0, 3, 2))]
    for kind, C in (('SO2', sm.SO2), ('SE2', sm.SE2), ('SO3', sm.SO3), ('SE3', sm.SE3), ('UQ', sm.UnitQuaternion)):
        mk = lambda: C([v.copy() for v in vals[kind]])
        Y = C(vals[kind][2].copy())
        takes = [(n, (lambda X, f=f: X[f()])) for n, f in IDX] + [('iter[1]', lambda X: list(X)[1]), ('reversed[0]', lambda X: list(reversed(X))[0])]
        for tn, take in takes:
            nexp = 2 if tn == 'slice(0,3,2)' else 1
            ops = [('itself', lambda e: e), ('inv', lambda e: e.inv()), ('e*Y', lambda e: e * Y), ('Y*e', lambda e: Y * e), ('e*e', lambda e: e * e), ('e**2', lambda e: e ** 2)]
            if kind != 'UQ' or True:
                ops.append(('Y/e', lambda e: Y / e))
            for on, op in ops:
                cid = 'C01/%s/element/%s/%s' % (kind, tn, on)
                run(ctx, cid, '%s.getitem' % C.__name__, dict(cls=kind, index=tn, op=on), kind, (lambda take=take, op=op: op(take(mk()))), key=cid, expect_n=nexp)


def shards(tier, seed):
    out = [('base3d',), ('axis',), ('classaxis',), ('norminterp',), ('elements',)]
    n = 8 if tier == 'quick' else 32
    out += [('rpyeul', k, n) for k in range(n)]
    for c in ('SO2', 'SE2', 'SO3', 'SE3', 'UnitQuaternion'):
        K = 3 if tier == 'quick' else 8
        out += [('bfs', c, k, K) for k in range(K)]
        out.append(('chain', c))
    return out


def run_shard(ctx, shard):
    k = shard[0]
    if k == 'base3d':
        ctor_base3d(ctx)
    elif k == 'elements':
        elements(ctx)
    elif k == 'axis':
        ctor_axis(ctx)
    elif k == 'classaxis':
        ctor_class_axis(ctx)
    elif k == 'norminterp':
        ctor_norm_interp(ctx)
    elif k == 'rpyeul':
        ctor_rpy_eul(ctx, shard[1], shard[2])
    elif k == 'bfs':
        bfs(ctx, shard[1], shard[2], shard[3])
    elif k == 'chain':
        chains(ctx, shard[1])
