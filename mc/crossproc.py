"""
Histories that span classes, explored from a pristine interpreter state.

State kept on a class (or module) outlives every object, so the order in which DIFFERENT classes are first used in one process is part
of the history.  This helper is started as its own interpreter (library imported, nothing called), and runs every history in a forked
child of that pristine state: the child executes the history, observes the last result, writes it to a pipe and exits.  The oracle is
differential: the result of the last step after a history must equal the result of the same step run alone in a pristine child.

usage:  python -m mc.crossproc <first class>      (prints one JSON document)
explored for the given first class A:
  depth 2:  (A, opA) ; (B, opB)            for all 8 classes B, opA, opB in {Alloc(2), Empty(), default constructor}
  depth 3:  (A, Alloc) ; (B, Alloc) ; (C, Alloc)   for all classes B, C
"""
import sys, os, json

CLASSES = ['SO2', 'SE2', 'SO3', 'SE3', 'Quaternion', 'UnitQuaternion', 'Twist2', 'Twist3']
OPS = ['Alloc2', 'Empty', 'default']


def main(first):
    from mc.core import import_repo
    sm = import_repo()
    import numpy as np

    def do(cls, op):
        C = getattr(sm, cls)
        if op == 'Alloc2':
            return C.Alloc(2)
        if op == 'Empty':
            return C.Empty()
        return C()

    def observe(x):
        return [type(x).__name__, [[list(np.shape(e)), np.asarray(e, dtype=float).ravel().tolist()] for e in x.data]]

    def child(seq):
        r, w = os.pipe()
        pid = os.fork()
        if pid == 0:
            try:
                os.close(r)
                out = None
                for cls, op in seq:
                    try:
                        out = observe(do(cls, op))
                    except Exception as e:
                        out = ['raised', type(e).__name__]
                os.write(w, json.dumps(out).encode())
            finally:
                os._exit(0)
        os.close(w)
        buf = b''
        while True:
            b = os.read(r, 65536)
            if not b:
                break
            buf += b
        os.close(r)
        os.waitpid(pid, 0)
        return json.loads(buf.decode()) if buf else ['no-output', None]

    solo = {(B, op): child([(B, op)]) for B in CLASSES for op in OPS}
    res = []
    n = 0
    for B in CLASSES:
        for opA in OPS:
            for opB in OPS:
                n += 1
                got = child([(first, opA), (B, opB)])
                if got != solo[(B, opB)]:
                    res.append({'history': [[first, opA], [B, opB]], 'got': got, 'alone': solo[(B, opB)]})
    for B in CLASSES:
        for C in CLASSES:
            n += 1
            got = child([(first, 'Alloc2'), (B, 'Alloc2'), (C, 'Alloc2')])
            if got != solo[(C, 'Alloc2')]:
                res.append({'history': [[first, 'Alloc2'], [B, 'Alloc2'], [C, 'Alloc2']], 'got': got, 'alone': solo[(C, 'Alloc2')]})
    print(json.dumps({'first': first, 'histories': n, 'solo': len(solo), 'diffs': res}))


if __name__ == '__main__':
    main(sys.argv[1])
