"""
Engine core: case bookkeeping, violation records, known-findings matcher, evidence,
replay files and the shard-parallel driver.  See DESIGN.md section 2.

Every property module (mc/props/cNN.py) exposes

    LEVEL      'exploration' | 'model_checking'
    RULE       text: how cases are enumerated / what is non-trivial
    ASSUME     list of assumption strings
    ANCHORS    list of (module name, function qualname) monitored for line coverage
    shards(tier, seed) -> list of picklable shard descriptors (deterministic order)
    run_shard(ctx, shard) -> None   (uses ctx.case / ctx.fail / ctx.cell ...)

The driver runs run_shard for every shard in a 16 process fork pool and merges
the per-shard results in shard order, so the output is independent of scheduling.
"""
import os, sys, json, time, math, signal, hashlib, traceback, importlib, re, subprocess

VERIF = os.path.dirname(os.path.dirname(os.path.abspath(__file__)))
REPO = os.environ.get('VERIF_REPO', '/repo')


def import_repo():
    """import the library from the working tree under test (never from a stale copy)"""
    os.environ.setdefault('MPLBACKEND', 'Agg')
    sys.dont_write_bytecode = True
    if sys.path[0] != REPO:
        sys.path.insert(0, REPO)
    import warnings
    warnings.simplefilter('ignore')
    import numpy as np
    np.seterr(all='ignore')
    import spatialmath
    f = os.path.realpath(spatialmath.__file__)
    if not f.startswith(os.path.realpath(REPO) + os.sep):
        raise SystemExit('HARNESS-ERROR spatialmath imported from %s, not from %s' % (f, REPO))
    return spatialmath


# --------------------------------------------------------------------------- known findings

class Known:
    """one 'known:' line of known_findings.txt (grammar: DESIGN.md appendix B)"""
    _cmp = re.compile(r'^([A-Za-z_][A-Za-z0-9_]*)\s*(<=|>=|!=|=|<|>| in )\s*(.*)$')

    def __init__(self, line, lineno):
        self.line = line.strip()
        self.lineno = lineno
        head, _, desc = self.line.partition('::')
        head = head.replace(' in ', '@in@')
        self.desc = desc.strip()
        toks = head.split()
        assert toks[0] == 'known:', line
        kv = {}
        for t in toks[1:]:
            k, _, v = t.partition('=')
            kv[k] = v
        self.property = kv['property']
        self.site = kv['site']
        self.kind = kv['kind']
        self.where = []
        w = kv.get('where', '')
        # where was split at the first '=', re-parse from the raw text
        m = re.search(r'\bwhere=(\S+)', head)
        if m:
            for c in m.group(1).split(','):
                mm = Known._cmp.match(c.replace('@in@', ' in '))
                if not mm:
                    raise SystemExit('HARNESS-ERROR bad where clause %r in known_findings line %d' % (c, lineno))
                self.where.append((mm.group(1), mm.group(2).strip(), mm.group(3)))

    def matches(self, v):
        if v['property'] != self.property or v['site'] != self.site or v['kind'] != self.kind:
            return False
        p = v['params']
        for name, op, val in self.where:
            if name not in p:
                return False
            x = p[name]
            if op in ('=', '!='):
                eq = (str(x) == val)
                if not eq:
                    try:
                        eq = float(x) == float(val)
                    except (TypeError, ValueError):
                        pass
                if eq != (op == '='):
                    return False
            elif op == 'in':
                if str(x) not in val.split('|'):
                    return False
            else:
                try:
                    xf, vf = float(x), float(val)
                except (TypeError, ValueError):
                    return False
                if not {'<=': xf <= vf, '>=': xf >= vf, '<': xf < vf, '>': xf > vf}[op]:
                    return False
        return True


def load_known(prop):
    path = os.path.join(VERIF, 'known_findings.txt')
    out = []
    if os.path.exists(path):
        for n, line in enumerate(open(path), 1):
            s = line.strip()
            if s.startswith('known:'):
                k = Known(s, n)
                if k.property == prop:
                    out.append(k)
    return out


# --------------------------------------------------------------------------- per-shard context

MAX_STORE = 12   # violations stored in full per (site, kind) group and shard


class Ctx:
    def __init__(self, prop, tier, seed, only=None, target=None, shard=None, history=()):
        # only:   replay filter - just this case is executed (plus the transitions leading to it in graph explorations)
        # target: history replay - EVERYTHING is executed, in the recorded shard order of the worker process that reported the case (state
        #         kept by the library between calls is part of the history), but only this case is recorded
        self.prop, self.tier, self.seed, self.only, self.target = prop, tier, seed, only, target
        self.shard, self.history = shard, list(history)
        self.known = load_known(prop)
        self.evals = 0
        self.keys = set()          # hashes of distinct non-trivial cases
        self.cells = set()         # (entry point, branch / outcome class) cells
        self.samples = []
        self.viol = {}             # (site, kind) -> {'n': count, 'first': [records]}
        self.known_hits = {}       # lineno -> count
        self.counters = {}         # free-form measured numbers (states, transitions ...)
        self.notes = {}            # free-form informational lists

    # -- enumeration bookkeeping
    def want(self, cid, walk=False):
        """False if this case is filtered out by a replay.  walk=True is for graph explorations whose later
        states are only reachable by executing earlier transitions: the transition is executed but nothing is
        recorded for it unless it is the replayed case"""
        if self.only is None or walk or cid == self.only:
            return True
        # a derived case (<parent>/deg-vs-rad compares two sibling cases of the same parent) is replayed by executing its siblings;
        # nothing is recorded for them (case() / fail() only record the replayed id)
        return self.only.endswith('/deg-vs-rad') and cid.rsplit('/', 1)[0] == self.only.rsplit('/', 1)[0]

    def case(self, cid, key=None, trivial=False, n=1):
        """register n executed evaluations for case cid; key identifies the concrete input"""
        flt = self.only if self.only is not None else self.target
        if flt is not None and cid != flt:
            return
        self.evals += n
        if not trivial:
            self.keys.add(hash(key if key is not None else cid))
        if len(self.samples) < 3 and not trivial:
            self.samples.append(cid)

    def cell(self, *parts):
        self.cells.add('/'.join(str(p) for p in parts))

    def count(self, name, n=1):
        self.counters[name] = self.counters.get(name, 0) + n

    def note(self, name, item, cap=40):
        l = self.notes.setdefault(name, [])
        if item not in l and len(l) < cap:
            l.append(item)

    # -- verdicts
    def fail(self, cid, site, kind, params, detail=''):
        flt = self.only if self.only is not None else self.target
        if flt is not None and cid != flt:
            return
        if flt is not None and self.evals == 0:
            self.evals = 1          # a derived case id that is reported without a case() of its own still counts as found by the replay
        v = {'property': self.prop, 'case': cid, 'site': site, 'kind': kind,
             'params': {k: _plain(x) for k, x in params.items()}, 'detail': str(detail)[:600],
             'shard': self.shard, 'worker_history': list(self.history)}
        for k in self.known:
            if k.matches(v):
                self.known_hits[k.lineno] = self.known_hits.get(k.lineno, 0) + 1
                return
        g = self.viol.setdefault((site, kind), {'n': 0, 'first': []})
        g['n'] += 1
        if len(g['first']) < MAX_STORE:
            g['first'].append(v)

    def result(self):
        return {'evals': self.evals, 'keys': self.keys, 'cells': self.cells, 'samples': self.samples,
                'viol': self.viol, 'known_hits': self.known_hits, 'counters': self.counters,
                'notes': self.notes}


def _plain(x):
    import numpy as np
    if isinstance(x, (np.floating,)):
        return float(x)
    if isinstance(x, (np.integer,)):
        return int(x)
    if isinstance(x, (bool, int, float, str)) or x is None:
        return x
    return str(x)


_POISON = None


def poison():
    """own the content of uninitialised memory: NumPy keeps freed small blocks in a per-size cache and hands them out again (np.empty, and
    any buffer the library forgets to fill, then shows whatever the previous owner left there - usually zeros left by the library itself, so the
    slip stays invisible until unrelated work has run in between).  Before every library call the harness allocates and frees NaN-filled arrays
    of the sizes the library works with, so that an element that is returned without having been written is a NaN, deterministically."""
    global _POISON
    import numpy as np
    if _POISON is None:
        _POISON = () if os.environ.get('VERIF_NOPOISON') else (3, 4, 6, 9, 16, 36)
    for n in _POISON:
        a = np.full(n, np.nan)
        b = np.full(n, np.nan)
        del a, b


def call(f, *a, **k):
    """run library code; return (True, value) or (False, exception)"""
    poison()
    try:
        return True, f(*a, **k)
    except HarnessError:
        raise
    except Exception as e:       # library exceptions are observations, not harness failures
        return False, e


class HarnessError(Exception):
    pass


class _Timeout(HarnessError):
    pass


def _alarm(signum, frame):
    raise _Timeout('per-shard time limit hit')


# --------------------------------------------------------------------------- line coverage of anchors

class LineCov:
    """union line coverage of the anchored functions (sys.monitoring, near-zero overhead:
    each location is disabled after its first hit)."""
    TOOL = 3

    def __init__(self, anchors):
        self.codes = {}
        self.hit = set()
        self.on = False
        mon = getattr(sys, 'monitoring', None)
        if mon is None or not anchors:
            return
        for modname, qual in anchors:
            try:
                obj = importlib.import_module(modname)
                for part in qual.split('.'):
                    obj = obj.__dict__[part] if isinstance(obj, type) else getattr(obj, part)
                if isinstance(obj, (staticmethod, classmethod)):
                    obj = obj.__func__
                if isinstance(obj, property):
                    obj = obj.fget
                code = obj.__code__
            except Exception:
                continue
            self.codes[code] = '%s.%s' % (modname.replace('spatialmath.', ''), qual)
        try:
            mon.use_tool_id(self.TOOL, 'verif-linecov')
        except ValueError:
            return
        mon.register_callback(self.TOOL, mon.events.LINE, self._line)
        for code in self.codes:
            mon.set_local_events(self.TOOL, code, mon.events.LINE)
        self.on = True

    def _line(self, code, line):
        self.hit.add((self.codes.get(code, '?'), line))
        return sys.monitoring.DISABLE

    def all_lines(self):
        out = set()
        for code, name in self.codes.items():
            first = True
            for _, _, ln in code.co_lines():
                if ln is not None and ln != code.co_firstlineno:
                    out.add((name, ln))
        return out

    def close(self):
        if self.on:
            sys.monitoring.free_tool_id(self.TOOL)
            self.on = False


# --------------------------------------------------------------------------- worker / driver

_W = {}


def _worker(args):
    modname, tier, seed, only, idx, shard, limit = args
    mod = importlib.import_module(modname)
    hist = _W.setdefault('hist', [])
    ctx = Ctx(mod.PROP, tier, seed, only, shard=idx, history=hist)
    hist.append(idx)
    cov = _W.get('cov')
    if cov is None:
        cov = _W['cov'] = LineCov(getattr(mod, 'ANCHORS', []))
    signal.signal(signal.SIGALRM, _alarm)
    signal.setitimer(signal.ITIMER_REAL, limit)
    t0 = time.time()
    try:
        run_one(mod, ctx, shard)
    except BaseException:
        signal.setitimer(signal.ITIMER_REAL, 0)
        return {'error': 'shard %d %r\n%s' % (idx, shard, traceback.format_exc())}
    signal.setitimer(signal.ITIMER_REAL, 0)
    r = ctx.result()
    r['wall'] = time.time() - t0
    r['lines'] = set(cov.hit)
    r['all_lines'] = cov.all_lines() if idx == 0 else set()
    return r


PAIRHIST_K = 8


def all_shards(mod, prop, tier, seed):
    """the module's own shards, plus the call-sequence explorer from a pristine process state (mc/pairhist.py) when mc/histmenu.py has a menu
    for the property (both tiers: the menu is small and every ordered pair of its steps is explored)"""
    from mc import histmenu
    out = list(mod.shards(tier, seed))
    if hasattr(histmenu, prop):
        out += [('pairhist', k, PAIRHIST_K) for k in range(PAIRHIST_K)]
    return out


def run_one(mod, ctx, shard):
    if shard[0] == 'pairhist':
        from mc import pairhist
        pairhist.explore(ctx, mod.PROP, 'mc.histmenu:' + mod.PROP, shard[1], shard[2])
    else:
        mod.run_shard(ctx, shard)


def run_property(prop, tier, seed, only=None, jobs=None):
    import multiprocessing as mp
    import_repo()
    modname = 'mc.props.' + prop.lower()
    mod = importlib.import_module(modname)
    shards = all_shards(mod, prop, tier, seed)
    limit = getattr(mod, 'SHARD_LIMIT', {}).get(tier, 900 if tier == 'quick' else 7200)
    jobs = jobs or int(os.environ.get('VERIF_JOBS', '16'))
    work = [(modname, tier, seed, only, i, s, limit) for i, s in enumerate(shards)]
    if jobs == 1 or len(work) == 1:
        results = [_worker(w) for w in work]
    else:
        with mp.get_context('fork').Pool(min(jobs, len(work))) as pool:
            results = pool.map(_worker, work, chunksize=1)
    merged = {'evals': 0, 'keys': set(), 'cells': set(), 'samples': [], 'viol': {}, 'known_hits': {},
              'counters': {}, 'notes': {}, 'lines': set(), 'all_lines': set(), 'shards': len(shards)}
    for r in results:
        if 'error' in r:
            sys.stderr.write('HARNESS-ERROR in %s\n%s\n' % (prop, r['error']))
            raise SystemExit(2)
        merged['evals'] += r['evals']
        merged['keys'] |= r['keys']
        merged['cells'] |= r['cells']
        merged['lines'] |= r['lines']
        merged['all_lines'] |= r['all_lines']
        for s in r['samples']:
            if len(merged['samples']) < 8:
                merged['samples'].append(s)
        for g, d in r['viol'].items():
            m = merged['viol'].setdefault(g, {'n': 0, 'first': []})
            m['n'] += d['n']
            m['first'] += d['first'][:max(0, MAX_STORE - len(m['first']))]
        for k, n in r['known_hits'].items():
            merged['known_hits'][k] = merged['known_hits'].get(k, 0) + n
        for k, n in r['counters'].items():
            merged['counters'][k] = merged['counters'].get(k, 0) + n
        for k, l in r['notes'].items():
            ml = merged['notes'].setdefault(k, [])
            for it in l:
                if it not in ml and len(ml) < 60:
                    ml.append(it)
    return mod, merged


def history_replay(prop, tier, seed, rec):
    """re-run, in this (fresh) process and in the recorded order, every shard the reporting worker process had run before the case, then
    the case's own shard; everything executes, only the case is recorded"""
    import_repo()
    modname = 'mc.props.' + prop.lower()
    mod = importlib.import_module(modname)
    shards = all_shards(mod, prop, tier, seed)
    merged = {'evals': 0, 'viol': {}}
    seq = list(rec.get('worker_history') or []) + [rec['shard']]
    for n, idx in enumerate(seq):
        ctx = Ctx(mod.PROP, tier, seed, None, target=rec['case'], shard=idx, history=seq[:n])
        run_one(mod, ctx, shards[idx])
        merged['evals'] += ctx.evals
        for g, d in ctx.viol.items():
            m = merged['viol'].setdefault(g, {'n': 0, 'first': []})
            m['n'] += d['n']
            m['first'] += d['first']
    return mod, merged


# --------------------------------------------------------------------------- reporting

def write_replay(prop, v, tier, seed):
    d = os.path.join(os.environ.get('VERIF_REPLAY_DIR') or os.path.join(VERIF, 'replays'), prop)
    os.makedirs(d, exist_ok=True)
    h = hashlib.sha1((v['site'] + '|' + v['kind'] + '|' + v['case']).encode()).hexdigest()[:10]
    path = os.path.join(d, '%s.json' % h)
    rec = dict(v)
    rec.update({'tier': tier, 'seed': seed,
                'replay_cmd': './check %s --replay %s' % (prop, os.path.relpath(path, VERIF))})
    with open(path, 'w') as f:
        json.dump(rec, f, indent=1, sort_keys=True)
    test = os.path.join(d, 'test_%s.py' % h)
    with open(test, 'w') as f:
        f.write('''import subprocess, unittest
class Replay(unittest.TestCase):
    def test_case(self):
        """%s  %s  %s"""
        r = subprocess.run(['%s/check', '%s', '--replay', '%s'], capture_output=True, text=True)
        self.assertEqual(r.returncode, 0, r.stdout + r.stderr)
if __name__ == '__main__':
    unittest.main()
''' % (v['case'].replace('"', "'"), v['site'], v['kind'], VERIF, prop, path))
    return path


def write_evidence(prop, mod, merged, tier, seed, wall, nviol):
    cov = {}
    level = mod.LEVEL
    c = merged['counters']
    if level == 'model_checking':
        cov['states'] = int(c.get('states', 0))
        cov['transitions'] = int(c.get('transitions', 0))
        cov['traces_validated_against_impl'] = int(c.get('lockstep', c.get('transitions', 0)))
    cov['evaluations'] = int(merged['evals'])
    cov['distinct_nontrivial'] = len(merged['keys'])
    cov['rule'] = mod.RULE
    if c.get('sequences_from_pristine_state'):
        cov['rule'] += ('; plus (E5) every ordered pair of the steps of the menu mc/histmenu.py:%s, each pair run in a forked child of an interpreter that has '
                        'imported the library and called nothing, compared with the second step run alone (%d sequences, each counted as one distinct case)' % (prop, int(c['sequences_from_pristine_state'])))
    cov['samples'] = merged['samples'] or ['<none>']
    cov['exhaustive'] = True
    cov['shards'] = merged['shards']
    cov['cells'] = len(merged['cells'])
    cov['counters'] = {k: int(v) for k, v in sorted(c.items())}
    al, hl = merged['all_lines'], merged['lines']
    if al:
        per = {}
        for name, ln in al:
            per.setdefault(name, [0, 0, []])
            per[name][1] += 1
            if (name, ln) in hl:
                per[name][0] += 1
            else:
                per[name][2].append(ln)
        cov['anchor_line_coverage'] = {n: '%d/%d' % (a, b) for n, (a, b, _) in sorted(per.items())}
        cov['uncovered_lines'] = {n: sorted(u)[:30] for n, (a, b, u) in sorted(per.items()) if u}
    if merged['notes']:
        cov['notes'] = merged['notes']
    kn = load_known(prop)
    cov['known_findings_matched'] = {k.line[:160]: merged['known_hits'].get(k.lineno, 0) for k in kn}
    cov['stale_known'] = [k.line[:160] for k in kn if not merged['known_hits'].get(k.lineno)]
    cov['violation_groups'] = {'%s|%s' % g: d['n'] for g, d in sorted(merged['viol'].items())}
    ev = {'property_id': prop, 'tier': tier, 'seed': seed, 'level': level, 'coverage': cov,
          'assumptions': list(mod.ASSUME), 'wall_s': round(wall, 2), 'violations': nviol}
    evdir = os.environ.get('VERIF_EVIDENCE_DIR') or os.path.join(VERIF, 'evidence')
    os.makedirs(evdir, exist_ok=True)
    path = os.path.join(evdir, '%s.json' % prop)
    tmp = path + '.tmp'
    with open(tmp, 'w') as f:
        json.dump(ev, f, indent=1, sort_keys=True, default=str)
    os.replace(tmp, path)
    return path


def validate_evidence(path):
    """schema validation with the tooling venv's jsonschema when it is there (never fatal if absent)"""
    schema = '/root/.vp/EVIDENCE.schema.json'
    if not os.path.exists(schema):
        schema = os.path.join(VERIF, 'mc', 'EVIDENCE.schema.json')
    exe = '/opt/veriftools/pyvenv/bin/python'
    if not (os.path.exists(exe) and os.path.exists(schema)):
        return
    code = ("import json,sys,jsonschema;"
            "jsonschema.validate(json.load(open(sys.argv[1])), json.load(open(sys.argv[2])))")
    r = subprocess.run([exe, '-c', code, path, schema], capture_output=True, text=True)
    if r.returncode != 0:
        sys.stderr.write('HARNESS-ERROR evidence does not validate:\n' + r.stderr[-1500:])
        raise SystemExit(2)


def main(argv):
    import argparse
    ap = argparse.ArgumentParser()
    ap.add_argument('prop')
    ap.add_argument('--tier', default=os.environ.get('VERIF_TIER', 'quick'), choices=['quick', 'thorough'])
    ap.add_argument('--replay')
    ap.add_argument('--jobs', type=int)
    ap.add_argument('--no-confirm', action='store_true')
    ap.add_argument('--history', action='store_true', help='with --replay: re-run the whole recorded shard sequence of the reporting worker')
    a = ap.parse_args(argv)
    prop = a.prop.upper()
    seed = int(os.environ.get('VERIF_SEED', '0') or 0)
    tier = a.tier
    t0 = time.time()
    if a.replay:
        rec = json.load(open(a.replay))
        tier, seed = rec.get('tier', tier), rec.get('seed', seed)
        if a.history or rec.get('replay_mode') == 'history':
            mod, merged = history_replay(prop, tier, seed, rec)
        else:
            mod, merged = run_property(prop, tier, seed, only=rec['case'])
        hit = [v for g in merged['viol'].values() for v in g['first'] if v['case'] == rec['case']]
        if merged['evals'] == 0:
            print('REPLAY-ERROR case %s not found in the enumeration' % rec['case'])
            return 2
        if hit:
            for v in hit:
                print('REPLAY-VIOLATION property=%s site=%s kind=%s case=%s :: %s' %
                      (prop, v['site'], v['kind'], v['case'], v['detail']))
            return 1
        print('REPLAY-OK property=%s case=%s (evaluations=%d)' % (prop, rec['case'], merged['evals']))
        return 0

    mod, merged = run_property(prop, tier, seed, jobs=a.jobs)
    wall = time.time() - t0
    kn = {k.lineno: k for k in load_known(prop)}
    for ln, n in sorted(merged['known_hits'].items()):
        k = kn[ln]
        print('KNOWN-FINDING: property=%s site=%s kind=%s where=%s cases=%d :: %s' %
              (prop, k.site, k.kind, ','.join(a_ + b_ + c_ for a_, b_, c_ in k.where) or '-', n, k.desc))
    nviol = sum(d['n'] for d in merged['viol'].values())
    path = write_evidence(prop, mod, merged, tier, seed, wall, nviol)
    validate_evidence(path)
    rc = 0
    confirm = 0
    attempts = 0
    unconfirmed = []
    for g, d in sorted(merged['viol'].items()):
        v = d['first'][0]
        rp = write_replay(prop, v, tier, seed)
        if not a.no_confirm and confirm < 2 and attempts < 8:
            attempts += 1
            outs = []
            for _ in range(2):
                r = subprocess.run([os.path.join(VERIF, 'check'), prop, '--replay', rp],
                                   capture_output=True, text=True, env=dict(os.environ))
                outs.append((r.returncode, r.stdout))
            if outs[0] == outs[1] and outs[0][0] == 0 and v.get('shard') is not None:
                # the case passes when it is the only thing executed: the failure may depend on what the process did before (state kept
                # by the library between calls).  Replay the recorded history of the reporting worker, twice, in fresh interpreters.
                houts = []
                for _ in range(2):
                    r = subprocess.run([os.path.join(VERIF, 'check'), prop, '--replay', rp, '--history'],
                                       capture_output=True, text=True, env=dict(os.environ))
                    houts.append((r.returncode, r.stdout))
                if houts[0] == houts[1] and houts[0][0] == 1:
                    rec = json.load(open(rp))
                    rec['replay_mode'] = 'history'
                    rec['replay_cmd'] += ' --history'
                    with open(rp, 'w') as f:
                        json.dump(rec, f, indent=1, sort_keys=True)
                    v = dict(v, detail='[depends on the calls made before it in the process: passes alone, fails after the recorded history] ' + v['detail'])
                    outs = houts
            if outs[0] != outs[1] or outs[0][0] != 1:
                # seen once in the enumeration, not reproducible from its replay file (neither alone nor after the recorded history): not reported
                # as a violation.  If NO group of this run can be confirmed the run ends as a harness error (exit 2), never silently.
                sys.stderr.write('UNCONFIRMED replay of %s not reproducible: %r\n' % (rp, outs))
                unconfirmed.append((g, rp))
                continue
            confirm += 1
        print('VIOLATION property=%s replay=%s site=%s kind=%s cases=%d first=%s :: %s' %
              (prop, rp, v['site'], v['kind'], d['n'], v['case'], v['detail'][:300]))
        rc = 1
    if unconfirmed and (rc == 0 or confirm == 0):
        sys.stderr.write('HARNESS-ERROR %d violation group(s) could not be reproduced from their replay files and none was confirmed: %r\n' %
                         (len(unconfirmed), [u[1] for u in unconfirmed]))
        return 2
    print('%s tier=%s seed=%d evaluations=%d distinct_nontrivial=%d cells=%d violations=%d known=%d wall=%.1fs' %
          (prop, tier, seed, merged['evals'], len(merged['keys']), len(merged['cells']), nviol,
           sum(merged['known_hits'].values()), wall) +
          ''.join(' %s=%d' % kv for kv in sorted(merged['counters'].items())))
    return rc


if __name__ == '__main__':
    sys.exit(main(sys.argv[1:]))
